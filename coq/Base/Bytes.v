(* Go strings are byte sequences: [list N] with every element < 256 by
   construction of the harness.  Nothing here depends on that bound. *)
From Coq Require Export List NArith ZArith Bool Lia.
Export ListNotations.

Definition byte := N.
Definition bytes := list byte.

Definition byte_eqb (a b : byte) : bool := N.eqb a b.

Fixpoint bytes_eqb (a b : bytes) : bool :=
  match a, b with
  | [], [] => true
  | x :: a', y :: b' => N.eqb x y && bytes_eqb a' b'
  | _, _ => false
  end.

Lemma bytes_eqb_spec a b : bytes_eqb a b = true <-> a = b.
Proof.
  revert b; induction a as [|x a IH]; intros [|y b]; cbn [bytes_eqb]; split; intros H;
    try reflexivity; try discriminate.
  - apply andb_true_iff in H as [H1 H2]. apply N.eqb_eq in H1. apply IH in H2. congruence.
  - injection H as -> ->. rewrite N.eqb_refl. cbn. apply IH. reflexivity.
Qed.

Lemma bytes_eqb_refl a : bytes_eqb a a = true.
Proof. apply bytes_eqb_spec. reflexivity. Qed.

Fixpoint list_eqb {A} (eqb : A -> A -> bool) (a b : list A) : bool :=
  match a, b with
  | [], [] => true
  | x :: a', y :: b' => eqb x y && list_eqb eqb a' b'
  | _, _ => false
  end.

Lemma list_eqb_spec {A} (eqb : A -> A -> bool)
  (H : forall x y, eqb x y = true <-> x = y) a b :
  list_eqb eqb a b = true <-> a = b.
Proof.
  revert b; induction a as [|x a IH]; intros [|y b]; cbn [list_eqb]; split; intros E;
    try reflexivity; try discriminate.
  - apply andb_true_iff in E as [E1 E2]. apply H in E1. apply IH in E2. congruence.
  - injection E as -> ->. apply andb_true_iff. split; [apply H|apply IH]; reflexivity.
Qed.

Definition tuple := list bytes.
Definition tuple_eqb : tuple -> tuple -> bool := list_eqb bytes_eqb.
Lemma tuple_eqb_spec a b : tuple_eqb a b = true <-> a = b.
Proof. apply list_eqb_spec. apply bytes_eqb_spec. Qed.

(* indices of the cases on which a per-case check fails *)
Fixpoint failing {A} (ok : A -> bool) (id : A -> N) (l : list A) : list N :=
  match l with
  | [] => []
  | c :: r => if ok c then failing ok id r else id c :: failing ok id r
  end.
