(* Go int64 as Z with explicit two's-complement wrap. *)
From Coq Require Export ZArith Lia.
Local Open Scope Z_scope.

Definition two63 : Z := 9223372036854775808.
Definition two64 : Z := 18446744073709551616.
Definition min_int64 : Z := - two63.
Definition max_int64 : Z := two63 - 1.

Definition wrap64 (z : Z) : Z := (z + two63) mod two64 - two63.
Definition in_int64 (z : Z) : Prop := min_int64 <= z <= max_int64.
Definition in_int64b (z : Z) : bool := (min_int64 <=? z) && (z <=? max_int64).

Lemma wrap64_range z : in_int64 (wrap64 z).
Proof.
  unfold in_int64, wrap64, min_int64, max_int64, two63, two64.
  pose proof (Z.mod_pos_bound (z + 9223372036854775808) 18446744073709551616 ltac:(lia)). lia.
Qed.

Lemma wrap64_id z : in_int64 z -> wrap64 z = z.
Proof.
  unfold in_int64, wrap64, min_int64, max_int64, two63, two64. intros H.
  rewrite Z.mod_small by lia. lia.
Qed.

(* time.Duration / time.Sub saturate *)
Definition sat64 (z : Z) : Z :=
  if z <? min_int64 then min_int64 else if max_int64 <? z then max_int64 else z.
