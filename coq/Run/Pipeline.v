(* C19 - event-granularity model of a one-shot run: file streams
   (logstream/filestream.go in one-shot mode) -> tailer copier goroutines and
   the shared lines channel (tailer/tail.go) -> the runtime's fan-out loop
   (runtime/runtime.go) -> one VM per program (vm/vm.go Run) -> Server.Run
   returns (mtail/mtail.go).  Definitions only (executable).

   A line is (file, payload).  All channels are unbuffered: a stage holds at
   most one line.  Events:
     Emit f        stream f reads its next line and hands it to its copier;
     Forward f     the copier of f hands its line to the runtime's loop (only
                   when that loop is not in the middle of a fan-out);
     FanOut p      the loop hands the current line to the VM of p (idle VM only);
     Process p     the VM of p finishes its line;
     CloseStream f stream f is at EOF, its last line has left the copier: the
                   stream and its copier finish;
     CloseLines    every stream has finished: the tailer closes the channel;
     CloseVM p     the loop saw the channel closed (no fan-out in progress)
                   and closes the channel of p's VM;
     Done          every VM has drained and returned: Server.Run returns. *)
From V Require Export Base.Bytes.
Local Open Scope N_scope.

Definition line := (N * N)%type.       (* file, payload *)

Record state := mkS {
  rem : N -> list N;              (* lines not yet read, per file *)
  fslot : N -> option N;          (* line held by the copier of a file *)
  fclosed : N -> bool;
  cur : option (line * list N);   (* line being fanned out, programs still to receive it *)
  lclosed : bool;                 (* the tailer closed the lines channel *)
  vslot : N -> option line;       (* line a VM is working on *)
  processed : N -> list line;     (* lines a VM has finished, in order *)
  vclosed : N -> bool;
  done : bool
}.

Inductive event :=
| Emit (f : N) | Forward (f : N) | FanOut (p : N) | Process (p : N)
| CloseStream (f : N) | CloseLines | CloseVM (p : N) | Done.

Definition upd {A} (g : N -> A) (k : N) (v : A) : N -> A := fun x => if N.eqb x k then v else g x.
Definition rm (p : N) (l : list N) : list N := filter (fun x => negb (N.eqb x p)) l.
Definition mem (p : N) (l : list N) : bool := existsb (N.eqb p) l.
Definition mk_cur (l : line) (pend : list N) : option (line * list N) :=
  match pend with [] => None | _ => Some (l, pend) end.
Definition is_none {A} (o : option A) : bool := match o with None => true | Some _ => false end.

Section Model.
Variable files : list N.     (* file ids *)
Variable progs : list N.     (* program ids *)

Definition init (content : N -> list N) : state :=
  mkS content (fun _ => None) (fun _ => false) None false (fun _ => None) (fun _ => []) (fun _ => false) false.

Definition step (s : state) (e : event) : option state :=
  match e with
  | Emit f =>
      match rem s f, fslot s f with
      | x :: r, None =>
          if mem f files && negb (fclosed s f)
          then Some (mkS (upd (rem s) f r) (upd (fslot s) f (Some x)) (fclosed s) (cur s) (lclosed s)
                         (vslot s) (processed s) (vclosed s) (done s))
          else None
      | _, _ => None
      end
  | Forward f =>
      match fslot s f, cur s with
      | Some x, None =>
          Some (mkS (rem s) (upd (fslot s) f None) (fclosed s) (mk_cur (f, x) progs) (lclosed s)
                    (vslot s) (processed s) (vclosed s) (done s))
      | _, _ => None
      end
  | FanOut p =>
      match cur s with
      | Some (l, pend) =>
          if mem p pend && is_none (vslot s p)
          then Some (mkS (rem s) (fslot s) (fclosed s) (mk_cur l (rm p pend)) (lclosed s)
                         (upd (vslot s) p (Some l)) (processed s) (vclosed s) (done s))
          else None
      | None => None
      end
  | Process p =>
      match vslot s p with
      | Some l =>
          Some (mkS (rem s) (fslot s) (fclosed s) (cur s) (lclosed s)
                    (upd (vslot s) p None) (upd (processed s) p (processed s p ++ [l])) (vclosed s) (done s))
      | None => None
      end
  | CloseStream f =>
      match rem s f, fslot s f with
      | [], None =>
          if mem f files && negb (fclosed s f)
          then Some (mkS (rem s) (fslot s) (upd (fclosed s) f true) (cur s) (lclosed s)
                         (vslot s) (processed s) (vclosed s) (done s))
          else None
      | _, _ => None
      end
  | CloseLines =>
      if forallb (fclosed s) files && negb (lclosed s)
      then Some (mkS (rem s) (fslot s) (fclosed s) (cur s) true (vslot s) (processed s) (vclosed s) (done s))
      else None
  | CloseVM p =>
      if lclosed s && is_none (cur s) && mem p progs && negb (vclosed s p)
      then Some (mkS (rem s) (fslot s) (fclosed s) (cur s) (lclosed s) (vslot s) (processed s)
                     (upd (vclosed s) p true) (done s))
      else None
  | Done =>
      if forallb (vclosed s) progs && forallb (fun p => is_none (vslot s p)) progs && lclosed s && negb (done s)
      then Some (mkS (rem s) (fslot s) (fclosed s) (cur s) (lclosed s) (vslot s) (processed s) (vclosed s) true)
      else None
  end.

Fixpoint run (s : state) (es : list event) : option state :=
  match es with
  | [] => Some s
  | e :: r => match step s e with Some s' => run s' r | None => None end
  end.

(* the lines of file f in a list of lines, in order *)
Definition proj (f : N) (l : list line) : list N :=
  map snd (filter (fun x => N.eqb (fst x) f) l).

Definition b2n (b : bool) : nat := if b then 0%nat else 1%nat.
Definition o2n {A} (o : option A) (k : nat) : nat := match o with Some _ => k | None => 0%nat end.

(* work left: every line still has to be emitted, forwarded, handed to and
   processed by every program; every component still has to shut down *)
Definition rank (s : state) : nat :=
  let np := length progs in
  fold_right (fun f a => (length (rem s f) * (2 + 2 * np) + o2n (fslot s f) (1 + 2 * np) + b2n (fclosed s f) + a)%nat) 0%nat files +
  match cur s with Some (_, pend) => 2 * length pend | None => 0 end +
  fold_right (fun p a => (o2n (vslot s p) 1 + b2n (vclosed s p) + a)%nat) 0%nat progs +
  b2n (lclosed s) + b2n (done s).

End Model.

(* ---- the rule language of the correspondence programs ---- *)

(* a payload decodes to (tag, value) or is junk that matches nothing *)
Definition rule := (N * N)%type.      (* tag, action: 0 hits++, 1 sum += v, 2 last = v *)

Definition apply_rule (tv : N * N) (m : Z * Z * Z) (r : rule) : Z * Z * Z :=
  let '(h, s, l) := m in
  if N.eqb (fst r) (fst tv) then
    match snd r with
    | 0 => ((h + 1)%Z, s, l)
    | 1 => (h, (s + Z.of_N (snd tv))%Z, l)
    | _ => (h, s, Z.of_N (snd tv))
    end
  else m.

Definition run_lines (decode : line -> option (N * N)) (rules : list rule) (ls : list line) : Z * Z * Z :=
  fold_left (fun m l => match decode l with
                        | Some tv => fold_left (apply_rule tv) rules m
                        | None => m
                        end) ls (0%Z, 0%Z, (-1)%Z).
