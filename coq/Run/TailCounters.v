(* C25, tailer side: log_lines_total (logstream/reader.go: one increment
   immediately before every line a LineReader sends, in send and in Finish),
   log_count (tail.go TailPath: +1 when a new stream is registered, -1 when its
   goroutine sees the stream's channel closed) and lines_total (runtime.go: one
   increment per line taken by the fan-out loop), over a history of tailer
   events.  A stream is its LineReader, kept as the pending (unterminated)
   bytes: [LineReader.split] is the specification that the concrete reader of
   Tail/LineReader.v is proved to refine (C15).  A file stream that is not
   one-shot starts at the end of the file, so a freshly opened stream has
   nothing pending whatever the file holds. *)
From V Require Export Run.Loader.
From V Require Import Tail.LineReader.
Local Open Scope N_scope.

Inductive tev :=
| TOpen (f : bytes)                  (* TailPath(f), from the pattern poll *)
| TRead (f : bytes) (chunk : bytes)  (* ReadAndSend returned these bytes *)
| TEnd (f : bytes).                  (* the source is gone: Finish, close, stream forgotten *)

Record tstate := mkts {
  ts_open : list (bytes * bytes);       (* Tailer.logstreams: name -> pending bytes of its LineReader *)
  ts_counted : list (bytes * N);        (* log_lines_total *)
  ts_log_count : Z;                     (* log_count *)
  ts_out : list (bytes * bytes) }.      (* every line sent so far: (source, text), in order *)

Definition ts_empty : tstate := mkts [] [] 0%Z [].

Fixpoint bremove {A} (k : bytes) (l : list (bytes * A)) : list (bytes * A) :=
  match l with
  | [] => []
  | (k', x) :: r => if bytes_eqb k k' then bremove k r else (k', x) :: bremove k r
  end.

Definition counted (ts : tstate) (f : bytes) : N :=
  match blookup f (ts_counted ts) with Some n => n | None => 0 end.

(* the lines go out one by one, each counted just before it is sent *)
Definition emit (ts : tstate) (f : bytes) (ls : list bytes) (open' : list (bytes * bytes)) (lc : Z) : tstate :=
  mkts open' (bupdate f (counted ts f + N.of_nat (length ls)) (ts_counted ts)) lc
       (ts_out ts ++ map (fun l => (f, l)) ls).

Definition tstep (ts : tstate) (e : tev) : tstate :=
  match e with
  | TOpen f =>
      match blookup f (ts_open ts) with
      | Some _ => ts                                     (* "already got a logstream" *)
      | None => mkts (bupdate f [] (ts_open ts)) (ts_counted ts) (ts_log_count ts + 1)%Z (ts_out ts)
      end
  | TRead f chunk =>
      match blookup f (ts_open ts) with
      | Some pend => let (ls, pend') := split pend chunk in
                     emit ts f ls (bupdate f pend' (ts_open ts)) (ts_log_count ts)
      | None => ts                                       (* nobody reads an untailed file *)
      end
  | TEnd f =>
      match blookup f (ts_open ts) with
      | Some pend => emit ts f (flush pend) (bremove f (ts_open ts)) (ts_log_count ts - 1)%Z
      | None => ts
      end
  end.

Definition trun (ts : tstate) (evs : list tev) : tstate := fold_left tstep evs ts.

Fixpoint ttrace (ts : tstate) (evs : list tev) : list tstate :=
  match evs with
  | [] => []
  | e :: r => let ts1 := tstep ts e in ts1 :: ttrace ts1 r
  end.

(* ---- tailer + loader: every line sent by a stream is taken by the fan-out loop ---- *)
Section Pipe.
Variable vmstep : bytes -> N -> N -> list effect.
Variable lid : bytes -> bytes -> N.      (* identity of a line (source, text) for the VM oracle *)
Variable now : Z.

Definition deliver (st : state) (ls : list (bytes * bytes)) : state :=
  fold_left (fun s l => line vmstep s (lid (fst l) (snd l)) now) ls st.

(* the lines an event adds to the output *)
Definition new_lines (ts : tstate) (e : tev) : list (bytes * bytes) :=
  skipn (length (ts_out ts)) (ts_out (tstep ts e)).

Definition pstep (x : tstate * state) (e : tev) : tstate * state :=
  (tstep (fst x) e, deliver (snd x) (new_lines (fst x) e)).

Definition prun (x : tstate * state) (evs : list tev) : tstate * state := fold_left pstep evs x.
End Pipe.
