(* C20 - event-granularity model of the runtime's line fan-out, the VM run
   loops and program reload (internal/runtime/runtime.go New / CompileAndRun,
   internal/runtime/vm/vm.go Run).  Definitions only (executable).

   Lines are numbered in arrival order.  Events:
     Take w      the fan-out loop receives the next line from the tailer
                 (w: the line writes the gauge);
     FanOut p    it hands that line to the current VM of program p over the
                 unbuffered channel - only possible when that VM is at its
                 receive, i.e. not busy.  The handle read lock is held from
                 (at the latest) the first hand-over of a line to the last
                 ([locked]);
     Process p v the VM of version v of program p finishes its line: the
                 line's effects on p's metrics are applied;
     Reload p    CompileAndRun under the handle WRITE lock (so never between
                 two hand-overs of one line): closes the old VM's channel,
                 installs version cur+1.  REPAIRED: it first waits for the old
                 VM's Run goroutine to return, i.e. the event is enabled only
                 when the old VM is idle.  Before the repair it does not wait.
     ReloadRefused p  CompileAndRun of a version that compiles but one of whose
                 metrics the store refuses (kind clash with another program):
                 REPAIRED code has by then stopped the old VM under the write
                 lock (same enabling condition as Reload) and restarts it - the
                 old version keeps running, nothing else changes; the code
                 before the repair returned before touching the handle.
   [assigned] is a ghost log: the version that was installed when the line was
   handed over. *)
From V Require Export Base.Bytes.
Local Open Scope N_scope.

Record entry := mkE { e_line : N; e_ver : N; e_w : bool }.

Record pstate := mkP {
  cur : N;                  (* installed version *)
  busy : list entry;        (* lines being processed (at most one per version) *)
  log : list entry;         (* effects applied to the program's metrics, in order *)
  assigned : list entry     (* ghost: hand-overs, in order *)
}.

Record state := mkS {
  ps : N -> pstate;
  nxt : N;                               (* number of lines taken *)
  infl : option (N * bool * list N);     (* line being fanned out, programs still to receive it *)
  locked : bool                          (* the fan-out loop holds the handle read lock *)
}.

Inductive event :=
| Take (w : bool)
| FanOut (p : N)
| Process (p v : N)
| Reload (p : N)
| ReloadRefused (p : N).

Definition updp (f : N -> pstate) (k : N) (v : pstate) : N -> pstate :=
  fun x => if N.eqb x k then v else f x.

Definition rm (p : N) (l : list N) : list N := filter (fun x => negb (N.eqb x p)) l.
Definition mem (p : N) (l : list N) : bool := existsb (N.eqb p) l.

Definition mk_infl (l : N) (w : bool) (pend : list N) : option (N * bool * list N) :=
  match pend with [] => None | _ => Some (l, w, pend) end.

Definition is_cons {A} (l : list A) : bool := match l with [] => false | _ => true end.

Definition has_ver (v : N) (b : list entry) : bool := existsb (fun e => N.eqb (e_ver e) v) b.

Fixpoint take_ver (v : N) (b : list entry) : option (entry * list entry) :=
  match b with
  | [] => None
  | e :: r => if N.eqb (e_ver e) v then Some (e, r)
              else match take_ver v r with
                   | Some (x, r') => Some (x, e :: r')
                   | None => None
                   end
  end.

Section Model.
Variable progs : list N.

Definition init : state := mkS (fun _ => mkP 1 [] [] []) 0 None false.

Definition step (repaired : bool) (s : state) (e : event) : option state :=
  match e with
  | Take w =>
      match infl s with
      | None => Some (mkS (ps s) (nxt s + 1) (mk_infl (nxt s) w progs) false)
      | Some _ => None
      end
  | FanOut p =>
      match infl s with
      | Some (l, w, pend) =>
          let q := ps s p in
          if mem p pend && negb (has_ver (cur q) (busy q))
          then let en := mkE l (cur q) w in
               Some (mkS (updp (ps s) p (mkP (cur q) (busy q ++ [en]) (log q) (assigned q ++ [en])))
                         (nxt s) (mk_infl l w (rm p pend)) (is_cons (rm p pend)))
          else None
      | None => None
      end
  | Process p v =>
      let q := ps s p in
      match take_ver v (busy q) with
      | Some (en, rest) =>
          Some (mkS (updp (ps s) p (mkP (cur q) rest (log q ++ [en]) (assigned q))) (nxt s) (infl s) (locked s))
      | None => None
      end
  | Reload p =>
      let q := ps s p in
      if locked s || (repaired && has_ver (cur q) (busy q)) then None
      else Some (mkS (updp (ps s) p (mkP (cur q + 1) (busy q) (log q) (assigned q))) (nxt s) (infl s) false)
  | ReloadRefused p =>
      let q := ps s p in
      if locked s || (repaired && has_ver (cur q) (busy q)) then None else Some s
  end.

Fixpoint run (repaired : bool) (s : state) (es : list event) : option state :=
  match es with
  | [] => Some s
  | e :: r => match step repaired s e with Some s' => run repaired s' r | None => None end
  end.

(* the value a gauge written by every w-line ends with: the last writer in
   the order given *)
Definition last_writer (l : list entry) : option N :=
  fold_left (fun acc e => if e_w e then Some (e_line e) else acc) l None.

Definition quiescent (s : state) : Prop :=
  infl s = None /\ forall p, busy (ps s p) = [].

End Model.
