(* internal/runtime/runtime.go: CompileAndRun, UnloadProgram and the fan-out of
   one line, over Metrics/StoreAdd.v.

   Oracles (Section variables, tabulated by the harness):
     compile p src = None          the compiler reports errors for text [src]
                                   under program name [p]
                   = Some decls    object.Metrics of the compiled program
     vmstep p src line             the store operations the program attempts
                                   on the line, in order (the VM is abstract)
   [src] is the identity of a source text: SHA-256 equality is modelled as
   equality of texts.  [omit] is the OmitMetricSource option.

   Repairs: [copy_expiry] (see StoreAdd.v) and [count_refused] ("fix: count a
   load refused by the metric store as a program load error"); the unrepaired
   behaviour is the instance [false false]. *)
From V Require Export Metrics.StoreAdd.
Local Open Scope N_scope.

Inductive effect :=
| EInc (m : nat) (ls : tuple) (d : Z)
| ESet (m : nat) (ls : tuple) (v : dval)
| EDel (m : nat) (ls : tuple)
| EExpire (m : nat) (ls : tuple) (e : Z)
| EObs (m : nat) (ls : tuple) (v : Z)   (* histogram assignment: Observe *)
| EFail.   (* an instruction that raises a runtime error whatever the state (e.g. strptime on text that does not parse) *)

(* vmHandle: contentHash and the VM's metric table (object id, descriptor) *)
Record handle := mkh { h_src : N; h_objs : list (N * decl) }.

Record pstate := mkps {
  ps_heap : pheap;
  ps_handle : option handle;
  ps_loads : N; ps_errs : N; ps_unloads : N; ps_rterrs : N }.

Definition ps_empty : pstate := mkps ph_empty None 0 0 0 0.

Record state := mkst {
  st_index : index;                    (* Store.Metrics *)
  st_progs : list (bytes * pstate);    (* per program name *)
  st_lines : N }.                      (* lines_total *)

Definition st_empty : state := mkst [] [] 0.

Definition getp (p : bytes) (st : state) : pstate :=
  match blookup p (st_progs st) with Some x => x | None => ps_empty end.
Definition setp (p : bytes) (x : pstate) (st : state) : state :=
  mkst (st_index st) (bupdate p x (st_progs st)) (st_lines st).

(* ---- what codegen does for a declaration: metrics.NewMetric, and for a
   scalar Int/Float counter GetDatum() + Set(0, time.Unix(0,0)) ---- *)
Definition zero_dval (ty : N) : dval :=
  if N.eqb ty 1 then DFloat 0 else if N.eqb ty 3 then DHist 0 0 else if N.eqb ty 2 then DStr [] else DInt 0.

(* codegen calls m.GetDatum() for a declaration without keys when it is a
   counter (then Set(0, time.Unix(0,0))) or a histogram (datum.NewBuckets, whose
   time stays zero until the first Observe): these metrics come with one label
   value, for the empty tuple, already allocated *)
Definition prealloc (d : decl) : bool :=
  match d_keys d with
  | [] => N.eqb (d_kind d) 1 || N.eqb (d_kind d) 5
  | _ => false
  end.

Definition alloc_obj (h : pheap) (d : decl) : pheap * N :=
  let o := ph_nexto h in
  if prealloc d then
    let k := ph_nextd h in
    (mkph (ph_lvs h ++ [(o, [mkslv [] k 0%Z])])
          (ph_data h ++ [(k, mkdatum (zero_dval (d_type d)) 0%Z)])
          (N.succ o) (N.succ k), o)
  else (mkph (ph_lvs h ++ [(o, [])]) (ph_data h) (N.succ o) (ph_nextd h), o).

Fixpoint alloc_objs (h : pheap) (ds : list decl) : pheap * list (N * decl) :=
  match ds with
  | [] => (h, [])
  | d :: r =>
      let (h1, o) := alloc_obj h d in
      let (h2, l) := alloc_objs h1 r in
      (h2, (o, d) :: l)
  end.

Section Loader.
Variable copy_expiry count_refused : bool.
Variable omit : bool.
Variable compile : bytes -> N -> option (list decl).
Variable vmstep : bytes -> N -> N -> list effect.

(* if !m.Hidden { if r.omitMetricSource { m.Source = "" } ... } *)
Definition strip (d : decl) : decl :=
  if omit && negb (d_hidden d) then mkdecl (d_name d) (d_kind d) (d_type d) (d_keys d) [] (d_hidden d) else d.

(* for _, m := range v.Metrics { if !m.Hidden { if err := r.ms.Add(m); err != nil { return err } } } *)
Fixpoint register (idx : index) (h : pheap) (p : bytes) (ms : list (N * decl))
  : index * pheap * bool :=
  match ms with
  | [] => (idx, h, true)
  | (o, d) :: r =>
      if d_hidden d then register idx h p r else
      match add copy_expiry idx h p o d with
      | Some (idx1, h1) => register idx1 h1 p r
      | None => (idx, h, false)
      end
  end.

(* CompileAndRun since "fix: a program reload waits for the previous vm before
   the new one takes over": hash short-cut; compile; vm.New; then, under
   handleMu, the old VM (if any) is stopped and awaited, the registration loop
   runs, and either the new VM is started under the name (startVM) or, when
   Store.Add refuses a metric, prog_load_errors_total is counted and the OLD
   handle (same VM object, same content hash) is started again under the name.
   In this sequential model stopping and restarting the same VM is invisible:
   the handle is unchanged on the refused path.  (The stop/await/restart
   protocol itself is C20's subject.) *)
Inductive load_result := LSame | LCompileErr | LRefused | LLoaded.

Definition with_errs (x : pstate) : pstate :=
  mkps (ps_heap x) (ps_handle x) (ps_loads x) (N.succ (ps_errs x)) (ps_unloads x) (ps_rterrs x).

Definition load_r (st : state) (p : bytes) (src : N) : state * load_result :=
  let x := getp p st in
  let same := match ps_handle x with Some hd => N.eqb (h_src hd) src | None => false end in
  if same then (st, LSame) else
  match compile p src with
  | None => (setp p (with_errs x) st, LCompileErr)
  | Some ds =>
      let (h1, objs0) := alloc_objs (ps_heap x) ds in
      let objs := map (fun od => (fst od, strip (snd od))) objs0 in
      match register (st_index st) h1 p objs with
      | (idx, h2, true) =>
          (mkst idx (bupdate p (mkps h2 (Some (mkh src objs)) (N.succ (ps_loads x))
                                  (ps_errs x) (ps_unloads x) (ps_rterrs x)) (st_progs st))
                (st_lines st), LLoaded)
      | (idx, h2, false) =>
          (mkst idx (bupdate p (mkps h2 (ps_handle x) (ps_loads x)
                                  (if count_refused then N.succ (ps_errs x) else ps_errs x)
                                  (ps_unloads x) (ps_rterrs x)) (st_progs st))
                (st_lines st), LRefused)
      end
  end.
Definition load st p src := fst (load_r st p src).

(* UnloadProgram; LoadAllPrograms only calls it for names that have a handle *)
Definition unload (st : state) (p : bytes) : state :=
  let x := getp p st in
  match ps_handle x with
  | None => st
  | Some _ => setp p (mkps (ps_heap x) None (ps_loads x) (ps_errs x) (N.succ (ps_unloads x)) (ps_rterrs x)) st
  end.

(* ---- one line in one VM ---- *)
Definition datum_of (h : pheap) (k : N) : datum :=
  match nlookup k (ph_data h) with Some d => d | None => mkdatum (DInt 0) 0%Z end.
Definition set_datum (h : pheap) (k : N) (d : datum) : pheap :=
  mkph (ph_lvs h) (nupdate k d (ph_data h)) (ph_nexto h) (ph_nextd h).

(* GetDatum: find or create (a new Int/Float/String datum is stamped with the
   current time; datum.NewBuckets leaves the time at zero) *)
Definition get_datum (h : pheap) (o : N) (d : decl) (ls : tuple) (now : Z) : option (pheap * N) :=
  if negb (Nat.eqb (length ls) (length (d_keys d))) then None else
  match lv_find ls (obj_lvs h o) with
  | Some x => Some (h, sl_datum x)
  | None =>
      let k := ph_nextd h in
      Some (mkph (nupdate o (obj_lvs h o ++ [mkslv ls k 0%Z]) (ph_lvs h))
                 (ph_data h ++ [(k, mkdatum (zero_dval (d_type d))
                                            (if N.eqb (d_type d) 3 then 0%Z else now))])
                 (ph_nexto h) (N.succ k), k)
  end.

Definition inc_dval (v : dval) (d : Z) : dval :=
  match v with DInt z => DInt (wrap64 (z + d)) | other => other end.
Definition obs_dval (v : dval) (x : Z) : dval :=
  match v with DHist c s => DHist (N.succ c) (s + x)%Z | other => other end.

(* None = a runtime error (errorf): the rest of the line is abandoned *)
Definition exec_effect (h : pheap) (objs : list (N * decl)) (e : effect) (now : Z) : option pheap :=
  let on m (f : N -> decl -> option pheap) :=
    match nth_error objs m with Some (o, d) => f o d | None => None end in
  match e with
  | EInc m ls delta => on m (fun o d =>
      match get_datum h o d ls now with
      | Some (h1, k) => Some (set_datum h1 k (mkdatum (inc_dval (dv (datum_of h1 k)) delta) now))
      | None => None
      end)
  | ESet m ls v => on m (fun o d =>
      match get_datum h o d ls now with
      | Some (h1, k) => Some (set_datum h1 k (mkdatum v now))
      | None => None
      end)
  | EDel m ls => on m (fun o d =>
      if negb (Nat.eqb (length ls) (length (d_keys d))) then None
      else Some (set_obj_lvs h o (lv_del ls (obj_lvs h o))))
  | EExpire m ls ex => on m (fun o d =>
      if negb (Nat.eqb (length ls) (length (d_keys d))) then None else
      match lv_find ls (obj_lvs h o) with
      | Some _ => Some (set_obj_lvs h o
                    (lv_upd ls (fun x => mkslv (sl_labels x) (sl_datum x) ex) (obj_lvs h o)))
      | None => None
      end)
  | EObs m ls x => on m (fun o d =>
      match get_datum h o d ls now with
      | Some (h1, k) => Some (set_datum h1 k (mkdatum (obs_dval (dv (datum_of h1 k)) x) now))
      | None => None
      end)
  | EFail => None
  end.

Fixpoint exec_effects (h : pheap) (objs : list (N * decl)) (es : list effect) (now : Z) : pheap * bool :=
  match es with
  | [] => (h, false)
  | e :: r =>
      match exec_effect h objs e now with
      | Some h1 => exec_effects h1 objs r now
      | None => (h, true)
      end
  end.

Definition line_prog (p : bytes) (x : pstate) (l : N) (now : Z) : pstate :=
  match ps_handle x with
  | None => x
  | Some hd =>
      let (h1, err) := exec_effects (ps_heap x) (h_objs hd) (vmstep p (h_src hd) l) now in
      mkps h1 (ps_handle x) (ps_loads x) (ps_errs x) (ps_unloads x)
           (if err then N.succ (ps_rterrs x) else ps_rterrs x)
  end.

(* LineCount.Add(1); for prog := range r.handles { r.handles[prog].lines <- line } *)
Definition line (st : state) (l : N) (now : Z) : state :=
  mkst (st_index st) (map (fun px => (fst px, line_prog (fst px) (snd px) l now)) (st_progs st))
       (N.succ (st_lines st)).

(* ---- Store.Gc (expiry part; no generated program sets a limit).  Gc ranges
   over a Go map, so the model must not depend on an order: every exported
   metric object (one that some store entry points to) has its expired label
   values removed.  The real test is now - datum.Time > Expiry.  [el] is a
   lower bound on the time since the last stamp; histories keep Expiry either
   below it or far above the length of the run; a datum still at the zero time
   is older than any expiry. *)
Definition gc_expired (h : pheap) (el : Z) (x : slv) : bool :=
  (0 <? sl_expiry x)%Z && ((sl_expiry x <? el)%Z || (dt (datum_of h (sl_datum x)) =? 0)%Z).

Definition exported_in (l : list entry) (p : bytes) (o : N) : bool :=
  existsb (fun e => bytes_eqb (e_prog e) p && N.eqb (e_id e) o) l.
Definition exported (idx : index) (p : bytes) (o : N) : bool :=
  existsb (fun ne => exported_in (snd ne) p o) idx.

Definition gc_heap (idx : index) (el : Z) (p : bytes) (h : pheap) : pheap :=
  mkph (map (fun ol => (fst ol, if exported idx p (fst ol)
                                then filter (fun lv => negb (gc_expired h el lv)) (snd ol)
                                else snd ol)) (ph_lvs h))
       (ph_data h) (ph_nexto h) (ph_nextd h).

Definition gc_prog (idx : index) (el : Z) (p : bytes) (x : pstate) : pstate :=
  mkps (gc_heap idx el p (ps_heap x)) (ps_handle x) (ps_loads x) (ps_errs x) (ps_unloads x) (ps_rterrs x).

Definition gc (st : state) (el : Z) : state :=
  mkst (st_index st)
       (map (fun px => (fst px, gc_prog (st_index st) el (fst px) (snd px))) (st_progs st))
       (st_lines st).

(* ---- histories ---- *)
(* [now] is the time-stamp class of the step (the harness uses the step index) *)
Inductive op :=
| OLoad (p : bytes) (src : N)
| OUnload (p : bytes)
| OLine (l : N) (now : Z)
| OGc (el : Z)
| OMark (p : bytes) (m : nat) (ls : tuple) (e : Z).
   (* Metric.ExpireDatum(e, ls...) on the m-th metric of p's running version,
      called directly (what the VM's expire instruction does for `del ... after`;
      the language has no such statement for a metric without keys) *)

Definition mark (st : state) (p : bytes) (m : nat) (ls : tuple) (e : Z) : state :=
  let x := getp p st in
  match ps_handle x with
  | None => st
  | Some hd =>
      match exec_effect (ps_heap x) (h_objs hd) (EExpire m ls e) 0%Z with
      | Some h' => setp p (mkps h' (ps_handle x) (ps_loads x) (ps_errs x) (ps_unloads x) (ps_rterrs x)) st
      | None => st
      end
  end.

Definition step (st : state) (o : op) : state :=
  match o with
  | OLoad p src => load st p src
  | OUnload p => unload st p
  | OLine l now => line st l now
  | OGc el => gc st el
  | OMark p m ls e => mark st p m ls e
  end.

Definition run_from (st : state) (ops : list op) : state := fold_left step ops st.

(* every intermediate state, for the correspondence *)
Fixpoint trace_from (st : state) (ops : list op) : list state :=
  match ops with
  | [] => []
  | o :: r => let st1 := step st o in st1 :: trace_from st1 r
  end.
End Loader.
