(* internal/runtime/runtime.go: LoadAllPrograms / LoadProgram over a directory
   listing (os.ReadDir order), on top of Run/Loader.v.

   A listing maps a name to a regular file with source text identity [src] or to
   a subdirectory.  Not modelled: unreadable files, a programPath that is a
   single file, ErrorsAbort, symlinks. *)
From V Require Export Run.Loader.
Local Open Scope N_scope.

Inductive dirent := File (src : N) | Dir.
Definition listing := list (bytes * dirent).

Definition DOT : byte := 46.
(* strings.HasPrefix(name, ".") *)
Definition dotfile (name : bytes) : bool :=
  match name with c :: _ => N.eqb c DOT | [] => false end.

(* filepath.Ext on a base name: the suffix starting at the last dot, or "" *)
Fixpoint ext_aux (l : bytes) : option bytes :=
  match l with
  | [] => None
  | c :: r =>
      match ext_aux r with
      | Some e => Some e
      | None => if N.eqb c DOT then Some (c :: r) else None
      end
  end.
Definition ext (name : bytes) : bytes :=
  match ext_aux name with Some e => e | None => [] end.

(* ".mtail" *)
Definition file_ext : bytes := [46; 109; 116; 97; 105; 108].

(* LoadProgram's filter *)
Definition eligible (name : bytes) : bool :=
  negb (dotfile name) && bytes_eqb (ext name) file_ext.

Definition is_nondir (L : listing) (p : bytes) : bool :=
  existsb (fun ne => bytes_eqb p (fst ne) && match snd ne with Dir => false | File _ => true end) L.

Section DirScan.
Variable copy_expiry count_refused : bool.
Variable omit : bool.
Variable compile : bytes -> N -> option (list decl).
Variable vmstep : bytes -> N -> N -> list effect.

Notation load_r := (load_r copy_expiry count_refused omit compile).

Definition scan_log := list (bytes * N * load_result).

(* for _, dirent := range dirents { if dirent.IsDir() { continue }; r.LoadProgram(...) } *)
Fixpoint scan_loads (st : state) (L : listing) : state * scan_log :=
  match L with
  | [] => (st, [])
  | (n, Dir) :: r => scan_loads st r
  | (n, File src) :: r =>
      if eligible n then
        let (st1, res) := load_r st n src in
        let (st2, lg) := scan_loads st1 r in
        (st2, (n, src, res) :: lg)
      else scan_loads st r
  end.

(* markDeleted: every name that had a handle before the scan and is not the
   name of a non-directory entry is unloaded *)
Definition handle_names (st : state) : list bytes :=
  map fst (filter (fun px => match ps_handle (snd px) with Some _ => true | None => false end) (st_progs st)).

Definition scan_r (st : state) (L : listing) : state * scan_log :=
  let marked := filter (fun p => negb (is_nondir L p)) (handle_names st) in
  let (st1, lg) := scan_loads st L in
  (fold_left unload marked st1, lg).
Definition scan st L := fst (scan_r st L).

Inductive dop :=
| DScan (L : listing)
| DLine (l : N) (now : Z).

Definition dstep (st : state) (o : dop) : state :=
  match o with
  | DScan L => scan st L
  | DLine l now => line vmstep st l now
  end.

Definition drun (st : state) (ops : list dop) : state := fold_left dstep ops st.

Fixpoint dtrace (st : state) (ops : list dop) : list state :=
  match ops with
  | [] => []
  | o :: r => let st1 := dstep st o in st1 :: dtrace st1 r
  end.

(* the per-scan logs of a history, as the ghost record of which loads succeeded *)
Fixpoint dlogs (st : state) (ops : list dop) : list (option (listing * scan_log)) :=
  match ops with
  | [] => []
  | DScan L :: r => let (st1, lg) := scan_r st L in Some (L, lg) :: dlogs st1 r
  | DLine l now :: r => None :: dlogs (line vmstep st l now) r
  end.
End DirScan.
