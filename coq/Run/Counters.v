(* C25: the events of a history, read off the behaviour of the loader model
   (Run/Loader.v) and not off its counters: which loads succeeded or failed
   (compile error or refused registration), which unloads removed a running
   program, which lines were delivered, and which program's VM abandoned a line
   with a runtime error.  The expvars prog_loads_total, prog_load_errors_total,
   prog_unloads_total, prog_runtime_errors_total and lines_total are the
   counter fields of the model. *)
From V Require Export Run.Loader.
Local Open Scope N_scope.

Inductive event :=
| EvLoaded (p : bytes)          (* a new version of p was compiled, registered and started *)
| EvLoadFailed (p : bytes)      (* compile error, or a metric refused by the store *)
| EvUnloaded (p : bytes)
| EvLine                        (* one line taken by the fan-out loop *)
| EvRuntimeError (p : bytes).   (* p's VM raised a runtime error on a line *)

Section Events.
Variable copy_expiry count_refused omit : bool.
Variable compile : bytes -> N -> option (list decl).
Variable vmstep : bytes -> N -> N -> list effect.

(* does p's running version raise a runtime error on this line in this state? *)
Definition raises (st : state) (p : bytes) (l : N) (now : Z) : bool :=
  match ps_handle (getp p st) with
  | Some hd => snd (exec_effects (ps_heap (getp p st)) (h_objs hd) (vmstep p (h_src hd) l) now)
  | None => false
  end.

Definition step_events (st : state) (o : op) : list event :=
  match o with
  | OLoad p src =>
      match snd (load_r copy_expiry count_refused omit compile st p src) with
      | LLoaded => [EvLoaded p]
      | LCompileErr | LRefused => [EvLoadFailed p]
      | LSame => []
      end
  | OUnload p =>
      match ps_handle (getp p st) with Some _ => [EvUnloaded p] | None => [] end
  | OLine l now =>
      EvLine :: map EvRuntimeError (filter (fun p => raises st p l now) (map fst (st_progs st)))
  | OGc _ => []
  | OMark _ _ _ _ => []
  end.

Fixpoint events (st : state) (ops : list op) : list event :=
  match ops with
  | [] => []
  | o :: r => step_events st o ++ events (step copy_expiry count_refused omit compile vmstep st o) r
  end.
End Events.

Definition ev_eqb (a b : event) : bool :=
  match a, b with
  | EvLoaded p, EvLoaded q | EvLoadFailed p, EvLoadFailed q
  | EvUnloaded p, EvUnloaded q | EvRuntimeError p, EvRuntimeError q => bytes_eqb p q
  | EvLine, EvLine => true
  | _, _ => false
  end.

Definition count (e : event) (l : list event) : N := N.of_nat (length (filter (ev_eqb e) l)).
