(* internal/runtime/runtime.go, the consumer/producer loop of New, seen as a
   concurrent system:

       for line := range lines {
           LineCount.Add(1)
           r.handleMu.RLock()
           for prog := range r.handles {
               r.handles[prog].lines <- line       (unbuffered, blocking)
           }
           r.handleMu.RUnlock()
       }

   and, per running program, the goroutine of its vm:

       for line := range lines { v.ProcessLogLine(line) }

   Run/Loader.v's [line] is the sequential reading of it (every program has
   finished the line before anything else happens).  Here a vm may be
   ARBITRARILY SLOW: a schedule is a list of events, and how long a program
   needs for a line is how many events pass between its [EHand] and its
   [EDone].  There is no clock (the code has none).  Events that are not
   enabled in a state leave it unchanged, so every list of events is a
   schedule.

     ENext order   the loop takes the next line off its input, counts it and
                   starts ranging over r.handles in [order] (a Go map: any
                   order; enabled when the previous line has been handed to
                   every program, the input is not empty and [order] lists
                   every running program exactly once)
     EHand         the send to the program the loop is at completes (enabled
                   when that program's vm is not busy with an earlier line:
                   the channel is unbuffered); until then the loop, and with
                   it every program later in the order, waits
     EDone p       the vm of p finishes the line it holds

   [fs_recv] is a ghost log: every line handed to a program, oldest first.
   No load or unload happens while lines are in flight (handleMu; that
   protocol is C20's subject). *)
From V Require Export Run.Loader.
Local Open Scope N_scope.

(* a line: its identity and the time-stamp class of the step it belongs to *)
Definition lstamp := (N * Z)%type.

Inductive ev :=
| ENext (order : list bytes)
| EHand
| EDone (p : bytes).

Record fstate := mkfs {
  fs_st : state;
  fs_in : list lstamp;                      (* lines not yet taken off the input channel *)
  fs_todo : list bytes;                     (* programs the loop still has to hand the current line to, in its order *)
  fs_cur : lstamp;                          (* the line being handed out (while fs_todo <> []) *)
  fs_busy : list (bytes * option lstamp);   (* the line the vm of p holds and has not finished *)
  fs_recv : list (bytes * list lstamp) }.   (* ghost: lines handed to p so far *)

Definition is_running (p : bytes) (st : state) : bool :=
  match ps_handle (getp p st) with Some _ => true | None => false end.

Definition memb (p : bytes) (l : list bytes) : bool := existsb (bytes_eqb p) l.

Fixpoint nodupb (l : list bytes) : bool :=
  match l with
  | [] => true
  | p :: r => negb (memb p r) && nodupb r
  end.

(* [order] is an iteration order of r.handles: every running program once *)
Definition order_ok (order : list bytes) (st : state) : bool :=
  nodupb order
  && forallb (fun p => is_running p st) order
  && forallb (fun px => negb (is_running (fst px) st) || memb (fst px) order) (st_progs st).

Definition busy_of (p : bytes) (fs : fstate) : option lstamp :=
  match blookup p (fs_busy fs) with Some (Some x) => Some x | _ => None end.

Definition recv_of (p : bytes) (fs : fstate) : list lstamp :=
  match blookup p (fs_recv fs) with Some l => l | None => [] end.

Definition count_line (st : state) : state :=
  mkst (st_index st) (st_progs st) (N.succ (st_lines st)).

Definition finit (st : state) (ls : list lstamp) : fstate := mkfs st ls [] (0, 0%Z) [] [].

Definition idle (p : bytes) (fs : fstate) : bool :=
  match busy_of p fs with None => true | Some _ => false end.

(* nothing left to do: input drained, line handed to everybody, every vm idle *)
Definition settled (fs : fstate) : bool :=
  match fs_in fs, fs_todo fs with
  | [], [] => forallb (fun x => idle (fst x) fs) (fs_busy fs)
  | _, _ => false
  end.

(* an iteration order for the state: the running programs in the order of
   their records, each once *)
Fixpoint dedup (l : list bytes) : list bytes :=
  match l with
  | [] => []
  | p :: r => if memb p r then dedup r else p :: dedup r
  end.
Definition running_names (st : state) : list bytes :=
  dedup (filter (fun p => is_running p st) (map fst (st_progs st))).

Section Fanout.
Variable vmstep : bytes -> N -> N -> list effect.

Definition fstep (fs : fstate) (e : ev) : fstate :=
  match e with
  | ENext order =>
      match fs_todo fs, fs_in fs with
      | [], x :: r =>
          if order_ok order (fs_st fs)
          then mkfs (count_line (fs_st fs)) r order x (fs_busy fs) (fs_recv fs)
          else fs
      | _, _ => fs
      end
  | EHand =>
      match fs_todo fs with
      | p :: r =>
          match busy_of p fs with
          | Some _ => fs                       (* the send blocks *)
          | None => mkfs (fs_st fs) (fs_in fs) r (fs_cur fs)
                         (bupdate p (Some (fs_cur fs)) (fs_busy fs))
                         (bupdate p (recv_of p fs ++ [fs_cur fs]) (fs_recv fs))
          end
      | [] => fs
      end
  | EDone p =>
      match busy_of p fs with
      | Some (l, now) =>
          mkfs (setp p (line_prog vmstep p (getp p (fs_st fs)) l now) (fs_st fs))
               (fs_in fs) (fs_todo fs) (fs_cur fs) (bupdate p None (fs_busy fs)) (fs_recv fs)
      | None => fs
      end
  end.

Definition frun (sch : list ev) (fs : fstate) : fstate := fold_left fstep sch fs.

(* a schedule that finishes whatever is in flight, in the simplest way: every
   busy vm finishes; the current line goes to the remaining programs one after
   the other; every further line is handed round with each program finishing
   at once *)
Definition hand_round (ps : list bytes) : list ev :=
  flat_map (fun p => [EHand; EDone p]) ps.
Definition drain (fs : fstate) : list ev :=
  map (fun x => EDone (fst x)) (fs_busy fs)
  ++ hand_round (fs_todo fs)
  ++ flat_map (fun _ : lstamp => ENext (running_names (fs_st fs)) :: hand_round (running_names (fs_st fs)))
              (fs_in fs).

(* ---- histories in which lines may arrive back to back ---- *)
Inductive hop :=
| HOp (o : op)                                   (* a step of Run/Loader.v: everything is idle before and after *)
| HBurst (ls : list lstamp) (sch : list ev).     (* these lines are sent back to back and processed under this schedule *)

Variable copy_expiry count_refused omit : bool.
Variable compile : bytes -> N -> option (list decl).

Definition hstep (st : state) (h : hop) : state :=
  match h with
  | HOp o => step copy_expiry count_refused omit compile vmstep st o
  | HBurst ls sch => fs_st (frun sch (finit st ls))
  end.

Definition hrun (st : state) (hs : list hop) : state := fold_left hstep hs st.

Fixpoint htrace (st : state) (hs : list hop) : list state :=
  match hs with
  | [] => []
  | h :: r => let st1 := hstep st h in st1 :: htrace st1 r
  end.

(* every burst of the history has run to the end when the next step starts *)
Fixpoint settle_all (st : state) (hs : list hop) : bool :=
  match hs with
  | [] => true
  | h :: r =>
      match h with
      | HOp _ => true
      | HBurst ls sch => settled (frun sch (finit st ls))
      end && settle_all (hstep st h) r
  end.
End Fanout.

Definition lines_ops (ls : list lstamp) : list op := map (fun x => OLine (fst x) (snd x)) ls.

(* the same history with every line fully processed before the next step *)
Definition flatten (hs : list hop) : list op :=
  flat_map (fun h => match h with HOp o => [o] | HBurst ls _ => lines_ops ls end) hs.
