(* C25: the END of a run.  internal/runtime/runtime.go, the loop started by New:

     for line := range lines {            // the tailer's channel, unbuffered
         LineCount.Add(1)
         r.handleMu.RLock()
         for prog := range r.handles { r.handles[prog].lines <- line }   // unbuffered
         r.handleMu.RUnlock()
     }
     close(r.signalQuit); for prog := range r.handles { close(r.handles[prog].lines); ... }

   and vm.Run: for line := range lines { v.ProcessLogLine(ctx, line) }.

   Three kinds of goroutine take steps: the tailer (sends lines, finally closes
   the channel), the loader (takes a line, counts it, holds it out to every
   running program in turn; when its receive reports the closed channel it
   closes every program's channel and ends) and one VM per program (takes the
   line held out to it when it is not executing, executes it).  A history of
   the end of a run is a list of such steps in the order they happened: the
   close may come at any point after the last send, in particular while the
   loader still holds the last line out to a program that is busy with the
   previous one.  The loader learns of the close only at its next receive.

   A step that is not enabled in a state has no successor ([cstep] = None):
   [crun] accepts exactly the interleavings the channels allow.  The loader
   hands a line to the programs in the order of a Go map iteration and blocks
   on each: here ANY program that still has to get the line and whose VM is
   ready may take it, which covers every iteration order.

   lines_total is incremented right after the receive, before the fan-out;
   the model counts at the receive (the harness reads the counter only when
   the loader has nothing in hand, or after shutdown). *)
From V Require Export Run.Loader.
Local Open Scope N_scope.

(* a line: its identity for the vmstep oracle and the time class it is executed at *)
Definition cline := (N * Z)%type.

Inductive lphase :=
| LIdle                                  (* parked in `for line := range lines` *)
| LFan (l : cline) (todo : list bytes)   (* counted l, holds the read lock, these programs have not taken l yet *)
| LDone.                                 (* saw the closed channel: every program's channel closed *)

Record vmst := mkvm {
  vm_busy : option cline;     (* the line the VM goroutine took and is executing *)
  vm_done : list cline }.     (* the lines it has executed, in order *)

Record cstate := mkcs {
  cs_closed : bool;                 (* close(lines) was executed *)
  cs_phase : lphase;
  cs_lines : N;                     (* lines_total *)
  cs_vms : list (bytes * vmst);     (* r.handles *)
  cs_sent : list cline }.           (* every line whose send completed, in order *)

Inductive act :=
| ASend (l : cline)     (* the tailer's send completes: the loader took l *)
| AClose                (* the tailer closes the channel *)
| AHand (p : bytes)     (* p's VM takes the line the loader holds out *)
| AFinish (p : bytes)   (* p's VM has executed its line *)
| ASee.                 (* the loader's receive reports the closed channel *)

Definition bmem (p : bytes) (l : list bytes) : bool := existsb (bytes_eqb p) l.
Definition bdrop (p : bytes) (l : list bytes) : list bytes := filter (fun q => negb (bytes_eqb p q)) l.

(* the fan-out ends when nobody is left *)
Definition fan (l : cline) (todo : list bytes) : lphase :=
  match todo with [] => LIdle | _ => LFan l todo end.

Definition cinit (names : list bytes) : cstate :=
  mkcs false LIdle 0 (map (fun p => (p, mkvm None [])) names) [].

Definition cstep (cs : cstate) (a : act) : option cstate :=
  match a with
  | ASend l =>
      match cs_phase cs, cs_closed cs with
      | LIdle, false =>
          Some (mkcs false (fan l (map fst (cs_vms cs))) (N.succ (cs_lines cs)) (cs_vms cs) (cs_sent cs ++ [l]))
      | _, _ => None          (* the loader is not receiving / send on a closed channel *)
      end
  | AClose =>
      if cs_closed cs then None
      else Some (mkcs true (cs_phase cs) (cs_lines cs) (cs_vms cs) (cs_sent cs))
  | AHand p =>
      match cs_phase cs, blookup p (cs_vms cs) with
      | LFan l todo, Some (mkvm None dn) =>
          if bmem p todo
          then Some (mkcs (cs_closed cs) (fan l (bdrop p todo)) (cs_lines cs)
                          (bupdate p (mkvm (Some l) dn) (cs_vms cs)) (cs_sent cs))
          else None
      | _, _ => None
      end
  | AFinish p =>
      match blookup p (cs_vms cs) with
      | Some (mkvm (Some l) dn) =>
          Some (mkcs (cs_closed cs) (cs_phase cs) (cs_lines cs)
                     (bupdate p (mkvm None (dn ++ [l])) (cs_vms cs)) (cs_sent cs))
      | _ => None
      end
  | ASee =>
      match cs_phase cs, cs_closed cs with
      | LIdle, true => Some (mkcs true LDone (cs_lines cs) (cs_vms cs) (cs_sent cs))
      | _, _ => None
      end
  end.

Fixpoint crun (cs : cstate) (acts : list act) : option cstate :=
  match acts with
  | [] => Some cs
  | a :: r => match cstep cs a with Some cs1 => crun cs1 r | None => None end
  end.

(* every state on the way (for the correspondence) *)
Fixpoint ctrace (cs : cstate) (acts : list act) : option (list cstate) :=
  match acts with
  | [] => Some []
  | a :: r =>
      match cstep cs a with
      | Some cs1 => match ctrace cs1 r with Some t => Some (cs1 :: t) | None => None end
      | None => None
      end
  end.

(* shutdown is complete: the loader's goroutine and every VM's have returned
   (Runtime's wait group is released) *)
Definition idle_vm (pv : bytes * vmst) : bool :=
  match vm_busy (snd pv) with None => true | Some _ => false end.
Definition finished (cs : cstate) : bool :=
  match cs_phase cs with LDone => forallb idle_vm (cs_vms cs) | _ => false end.

(* the lines the tailer sent in a history *)
Fixpoint sends (acts : list act) : list cline :=
  match acts with
  | [] => []
  | ASend l :: r => l :: sends r
  | _ :: r => sends r
  end.

Definition done_of (cs : cstate) (p : bytes) : list cline :=
  match blookup p (cs_vms cs) with Some v => vm_done v | None => [] end.

(* ---- the effect on the loader state of Run/Loader.v ---- *)
Definition has_handle (px : bytes * pstate) : bool :=
  match ps_handle (snd px) with Some _ => true | None => false end.
(* r.handles: the programs with a running version *)
Definition live (st : state) : list bytes := map fst (filter has_handle (st_progs st)).

Section Settle.
Variable vmstep : bytes -> N -> N -> list effect.

Definition run_lines (p : bytes) (x : pstate) (ls : list cline) : pstate :=
  fold_left (fun y l => line_prog vmstep p y (fst l) (snd l)) ls x.

(* every VM's executed lines applied to its program's state, lines_total added *)
Definition settle (st : state) (cs : cstate) : state :=
  mkst (st_index st)
       (map (fun px => (fst px, run_lines (fst px) (snd px) (done_of cs (fst px)))) (st_progs st))
       (st_lines st + cs_lines cs).

(* the same lines through the sequential fan-out of Run/Loader.v *)
Definition deliver_lines (st : state) (ls : list cline) : state :=
  fold_left (fun s l => line vmstep s (fst l) (snd l)) ls st.
End Settle.

Definition oline (l : cline) : op := OLine (fst l) (snd l).

(* ---- two canonical histories, for the correspondence of runs whose exact
   interleaving the harness cannot observe ---- *)
Definition serve (names : list bytes) : list act := flat_map (fun p => [AHand p; AFinish p]) names.

(* the loader is parked in its receive when the channel is closed *)
Definition sched_late (names : list bytes) (ls : list cline) : list act :=
  flat_map (fun l => ASend l :: serve names) ls ++ [AClose; ASee].

(* the channel is closed right after the last send returned: the loader still
   holds the last line out to every program *)
Definition sched_early (names : list bytes) (ls : list cline) : list act :=
  match rev ls with
  | [] => [AClose; ASee]
  | last :: r =>
      flat_map (fun l => ASend l :: serve names) (rev r) ++ ASend last :: AClose :: serve names ++ [ASee]
  end.
