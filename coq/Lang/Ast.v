(* Typed abstract syntax of mtail programs (core form).

   This is the shape a program has after the checker: promotions and
   conversions are explicit [EConv] nodes, metric / pattern / string references
   are indices into the object tables (declaration order; code-generation walk
   order), decorators are already inlined ([next] replaced by the decorated
   block).  The harness produces such terms on two sides:
   - the generator's INTENDED tree, typed by docs/Language.md (capture group
     (\d+) is Int, (\d+\.\d+) Float, anything else String; arithmetic promotes
     Int to Float; comparisons promote to the common type);
   - the tree the real checker produced, dumped through the exported ast/types
     API.
   [Lang/RefSem.v] gives it a meaning, [Lang/Codegen.v] compiles it.

   stmt/block and expr/exprs are MUTUAL inductives (not [list stmt] nested in
   [stmt]): the interpreters and compilers are then plain [Fixpoint ... with].
   Executable definitions only. *)
From V Require Export Base.Bytes Base.Int64.
Local Open Scope Z_scope.

(* byte strings are written by the harness as (length, big-endian number): Coq
   reads one hexadecimal numeral much faster than a list of small numbers *)
Fixpoint bz_aux (n : nat) (x : N) (acc : bytes) : bytes :=
  match n with
  | O => acc
  | S n' => bz_aux n' (N.shiftr x 8) (N.land x 255 :: acc)
  end.
Definition bz (n : nat) (x : N) : bytes := bz_aux n x [].

Inductive ty := TInt | TFloat | TStr | TBool.

Definition ty_eqb (a b : ty) : bool :=
  match a, b with
  | TInt, TInt | TFloat, TFloat | TStr, TStr | TBool, TBool => true
  | _, _ => false
  end.

Inductive arith := AAdd | ASub | AMul | ADiv | AMod | APow.
Inductive bitop := BAnd | BOr | BXor | BShl | BShr.
Inductive cmpop := CLt | CGt | CLe | CGe | CEq | CNe.

Inductive expr :=
| EInt (z : Z)
| EFloat (b : N)                            (* float64 as its bit pattern *)
| EStr (sid : N) (s : bytes)                (* sid = index in the string table *)
| ECap (pid grp : N) (t : ty)               (* capture group [grp] of pattern [pid], as type t *)
| EConv (from to : ty) (e : expr)           (* promotion / int() float() string() / key conversion *)
| EArith (op : arith) (t : ty) (a b : expr) (* operands of type t (TInt or TFloat) *)
| EBit (op : bitop) (a b : expr)
| ENeg (a : expr)                           (* ~a *)
| ECmp (op : cmpop) (t : ty) (typed : bool) (a b : expr)
    (* operands of the common type t; typed = the compiler selects icmp/fcmp/scmp
       (the checker knows the left operand's type as a constant), else the generic cmp *)
| EAnd (a b : expr)
| EOr (a b : expr)
| EMatch (pid : N)                          (* /re/ against the input line *)
| ESMatch (neg : bool) (a : expr) (pid : N) (* a =~ /re/, a !~ /re/ *)
| EGet (m : N) (ks : exprs)                 (* metric read m[k1]...[kn] *)
| ELen (a : expr)
| ETolower (a : expr)
| EStrtol (a base : expr)
| ESubst (old new val : expr)
| ERsubst (pid : N) (new val : expr)        (* subst(/re/, new, val) *)
| ETimestamp
| EGetfilename
| EIncr (dec : bool) (m : N) (ks : exprs)   (* m[ks]++ / m[ks]-- used as a value: the new value *)
with exprs :=
| XNil
| XCons (e : expr) (r : exprs).

Inductive stmt :=
| SInc (m : N) (ks : exprs)
| SDec (m : N) (ks : exprs)
| SSet (t : ty) (m : N) (ks : exprs) (e : expr)     (* m[ks] = e,  t = type of m *)
| SAddTo (t : ty) (m : N) (ks : exprs) (e : expr)   (* m[ks] += e *)
| SSettime (e : expr)
| SStrptime (e : expr) (sid : N) (layout : bytes)
| SCond (c : expr) (th : block)
| SCondElse (c : expr) (th el : block)
| SOtherwise (th : block)
| SDel (m : N) (ks : exprs)
| SExpire (m : N) (ks : exprs) (d : Z)              (* del m[ks] after d (ns) *)
| SStop
with block :=
| BNil
| BCons (s : stmt) (r : block).

Inductive kind := MCounter | MGauge | MTimer | MText.

Record mdecl := mkmdecl { md_kind : kind; md_ty : ty; md_nkeys : N }.

Record prog := mkprog {
  p_decls : list mdecl;
  p_body : block;
  p_res : list bytes;      (* regular expressions, by pid *)
  p_strs : list bytes      (* string literals, by sid *)
}.

Fixpoint exprs_len (x : exprs) : nat :=
  match x with XNil => O | XCons _ r => S (exprs_len r) end.

Fixpoint block_app (a b : block) : block :=
  match a with BNil => b | BCons s r => BCons s (block_app r b) end.

(* ---- the guard under which the VM's single "matched" flag coincides with
   the reference's block-local one: no [otherwise] at the top level of an else
   block, and no [otherwise] later in a block than a conditional with an else *)

Definition is_oth (s : stmt) : bool := match s with SOtherwise _ => true | _ => false end.
Definition has_else (s : stmt) : bool := match s with SCondElse _ _ _ => true | _ => false end.
Fixpoint has_oth (b : block) : bool :=
  match b with BNil => false | BCons s r => is_oth s || has_oth r end.

Fixpoint ok_stmt (s : stmt) : bool :=
  match s with
  | SCond _ t => ok_block t false
  | SCondElse _ t e => ok_block t false && negb (has_oth e) && ok_block e false
  | SOtherwise t => ok_block t false
  | _ => true
  end
with ok_block (b : block) (seen_else : bool) : bool :=
  match b with
  | BNil => true
  | BCons s r => (if is_oth s then negb seen_else else true) && ok_stmt s
                 && ok_block r (seen_else || has_else s)
  end.

Definition scoped_otherwise (p : prog) : bool := ok_block (p_body p) false.
