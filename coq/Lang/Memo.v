(* The VM's strptime memo: github.com/golang/groupcache/lru as used by
   internal/runtime/vm/vm.go (timeMemos = lru.New(64)).

   lru.Cache is a doubly linked list (front = most recently used) plus a map
   from key to list element.  The model is the list alone, front first:
     Get k  : on a hit the entry moves to the front and its value is returned;
     Add k v: an existing key is overwritten and moved to the front; a new key
              is pushed at the front and, when the length then exceeds
              MaxEntries (and MaxEntries <> 0), the back element is removed.
   Definitions only; proofs are in Proofs/MemoProofs.v. *)
From Coq Require Import List Arith.
From V Require Export Base.Bytes.
Import ListNotations.

Section LRU.
  Context {K V : Type}.
  Variable keqb : K -> K -> bool.

  Definition lru := list (K * V).

  Fixpoint lru_find (k : K) (l : lru) : option V :=
    match l with
    | [] => None
    | (k', v) :: r => if keqb k k' then Some v else lru_find k r
    end.

  Fixpoint lru_remove (k : K) (l : lru) : lru :=
    match l with
    | [] => []
    | (k', v) :: r => if keqb k k' then r else (k', v) :: lru_remove k r
    end.

  (* lru.Cache.Get *)
  Definition lru_get (k : K) (l : lru) : option V * lru :=
    match lru_find k l with
    | Some v => (Some v, (k, v) :: lru_remove k l)
    | None => (None, l)
    end.

  (* lru.Cache.Add with MaxEntries = cap (0 = unbounded) *)
  Definition lru_add (cap : nat) (k : K) (v : V) (l : lru) : lru :=
    match lru_find k l with
    | Some _ => (k, v) :: lru_remove k l
    | None =>
        let l' := (k, v) :: l in
        if negb (Nat.eqb cap 0) && Nat.ltb cap (length l') then removelast l' else l'
    end.
End LRU.

(* vm.New: lru.New(64) *)
Definition memo_cap : nat := 64.

(* memo key after the repair: (layout, value); before: the value alone *)
Definition key2 := (bytes * bytes)%type.
Definition key2_eqb (a b : key2) : bool :=
  bytes_eqb (fst a) (fst b) && bytes_eqb (snd a) (snd b).
