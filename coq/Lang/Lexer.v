(* Model of internal/runtime/compiler/parser/lexer.go.
   Executable definitions only; proofs are in Proofs/LexerProofs.v.

   Layers:
   - [decode]: the rune stream bufio.Reader.ReadRune delivers for a byte string
     (utf8.DecodeRune: any ill-formed or truncated sequence is U+FFFD, width 1);
   - primitives [next backup accept skip ignore emit errorf] with the same field
     updates as the Go methods of the same name on (rune, width, line, col,
     startcol, text);
   - one function per Go state function ([lex_prog], [lex_comment], ...); their
     loops are structurally recursive on the remaining input, which is passed
     beside the state (always called with [inp s]);
   - [run]: the loop of NextToken, counting state-function calls; [reads]
     counts calls of next() (ghost);
   - [lex]: run with fuel 5*|runes|+3, shown sufficient in Proofs/LexerProofs.v.

   unicode.IsLetter/IsDigit/IsSpace are parameters of the Section ([cls]: bit 0
   letter, bit 1 digit, bit 2 space), consulted only on runes >= 0 (the harness
   asserts on every run that all three are false on Go's eof value -1).
   The InRegex flag is written by the parser; the only production that does so
   is `mark_pos DIV in_regex REGEX DIV`, i.e. directly after a DIV token was
   delivered.  The environment is therefore a list [rx] of decisions, one per
   DIV token. *)
From V Require Import Base.Bytes.
From Coq Require Import String Ascii.
Local Open Scope Z_scope.

(* ------------------------------------------------------------------ *)
(* UTF-8 decoding as done by bufio.Reader.ReadRune                      *)

Definition item := (Z * Z)%type.              (* rune, width in bytes *)
Definition rune_error : item := (65533, 1).
Definition inr (lo hi b : N) : bool := (N.leb lo b && N.leb b hi)%bool.
Definition zb (b : N) : Z := Z.of_N b.

Fixpoint decode (l : bytes) : list item :=
  match l with
  | [] => []
  | b0 :: t0 =>
    if N.ltb b0 128 then (zb b0, 1) :: decode t0 else
    match t0 with
    | [] => rune_error :: decode t0
    | b1 :: t1 =>
      if inr 194 223 b0 then
        if inr 128 191 b1
        then (zb (N.modulo b0 32) * 64 + zb (N.modulo b1 64), 2) :: decode t1
        else rune_error :: decode t0
      else
      let lo1 := if N.eqb b0 224 then 160%N else if N.eqb b0 240 then 144%N else 128%N in
      let hi1 := if N.eqb b0 237 then 159%N else if N.eqb b0 244 then 143%N else 191%N in
      if negb (inr 224 244 b0) || negb (inr lo1 hi1 b1) then rune_error :: decode t0 else
      match t1 with
      | [] => rune_error :: decode t0
      | b2 :: t2 =>
        if negb (inr 128 191 b2) then rune_error :: decode t0 else
        if inr 224 239 b0
        then (zb (N.modulo b0 16) * 4096 + zb (N.modulo b1 64) * 64 + zb (N.modulo b2 64), 3) :: decode t2
        else
        match t2 with
        | [] => rune_error :: decode t0
        | b3 :: t3 =>
          if negb (inr 128 191 b3) then rune_error :: decode t0 else
          (zb (N.modulo b0 8) * 262144 + zb (N.modulo b1 64) * 4096
           + zb (N.modulo b2 64) * 64 + zb (N.modulo b3 64), 4) :: decode t3
        end
      end
    end
  end.

(* ------------------------------------------------------------------ *)
(* tokens                                                               *)

Inductive errk := EUnexpected | EUntermString | EUntermRegex.

Inductive kind :=
| INVALID (e : errk)
| COUNTER | GAUGE | TIMER | TEXT | HISTOGRAM
| AFTER | AS | BY | CONST | HIDDEN | DEF | DEL | NEXT | OTHERWISE | ELSE | STOP | BUCKETS | LIMIT
| BUILTIN | REGEX | STRING | CAPREF | CAPREF_NAMED | ID | DECO
| INTLITERAL | FLOATLITERAL | DURATIONLITERAL
| INC | DEC | DIV | MOD | MUL | MINUS | PLUS | POW | SHL | SHR
| LT | GT | LE | GE | EQ | NE | BITAND | XOR | BITOR | NOT | AND | OR
| ADD_ASSIGN | ASSIGN | MATCH | NOT_MATCH
| LCURLY | RCURLY | LPAREN | RPAREN | LSQUARE | RSQUARE | COMMA | NL | EOF.

Definition is_invalid (k : kind) : bool := match k with INVALID _ => true | _ => false end.

(* Spelling as runes.  For INVALID the Go spelling is a formatted message; the
   model keeps its variable part: the offending rune for EUnexpected, the text
   lexed so far for the two "Unterminated" messages. *)
Record tok := mk_tok { t_kind : kind; t_text : list Z; t_line : Z; t_sc : Z; t_ec : Z }.

Definition runes (x : string) : list Z :=
  map (fun a => Z.of_N (N_of_ascii a)) (list_ascii_of_string x).

Fixpoint zs_eqb (a b : list Z) : bool :=
  match a, b with
  | [], [] => true
  | x :: a', y :: b' => Z.eqb x y && zs_eqb a' b'
  | _, _ => false
  end.

Definition keywords : list (list Z * kind) :=
  [ (runes "after", AFTER); (runes "as", AS); (runes "buckets", BUCKETS); (runes "by", BY);
    (runes "const", CONST); (runes "counter", COUNTER); (runes "def", DEF); (runes "del", DEL);
    (runes "else", ELSE); (runes "gauge", GAUGE); (runes "hidden", HIDDEN);
    (runes "histogram", HISTOGRAM); (runes "limit", LIMIT); (runes "next", NEXT);
    (runes "otherwise", OTHERWISE); (runes "stop", STOP); (runes "text", TEXT);
    (runes "timer", TIMER) ].

Definition builtins : list (list Z) :=
  [ runes "bool"; runes "float"; runes "getfilename"; runes "int"; runes "len"; runes "settime";
    runes "string"; runes "strptime"; runes "strtol"; runes "subst"; runes "timestamp";
    runes "tolower" ].

Fixpoint assoc_kind (x : list Z) (l : list (list Z * kind)) : option kind :=
  match l with
  | [] => None
  | (k, v) :: r => if zs_eqb x k then Some v else assoc_kind x r
  end.

Definition ident_kind (x : list Z) : kind :=
  match assoc_kind x keywords with
  | Some k => k
  | None => if existsb (zs_eqb x) builtins then BUILTIN else ID
  end.

(* ------------------------------------------------------------------ *)
(* lexer state                                                          *)

Definition eof : Z := -1.
Definition SYMNL : Z := 9252.   (* U+2424, mapped to eof by next() *)

Record st := mk_st {
  inp : list item;      (* what the bufio.Reader will still deliver *)
  cur_r : Z;            (* l.rune *)
  cur_w : Z;            (* l.width *)
  line : Z;
  col : Z;
  startcol : Z;
  text : list Z;        (* l.text, most recent rune first *)
  inregex : bool;       (* l.InRegex *)
  rx : list bool;       (* environment: InRegex decision after each DIV token *)
  out : list tok;       (* tokens sent on l.tokens, most recent first *)
  reads : Z             (* ghost: number of next() calls so far *)
}.

Definition init (items : list item) (rxs : list bool) : st :=
  mk_st items 0 0 0 0 0 [] false rxs [] 0.

Inductive mode :=
| MProg | MComment | MNumeric | MDuration | MString | MCapref | MDeco | MIdent | MRegex | MDone.

Section Lexer.
Variable cls : Z -> N.   (* bit 0: unicode.IsLetter, bit 1: IsDigit, bit 2: IsSpace *)

Definition isAlpha (r : Z) : bool := (0 <=? r) && N.testbit (cls r) 0.
Definition isDigit (r : Z) : bool := (0 <=? r) && N.testbit (cls r) 1.
Definition isSpace (r : Z) : bool := (0 <=? r) && N.testbit (cls r) 2.
Definition isAlnum (r : Z) : bool := isAlpha r || isDigit r.
Definition isDurationSuffix (r : Z) : bool :=
  (r =? 115) || (r =? 109) || (r =? 104) || (r =? 100).       (* s m h d *)

(* ---- primitives ---- *)

Definition next (s : st) : st :=
  match inp s with
  | [] => mk_st [] eof 1 (line s) (col s) (startcol s) (text s) (inregex s) (rx s) (out s) (reads s + 1)
  | (r, w) :: tl =>
      mk_st tl (if r =? SYMNL then eof else r) w (line s) (col s) (startcol s) (text s)
            (inregex s) (rx s) (out s) (reads s + 1)
  end.

Definition backup (s : st) : st :=
  if cur_r s =? eof
  then mk_st (inp s) (cur_r s) 0 (line s) (col s) (startcol s) (text s) (inregex s) (rx s) (out s) (reads s)
  else mk_st ((cur_r s, cur_w s) :: inp s) (cur_r s) 0 (line s) (col s) (startcol s) (text s)
             (inregex s) (rx s) (out s) (reads s).

Definition step_cursor (s : st) : st :=
  if cur_r s =? 10
  then mk_st (inp s) (cur_r s) (cur_w s) (line s + 1) 0 (startcol s) (text s) (inregex s) (rx s) (out s) (reads s)
  else mk_st (inp s) (cur_r s) (cur_w s) (line s) (col s + cur_w s) (startcol s) (text s)
             (inregex s) (rx s) (out s) (reads s).

Definition push_text (r : Z) (s : st) : st :=
  mk_st (inp s) (cur_r s) (cur_w s) (line s) (col s) (startcol s) (r :: text s) (inregex s) (rx s) (out s) (reads s).

Definition accept (s : st) : st := step_cursor (push_text (cur_r s) s).
Definition skip (s : st) : st := step_cursor s.
Definition ignore (s : st) : st :=
  let s := step_cursor s in
  mk_st (inp s) (cur_r s) (cur_w s) (line s) (col s) (col s) (text s) (inregex s) (rx s) (out s) (reads s).

(* emit / errorf: send a token, reset text, startcol := col *)
Definition send (k : kind) (sp : list Z) (s : st) : st :=
  mk_st (inp s) (cur_r s) (cur_w s) (line s) (col s) (col s) [] (inregex s) (rx s)
        (mk_tok k sp (line s) (startcol s) (col s - 1) :: out s) (reads s).

Definition emit (k : kind) (s : st) : st := send k (rev (text s)) s.
Definition errorf_unexpected (r : Z) (s : st) : st := send (INVALID EUnexpected) [r] s.
Definition errorf_unterm (e : errk) (s : st) : st := send (INVALID e) (rev (text s)) s.

Definition set_inregex (b : bool) (s : st) : st :=
  mk_st (inp s) (cur_r s) (cur_w s) (line s) (col s) (startcol s) (text s) b (rx s) (out s) (reads s).

(* the parser may raise InRegex once a DIV token has been delivered *)
Definition after_div (s : st) : st :=
  match rx s with
  | [] => s
  | b :: r => mk_st (inp s) (cur_r s) (cur_w s) (line s) (col s) (startcol s) (text s) b r (out s) (reads s)
  end.

(* ---- loops ---- *)

(* r := next(); for p(r) { accept(); r = next() }  -- the rune that stopped the
   loop stays current *)
Fixpoint take_while (p : Z -> bool) (l : list item) (s : st) : st :=
  match l with
  | [] => next s
  | _ :: tl => let s1 := next s in
               if p (cur_r s1) then take_while p tl (accept s1) else s1
  end.

(* for p(r) { accept(); r = next() } on an already-read rune *)
Definition take_while_cur (p : Z -> bool) (s : st) : st :=
  if p (cur_r s) then let s1 := accept s in take_while p (inp s1) s1 else s.

Fixpoint comment_loop (l : list item) (s : st) : st :=
  match l with
  | [] => next s
  | _ :: tl => let s1 := next s in
               if cur_r s1 =? 10 then skip s1
               else if cur_r s1 =? eof then s1
               else comment_loop tl (ignore s1)
  end.

(* the Loop of lexQuotedString (quote = 34, unterminated = EUntermString, the
   closing quote is skipped and STRING emitted) and of lexRegex (quote = 47,
   EUntermRegex, the closing slash is backed up and REGEX emitted) *)
Definition close_quoted (is_regex : bool) (s : st) : st :=
  if is_regex then emit REGEX (backup s) else emit STRING (skip s).
Definition unterm (is_regex : bool) (s : st) : st :=
  errorf_unterm (if is_regex then EUntermRegex else EUntermString) s.

Fixpoint quoted_loop (is_regex : bool) (q : Z) (l : list item) (s : st) : st :=
  match l with
  | [] => unterm is_regex (next s)
  | _ :: tl =>
      let s1 := next s in
      let r := cur_r s1 in
      if r =? 92 then
        let s2 := skip s1 in
        match tl with
        | [] => unterm is_regex (next s2)
        | _ :: tl2 =>
            let s3 := next s2 in
            let r2 := cur_r s3 in
            if negb (r2 =? eof) && negb (r2 =? 10)
            then quoted_loop is_regex q tl2 (accept (if r2 =? q then s3 else push_text 92 s3))
            else unterm is_regex s3
        end
      else if (r =? eof) || (r =? 10) then unterm is_regex s1
      else if r =? q then close_quoted is_regex s1
      else quoted_loop is_regex q tl (accept s1)
  end.

(* ---- state functions: each returns the next state function and the state ---- *)

(* `l.accept(); switch l.next() { case a: accept, emit ka ... default: backup, emit kd }` *)
Fixpoint alt_kind (r : Z) (alts : list (Z * kind)) : option kind :=
  match alts with
  | [] => None
  | (c, k) :: rest => if r =? c then Some k else alt_kind r rest
  end.
Definition two (alts : list (Z * kind)) (dflt : kind) (s : st) : st :=
  let s1 := next (accept s) in
  match alt_kind (cur_r s1) alts with
  | Some k => emit k (accept s1)
  | None => emit dflt (backup s1)
  end.

Definition one (k : kind) (s : st) : mode * st := (MProg, emit k (accept s)).

Definition lex_prog (s0 : st) : mode * st :=
  if inregex s0 then (MRegex, s0) else
  let s := next s0 in
  let r := cur_r s in
  if r =? 10 then one NL s
  else if r =? 35 then (MComment, s)
  else if isSpace r then (MProg, ignore s)
  else if r =? 123 then one LCURLY s
  else if r =? 125 then one RCURLY s
  else if r =? 40 then one LPAREN s
  else if r =? 41 then one RPAREN s
  else if r =? 91 then one LSQUARE s
  else if r =? 93 then one RSQUARE s
  else if r =? 44 then one COMMA s
  else if r =? 45 then                                   (* - *)
    let s1 := next (accept s) in
    if cur_r s1 =? 45 then (MProg, emit DEC (accept s1))
    else if isDigit (cur_r s1) then (MNumeric, backup s1)
    else (MProg, emit MINUS (backup s1))
  else if r =? 43 then (MProg, two [(43, INC); (61, ADD_ASSIGN)] PLUS s)
  else if r =? 42 then (MProg, two [(42, POW)] MUL s)
  else if r =? 61 then (MProg, two [(61, EQ); (126, MATCH)] ASSIGN s)
  else if r =? 60 then (MProg, two [(61, LE); (60, SHL)] LT s)
  else if r =? 62 then (MProg, two [(61, GE); (62, SHR)] GT s)
  else if r =? 33 then                                   (* ! *)
    let s1 := next (accept s) in
    if cur_r s1 =? 61 then (MProg, emit NE (accept s1))
    else if cur_r s1 =? 126 then (MProg, emit NOT_MATCH (accept s1))
    else (MProg, errorf_unexpected r (backup s1))
  else if r =? 47 then (MProg, after_div (emit DIV (accept s)))
  else if r =? 37 then one MOD s
  else if r =? 38 then (MProg, two [(38, AND)] BITAND s)
  else if r =? 124 then (MProg, two [(124, OR)] BITOR s)
  else if r =? 94 then one XOR s
  else if r =? 126 then one NOT s
  else if r =? 34 then (MString, s)
  else if r =? 36 then (MCapref, s)
  else if r =? 64 then (MDeco, s)
  else if isDigit r then (MNumeric, backup s)
  else if isAlpha r then (MIdent, s)
  else if r =? eof then (MDone, emit EOF (skip s))
  else if r =? 46 then (MNumeric, backup s)
  else (MProg, errorf_unexpected r (accept s)).

Definition lex_comment (s : st) : mode * st :=
  let s := ignore s in (MProg, comment_loop (inp s) s).

Definition lex_numeric (s : st) : mode * st :=
  let s := take_while isDigit (inp s) s in
  let r := cur_r s in
  if negb ((r =? 46) || (r =? 69) || (r =? 101) || isDurationSuffix r)
  then (MProg, emit INTLITERAL (backup s))
  else
    let s := if r =? 46 then let s1 := accept s in take_while isDigit (inp s1) s1 else s in
    let r := cur_r s in
    let s :=
      if (r =? 101) || (r =? 69) then
        let s1 := next (accept s) in
        let s2 := if (cur_r s1 =? 43) || (cur_r s1 =? 45) then next (accept s1) else s1 in
        take_while_cur isDigit s2
      else s in
    if isDurationSuffix (cur_r s) then (MDuration, accept s)
    else (MProg, emit FLOATLITERAL (backup s)).

Definition dur_char (r : Z) : bool :=
  isDigit r || (r =? 46) || (r =? 45) || (r =? 43) || isDurationSuffix r.

Definition lex_duration (s : st) : mode * st :=
  (MProg, emit DURATIONLITERAL (backup (take_while dur_char (inp s) s))).

Definition lex_string (s : st) : mode * st :=
  let s := skip s in (MProg, quoted_loop false 34 (inp s) s).

Definition lex_regex (s : st) : mode * st :=
  (MProg, set_inregex false (quoted_loop true 47 (inp s) s)).

Definition name_char (r : Z) : bool := isAlnum r || (r =? 95).

Definition lex_capref (s : st) : mode * st :=
  let s := skip s in
  let s := backup (take_while name_char (inp s) s) in
  let named := existsb (fun r => negb (isDigit r)) (text s) in
  (MProg, emit (if named then CAPREF_NAMED else CAPREF) s).

Definition lex_deco (s : st) : mode * st :=
  let s := skip s in
  (MProg, emit DECO (backup (take_while name_char (inp s) s))).

Definition lex_ident (s : st) : mode * st :=
  let s := accept s in
  let s := backup (take_while name_char (inp s) s) in
  (MProg, emit (ident_kind (rev (text s))) s).

Definition step (m : mode) (s : st) : mode * st :=
  match m with
  | MProg => lex_prog s
  | MComment => lex_comment s
  | MNumeric => lex_numeric s
  | MDuration => lex_duration s
  | MString => lex_string s
  | MCapref => lex_capref s
  | MDeco => lex_deco s
  | MIdent => lex_ident s
  | MRegex => lex_regex s
  | MDone => (MDone, s)
  end.

(* NextToken's loop, flattened over the whole input: [calls] counts executed
   state functions.  Stops in MDone (Go: state = nil after EOF was emitted). *)
Fixpoint run (fuel : nat) (m : mode) (s : st) (calls : Z) : mode * st * Z :=
  match fuel with
  | O => (m, s, calls)
  | S f =>
      match m with
      | MDone => (m, s, calls)
      | _ => let (m', s') := step m s in run f m' s' (calls + 1)
      end
  end.

Definition fuel_for (items : list item) : nat := (5 * List.length items + 3)%nat.

Record lexed := mk_lexed { l_done : bool; l_toks : list tok; l_reads : Z; l_calls : Z }.

Definition lex_items (rxs : list bool) (items : list item) : lexed :=
  let '(m, s, c) := run (fuel_for items) MProg (init items rxs) 0 in
  mk_lexed (match m with MDone => true | _ => false end) (rev (out s)) (reads s) c.

Definition lex (rxs : list bool) (src : bytes) : lexed := lex_items rxs (decode src).

End Lexer.

(* ------------------------------------------------------------------ *)
(* driver.go: parser.Lex turns a token into a goyacc token code and may add an
   error; Parse turns the goyacc outcome into (ast, error).               *)

Section Driver.
Variable A : Type.                    (* ast.Node *)
Variable parse_int_ok parse_float_ok parse_dur_ok : list Z -> bool.   (* strconv / time *)

Inductive perr := PErrToken (t : tok) | PErrNumber (t : tok) | PErrSyntax (n : Z).

(* what Lex appends to p.errors for token t, and whether it hands INVALID to goyacc *)
Definition drv_lex (t : tok) : list perr * bool :=
  match t_kind t with
  | INVALID _ => ([PErrToken t], true)
  | INTLITERAL => if parse_int_ok (t_text t) then ([], false) else ([PErrNumber t], true)
  | FLOATLITERAL => if parse_float_ok (t_text t) then ([], false) else ([PErrNumber t], true)
  | DURATIONLITERAL => if parse_dur_ok (t_text t) then ([], false) else ([PErrNumber t], true)
  | _ => ([], false)
  end.

(* Parse: r := mtailParse(p); if r != 0 || p.errors != nil { return nil, p.errors };
   return p.root, nil.  A Go `error` holding an ErrorList is non-nil even when the
   list is empty, hence [option (list perr)]. *)
Definition parse_glue (r : Z) (errs : list perr) (root : A) : option A * option (list perr) :=
  if negb (r =? 0) || negb (match errs with [] => true | _ => false end)
  then (None, Some errs) else (Some root, None).

End Driver.

(* ------------------------------------------------------------------ *)
(* compiler.go: Compile                                                  *)

Section Glue.
Variables A O E : Type.                 (* ast.Node, *code.Object, compile error *)
Variable disable_opt : bool.
(* raw phase outcomes *)
Variable yacc : bytes -> Z * list E * A.          (* mtailParse result, p.errors, p.root *)
Variable opt_walk : A -> A * list E.               (* ast.Walk(optimiser), o.errors *)
Variable check_walk : A -> A * list E.             (* ast.Walk(checker), c.errors *)
Variable gen_walk : A -> O * list E.               (* ast.Walk(codegen)+writeJumps, c.errors *)

Definition nonempty {X} (l : list X) : bool := match l with [] => false | _ => true end.

(* each returns (value, err) with err : option = Go's `error` being non-nil *)
Definition g_parse (src : bytes) : option A * option (list E) :=
  let '(r, errs, root) := yacc src in
  if negb (r =? 0) || nonempty errs then (None, Some errs) else (Some root, None).
Definition g_optimise (a : A) : A * option (list E) :=
  let (a', errs) := opt_walk a in if nonempty errs then (a', Some errs) else (a', None).
Definition g_check (a : A) : A * option (list E) :=
  let (a', errs) := check_walk a in if nonempty errs then (a', Some errs) else (a', None).
Definition g_codegen (a : A) : option O * option (list E) :=
  let (o, errs) := gen_walk a in if nonempty errs then (None, Some errs) else (Some o, None).

(* func (c *Compiler) Compile: obj is the named result, nil until CodeGen *)
Definition compile (src : bytes) : option O * option (list E) :=
  match g_parse src with
  | (_, Some e) => (None, Some e)
  | (None, None) => (None, None)         (* unreachable: Parse returns a root with a nil error *)
  | (Some a, None) =>
    let opt1 := if disable_opt then (a, None) else g_optimise a in
    match opt1 with
    | (_, Some e) => (None, Some e)
    | (a1, None) =>
      match g_check a1 with
      | (_, Some e) => (None, Some e)
      | (a2, None) =>
        let opt2 := if disable_opt then (a2, None) else g_optimise a2 in
        match opt2 with
        | (_, Some e) => (None, Some e)
        | (a3, None) => g_codegen a3
        end
      end
    end
  end.

End Glue.
