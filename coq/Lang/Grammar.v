(* The expression productions of internal/runtime/compiler/parser/parser.y as an
   executable precedence-climbing parser over tokens (definitions only; proofs
   in Proofs/UnparseProofs.v).

   parser.y, lowest to highest binding:
     expr        : unary ASSIGN logical | unary ADD_ASSIGN logical | postfix     (statement level)
     logical     : (bitwise | match) { (&& | ||) (bitwise | match) }          level 1, left
     match       : primary (=~ | !~) (primary | pattern)                        level 2, operands primary
     bitwise     : rel { (& | BITOR | ^) rel }                                   level 3, left
     rel         : shift { (< > <= >= == !=) shift }                            level 4, left
     shift       : additive { (<< | >>) additive }                              level 5, left
     additive    : multiplicative { (+ | -) multiplicative }                    level 6, left
     multiplicative : unary { mul_op unary }, mul_op = MUL DIV MOD POW          level 7, left (one level!)
     unary       : postfix | ~ unary                                            level 8
     postfix     : primary { ++ | -- }                                          level 9
     primary     : literal | capref | id { [ args ] } | builtin ( [args] ) | ( logical )   level 10
   There is no parenthesis node in the AST: `LPAREN logical_expr RPAREN { $$ = $2 }`.

   Tokens here are the lexer's tokens with DIV REGEX DIV merged into one regex
   atom and NL dropped.  Every binary operator o has a level [lvl o] and the
   minimal syntactic level of its operands [lreq o], [rreq o]; the match
   operators fit the same scheme with both operands primary.  The parser accepts
   a superset of goyacc's language (e.g. `~a` as a match operand); what matters
   for C23 is that it returns the tree goyacc returns on the formatter's output,
   which harness/c23 checks against the real parser. *)
From V Require Import Base.Bytes.

Inductive atom :=
| AInt (z : Z) | AFloat (bits : N) | AStr (s : bytes)
| ACapref (named : bool) (s : bytes) | ARegex (s : bytes).

Inductive binop :=
| OAnd | OOr | OMatch | ONotMatch | OBitAnd | OBitOr | OXor
| OLt | OGt | OLe | OGe | OEq | ONe | OShl | OShr | OPlus | OMinus | OMul | ODiv | OMod | OPow.

Inductive tk :=
| TAtom (a : atom) | TId (x : bytes) | TBuiltin (f : bytes) | TOp (o : binop)
| TNot | TPost (inc : bool) | TAssign (add : bool)
| TLP | TRP | TLB | TRB | TComma.

Inductive expr :=
| Atom (a : atom)
| Id (x : bytes) (idx : exprs)          (* ast.IndexedExpr over an ast.IDTerm *)
| Call (f : bytes) (args : exprs)       (* ast.BuiltinExpr *)
| Bin (o : binop) (l r : expr)          (* ast.BinaryExpr *)
| Not (e : expr)                        (* ast.UnaryExpr NOT *)
| Post (inc : bool) (e : expr)          (* ast.UnaryExpr INC / DEC *)
with exprs := ENil | ECons (e : expr) (r : exprs).

(* an expression statement *)
Inductive estmt := SExpr (e : expr) | SAssign (add : bool) (l r : expr).

Definition lvl (o : binop) : nat :=
  match o with
  | OAnd | OOr => 1
  | OMatch | ONotMatch => 2
  | OBitAnd | OBitOr | OXor => 3
  | OLt | OGt | OLe | OGe | OEq | ONe => 4
  | OShl | OShr => 5
  | OPlus | OMinus => 6
  | OMul | ODiv | OMod | OPow => 7
  end.
Definition is_match (o : binop) : bool := match o with OMatch | ONotMatch => true | _ => false end.
Definition lreq (o : binop) : nat := if is_match o then 10 else lvl o.
Definition rreq (o : binop) : nat := if is_match o then 10 else S (lvl o).

Fixpoint eapp (a b : exprs) : exprs :=
  match a with ENil => b | ECons e r => ECons e (eapp r b) end.

(* postfix_expr : postfix_expr postfix_op *)
Fixpoint postloop (e : expr) (lv : nat) (ts : list tk) : expr * nat * list tk :=
  match ts with
  | TPost b :: r => postloop (Post b e) 9 r
  | _ => (e, lv, ts)
  end.

(* pattern_expr as the right operand of =~ / !~ :
     concat_expr : regex_pattern | concat_expr PLUS regex_pattern | concat_expr PLUS id_expr
   taken greedily (it cannot be parenthesised: a regex is not a primary_expr) *)
Fixpoint pconcat (acc : expr) (ts : list tk) : expr * list tk :=
  match ts with
  | TOp OPlus :: TAtom (ARegex s) :: r => pconcat (Bin OPlus acc (Atom (ARegex s))) r
  | TOp OPlus :: TId x :: r => pconcat (Bin OPlus acc (Id x ENil)) r
  | _ => (acc, ts)
  end.

(* the right operand of operator o *)
Definition rhs_pattern (o : binop) (ts : list tk) : option (expr * list tk) :=
  if is_match o then
    match ts with
    | TAtom (ARegex s) :: r => Some (pconcat (Atom (ARegex s)) r)
    | _ => None
    end
  else None.

(* [pexp f min ts]: an expression all of whose top-level operators have level
   >= min.  [ploop] carries the tree built so far and its syntactic level. *)
Fixpoint pexp (f : nat) (min : nat) (ts : list tk) : option (expr * list tk) :=
  match f with
  | O => None
  | S f =>
      match punary f ts with
      | Some (e, lv, ts1) => ploop f min e lv ts1
      | None => None
      end
  end
with ploop (f : nat) (min : nat) (lhs : expr) (lv : nat) (ts : list tk) : option (expr * list tk) :=
  match f with
  | O => None
  | S f =>
      match ts with
      | TOp o :: ts' =>
          if Nat.leb min (lvl o) && Nat.leb (lreq o) lv then
            match (match rhs_pattern o ts' with
                   | Some x => Some x
                   | None => pexp f (rreq o) ts'
                   end) with
            | Some (rhs, ts'') => ploop f min (Bin o lhs rhs) (lvl o) ts''
            | None => None
            end
          else Some (lhs, ts)
      | _ => Some (lhs, ts)
      end
  end
with punary (f : nat) (ts : list tk) : option (expr * nat * list tk) :=
  match f with
  | O => None
  | S f =>
      match ts with
      | TNot :: ts' =>
          match punary f ts' with
          | Some (e, _, r) => Some (Not e, 8, r)
          | None => None
          end
      | _ =>
          match pprimary f ts with
          | Some (p, r) => Some (postloop p 10 r)
          | None => None
          end
      end
  end
with pprimary (f : nat) (ts : list tk) : option (expr * list tk) :=
  match f with
  | O => None
  | S f =>
      match ts with
      | TAtom a :: r => Some (Atom a, r)
      | TId x :: r => pidx f x ENil r
      | TBuiltin g :: TLP :: TRP :: r => Some (Call g ENil, r)
      | TBuiltin g :: TLP :: r =>
          match pargs f r with
          | Some (es, TRP :: r') => Some (Call g es, r')
          | _ => None
          end
      | TLP :: r =>
          match pexp f 1 r with
          | Some (e, TRP :: r') => Some (e, r')
          | _ => None
          end
      | _ => None
      end
  end
with pidx (f : nat) (x : bytes) (acc : exprs) (ts : list tk) : option (expr * list tk) :=
  match f with
  | O => None
  | S f =>
      match ts with
      | TLB :: r =>
          match pargs f r with
          | Some (es, TRB :: r') => pidx f x (eapp acc es) r'
          | _ => None
          end
      | _ => Some (Id x acc, ts)
      end
  end
with pargs (f : nat) (ts : list tk) : option (exprs * list tk) :=
  match f with
  | O => None
  | S f =>
      match pexp f 1 ts with
      | Some (e, TComma :: r) =>
          match pargs f r with
          | Some (es, r') => Some (ECons e es, r')
          | None => None
          end
      | Some (e, r) => Some (ECons e ENil, r)
      | None => None
      end
  end.

(* expr NL: assign_expr | postfix_expr (any logical expression is accepted where
   goyacc wants a postfix_expr; conditions are logical expressions) *)
Definition pstmt (f : nat) (ts : list tk) : option estmt :=
  match pexp f 1 ts with
  | Some (e, []) => Some (SExpr e)
  | _ =>
      match punary f ts with
      | Some (l, _, TAssign add :: r) =>
          match pexp f 1 r with
          | Some (e, []) => Some (SAssign add l e)
          | _ => None
          end
      | _ => None
      end
  end.

Definition parse (ts : list tk) : option estmt := pstmt (4 * length ts + 8) ts.
