(* The time register of the mtail VM and the state that survives between lines.

   Source read: internal/runtime/vm/vm.go (thread.time, VM.timeMemos,
   VM.terminate, opcodes Strptime / Settime / Timestamp / Stop, errorf,
   parseTime + adjustYear, ProcessLogLine) and internal/metrics/datum/datum.go
   (BaseDatum.stamp).

   A line program is, for these properties, the sequence of time-relevant
   events the bytecode performs on one line (the harness derives it from the
   generated program and the line).  Instants are Z nanoseconds since the Unix
   epoch, unbounded (a parsed year-0 time does not fit int64 nanoseconds; the
   code wraps only when it calls UnixNano).  Go's zero time.Time is the instant
   zero_ns and IsZero() is equality with it, so "register unset" and "register
   set to that instant" coincide exactly as in the code.

   Oracles (Section variables, tabulated by the harness from the Go library):
     time_parse loc layout value = Some {ns; year}  time.Parse / ParseInLocation
                                                     succeeded: instant and Year()
     add_years loc layout value y                    instant of that parsed time
                                                     after AddDate(y, 0, 0)
   The wall clock (now, in ns, and the current year) is an input of each line.

   Metrics with keys (internal/metrics/metric.go: GetDatum, RemoveDatum,
   ExpireDatum; vm.go: dload, del, expire): the store stays flat, a slot stands
   for a scalar metric or for ONE label set of a metric with keys (the harness
   computes the label tuple of a reference from the line and gives the same
   tuple of the same metric the same slot for a whole case).  A slot is in the
   store exactly when the label set is in Metric.LabelValues.  Label sets can
   also leave the store without the VM (Store.Gc on expiry / limit calls
   Metric.RemoveDatum): a history is a list of hstep, a line or a function
   world -> world applied between two lines (ext_del is the removal).
   Definitions only; proofs are in Proofs/TimeRegProofs.v. *)
From Coq Require Import List ZArith Bool.
From V Require Export Base.Bytes Base.Int64 Lang.Memo.
Import ListNotations.
Local Open Scope Z_scope.

Definition zero_s : Z := -62135596800.      (* 0001-01-01T00:00:00Z *)
Definition ns_per_s : Z := 1000000000.
Definition zero_ns : Z := zero_s * ns_per_s.

(* a successful raw parse: the instant and the Year() of the parsed time.Time *)
Record ptime := { pt_ns : Z; pt_year : Z }.

(* vm.New(name, obj, syslogUseCurrentYear, loc, ...): loc 0 = no override *)
Record config := { c_loc : N; c_useyear : bool }.

Inductive event :=
| EStrptime (layout value : bytes)   (* strptime(value, layout) *)
| ESettime (n : Z)                   (* settime(n) *)
| ETimestamp                         (* timestamp(): push *)
| EPush (z : Z)                      (* push an int *)
| ESet (m : N)                       (* pop v; metric m = v      (Iset) *)
| EInc (m : N)                       (* metric m ++              (Inc)  *)
| EFail                              (* any other runtime error: errorf *)
| EStop                              (* stop *)
(* the per-line match table (thread.matches) and reads from it *)
| EMatch (re : N) (res : option (list bytes))
                                     (* Match/Smatch: matches[re] = FindStringSubmatch (None = nil) *)
| ECapref (re : N) (k : nat)         (* Capref: push matches[re][k]; runtime error when absent *)
| EStrptimeTop (layout : bytes)      (* strptime(<string on the stack>, layout) *)
(* dimensioned metrics: a slot m stands for one (metric, label tuple); the
   harness computes the tuple from the line and assigns the slot *)
| EDel (m : N)                       (* del m[..]: Metric.RemoveDatum; an absent label set is left absent *)
| EGet (m : N)                       (* dload: Metric.GetDatum; creates the label set (datum 0, stamped now) when absent *)
| EExpire (m : N).                   (* del m[..] after D: Metric.ExpireDatum; runtime error when absent *)

(* an int datum: value and BaseDatum.Time (int64 ns) *)
Record cell := { d_val : Z; d_time : Z }.
(* the metrics, flat: slot |-> datum.  A slot is a scalar metric (always
   present) or one label set of a dimensioned metric (present = the label set
   exists in Metric.LabelValues).  Slots are listed in creation order. *)
Definition store := list (N * cell).

Fixpoint store_get (m : N) (st : store) : cell :=
  match st with
  | [] => {| d_val := 0; d_time := 0 |}
  | (m', c) :: r => if N.eqb m m' then c else store_get m r
  end.
Fixpoint store_set (m : N) (c : cell) (st : store) : store :=
  match st with
  | [] => [(m, c)]
  | (m', c') :: r => if N.eqb m m' then (m, c) :: r else (m', c') :: store_set m c r
  end.

(* the label set exists *)
Fixpoint store_mem (m : N) (st : store) : bool :=
  match st with
  | [] => false
  | (m', _) :: r => if N.eqb m m' then true else store_mem m r
  end.
(* Metric.RemoveDatum: take the label set out; nothing to do when it is absent *)
Fixpoint store_del (m : N) (st : store) : store :=
  match st with
  | [] => []
  | (m', c') :: r => if N.eqb m m' then r else (m', c') :: store_del m r
  end.
(* Metric.GetDatum: find, or append a new datum.  datum.NewInt is
   MakeInt(0, zero time): value 0, stamped with the WALL CLOCK (stamp of a zero
   time.Time), not with the time register *)
Definition store_touch (now : Z) (m : N) (st : store) : store :=
  if store_mem m st then st else store_set m {| d_val := 0; d_time := now |} st.

(* what a line can change outside the VM: the metrics and the program's
   runtime-error counter (prog_runtime_errors_total) *)
Record world := { w_store : store; w_errs : N }.

(* label sets removed from OUTSIDE the VM (Store.Gc: expiry, limit ->
   Metric.RemoveDatum), between two lines *)
Definition ext_del (ms : list N) (w : world) : world :=
  {| w_store := fold_left (fun st m => store_del m st) ms (w_store w); w_errs := w_errs w |}.

(* thread.matches: regexp index |-> last FindStringSubmatch result on this line *)
Definition caps := list (N * option (list bytes)).
Fixpoint caps_get (re : N) (c : caps) : option (list bytes) :=
  match c with
  | [] => None
  | (r, v) :: rest => if N.eqb re r then v else caps_get re rest
  end.
Definition caps_set (re : N) (v : option (list bytes)) (c : caps) : caps := (re, v) :: c.
(* len(t.matches[re]) <= k is the runtime error "Not enough capture groups matched" *)
Definition cap_read (re : N) (k : nat) (c : caps) : option bytes :=
  match caps_get re c with
  | Some gs => nth_error gs k
  | None => None
  end.

(* thread: created afresh by ProcessLogLine; only the parts that matter here.
   The VM has one stack; ints and strings are kept on two stacks here (the
   generated programs never interleave them in a way that could tell). *)
Record thread := { t_time : Z; t_stack : list Z; t_caps : caps; t_strs : list bytes }.
Definition fresh_thread : thread := {| t_time := zero_ns; t_stack := []; t_caps := []; t_strs := [] |}.

(* per-line wall clock *)
Record line := { l_now : Z; l_year : Z; l_evs : list event }.

(* a history: lines, interleaved with changes of the world that do not go
   through the VM (any function; ext_del is the one the code base has) *)
Inductive hstep :=
| HLine (l : line)
| HWorld (f : world -> world).

(* Timestamp opcode: t.time.Unix() unless IsZero, then time.Now().Unix() *)
Definition ts_value (now reg : Z) : Z :=
  if reg =? zero_ns then now / ns_per_s else reg / ns_per_s.
(* BaseDatum.stamp: UnixNano() of the register unless IsZero, then of now *)
Definition stamp_value (now reg : Z) : Z :=
  if reg =? zero_ns then now else wrap64 reg.

Section Model.
  Variable time_parse : N -> bytes -> bytes -> option ptime.
  Variable add_years : N -> bytes -> bytes -> Z -> Z.

  (* adjustYear: tm.Year() == 0 && syslogUseCurrentYear -> AddDate(now.Year(),0,0) *)
  Definition adjust (cfg : config) (year : Z) (layout value : bytes) (p : ptime) : Z :=
    if c_useyear cfg && (pt_year p =? 0) then add_years (c_loc cfg) layout value year
    else pt_ns p.

  (* what the property says strptime yields: None = runtime error *)
  Definition strptime_spec (cfg : config) (year : Z) (layout value : bytes) : option Z :=
    match time_parse (c_loc cfg) layout value with
    | Some p => Some (adjust cfg year layout value p)
    | None => None
    end.

  (* ---- the memo, after the repair: (layout, value) |-> raw successful parse ---- *)
  Definition memo_new := @lru key2 ptime.
  Definition strptime_new (cfg : config) (year : Z) (layout value : bytes) (m : memo_new)
    : memo_new * option Z :=
    match lru_get key2_eqb (layout, value) m with
    | (Some p, m') => (m', Some (adjust cfg year layout value p))
    | (None, _) =>
        match time_parse (c_loc cfg) layout value with
        | Some p => (lru_add key2_eqb memo_cap (layout, value) p m,
                     Some (adjust cfg year layout value p))
        | None => (m, None)
        end
    end.

  (* ---- the memo before the repair: value |-> ParseTime result, the zero time
     of a failed parse included, year adjustment applied before caching ---- *)
  Definition memo_old := @lru bytes Z.
  Definition strptime_old (cfg : config) (year : Z) (layout value : bytes) (m : memo_old)
    : memo_old * option Z :=
    match lru_get bytes_eqb value m with
    | (Some t, m') => (m', Some t)
    | (None, _) =>
        match time_parse (c_loc cfg) layout value with
        | Some p => let t := adjust cfg year layout value p in
                    (lru_add bytes_eqb memo_cap value t m, Some t)
        | None => (lru_add bytes_eqb memo_cap value zero_ns m, None)
        end
    end.

  (* ---- the machine, generic in the memo ---- *)
  Section Machine.
    Variable M : Type.
    Variable strp : config -> Z -> bytes -> bytes -> M -> M * option Z.

    (* VM fields that survive ProcessLogLine *)
    Record vmstate := { v_memo : M; v_term : bool }.
    Record mstate := { s_th : thread; s_w : world; s_vm : vmstate }.

    (* errorf: count the error, set terminate *)
    Definition raise (s : mstate) : mstate :=
      {| s_th := s_th s;
         s_w := {| w_store := w_store (s_w s); w_errs := N.succ (w_errs (s_w s)) |};
         s_vm := {| v_memo := v_memo (s_vm s); v_term := true |} |}.

    Definition set_time (t : Z) (m : M) (s : mstate) : mstate :=
      {| s_th := {| t_time := t; t_stack := t_stack (s_th s);
                    t_caps := t_caps (s_th s); t_strs := t_strs (s_th s) |};
         s_w := s_w s;
         s_vm := {| v_memo := m; v_term := v_term (s_vm s) |} |}.

    Definition push (z : Z) (s : mstate) : mstate :=
      {| s_th := {| t_time := t_time (s_th s); t_stack := z :: t_stack (s_th s);
                    t_caps := t_caps (s_th s); t_strs := t_strs (s_th s) |};
         s_w := s_w s; s_vm := s_vm s |}.

    (* datum.SetInt / IncIntBy: value, then stamp(t.time) *)
    Definition write (now : Z) (m : N) (v : Z) (stk : list Z) (s : mstate) : mstate :=
      {| s_th := {| t_time := t_time (s_th s); t_stack := stk;
                    t_caps := t_caps (s_th s); t_strs := t_strs (s_th s) |};
         s_w := {| w_store := store_set m {| d_val := v; d_time := stamp_value now (t_time (s_th s)) |}
                                (w_store (s_w s));
                   w_errs := w_errs (s_w s) |};
         s_vm := s_vm s |}.

    (* the metrics change, nothing else *)
    Definition set_store (st : store) (s : mstate) : mstate :=
      {| s_th := s_th s; s_w := {| w_store := st; w_errs := w_errs (s_w s) |}; s_vm := s_vm s |}.

    Definition set_tables (c : caps) (ss : list bytes) (s : mstate) : mstate :=
      {| s_th := {| t_time := t_time (s_th s); t_stack := t_stack (s_th s); t_caps := c; t_strs := ss |};
         s_w := s_w s; s_vm := s_vm s |}.

    Definition do_strptime (cfg : config) (year : Z) (layout value : bytes) (s : mstate) : mstate :=
      match strp cfg year layout value (v_memo (s_vm s)) with
      | (m, Some t) => set_time t m s
      | (m, None) => raise (set_time (t_time (s_th s)) m s)
      end.

    Definition step (cfg : config) (now year : Z) (e : event) (s : mstate) : mstate :=
      match e with
      | EStrptime layout value => do_strptime cfg year layout value s
      | EMatch re res => set_tables (caps_set re res (t_caps (s_th s))) (t_strs (s_th s)) s
      | ECapref re k =>
          match cap_read re k (t_caps (s_th s)) with
          | Some g => set_tables (t_caps (s_th s)) (g :: t_strs (s_th s)) s
          | None => raise s
          end
      | EStrptimeTop layout =>
          match t_strs (s_th s) with
          | v :: ss => do_strptime cfg year layout v (set_tables (t_caps (s_th s)) ss s)
          | [] => raise s
          end
      | ESettime n => set_time (n * ns_per_s) (v_memo (s_vm s)) s
      | ETimestamp => push (ts_value now (t_time (s_th s))) s
      | EPush z => push z s
      | ESet m =>
          match t_stack (s_th s) with
          | v :: stk => write now m v stk s
          | [] => raise s            (* Pop on an empty stack panics; recovered into errorf *)
          end
      | EInc m =>
          write now m (wrap64 (d_val (store_get m (w_store (s_w s))) + 1)) (t_stack (s_th s)) s
      | EFail => raise s
      | EStop => {| s_th := s_th s; s_w := s_w s;
                    s_vm := {| v_memo := v_memo (s_vm s); v_term := true |} |}
      | EDel m => set_store (store_del m (w_store (s_w s))) s
      | EGet m => set_store (store_touch now m (w_store (s_w s))) s
      | EExpire m =>
          if store_mem m (w_store (s_w s)) then s   (* LabelValue.Expiry is not part of this world *)
          else raise s                              (* "No datum for given labelvalues" *)
      end.

    (* ProcessLogLine's loop: execute, then test terminate *)
    Fixpoint exec (cfg : config) (now year : Z) (evs : list event) (s : mstate) : mstate :=
      match evs with
      | [] => s
      | e :: r => let s' := step cfg now year e s in
                  if v_term (s_vm s') then s' else exec cfg now year r s'
      end.

    (* ProcessLogLine: new thread; run; the terminate flag is reset on the way out *)
    Definition run_line (cfg : config) (l : line) (wv : world * vmstate) : world * vmstate :=
      let s := exec cfg (l_now l) (l_year l) (l_evs l)
                    {| s_th := fresh_thread; s_w := fst wv; s_vm := snd wv |} in
      (s_w s, {| v_memo := v_memo (s_vm s); v_term := false |}).

    Definition run_lines (cfg : config) (ls : list line) (wv : world * vmstate) : world * vmstate :=
      fold_left (fun a l => run_line cfg l a) ls wv.

    (* the world after each line, for the correspondence *)
    Fixpoint run_trace (cfg : config) (ls : list line) (wv : world * vmstate) : list world :=
      match ls with
      | [] => []
      | l :: r => let wv' := run_line cfg l wv in fst wv' :: run_trace cfg r wv'
      end.

    (* histories with changes of the world from outside: the VM is not told *)
    Definition run_hstep (cfg : config) (h : hstep) (wv : world * vmstate) : world * vmstate :=
      match h with
      | HLine l => run_line cfg l wv
      | HWorld f => (f (fst wv), snd wv)
      end.
    Definition run_hist (cfg : config) (hs : list hstep) (wv : world * vmstate) : world * vmstate :=
      fold_left (fun a h => run_hstep cfg h a) hs wv.
    (* the world after each step, for the correspondence *)
    Fixpoint run_htrace (cfg : config) (hs : list hstep) (wv : world * vmstate) : list world :=
      match hs with
      | [] => []
      | h :: r => let wv' := run_hstep cfg h wv in fst wv' :: run_htrace cfg r wv'
      end.
  End Machine.

  Definition vm_init_new : vmstate memo_new := {| v_memo := []; v_term := false |}.
  Definition vm_init_old : vmstate memo_old := {| v_memo := []; v_term := false |}.

  Definition step_new := step memo_new strptime_new.
  Definition exec_new := exec memo_new strptime_new.
  Definition run_line_new := run_line memo_new strptime_new.
  Definition run_lines_new := run_lines memo_new strptime_new.
  Definition run_trace_new := run_trace memo_new strptime_new.
  Definition run_hist_new := run_hist memo_new strptime_new.
  Definition run_htrace_new := run_htrace memo_new strptime_new.

  Definition run_line_old := run_line memo_old strptime_old.
  Definition run_lines_old := run_lines memo_old strptime_old.
  Definition run_trace_old := run_trace memo_old strptime_old.

  (* ---- what the property dictates for the register after a prefix of a line
     that ran to its end (no error, no stop) ---- *)
  (* one event of a line that goes on: register, match table, string stack *)
  Definition spec_state := (Z * caps * list bytes)%type.
  Definition spec_step (cfg : config) (year : Z) (e : event) (st : spec_state) : spec_state :=
    let '(reg, cp, ss) := st in
    match e with
    | EStrptime layout value =>
        match strptime_spec cfg year layout value with
        | Some t => (t, cp, ss)
        | None => st
        end
    | ESettime n => (n * ns_per_s, cp, ss)
    | EMatch re res => (reg, caps_set re res cp, ss)
    | ECapref re k =>
        match cap_read re k cp with
        | Some g => (reg, cp, g :: ss)
        | None => st
        end
    | EStrptimeTop layout =>
        match ss with
        | v :: ss' =>
            match strptime_spec cfg year layout v with
            | Some t => (t, cp, ss')
            | None => (reg, cp, ss')
            end
        | [] => st
        end
    | _ => st
    end.
  Fixpoint spec_run (cfg : config) (year : Z) (evs : list event) (st : spec_state) : spec_state :=
    match evs with
    | [] => st
    | e :: r => spec_run cfg year r (spec_step cfg year e st)
    end.
  (* the register after a prefix run from a thread whose tables are empty *)
  Definition time_spec (cfg : config) (year : Z) (evs : list event) (reg : Z) : Z :=
    fst (fst (spec_run cfg year evs (reg, [], []))).

  Definition sets_time (e : event) : bool :=
    match e with EStrptime _ _ | ESettime _ | EStrptimeTop _ => true | _ => false end.
  (* the event writes slot re of the match table *)
  Definition matches_re (re : N) (e : event) : bool :=
    match e with EMatch r _ => N.eqb r re | _ => false end.
End Model.

Arguments v_memo {M}. Arguments v_term {M}.
Arguments s_th {M}. Arguments s_w {M}. Arguments s_vm {M}.
