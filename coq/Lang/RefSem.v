(* Reference semantics of mtail programs: a total big-step interpreter written
   from docs/Language.md and docs/Metrics.md, NOT from the compiler or the VM.

     ref_line  : env -> prog -> file -> line -> rstore -> rstore * routcome
     ref_lines : env -> prog -> file -> list line -> rstore -> rstore * list routcome

   - a program is run once per line, top to bottom ("Program Execution");
   - COND { ... } [else { ... }]: a pattern matches the line, a relational
     expression is true or false, an Int is true if non-zero (C's `if`);
   - `otherwise` "matches if no preceding conditional in the current scope has
     matched": every block threads its OWN flag, starting false, set by a
     conditional (or an otherwise) of that block whose condition held;
   - capture groups: $n / $name of a pattern that matched, typed by the group's
     text; conversions of captured text can fail at run time;
   - evaluation is left to right; the datum an assignment targets is obtained
     (created with the zero value if absent) before the right side is evaluated;
   - "Runtime conversion errors ... terminate program execution for that log
     line": an error, like `stop`, ends the line and keeps the effects made so far;
   - timestamps: a datum is stamped with the time register if settime/strptime
     set it on this line, else with the arrival time ([RNow]).
   Where the reference is silent (int64 wrap-around, truncating / and %, shift
   ranges, `del ... after` of an absent datum = error) the choice is stated in
   notes/C01.md.  Library functions are the oracles of [Lang/Oracle.v].
   Executable definitions only. *)
From V Require Export Lang.Ast Lang.Oracle.
Local Open Scope Z_scope.

Inductive rval := RInt (z : Z) | RFloat (b : fbits) | RStr (s : bytes) | RBool (b : bool).
Inductive rtime := RNow | RAt (ns : Z).
Record rdatum := mkdatum { rd_labels : tuple; rd_val : rval; rd_time : rtime; rd_expiry : Z }.
Definition rstore := list (list rdatum).        (* per metric, insertion order *)

Inductive rerr := REConv | REStrptime | REDivZero | REShift | RERange | RECapture | RENoDatum | REType.
Inductive abort := AStop | AErr (e : rerr).
Inductive routcome := ONext | OStop | OErr (e : rerr).

(* line-local state: the store, the time register, the match results *)
Record rstate := mkrs {
  rs_store : rstore;
  rs_time : option timeval;
  rs_matches : list (N * option (list bytes))
}.

Inductive res (A : Type) := ROk (a : A) (s : rstate) | RAbort (x : abort) (s : rstate).
Arguments ROk {A}. Arguments RAbort {A}.

Definition bind {A B} (r : res A) (f : A -> rstate -> res B) : res B :=
  match r with ROk a s => f a s | RAbort x s => RAbort x s end.

(* ---- store ---- *)

Definition zero_of (t : ty) : rval :=
  match t with TInt => RInt 0 | TFloat => RFloat fl_zero | TStr => RStr [] | TBool => RBool false end.

Fixpoint find_datum (ks : tuple) (l : list rdatum) : option rdatum :=
  match l with
  | [] => None
  | d :: r => if tuple_eqb (rd_labels d) ks then Some d else find_datum ks r
  end.

Fixpoint upd_datum (ks : tuple) (f : rdatum -> rdatum) (l : list rdatum) : list rdatum :=
  match l with
  | [] => []
  | d :: r => if tuple_eqb (rd_labels d) ks then f d :: r else d :: upd_datum ks f r
  end.

Fixpoint del_datum (ks : tuple) (l : list rdatum) : list rdatum :=
  match l with
  | [] => []
  | d :: r => if tuple_eqb (rd_labels d) ks then r else d :: del_datum ks r
  end.

Fixpoint set_nth {A} (n : nat) (x : A) (l : list A) : list A :=
  match n, l with
  | O, _ :: r => x :: r
  | S n', y :: r => y :: set_nth n' x r
  | _, [] => []
  end.

Definition mdata (st : rstore) (m : N) : list rdatum := nth (N.to_nat m) st [].
Definition set_mdata (st : rstore) (m : N) (l : list rdatum) : rstore := set_nth (N.to_nat m) l st.

Section Ref.
Variable E : env.
Variable decls : list mdecl.
Variable file : bytes.
Variable line : bytes.

Definition mty (m : N) : ty :=
  match nth_error decls (N.to_nat m) with Some d => md_ty d | None => TInt end.

(* the value of m[ks]; the datum is created (zero value, stamped on arrival) if absent *)
Definition obtain (m : N) (ks : tuple) (st : rstore) : rval * rstore :=
  match find_datum ks (mdata st m) with
  | Some d => (rd_val d, st)
  | None => let v := zero_of (mty m) in
            (v, set_mdata st m (mdata st m ++ [mkdatum ks v RNow 0]))
  end.

(* the time register holds a time.Time; Go's zero Time (year 1) is its initial
   value and cannot be told from "not set" *)
Definition time_reg (s : rstate) : timeval :=
  match rs_time s with Some t => t | None => zero_time end.
Definition stamp (s : rstate) : rtime :=
  if time_is_zero (time_reg s) then RNow else RAt (time_unix_nano (time_reg s)).

Definition write (m : N) (ks : tuple) (v : rval) (s : rstate) : rstate :=
  let t := stamp s in
  mkrs (set_mdata (rs_store s) m
          (upd_datum ks (fun d => mkdatum (rd_labels d) v t (rd_expiry d)) (mdata (rs_store s) m)))
       (rs_time s) (rs_matches s).

Definition with_store (s : rstate) (st : rstore) : rstate := mkrs st (rs_time s) (rs_matches s).

Fixpoint lookup_match (pid : N) (l : list (N * option (list bytes))) : option (list bytes) :=
  match l with
  | [] => None
  | (p, r) :: t => if N.eqb p pid then r else lookup_match pid t
  end.

Definition set_match (pid : N) (r : option (list bytes)) (s : rstate) : rstate :=
  mkrs (rs_store s) (rs_time s) ((pid, r) :: rs_matches s).

(* ---- values ---- *)

Definition fail {A} (e : rerr) (s : rstate) : res A := RAbort (AErr e) s.

Definition conv (from to : ty) (v : rval) (s : rstate) : res rval :=
  match from, to, v with
  | TInt, TInt, RInt _ | TFloat, TFloat, RFloat _ | TStr, TStr, RStr _ | TBool, TBool, RBool _ => ROk v s
  | TInt, TFloat, RInt z => ROk (RFloat (fl_of_int E z)) s
  | TStr, TInt, RStr x =>
      match parse_int E x 10 64 with Some z => ROk (RInt z) s | None => fail REConv s end
  | TStr, TFloat, RStr x =>
      match parse_float E x with Some f => ROk (RFloat f) s | None => fail REConv s end
  | TInt, TStr, RInt z => ROk (RStr (fmt_int z)) s
  | TFloat, TStr, RFloat f => ROk (RStr (fmt_g E f)) s
  | _, _, _ => fail REType s
  end.

Definition truthy (v : rval) : bool :=
  match v with
  | RBool b => b
  | RInt z => negb (z =? 0)
  | RFloat f => negb (fl_eq E f fl_zero)
  | RStr x => negb (bytes_eqb x [])
  end.

Definition arith_int (op : arith) (a b : Z) (s : rstate) : res rval :=
  match op with
  | AAdd => ROk (RInt (i_add a b)) s
  | ASub => ROk (RInt (i_sub a b)) s
  | AMul => ROk (RInt (i_mul a b)) s
  | ADiv => if b =? 0 then fail REDivZero s else ROk (RInt (i_quot a b)) s
  | AMod => if b =? 0 then fail REDivZero s else ROk (RInt (i_rem a b)) s
  | APow => ROk (RInt (i_pow E a b)) s
  end.

Definition arith_float (op : arith) (a b : fbits) : fbits :=
  match op with
  | AAdd => fl_add E a b | ASub => fl_sub E a b | AMul => fl_mul E a b
  | ADiv => fl_div E a b | AMod => fl_mod E a b | APow => fl_pow E a b
  end.

Definition do_arith (op : arith) (t : ty) (a b : rval) (s : rstate) : res rval :=
  match t, a, b with
  | TInt, RInt x, RInt y => arith_int op x y s
  | TFloat, RFloat x, RFloat y => ROk (RFloat (arith_float op x y)) s
  | _, _, _ => fail REType s
  end.

Definition do_bit (op : bitop) (a b : rval) (s : rstate) : res rval :=
  match a, b with
  | RInt x, RInt y =>
      match op with
      | BAnd => ROk (RInt (i_and x y)) s
      | BOr => ROk (RInt (i_or x y)) s
      | BXor => ROk (RInt (i_xor x y)) s
      | BShl => if (y <? 0) || (max_int32 <=? y) then fail REShift s else ROk (RInt (i_shl x y)) s
      | BShr => if (y <? 0) || (max_int32 <=? y) then fail REShift s else ROk (RInt (i_shr x y)) s
      end
  | _, _ => fail REType s
  end.

Definition cmp_result (op : cmpop) (lt eq gt : bool) : bool :=
  match op with
  (* <= is "not >", >= is "not <": the same as "< or ==" on every total order
     (Int, String, Float without NaN); the reference does not define NaN *)
  | CLt => lt | CGt => gt | CLe => negb gt | CGe => negb lt | CEq => eq | CNe => negb eq
  end.

Definition do_cmp (op : cmpop) (t : ty) (a b : rval) (s : rstate) : res rval :=
  match t, a, b with
  | TInt, RInt x, RInt y => ROk (RBool (cmp_result op (x <? y) (x =? y) (y <? x))) s
  | TFloat, RFloat x, RFloat y => ROk (RBool (cmp_result op (fl_lt E x y) (fl_eq E x y) (fl_lt E y x))) s
  | TStr, RStr x, RStr y => ROk (RBool (cmp_result op (bytes_ltb x y) (bytes_eqb x y) (bytes_ltb y x))) s
  | _, _, _ => fail REType s
  end.

Definition as_str (v : rval) (s : rstate) : res bytes :=
  match v with RStr x => ROk x s | _ => fail REType s end.

Definition do_strtol (va vb : rval) (s : rstate) : res rval :=
  match va, vb with
  | RStr x, RInt b =>
      if (b <=? 0) || (max_int32 <=? b) then fail RERange s
      else match parse_int E x b 64 with
           | Some z => ROk (RInt z) s
           | None => fail REConv s
           end
  | _, _ => fail REType s
  end.

Definition do_subst (vo vn vv : rval) (s : rstate) : res rval :=
  match vo, vn, vv with
  | RStr o, RStr n, RStr v => ROk (RStr (str_replace E v o n)) s
  | _, _, _ => fail REType s
  end.

Definition do_rsubst (pid : N) (vn vv : rval) (s : rstate) : res rval :=
  match vn, vv with
  | RStr n, RStr v => ROk (RStr (re_replace E pid v n)) s
  | _, _ => fail REType s
  end.

(* ---- expressions ---- *)

Fixpoint eval (e : expr) (s : rstate) {struct e} : res rval :=
  match e with
  | EInt z => ROk (RInt z) s
  | EFloat b => ROk (RFloat b) s
  | EStr _ x => ROk (RStr x) s
  | ECap pid grp t =>
      match lookup_match pid (rs_matches s) with
      | Some gs => match nth_error gs (N.to_nat grp) with
                   | Some x => conv TStr t (RStr x) s
                   | None => fail RECapture s
                   end
      | None => fail RECapture s
      end
  | EConv from to a => bind (eval a s) (fun v s1 => conv from to v s1)
  | EArith op t a b =>
      bind (eval a s) (fun va s1 => bind (eval b s1) (fun vb s2 => do_arith op t va vb s2))
  | EBit op a b =>
      bind (eval a s) (fun va s1 => bind (eval b s1) (fun vb s2 => do_bit op va vb s2))
  | ENeg a =>
      bind (eval a s) (fun va s1 => match va with RInt z => ROk (RInt (i_not z)) s1 | _ => fail REType s1 end)
  | ECmp op t _ a b =>
      bind (eval a s) (fun va s1 => bind (eval b s1) (fun vb s2 => do_cmp op t va vb s2))
  | EAnd a b =>
      bind (eval a s) (fun va s1 =>
        if truthy va then bind (eval b s1) (fun vb s2 => ROk (RBool (truthy vb)) s2)
        else ROk (RBool false) s1)
  | EOr a b =>
      bind (eval a s) (fun va s1 =>
        if truthy va then ROk (RBool true) s1
        else bind (eval b s1) (fun vb s2 => ROk (RBool (truthy vb)) s2))
  | EMatch pid =>
      let r := re_match E pid line in
      ROk (RBool (match r with Some _ => true | None => false end)) (set_match pid r s)
  | ESMatch neg a pid =>
      bind (eval a s) (fun va s1 => bind (as_str va s1) (fun x s2 =>
        let r := re_match E pid x in
        let hit := match r with Some _ => true | None => false end in
        ROk (RBool (xorb hit neg)) (set_match pid r s2)))
  | EGet m ks =>
      bind (eval_keys ks s) (fun keys s1 =>
        let (v, st) := obtain m keys (rs_store s1) in ROk v (with_store s1 st))
  | ELen a =>
      bind (eval a s) (fun va s1 => bind (as_str va s1) (fun x s2 => ROk (RInt (Z.of_nat (length x))) s2))
  | ETolower a =>
      bind (eval a s) (fun va s1 => bind (as_str va s1) (fun x s2 => ROk (RStr (to_lower E x)) s2))
  | EStrtol a base =>
      bind (eval a s) (fun va s1 => bind (eval base s1) (fun vb s2 => do_strtol va vb s2))
  | ESubst old new val =>
      bind (eval old s) (fun vo s1 => bind (eval new s1) (fun vn s2 =>
        bind (eval val s2) (fun vv s3 => do_subst vo vn vv s3)))
  | ERsubst pid new val =>
      bind (eval new s) (fun vn s1 => bind (eval val s1) (fun vv s2 => do_rsubst pid vn vv s2))
  | ETimestamp =>
      ROk (RInt (if time_is_zero (time_reg s) then now_sec E else time_unix (time_reg s))) s
  | EGetfilename => ROk (RStr file) s
  | EIncr dec m ks =>
      (* x++ as a value: the datum is obtained, incremented and stamped; the
         value is the NEW one (the checker types the postfix expression Int and
         the implementation leaves the incremented value: docs are silent) *)
      bind (eval_keys ks s) (fun keys s1 =>
        let (v, st) := obtain m keys (rs_store s1) in
        match v with
        | RInt z => let z' := if dec then i_sub z 1 else i_add z 1 in
                    ROk (RInt z') (write m keys (RInt z') (with_store s1 st))
        | _ => fail REType (with_store s1 st)
        end)
  end
with eval_keys (ks : exprs) (s : rstate) {struct ks} : res tuple :=
  match ks with
  | XNil => ROk [] s
  | XCons e r =>
      bind (eval e s) (fun v s1 => bind (as_str v s1) (fun x s2 =>
        bind (eval_keys r s2) (fun xs s3 => ROk (x :: xs) s3)))
  end.

(* ---- statements ---- *)

(* keys, then the datum (created if absent) *)
Definition target (m : N) (ks : exprs) (s : rstate) : res (tuple * rval) :=
  bind (eval_keys ks s) (fun keys s1 =>
    let (v, st) := obtain m keys (rs_store s1) in ROk (keys, v) (with_store s1 st)).

Definition current (m : N) (keys : tuple) (s : rstate) : rval :=
  match find_datum keys (mdata (rs_store s) m) with Some d => rd_val d | None => zero_of (mty m) end.

Definition add_vals (t : ty) (a b : rval) (s : rstate) : res rval :=
  match t, a, b with
  | TInt, RInt x, RInt y => ROk (RInt (i_add x y)) s
  | TFloat, RFloat x, RFloat y => ROk (RFloat (fl_add E x y)) s
  | TStr, RStr x, RStr y => ROk (RStr (x ++ y)) s
  | _, _, _ => fail REType s
  end.

(* statements without blocks: they neither read nor change the block's flag *)
Definition exec_simple (st : stmt) (s : rstate) : res unit :=
  match st with
  | SInc m ks =>
      bind (target m ks s) (fun kv s1 =>
        match snd kv with
        | RInt z => ROk tt (write m (fst kv) (RInt (i_add z 1)) s1)
        | _ => fail REType s1
        end)
  | SDec m ks =>
      bind (target m ks s) (fun kv s1 =>
        match snd kv with
        | RInt z => ROk tt (write m (fst kv) (RInt (i_sub z 1)) s1)
        | _ => fail REType s1
        end)
  | SSet t m ks e =>
      bind (target m ks s) (fun kv s1 =>
        bind (eval e s1) (fun v s2 => ROk tt (write m (fst kv) v s2)))
  | SAddTo t m ks e =>
      bind (target m ks s) (fun kv s1 =>
        bind (eval e s1) (fun v s2 =>
          bind (add_vals t (current m (fst kv) s2) v s2) (fun r s3 => ROk tt (write m (fst kv) r s3))))
  | SSettime e =>
      bind (eval e s) (fun v s1 =>
        match v with
        | RInt z => ROk tt (mkrs (rs_store s1) (Some (z, 0)) (rs_matches s1))
        | _ => fail REType s1
        end)
  | SStrptime e _ layout =>
      bind (eval e s) (fun v s1 => bind (as_str v s1) (fun x s2 =>
        match time_parse E layout x with
        | Some t => ROk tt (mkrs (rs_store s2) (Some t) (rs_matches s2))
        | None => fail REStrptime s2
        end))
  | SDel m ks =>
      bind (eval_keys ks s) (fun keys s1 =>
        ROk tt (with_store s1 (set_mdata (rs_store s1) m (del_datum keys (mdata (rs_store s1) m)))))
  | SExpire m ks d =>
      bind (eval_keys ks s) (fun keys s1 =>
        match find_datum keys (mdata (rs_store s1) m) with
        | Some _ =>
            ROk tt (with_store s1 (set_mdata (rs_store s1) m
              (upd_datum keys (fun x => mkdatum (rd_labels x) (rd_val x) (rd_time x) d) (mdata (rs_store s1) m))))
        | None => fail RENoDatum s1
        end)
  | SStop => RAbort AStop s
  | SCond _ _ | SCondElse _ _ _ | SOtherwise _ => ROk tt s   (* not simple: see exec_stmt *)
  end.

(* [flag]: "a preceding conditional of THIS block has matched" *)
Fixpoint exec_stmt (st : stmt) (flag : bool) (s : rstate) {struct st} : res bool :=
  match st with
  | SCond c th =>
      bind (eval c s) (fun v s1 =>
        if truthy v then bind (exec_block th false s1) (fun _ s2 => ROk true s2)
        else ROk flag s1)
  | SCondElse c th el =>
      bind (eval c s) (fun v s1 =>
        if truthy v then bind (exec_block th false s1) (fun _ s2 => ROk true s2)
        else bind (exec_block el false s1) (fun _ s2 => ROk flag s2))
  | SOtherwise th =>
      if flag then ROk flag s
      else bind (exec_block th false s) (fun _ s1 => ROk true s1)
  | _ => bind (exec_simple st s) (fun _ s1 => ROk flag s1)
  end
with exec_block (b : block) (flag : bool) (s : rstate) {struct b} : res unit :=
  match b with
  | BNil => ROk tt s
  | BCons st r => bind (exec_stmt st flag s) (fun f s1 => exec_block r f s1)
  end.

(* The same program under the discipline the VM implements: ONE flag for the
   whole line, reset on entering a then-block (setmatched false) and set on
   leaving it (setmatched true); an else block inherits the flag and passes it
   on.  Proofs/C01Flags.v: equal to [exec_block] under [ok_block]. *)
Fixpoint gexec_stmt (st : stmt) (g : bool) (s : rstate) {struct st} : res bool :=
  match st with
  | SCond c th =>
      bind (eval c s) (fun v s1 =>
        if truthy v then bind (gexec_block th false s1) (fun _ s2 => ROk true s2)
        else ROk g s1)
  | SCondElse c th el =>
      bind (eval c s) (fun v s1 =>
        if truthy v then bind (gexec_block th false s1) (fun _ s2 => ROk true s2)
        else gexec_block el g s1)
  | SOtherwise th =>
      if g then ROk g s
      else bind (gexec_block th false s) (fun _ s1 => ROk true s1)
  | _ => bind (exec_simple st s) (fun _ s1 => ROk g s1)
  end
with gexec_block (b : block) (g : bool) (s : rstate) {struct b} : res bool :=
  match b with
  | BNil => ROk g s
  | BCons st r => bind (gexec_stmt st g s) (fun f s1 => gexec_block r f s1)
  end.

End Ref.

(* ---- programs ---- *)

(* a freshly loaded program: scalar counters are zero, stamped with the epoch *)
Definition init_datum (d : mdecl) : list rdatum :=
  match md_kind d, md_nkeys d with
  | MCounter, 0%N => [mkdatum [] (zero_of (md_ty d)) (RAt 0) 0]
  | _, _ => []
  end.
Definition init_rstore (p : prog) : rstore := map init_datum (p_decls p).

Definition ref_line (E : env) (p : prog) (file line : bytes) (st : rstore) : rstore * routcome :=
  match exec_block E (p_decls p) file line (p_body p) false (mkrs st None []) with
  | ROk _ s => (rs_store s, ONext)
  | RAbort AStop s => (rs_store s, OStop)
  | RAbort (AErr e) s => (rs_store s, OErr e)
  end.

Fixpoint ref_lines (E : env) (p : prog) (file : bytes) (lines : list bytes) (st : rstore)
  : rstore * list routcome :=
  match lines with
  | [] => (st, [])
  | l :: r => let (st1, o) := ref_line E p file l st in
              let (st2, os) := ref_lines E p file r st1 in (st2, o :: os)
  end.
