(* C24 - the name, scope, arity, regex and literal-zero-divisor rules of
   internal/runtime/compiler/checker/checker.go (VisitBefore / VisitAfter,
   checkSymbolTable, checkRegex) and symbol/symtab.go (Insert, Lookup,
   CopyFrom), as one walk over an own syntax tree.  Type inference is not
   modelled: the model reports a subset of the real checker's errors.
   Executable definitions only; proofs in Proofs/NameCheckProofs.v.

   Oracle: [re_caps pat] = None if the regular expression does not parse,
   else for each capture group (index 0 first) the keys under which checkRegex
   inserts it: the decimal index and, for a named group, the name. *)
From Coq Require Import List Bool NArith ZArith.
From V Require Import Base.Bytes.
Import ListNotations.
Local Open Scope N_scope.

Inductive kind := KVar | KCapref | KDeco | KPattern.
Definition kind_eqb (a b : kind) : bool :=
  match a, b with
  | KVar, KVar | KCapref, KCapref | KDeco, KDeco | KPattern, KPattern => true
  | _, _ => false
  end.

Inductive bop := BDiv | BMod | BPlus | BArith | BOther.

(* which builtin: only what the rules below look at *)
Inductive bfun := FSubst | FIntValued | FOtherFun.

Inductive node :=
| NStmtList (cs : nodes)
| NCond (c t e : node)                 (* e = NLeaf when there is no else *)
| NVarDecl (name : bytes) (nkeys : N)
| NConst (name : bytes) (p : node)     (* PatternFragment *)
| NDecoDecl (name : bytes) (b : node)
| NDecoStmt (name : bytes) (b : node)
| NNext
| NId (name : bytes)
| NCapref (name : bytes)
| NIndexed (ix : nodes) (lhs : node)
| NBin (o : bop) (l r : node)
| NIntLit (z : Z)
| NPattern (e : node)                  (* PatternExpr *)
| NPatLit (s : bytes)
| NBuiltin (f : bfun) (args : nodes)
| NUnary (e : node)
| NDel (e : node)
| NOther (cs : nodes)                  (* ExprList, ConvExpr, ... *)
| NLeaf
with nodes :=
| NNil
| NCons (n : node) (r : nodes).

Fixpoint nlen (ns : nodes) : N :=
  match ns with NNil => 0 | NCons _ r => 1 + nlen r end.

(* error classes *)
Inductive err :=
| EUndeclId | EUndefCapref | EUndefDeco | EDecoIncomplete | ENextOutside | ENextTwice
| EDecoNoNext | EKeyCount | EUnindexable | ERedeclVar | ERedeclConst | ERedeclDeco
| ERedeclCapref | EUnused | EReInvalid | EReTooLong | EZeroDiv | EBadConcat.

Definition err_code (e : err) : N :=
  match e with
  | EUndeclId => 1 | EUndefCapref => 2 | EUndefDeco => 3 | EDecoIncomplete => 4
  | ENextOutside => 5 | ENextTwice => 6 | EDecoNoNext => 7 | EKeyCount => 8
  | EUnindexable => 9 | ERedeclVar => 10 | ERedeclConst => 11 | ERedeclDeco => 12
  | ERedeclCapref => 13 | EUnused => 14 | EReInvalid => 15 | EReTooLong => 16
  | EZeroDiv => 17 | EBadConcat => 18
  end.

Record sym := { sy_id : N; sy_name : bytes; sy_kind : kind; sy_arity : N }.
Definition sym_eqb (a b : sym) : bool :=
  N.eqb (sy_id a) (sy_id b) && bytes_eqb (sy_name a) (sy_name b) &&
  kind_eqb (sy_kind a) (sy_kind b).

(* a scope maps keys to symbols; an alias is a second entry for the same id *)
Definition scope := list sym.

Record st := {
  scopes : list scope;          (* c.scope and its parents, innermost first *)
  decos : list scope;           (* c.decoScopes, innermost first *)
  zyg : list (N * scope);       (* DecoDecl.Scope by decorator symbol id *)
  pats : list (N * bytes);      (* PatternFragment.Pattern by symbol id *)
  used : list sym;              (* symbols marked Used *)
  nid : N;                      (* next symbol id *)
  nosym : bool;                 (* c.noRegexSymbols *)
  errs : list err
}.

Definition st0 : st :=
  {| scopes := []; decos := []; zyg := []; pats := []; used := []; nid := 0; nosym := false; errs := [] |}.

Definition set_scopes (s : st) x := {| scopes := x; decos := decos s; zyg := zyg s; pats := pats s; used := used s; nid := nid s; nosym := nosym s; errs := errs s |}.
Definition set_decos (s : st) x := {| scopes := scopes s; decos := x; zyg := zyg s; pats := pats s; used := used s; nid := nid s; nosym := nosym s; errs := errs s |}.
Definition set_zyg (s : st) x := {| scopes := scopes s; decos := decos s; zyg := x; pats := pats s; used := used s; nid := nid s; nosym := nosym s; errs := errs s |}.
Definition set_pats (s : st) x := {| scopes := scopes s; decos := decos s; zyg := zyg s; pats := x; used := used s; nid := nid s; nosym := nosym s; errs := errs s |}.
Definition set_used (s : st) x := {| scopes := scopes s; decos := decos s; zyg := zyg s; pats := pats s; used := x; nid := nid s; nosym := nosym s; errs := errs s |}.
Definition set_nid (s : st) x := {| scopes := scopes s; decos := decos s; zyg := zyg s; pats := pats s; used := used s; nid := x; nosym := nosym s; errs := errs s |}.
Definition set_nosym (s : st) x := {| scopes := scopes s; decos := decos s; zyg := zyg s; pats := pats s; used := used s; nid := nid s; nosym := x; errs := errs s |}.
Definition add_err (s : st) (e : err) := {| scopes := scopes s; decos := decos s; zyg := zyg s; pats := pats s; used := used s; nid := nid s; nosym := nosym s; errs := e :: errs s |}.

(* symtab.go *)
Fixpoint find_name (n : bytes) (sc : scope) : option sym :=
  match sc with
  | [] => None
  | y :: r => if bytes_eqb (sy_name y) n then Some y else find_name n r
  end.

Fixpoint lookup (n : bytes) (k : kind) (ss : list scope) : option sym :=
  match ss with
  | [] => None
  | sc :: r =>
      match find_name n sc with
      | Some y => if kind_eqb (sy_kind y) k then Some y else lookup n k r
      | None => lookup n k r
      end
  end.

(* Insert: refused if the key exists in this scope *)
Definition insert (y : sym) (sc : scope) : option scope :=
  match find_name (sy_name y) sc with Some _ => None | None => Some (y :: sc) end.

Definition insert_quiet (y : sym) (sc : scope) : scope :=
  match insert y sc with Some sc' => sc' | None => sc end.

(* CopyFrom(o): o's symbols, then o's parents', first key wins *)
Definition copy_from (target : scope) (stack : list scope) : scope :=
  fold_left (fun acc sc => fold_left (fun a y => insert_quiet y a) sc acc) stack target.

Definition push_scope (s : st) (sc : scope) : st := set_scopes s (sc :: scopes s).
Definition pop_scope (s : st) : st := set_scopes s (tl (scopes s)).
Definition top_scope (s : st) : scope := hd [] (scopes s).
Definition set_top (s : st) (sc : scope) : st := set_scopes s (sc :: tl (scopes s)).

Definition is_used (s : st) (y : sym) : bool := existsb (sym_eqb y) (used s).
Definition mark_used (s : st) (y : sym) : st := set_used s (y :: used s).

(* checkSymbolTable: every unused non-capref symbol of the current scope *)
Definition check_symtab (s : st) : st :=
  fold_left (fun a y =>
               if is_used s y then a
               else match sy_kind y with KCapref => a | _ => add_err a EUnused end)
            (top_scope s) s.

(* declare a new symbol in the current scope; false = key already there *)
Definition declare (s : st) (name : bytes) (k : kind) (ar : N) : st * bool :=
  let y := {| sy_id := nid s; sy_name := name; sy_kind := k; sy_arity := ar |} in
  let s1 := set_nid s (nid s + 1) in
  match insert y (top_scope s1) with
  | Some sc => (set_top s1 sc, true)
  | None => (s1, false)
  end.

Fixpoint assoc {A} (i : N) (l : list (N * A)) : option A :=
  match l with
  | [] => None
  | (j, v) :: r => if N.eqb i j then Some v else assoc i r
  end.

(* IDTerm: a variable, else a pattern constant *)
Definition resolve_id (s : st) (name : bytes) : option sym :=
  match lookup name KVar (scopes s) with
  | Some y => Some y
  | None => lookup name KPattern (scopes s)
  end.

Section Check.
Variable re_caps : bytes -> option (list (list bytes)).
Variable max_re : N.

(* patternEvaluator: Some pattern, or None with an error added *)
Fixpoint pat_eval (e : node) (s : st) : st * bytes :=
  match e with
  | NPatLit p => (s, p)
  | NBin BPlus l r =>
      let (s1, a) := pat_eval l s in
      let (s2, b) := pat_eval r s1 in (s2, a ++ b)
  | NId x =>
      match resolve_id s x with
      | None => (s, [])
      | Some y =>
          match sy_kind y with
          | KPattern =>
              match assoc (sy_id y) (pats s) with
              | Some p => (s, p)
              | None => (add_err s EBadConcat, [])
              end
          | _ => (add_err s EBadConcat, [])
          end
      end
  | NIndexed _ lhs => pat_eval lhs s
  | _ => (s, [])
  end.

(* the capture groups of one regex into the current scope *)
Fixpoint add_groups (gs : list (list bytes)) (i : N) (s : st) : st :=
  match gs with
  | [] => s
  | keys :: r =>
      let id := nid s in
      let s1 := set_nid s (id + 1) in
      let s2 :=
        fold_left (fun a key =>
                     match insert {| sy_id := id; sy_name := key; sy_kind := KCapref; sy_arity := i |} (top_scope a) with
                     | Some sc => set_top a sc
                     | None => add_err a ERedeclCapref
                     end) keys s1 in
      add_groups r (i + 1) s2
  end.

Definition check_regex (p : bytes) (s : st) : st :=
  if max_re <? N.of_nat (length p) then add_err s EReTooLong
  else match re_caps p with
       | None => add_err s EReInvalid
       | Some gs => if nosym s then s else add_groups gs 0 s
       end.

(* VisitAfter PatternExpr *)
Definition post_pattern (e : node) (s : st) : st :=
  let (s1, p) := pat_eval e s in
  match p with [] => s1 | _ => check_regex p s1 end.

Fixpoint syn_int (n : node) : bool :=
  match n with
  | NIntLit _ => true
  | NBuiltin FIntValued _ => true
  | NBin BArith l r | NBin BDiv l r | NBin BMod l r | NBin BPlus l r => syn_int l && syn_int r
  | _ => false
  end.

Definition is_zero_lit (n : node) : bool :=
  match n with NIntLit z => Z.eqb z 0 | _ => false end.

(* VisitBefore; false = the visitor returns nil (children and VisitAfter skipped) *)
Definition pre (n : node) (s : st) : st * bool :=
  match n with
  | NStmtList _ | NCond _ _ _ => (push_scope s [], true)
  | NVarDecl name k =>
      let (s1, ok) := declare s name KVar k in
      if ok then (s1, true) else (add_err s1 ERedeclVar, false)
  | NConst name _ =>
      let (s1, ok) := declare s name KPattern 0 in
      if ok then (s1, true) else (add_err s1 ERedeclConst, false)
  | NDecoDecl name _ =>
      let (s1, ok) := declare s name KDeco 0 in
      if ok then (set_decos s1 ([] :: decos s1), true) else (add_err s1 ERedeclDeco, false)
  | NDecoStmt name _ =>
      match lookup name KDeco (scopes s) with
      | None => (add_err s EUndefDeco, false)
      | Some y =>
          let s1 := mark_used s y in
          match assoc (sy_id y) (zyg s1) with
          | None => (add_err s1 EDecoIncomplete, false)
          | Some z => (push_scope s1 (copy_from [] [z]), true)
          end
      end
  | NId x =>
      match resolve_id s x with
      | Some y => (mark_used s y, true)
      | None => (add_err s EUndeclId, false)
      end
  | NCapref x =>
      match lookup x KCapref (scopes s) with
      | Some y => (mark_used s y, true)
      | None => (add_err s EUndefCapref, false)
      end
  | NBuiltin FSubst _ => (set_nosym s true, true)
  | _ => (s, true)
  end.

(* VisitAfter *)
Definition post (n : node) (s : st) : st :=
  match n with
  | NStmtList _ | NCond _ _ _ => pop_scope (check_symtab s)
  | NDecoStmt _ _ => pop_scope s
  | NNext =>
      match decos s with
      | [] => add_err s ENextOutside
      | d :: r =>
          match d with
          | _ :: _ => add_err s ENextTwice
          | [] => set_decos s (copy_from [] (scopes s) :: r)
          end
      end
  | NDecoDecl name _ =>
      match decos s with
      | [] => s
      | d :: r =>
          let s1 := match d with [] => add_err s EDecoNoNext | _ => s end in
          let s2 := set_decos s1 r in
          match find_name name (top_scope s2) with
          | Some y => set_zyg s2 ((sy_id y, d) :: zyg s2)
          | None => s2
          end
      end
  | NConst name p =>
      let (s1, pat) := pat_eval p s in
      match pat, find_name name (top_scope s1) with
      | _ :: _, Some y => set_pats s1 ((sy_id y, pat) :: pats s1)
      | _, _ => s1
      end
  | NIndexed ix lhs =>
      match lhs with
      | NId m =>
          match resolve_id s m with
          | None => s
          | Some y =>
              match sy_kind y with
              | KPattern => post_pattern (NId m) (mark_used s y)
              | _ =>
                  if N.eqb (sy_arity y) 0 then
                    (if N.eqb (nlen ix) 0 then s else add_err s EUnindexable)
                  else if N.eqb (sy_arity y) (nlen ix) then s else add_err s EKeyCount
              end
          end
      | _ => s
      end
  | NBin o l r =>
      match o with
      | BDiv | BMod => if is_zero_lit r && syn_int l then add_err s EZeroDiv else s
      | _ => s
      end
  | NPattern e => post_pattern e s
  | NBuiltin FSubst _ => set_nosym s false
  | _ => s
  end.

(* ast.Walk *)
Fixpoint walk (n : node) (s : st) : st :=
  let (s1, go) := pre n s in
  if negb go then s1 else
  post n
    (match n with
     | NStmtList cs => walks cs s1
     | NCond c t e => walk e (walk t (walk c s1))
     | NConst _ p => walk p s1
     | NDecoDecl _ b => walk b s1
     | NDecoStmt _ b => walk b s1
     | NIndexed ix lhs => walk lhs (walks ix s1)
     | NBin _ l r => walk r (walk l s1)
     | NPattern e => walk e s1
     | NBuiltin _ args => walks args s1
     | NUnary e => walk e s1
     | NDel e => walk e s1
     | NOther cs => walks cs s1
     | _ => s1
     end)
with walks (ns : nodes) (s : st) : st :=
  match ns with
  | NNil => s
  | NCons n r => walks r (walk n s)
  end.

(* checker.Check on the program (a StmtList): the errors, oldest first *)
Definition check (p : node) : list err := rev (errs (walk p st0)).

End Check.
