(* Library oracles of the language core (VM, reference semantics).
   Everything the Go code obtains from regexp, strconv, strings, time and math
   (and every float64 operation: float64 values are 64-bit patterns [N], see
   Metrics/FloatBits.v) is a field of the record [env].  Theorems quantify over
   every [env]; the correspondence files build one from tables written by the
   harness (regexp, strconv, time, Mod/Pow) and from Coq's primitive floats
   (add, sub, ..., comparisons).  Executable definitions only. *)
From V Require Export Base.Bytes Base.Int64.
Local Open Scope Z_scope.

Definition fbits := N.                   (* float64 as its IEEE-754 bit pattern *)
Definition timeval := (Z * Z)%type.      (* time.Time: (unix seconds, nanoseconds) *)

Record env := {
  (* regexp: [re_match i s] = Regexps[i].FindStringSubmatch(s), None = nil *)
  re_match    : N -> bytes -> option (list bytes);
  (* Regexps[i].ReplaceAllLiteralString(val, repl) *)
  re_replace  : N -> bytes -> bytes -> bytes;
  (* strconv.ParseInt(s, base, bitsize) *)
  parse_int   : bytes -> Z -> Z -> option Z;
  (* strconv.ParseFloat(s, 64) *)
  parse_float : bytes -> option fbits;
  (* strconv.FormatFloat(f, 'G', -1, 64)  and  fmt.Sprintf("%g", f) *)
  fmt_G       : fbits -> bytes;
  fmt_g       : fbits -> bytes;
  (* strings.ToLower *)
  to_lower    : bytes -> bytes;
  (* strings.ReplaceAll(val, old, repl) *)
  str_replace : bytes -> bytes -> bytes -> bytes;
  (* VM.ParseTime(layout, value): Some (unix sec, nsec) or None on failure *)
  time_parse  : bytes -> bytes -> option timeval;
  (* float64 arithmetic and comparisons *)
  fl_add : fbits -> fbits -> fbits;
  fl_sub : fbits -> fbits -> fbits;
  fl_mul : fbits -> fbits -> fbits;
  fl_div : fbits -> fbits -> fbits;
  fl_mod : fbits -> fbits -> fbits;      (* math.Mod *)
  fl_pow : fbits -> fbits -> fbits;      (* math.Pow *)
  fl_lt  : fbits -> fbits -> bool;       (* a < b  *)
  fl_eq  : fbits -> fbits -> bool;       (* a == b *)
  fl_le  : fbits -> fbits -> bool;       (* a <= b *)
  fl_of_int : Z -> fbits;                (* float64(int64) *)
  (* int64(math.Pow(float64(a), float64(b))) *)
  i_pow  : Z -> Z -> Z;
  (* time.Now().Unix() while the line is processed *)
  now_sec : Z
}.

Definition fl_zero : fbits := 0%N.                      (* +0.0 *)
Definition fl_gt (e : env) (a b : fbits) : bool := fl_lt e b a.   (* a > b *)

(* ---- concrete string functions ---- *)

(* Go string comparison a < b: bytewise lexicographic *)
Fixpoint bytes_ltb (a b : bytes) : bool :=
  match a, b with
  | _, [] => false
  | [], _ :: _ => true
  | x :: a', y :: b' => if N.ltb x y then true else if N.ltb y x then false else bytes_ltb a' b'
  end.

(* strconv.FormatInt(z, 10) / fmt.Sprintf("%d", z) *)
Fixpoint digits_pos (fuel : nat) (p : Z) (acc : bytes) : bytes :=
  match fuel with
  | O => acc
  | S f => if p <? 10 then (Z.to_N (48 + p)) :: acc
           else digits_pos f (p / 10) (Z.to_N (48 + p mod 10) :: acc)
  end.
Definition fmt_int (z : Z) : bytes :=
  if z <? 0 then 45%N :: digits_pos 25 (- z) [] else digits_pos 25 z [].

(* ---- int64 operations as the VM performs them ---- *)
Definition i_add (a b : Z) : Z := wrap64 (a + b).
Definition i_sub (a b : Z) : Z := wrap64 (a - b).
Definition i_mul (a b : Z) : Z := wrap64 (a * b).
Definition i_quot (a b : Z) : Z := wrap64 (Z.quot a b).   (* b <> 0; MinInt64 / -1 wraps *)
Definition i_rem (a b : Z) : Z := Z.rem a b.
Definition i_shl (a b : Z) : Z := if 64 <=? b then 0 else wrap64 (Z.shiftl a b).
Definition i_shr (a b : Z) : Z := if 64 <=? b then (if a <? 0 then -1 else 0) else Z.shiftr a b.
Definition i_and (a b : Z) : Z := Z.land a b.
Definition i_or (a b : Z) : Z := Z.lor a b.
Definition i_xor (a b : Z) : Z := Z.lxor a b.
Definition i_not (a : Z) : Z := Z.lnot a.
Definition max_int32 : Z := 2147483647.

(* ---- time.Time as (unix seconds, nanoseconds) ---- *)
Definition zero_time : timeval := (-62135596800, 0).
Definition time_is_zero (t : timeval) : bool :=
  (fst t =? -62135596800) && (snd t =? 0).
Definition time_unix (t : timeval) : Z := fst t.
Definition time_unix_nano (t : timeval) : Z := wrap64 (fst t * 1000000000 + snd t).
