(* The observable part of a store: per metric, in insertion order, the label
   tuple, the value, the time class and the expiry of every datum.  Both the
   VM's heap-and-pointer store and the reference store project onto it; "equality
   of final stores" in C01 means equality of these projections.
   Executable definitions only. *)
From V Require Export Lang.RefSem Lang.Vm.
Local Open Scope Z_scope.

Definition oentry := (tuple * dval * dtime * Z)%type.
Definition ostore := list (list oentry).

Definition obs_lv (h : list dcell) (lv : lvrec) : oentry :=
  let c := nth (lv_datum lv) h (mkdcell (DInt 0) TNow) in
  (lv_labels lv, d_val c, d_time c, lv_expiry lv).
Definition obs_vm (st : store) : ostore := map (map (obs_lv (s_heap st))) (s_mets st).

Definition dval_of (v : rval) : dval :=
  match v with RInt z => DInt z | RFloat b => DFloat b | RStr s => DStr s | RBool _ => DInt 0 end.
Definition dtime_of (t : rtime) : dtime := match t with RNow => TNow | RAt ns => TAt ns end.
Definition obs_rd (d : rdatum) : oentry := (rd_labels d, dval_of (rd_val d), dtime_of (rd_time d), rd_expiry d).
Definition obs_ref (st : rstore) : ostore := map (map obs_rd) st.

(* per-line outcomes, as far as the property distinguishes them *)
Inductive oclass := OcNext | OcStop | OcErr | OcFault.
Definition class_vm (oc : outcome) : oclass :=
  match oc with Next => OcNext | Stopped => OcStop | Err _ => OcErr | _ => OcFault end.
Definition class_ref (oc : routcome) : oclass :=
  match oc with ONext => OcNext | OStop => OcStop | OErr _ => OcErr end.
