(* Decorators.  The SURFACE program still has `def` bodies, `@deco { ... }`
   statements and `next`; its patterns carry SURFACE ids (one per textual
   occurrence, index into sp_pats) and its string literals no table index.
   [expand] gives the core program (Lang/Ast.v) the reference describes:

     "The decorator definition ... looks like a normal pattern/action ... The new
      part is the `next` keyword, which indicates where to jump into the decorated
      block ... the wrapped block [executes] ... then"  (docs/Language.md)

   i.e. `@d { B }` means d's body with `next` replaced by B.  While inlining,
   pattern occurrences and string literals are numbered in the order the code
   generator visits them (a decorator used twice contributes its patterns
   twice), and a capture reference is bound to the innermost instance of its
   pattern — exactly what codegen.go's c.decos walk does; the correspondence
   compares [codegen (expand sp)] with the real object code.
   Executable definitions only. *)
From V Require Export Lang.Ast Lang.Codegen.
Local Open Scope N_scope.

(* block-free statements are core statements (with surface ids inside) *)
Inductive sstmt :=
| USimple (s : stmt)
| UCond (c : expr) (th : sblock)
| UCondElse (c : expr) (th el : sblock)
| UOtherwise (th : sblock)
| UDeco (d : N) (b : sblock)
| UNext
with sblock :=
| UNil
| UCons (s : sstmt) (r : sblock).

Record sprog := mksprog {
  sp_decls : list mdecl;
  sp_decos : list sblock;      (* decorator bodies, by index *)
  sp_body : sblock;
  sp_pats : list bytes         (* pattern texts, by surface id *)
}.

(* numbering state: tables built so far (in order), bindings surface id -> pid *)
Record nst := mknst {
  n_res : list bytes;
  n_strs : list bytes;
  n_env : list (N * N)
}.

Definition len {A} (l : list A) : N := N.of_nat (length l).

Fixpoint env_get (k : N) (l : list (N * N)) : N :=
  match l with
  | [] => 0
  | (k', v) :: r => if N.eqb k k' then v else env_get k r
  end.

Section Exp.
Variable pats : list bytes.

Definition new_pat (spid : N) (s : nst) : N * nst :=
  let pid := len (n_res s) in
  (pid, mknst (n_res s ++ [nth (N.to_nat spid) pats []]) (n_strs s) ((spid, pid) :: n_env s)).

Definition new_str (x : bytes) (s : nst) : N * nst :=
  (len (n_strs s), mknst (n_res s) (n_strs s ++ [x]) (n_env s)).

(* expressions, in code-generation order *)
Fixpoint rexpr (e : expr) (s : nst) {struct e} : expr * nst :=
  match e with
  | EInt _ | EFloat _ | ETimestamp | EGetfilename => (e, s)
  | EStr _ x => let (sid, s1) := new_str x s in (EStr sid x, s1)
  | ECap spid g t => (ECap (env_get spid (n_env s)) g t, s)
  | EConv f t a => let (a', s1) := rexpr a s in (EConv f t a', s1)
  | EArith op t a b => let (a', s1) := rexpr a s in let (b', s2) := rexpr b s1 in (EArith op t a' b', s2)
  | EBit op a b => let (a', s1) := rexpr a s in let (b', s2) := rexpr b s1 in (EBit op a' b', s2)
  | ENeg a => let (a', s1) := rexpr a s in (ENeg a', s1)
  | ECmp op t ty a b => let (a', s1) := rexpr a s in let (b', s2) := rexpr b s1 in (ECmp op t ty a' b', s2)
  | EAnd a b => let (a', s1) := rexpr a s in let (b', s2) := rexpr b s1 in (EAnd a' b', s2)
  | EOr a b => let (a', s1) := rexpr a s in let (b', s2) := rexpr b s1 in (EOr a' b', s2)
  | EMatch spid => let (pid, s1) := new_pat spid s in (EMatch pid, s1)
  | ESMatch neg a spid =>
      let (a', s1) := rexpr a s in let (pid, s2) := new_pat spid s1 in (ESMatch neg a' pid, s2)
  | EGet m ks => let (ks', s1) := rexprs ks s in (EGet m ks', s1)
  | ELen a => let (a', s1) := rexpr a s in (ELen a', s1)
  | ETolower a => let (a', s1) := rexpr a s in (ETolower a', s1)
  | EStrtol a b => let (a', s1) := rexpr a s in let (b', s2) := rexpr b s1 in (EStrtol a' b', s2)
  | ESubst a b c =>
      let (a', s1) := rexpr a s in let (b', s2) := rexpr b s1 in let (c', s3) := rexpr c s2 in
      (ESubst a' b' c', s3)
  | ERsubst spid b c =>
      let (pid, s1) := new_pat spid s in let (b', s2) := rexpr b s1 in let (c', s3) := rexpr c s2 in
      (ERsubst pid b' c', s3)
  | EIncr dec m ks => let (ks', s1) := rexprs ks s in (EIncr dec m ks', s1)
  end
with rexprs (ks : exprs) (s : nst) {struct ks} : exprs * nst :=
  match ks with
  | XNil => (XNil, s)
  | XCons e r => let (e', s1) := rexpr e s in let (r', s2) := rexprs r s1 in (XCons e' r', s2)
  end.

(* a block-free statement *)
Definition rsimple (st : stmt) (s : nst) : stmt * nst :=
  match st with
  | SInc m ks => let (ks', s1) := rexprs ks s in (SInc m ks', s1)
  | SDec m ks => let (ks', s1) := rexprs ks s in (SDec m ks', s1)
  | SSet t m ks e => let (ks', s1) := rexprs ks s in let (e', s2) := rexpr e s1 in (SSet t m ks' e', s2)
  | SAddTo t m ks e =>
      let (ks', s1) := rexprs ks s in
      (* a non-Int += walks its target twice: the tables get the second copy's entries *)
      let s1' := match t with TInt | TBool => s1 | _ => snd (rexprs ks s1) end in
      let (e', s2) := rexpr e s1' in (SAddTo t m ks' e', s2)
  | SSettime e => let (e', s1) := rexpr e s in (SSettime e', s1)
  | SStrptime e _ lay =>
      let (e', s1) := rexpr e s in let (sid, s2) := new_str lay s1 in (SStrptime e' sid lay, s2)
  | SDel m ks => let (ks', s1) := rexprs ks s in (SDel m ks', s1)
  | SExpire m ks d => let (ks', s1) := rexprs ks s in (SExpire m ks' d, s1)
  | _ => (st, s)
  end.

Variable decos : list sblock.

(* [stack]: decorated blocks waiting for `next`, innermost first.
   [fuel] bounds the nesting of decorator uses (a decorator body that uses
   decorators); None = ran out of fuel or `next` outside a decorator. *)
Fixpoint xstmt (fuel : nat) (st : sstmt) (stack : list sblock) (s : nst) {struct fuel} : option (block * nst) :=
  match fuel with
  | O => None
  | S f =>
      match st with
      | USimple c => let (c', s1) := rsimple c s in Some (BCons c' BNil, s1)
      | UCond c th =>
          let (c', s1) := rexpr c s in
          match xblock f th stack s1 with
          | Some (th', s2) => Some (BCons (SCond c' th') BNil, s2)
          | None => None
          end
      | UCondElse c th el =>
          let (c', s1) := rexpr c s in
          match xblock f th stack s1 with
          | Some (th', s2) =>
              match xblock f el stack s2 with
              | Some (el', s3) => Some (BCons (SCondElse c' th' el') BNil, s3)
              | None => None
              end
          | None => None
          end
      | UOtherwise th =>
          match xblock f th stack s with
          | Some (th', s1) => Some (BCons (SOtherwise th') BNil, s1)
          | None => None
          end
      | UDeco d b =>
          (* the body of d, with b waiting for its `next`; bindings made inside
             this instance are dropped afterwards *)
          match xblock f (nth (N.to_nat d) decos UNil) (b :: stack) s with
          | Some (r, s1) => Some (r, mknst (n_res s1) (n_strs s1) (n_env s))
          | None => None
          end
      | UNext =>
          match stack with
          | b :: rest => xblock f b rest s
          | [] => None
          end
      end
  end
with xblock (fuel : nat) (b : sblock) (stack : list sblock) (s : nst) {struct fuel} : option (block * nst) :=
  match fuel with
  | O => None
  | S f =>
      match b with
      | UNil => Some (BNil, s)
      | UCons st r =>
          match xstmt f st stack s with
          | Some (b1, s1) =>
              match xblock f r stack s1 with
              | Some (b2, s2) => Some (block_app b1 b2, s2)
              | None => None
              end
          | None => None
          end
      end
  end.

End Exp.

Fixpoint ssize (s : sstmt) : nat :=
  match s with
  | USimple _ | UNext => 1
  | UCond _ th | UOtherwise th | UDeco _ th => 1 + bsize th
  | UCondElse _ th el => 1 + bsize th + bsize el
  end
with bsize (b : sblock) : nat :=
  match b with UNil => 1 | UCons s r => 1 + ssize s + bsize r end.

Definition sp_fuel (sp : sprog) : nat :=
  2 * (bsize (sp_body sp) + fold_right (fun b n => (bsize b + n)%nat) O (sp_decos sp)) *
  (1 + length (sp_decos sp)) + 8.

Definition expand (sp : sprog) : option prog :=
  match xblock (sp_pats sp) (sp_decos sp) (sp_fuel sp) (sp_body sp) [] (mknst [] [] []) with
  | Some (b, s) => Some (mkprog (sp_decls sp) b (n_res s) (n_strs s))
  | None => None
  end.
