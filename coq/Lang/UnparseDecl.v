(* Metric declarations: the productions metric_declaration, metric_hide_spec,
   metric_decl_attr_spec, metric_by_spec, metric_as_spec, metric_limit_spec and
   metric_buckets_spec of parser.y as a state machine over tokens, and the
   VarDecl case of unparser.go as a token-list builder (definitions only).

   Names and keys may be written as identifiers or as string literals; both give
   the same text, so the token model has one name token for both (whether the
   formatter must quote is decided by the lexer's character classes and is
   covered by the oracle of harness/c23, not here).  Bucket boundaries are
   float64 bit patterns: INTLITERAL and FLOATLITERAL both end up as float64. *)
From V Require Import Base.Bytes.
Local Open Scope Z_scope.

Inductive dtk :=
| DHidden | DKind (k : N) | DName (s : bytes) | DBy | DComma | DAs | DStr (s : bytes)
| DLimit | DInt (z : Z) | DBuckets | DNum (bits : N).

Record decl := mk_decl {
  d_hidden : bool; d_kind : N; d_name : bytes; d_keys : list bytes;
  d_limit : Z; d_buckets : list N; d_as : bytes }.

Definition decl0 : decl := mk_decl false 0 [] [] 0 [] [].

Inductive dmode :=
| MStart | MKind | MName | MAttrs | MKeys | MKeysSep | MAs | MLimit | MBuckets | MBucketsSep | MFail.

(* where a further attribute specification may start *)
Definition attr_mode (m : dmode) : bool :=
  match m with MAttrs | MKeysSep | MBucketsSep => true | _ => false end.

Definition dstep (st : decl * dmode) (t : dtk) : decl * dmode :=
  let (d, m) := st in
  let '(mk_decl h k n ks l bs a) := d in
  match m, t with
  | MStart, DHidden => (mk_decl true k n ks l bs a, MKind)
  | MStart, DKind k' => (mk_decl h k' n ks l bs a, MName)
  | MKind, DKind k' => (mk_decl h k' n ks l bs a, MName)
  | MName, DName s => (mk_decl h k s ks l bs a, MAttrs)
  | MKeys, DName s => (mk_decl h k n (ks ++ [s]) l bs a, MKeysSep)
  | MKeysSep, DComma => (d, MKeys)
  | MAs, DStr s => (mk_decl h k n ks l bs s, MAttrs)
  | MLimit, DInt z => (mk_decl h k n ks z bs a, MAttrs)
  | MBuckets, DNum b => (mk_decl h k n ks l (bs ++ [b]) a, MBucketsSep)
  | MBucketsSep, DComma => (d, MBuckets)
  | _, DBy => if attr_mode m then (mk_decl h k n [] l bs a, MKeys) else (d, MFail)
  | _, DAs => if attr_mode m then (d, MAs) else (d, MFail)
  | _, DLimit => if attr_mode m then (d, MLimit) else (d, MFail)
  | _, DBuckets => if attr_mode m then (mk_decl h k n ks l [] a, MBuckets) else (d, MFail)
  | _, _ => (d, MFail)
  end.

Definition drun (st : decl * dmode) (ts : list dtk) : decl * dmode := fold_left dstep ts st.

Definition parse_decl (ts : list dtk) : option decl :=
  let (d, m) := drun (decl0, MStart) ts in if attr_mode m then Some d else None.

(* ---- printer (repaired: fixes/C23-unparser-decl-attributes, -negative-limit) ---- *)

Fixpoint sep_names (l : list bytes) : list dtk :=
  match l with
  | [] => []
  | [x] => [DName x]
  | x :: r => DName x :: DComma :: sep_names r
  end.
Fixpoint sep_nums (l : list N) : list dtk :=
  match l with
  | [] => []
  | [x] => [DNum x]
  | x :: r => DNum x :: DComma :: sep_nums r
  end.

Definition seg_keys (ks : list bytes) : list dtk := match ks with [] => [] | _ => DBy :: sep_names ks end.
Definition seg_as (a : bytes) : list dtk := match a with [] => [] | _ => [DAs; DStr a] end.
Definition seg_limit (l : Z) : list dtk := if l =? 0 then [] else [DLimit; DInt l].
Definition seg_buckets (bs : list N) : list dtk := match bs with [] => [] | _ => DBuckets :: sep_nums bs end.

Definition unparse_decl (d : decl) : list dtk :=
  (if d_hidden d then [DHidden] else []) ++ [DKind (d_kind d); DName (d_name d)] ++
  seg_keys (d_keys d) ++ seg_as (d_as d) ++ seg_limit (d_limit d) ++ seg_buckets (d_buckets d).

(* ---- before the repairs: no `hidden`, no `as`, limit only when positive,
   buckets through a lossy conversion ([f6]: what %f keeps of a float64) ---- *)
Definition unparse_decl_old (f6 : N -> N) (d : decl) : list dtk :=
  [DKind (d_kind d); DName (d_name d)] ++ seg_keys (d_keys d) ++
  (if 0 <? d_limit d then [DLimit; DInt (d_limit d)] else []) ++
  seg_buckets (map f6 (d_buckets d)).
