(* internal/runtime/compiler/checker/checker.go (with the part of codegen.go that
   decides acceptance) as a function from the PARSED tree to the core tree of
   Lang/Ast.v.

   The pre-checker tree is what parser.y builds for the statement forms of the
   grammar, after name resolution of metrics (declaration index) and with each
   pattern expression already concatenated to its text (const fragments are
   substituted by the harness): no conversion nodes, captures are names,
   metrics have a kind and a key count but no type.

   [elab] follows the checker in program order:
   - metric types are type variables instantiated by the FIRST use that unifies
     them with a concrete type (an assignment, `+=`, `++`, or an arithmetic /
     comparison sibling); once instantiated a type never changes
     (types.Unify of two different concrete types succeeds through
     LeastUpperBound and instantiates nothing) - the recorded first-textual-use
     behaviour;
   - arithmetic and comparisons take LeastUpperBound of the operand types and
     wrap the operands that differ in a conversion; `=`, `+=`, bitwise
     operators, `&&`, `||`, `~`, settime and conditions do NOT convert and do
     not reject a foreign type (the known C04 families come from here);
   - capture groups are symbols of the scope in which their pattern is checked
     (the condition's scope, visible in both branches; the statement list's
     scope for `=~`); a group redeclared in the same scope is an error; groups
     are typed by the shape of the group (oracle: types.InferCaprefType);
   - patterns and string literals are numbered in the order codegen.go visits
     them (a `+=` on a non-Int metric visits its target twice);
   - the errors raised later by codegen.go on an accepted tree (no opcode for
     the type, impossible conversion, scalar text counter) are rejections too.
   [EUnsup] marks the situations this model does not follow (a metric whose type
   is still a variable used where the checker would unify it with another
   variable or leave it open): the correspondence skips them and counts them.

   The result carries warnings: [WSettime WMixed WCond WNeg] are raised where
   the checker lets one of the known families through; [WOther] / [WNotWt] are
   set by validating the produced tree against [accepts] (Proofs/
   CodegenVerifies.v) and [wt] (Lang/Wt.v) in Corr/Props (see Props/C04.v).
   Executable definitions only. *)
From V Require Export Lang.Ast Lang.Codegen.
Local Open Scope N_scope.

Inductive pexpr :=
| PInt (z : Z)
| PFloat (b : N)
| PStr (s : bytes)
| PCap (name : bytes)                       (* $1 / $name: the symbol name *)
| PArith (op : arith) (a b : pexpr)
| PBit (op : bitop) (a b : pexpr)
| PNeg (a : pexpr)
| PCmp (op : cmpop) (a b : pexpr)
| PAnd (a b : pexpr)
| POr (a b : pexpr)
| PMatch (pat : bytes)
| PSMatch (neg : bool) (a : pexpr) (pat : bytes)
| PGet (m : N) (ks : pexprs)
| PIncr (dec : bool) (m : N) (ks : pexprs)
| PConvFn (to : ty) (a : pexpr)             (* int() float() string() *)
| PLen (a : pexpr)
| PTolower (a : pexpr)
| PStrtol (a b : pexpr)
| PSubst (a b c : pexpr)
| PRsubst (pat : bytes) (b c : pexpr)
| PTimestamp
| PGetfilename
with pexprs :=
| PXNil
| PXCons (e : pexpr) (r : pexprs).

Inductive pstmt :=
| PSInc (m : N) (ks : pexprs)
| PSDec (m : N) (ks : pexprs)
| PSSet (m : N) (ks : pexprs) (e : pexpr)
| PSAddTo (m : N) (ks : pexprs) (e : pexpr)
| PSSettime (e : pexpr)
| PSStrptime (e : pexpr) (layout : bytes) (layout_ok : bool)   (* time.Parse accepts the layout (oracle) *)
| PSCond (form_ok : bool) (c : pexpr) (th : pblock)            (* form_ok: the condition is a unary/binary expression *)
| PSCondElse (form_ok : bool) (c : pexpr) (th el : pblock)
| PSOtherwise (th : pblock)
| PSDel (m : N) (ks : pexprs)
| PSExpire (m : N) (ks : pexprs) (d : Z)
| PSStop
with pblock :=
| PBNil
| PBCons (s : pstmt) (r : pblock).

Record pdecl := mkpdecl { pd_kind : kind; pd_nkeys : N }.

Record pre_prog := mkpre {
  pp_decls : list pdecl;
  pp_body : pblock;
  (* types.ParseRegexp + CapNames + InferCaprefType, per pattern text: for each
     group number its name ([] = unnamed) and its type (None = no such type) *)
  pp_caps : list (bytes * list (bytes * option ty))
}.

Inductive warn := WSettime | WMixed | WCond | WNeg | WOther | WNotWt.

Inductive eres (A : Type) := EOk (a : A) | EReject | EUnsup.
Arguments EOk {A}. Arguments EReject {A}. Arguments EUnsup {A}.

Definition ebind {A B} (x : eres A) (f : A -> eres B) : eres B :=
  match x with EOk a => f a | EReject => EReject | EUnsup => EUnsup end.
Notation "'edo' x <- a ; b" := (ebind a (fun x => b))
  (at level 200, x binder, a at level 100, b at level 200, right associativity).

(* a capture symbol: key (group number in decimal, or name), pattern, group, type *)
Definition csym := (bytes * N * N * option ty)%type.

Record est := mkest {
  e_mt : list (option ty);        (* metric value types; None = still a type variable *)
  e_used : list bool;
  e_res : list bytes;             (* Regexps, in codegen order *)
  e_strs : list bytes;            (* Strings, in codegen order *)
  e_scopes : list (list csym);    (* innermost first *)
  e_warn : list warn
}.

(* the type of an elaborated expression: known, or the open variable of metric m *)
Inductive tyr := Known (t : ty) | Open (m : N).

Fixpoint list_upd {A} (l : list A) (n : nat) (x : A) : list A :=
  match l, n with
  | [], _ => []
  | _ :: r, O => x :: r
  | y :: r, S n' => y :: list_upd r n' x
  end.

Definition lub (a b : ty) : ty :=
  if ty_eqb a b then a else
  match a, b with
  | TBool, TInt | TInt, TBool => TInt
  | TBool, TFloat | TFloat, TBool => TFloat
  | TInt, TFloat | TFloat, TInt => TFloat
  | _, _ => TStr
  end.

(* codegen.go emitConversion: the pairs that have an instruction (or need none) *)
Definition conv_exists (f t : ty) : bool :=
  match f, t with
  | TInt, TFloat | TStr, TFloat | TStr, TInt | TFloat, TStr | TInt, TStr => true
  | _, _ => ty_eqb f t
  end.

Definition digits (n : N) : bytes :=
  (fix go (fuel : nat) (n : N) (acc : bytes) : bytes :=
     match fuel with
     | O => acc
     | S f => if n <? 10 then (48 + n) :: acc else go f (n / 10) ((48 + n mod 10) :: acc)
     end) 40%nat n [].

Section Elab.
Variable decls : list pdecl.
Variable caps : list (bytes * list (bytes * option ty)).

Fixpoint caps_of (pat : bytes) (l : list (bytes * list (bytes * option ty))) : option (list (bytes * option ty)) :=
  match l with
  | [] => None
  | (k, v) :: r => if bytes_eqb pat k then Some v else caps_of pat r
  end.

Definition mt_get (st : est) (m : N) : tyr :=
  match nth_error (e_mt st) (N.to_nat m) with
  | Some (Some t) => Known t
  | _ => Open m
  end.

Definition pin (st : est) (m : N) (t : ty) : est :=
  mkest (list_upd (e_mt st) (N.to_nat m) (Some t)) (e_used st) (e_res st) (e_strs st) (e_scopes st) (e_warn st).
Definition use (st : est) (m : N) : est :=
  mkest (e_mt st) (list_upd (e_used st) (N.to_nat m) true) (e_res st) (e_strs st) (e_scopes st) (e_warn st).
Definition add_str (st : est) (s : bytes) : N * est :=
  (N.of_nat (length (e_strs st)),
   mkest (e_mt st) (e_used st) (e_res st) (e_strs st ++ [s]) (e_scopes st) (e_warn st)).
Definition add_strs (st : est) (l : list bytes) : est :=
  mkest (e_mt st) (e_used st) (e_res st) (e_strs st ++ l) (e_scopes st) (e_warn st).
Definition add_warn (st : est) (w : warn) : est :=
  mkest (e_mt st) (e_used st) (e_res st) (e_strs st) (e_scopes st) (w :: e_warn st).
Definition warn_if (b : bool) (st : est) : est := if b then add_warn st WMixed else st.
Definition push_scope (st : est) : est :=
  mkest (e_mt st) (e_used st) (e_res st) (e_strs st) ([] :: e_scopes st) (e_warn st).
Definition pop_scope (st : est) : est :=
  mkest (e_mt st) (e_used st) (e_res st) (e_strs st) (tl (e_scopes st)) (e_warn st).

Fixpoint sym_find (k : bytes) (l : list csym) : option csym :=
  match l with
  | [] => None
  | ((k', p, g, t) as s) :: r => if bytes_eqb k k' then Some s else sym_find k r
  end.
Fixpoint sym_lookup (k : bytes) (sc : list (list csym)) : option csym :=
  match sc with
  | [] => None
  | f :: r => match sym_find k f with Some s => Some s | None => sym_lookup k r end
  end.

(* checkRegex: one symbol per group number, plus an alias for a named group;
   None when a key is already declared in the current scope *)
Fixpoint group_syms (pid : N) (i : N) (gs : list (bytes * option ty)) (frame : list csym) : option (list csym) :=
  match gs with
  | [] => Some frame
  | (name, t) :: r =>
      match sym_find (digits i) frame with
      | Some _ => None
      | None =>
          let frame1 := (digits i, pid, i, t) :: frame in
          match name with
          | [] => group_syms pid (i + 1) r frame1
          | _ => match sym_find name frame1 with
                 | Some _ =>
                     (* symbol.InsertAlias shadows its result variable: an alias that
                        already exists is never reported, the first one stays *)
                     group_syms pid (i + 1) r frame1
                 | None => group_syms pid (i + 1) r ((name, pid, i, t) :: frame1)
                 end
          end
      end
  end.

(* a pattern expression: new entry of the regexp table, symbols unless inside subst *)
Definition reg_pat (pat : bytes) (syms : bool) (st : est) : eres (N * est) :=
  match caps_of pat caps with
  | None => EReject                 (* the regular expression does not parse *)
  | Some gs =>
      let pid := N.of_nat (length (e_res st)) in
      let res' := e_res st ++ [pat] in
      if syms then
        match e_scopes st with
        | frame :: rest =>
            match group_syms pid 0 gs frame with
            | Some frame' => EOk (pid, mkest (e_mt st) (e_used st) res' (e_strs st) (frame' :: rest) (e_warn st))
            | None => EReject
            end
        | [] => EUnsup
        end
      else EOk (pid, mkest (e_mt st) (e_used st) res' (e_strs st) (e_scopes st) (e_warn st))
  end.

Definition nkeys_of (m : N) : option N :=
  match nth_error decls (N.to_nat m) with Some d => Some (pd_nkeys d) | None => None end.

Fixpoint pexprs_len (x : pexprs) : nat :=
  match x with PXNil => O | PXCons _ r => S (pexprs_len r) end.

(* conversion of an operand of type f to the operation's type t *)
Definition conv_to (f t : ty) (e : expr) : eres expr :=
  if ty_eqb f t then EOk e
  else if conv_exists f t then EOk (EConv f t e) else EReject.

(* an index key is converted to a string when it is an Int or a Float *)
Definition key_conv (t : tyr) (e : expr) : eres expr :=
  match t with
  | Known TInt => EOk (EConv TInt TStr e)
  | Known TFloat => EOk (EConv TFloat TStr e)
  | Known _ => EOk e
  | Open _ => EUnsup
  end.

Fixpoint is_i64 (e : expr) : bool :=
  match e with ELen _ => false | EConv TInt TInt a => is_i64 a | _ => true end.

(* a Bool reaching an instruction that pops a string, a Float or a Bool reaching
   one that pops an int: the checker unifies through LeastUpperBound and lets
   them through (same family as the mixed assignment) *)
Definition is_boolt (t : tyr) : bool := match t with Known TBool => true | _ => false end.
Definition not_intish (t : tyr) : bool :=
  match t with Known TInt | Known TStr => false | _ => true end.

(* a value used as a condition: bool, or an int64 *)
Definition cond_fine (e : expr) (t : tyr) : bool :=
  match t with Known TBool => true | Known TInt => is_i64 e | _ => false end.

(* the left operand's type is read after the right operand was checked: its
   variable may have been instantiated meanwhile *)
Definition refresh (st : est) (t : tyr) : tyr :=
  match t with Open m => mt_get st m | k => k end.

(* arithmetic at result type t (= LeastUpperBound), operands of types x and y *)
Definition arith_fin (op : arith) (t : ty) (a1 b1 : expr) (x y : ty) (st : est) : eres (expr * tyr * est) :=
  match t with
  | TInt | TFloat =>
      edo a2 <- conv_to x t a1;
      edo b2 <- conv_to y t b1;
      match op, b2 with
      | ADiv, EInt 0%Z | AMod, EInt 0%Z => EReject        (* "Can't divide by zero." *)
      | _, _ => EOk (EArith op t a2 b2, Known t, st)
      end
  | TStr =>
      match op with
      | AAdd =>
          edo a2 <- conv_to x TStr a1;
          edo b2 <- conv_to y TStr b1;
          EOk (EArith AAdd TStr a2 b2, Known TStr, st)
      | _ => EReject                                       (* no opcode for String *)
      end
  | TBool => EReject
  end.

Fixpoint ex (e : pexpr) (st : est) {struct e} : eres (expr * tyr * est) :=
  match e with
  | PInt z => EOk (EInt z, Known TInt, st)
  | PFloat b => EOk (EFloat b, Known TFloat, st)
  | PStr s => let (sid, st1) := add_str st s in EOk (EStr sid s, Known TStr, st1)
  | PCap name =>
      match sym_lookup name (e_scopes st) with
      | Some (_, _, _, Some TBool) => EUnsup
      | Some (_, pid, grp, Some t) => EOk (ECap pid grp t, Known t, st)
      | Some (_, _, _, None) => EUnsup
      | None => EReject
      end
  | PArith op a b =>
      edo '(a1, ta, st1) <- ex a st;
      edo '(b1, tb, st2) <- ex b st1;
      let ta := refresh st2 ta in
      match ta, tb with
      | Open _, Open _ => EUnsup
      | Open m, Known t => arith_fin op t a1 b1 t t (pin st2 m t)
      | Known t, Open m => arith_fin op t a1 b1 t t (pin st2 m t)
      | Known x, Known y => arith_fin op (lub x y) a1 b1 x y st2
      end
  | PBit op a b =>
      edo '(a1, ta, st1) <- ex a st;
      edo '(b1, tb, st2) <- ex b st1;
      let ta := refresh st2 ta in
      let st3 := match ta with Open m => pin st2 m TInt | _ => st2 end in
      let st4 := match tb with Open m => pin st3 m TInt | _ => st3 end in
      let bad t := match t with Known TInt | Open _ => false | _ => true end in
      EOk (EBit op a1 b1, Known TInt, if bad ta || bad tb then add_warn st4 WMixed else st4)
  | PNeg a =>
      edo '(a1, ta, st1) <- ex a st;
      match ta with
      | Open m => EOk (ENeg a1, Known TBool, pin st1 m TInt)
      | Known TInt => EOk (ENeg a1, Known TBool, st1)
      | Known _ => EOk (ENeg a1, Known TBool, add_warn st1 WNeg)
      end
  | PCmp op a b =>
      edo '(a1, ta, st1) <- ex a st;
      edo '(b1, tb, st2) <- ex b st1;
      let ta := refresh st2 ta in
      match ta, tb with
      | Open _, Open _ => EUnsup
      | Open m, Known t => EOk (ECmp op t true a1 b1, Known TBool, warn_if (ty_eqb t TBool) (pin st2 m t))
      | Known t, Open m => EOk (ECmp op t true a1 b1, Known TBool, warn_if (ty_eqb t TBool) (pin st2 m t))
      | Known x, Known y =>
          let t := lub x y in
          edo a2 <- conv_to x t a1;
          edo b2 <- conv_to y t b1;
          EOk (ECmp op t true a2 b2, Known TBool, warn_if (ty_eqb t TBool) st2)
      end
  | PAnd a b =>
      edo '(a1, ta, st1) <- ex a st;
      edo '(b1, tb, st2) <- ex b st1;
      match ta, tb with
      | Open _, _ | _, Open _ => EUnsup
      | _, _ => EOk (EAnd a1 b1, Known TBool,
                     if cond_fine a1 ta && cond_fine b1 tb then st2 else add_warn st2 WCond)
      end
  | POr a b =>
      edo '(a1, ta, st1) <- ex a st;
      edo '(b1, tb, st2) <- ex b st1;
      match ta, tb with
      | Open _, _ | _, Open _ => EUnsup
      | _, _ => EOk (EOr a1 b1, Known TBool,
                     if cond_fine a1 ta && cond_fine b1 tb then st2 else add_warn st2 WCond)
      end
  | PMatch pat =>
      edo '(pid, st1) <- reg_pat pat true st;
      EOk (EMatch pid, Known TBool, st1)
  | PSMatch neg a pat =>
      edo '(a1, ta, st1) <- ex a st;
      match ta with
      | Open _ => EUnsup
      | Known _ =>
          edo '(pid, st2) <- reg_pat pat true st1;
          EOk (ESMatch neg a1 pid, Known TBool, warn_if (is_boolt ta) st2)
      end
  | PGet m ks =>
      match nkeys_of m with
      | None => EReject
      | Some n =>
          edo '(ks1, st1) <- exs ks st;
          if negb (Nat.eqb (pexprs_len ks) (N.to_nat n)) then EReject else
          let st2 := use st1 m in
          EOk (EGet m ks1, mt_get st2 m, st2)
      end
  | PIncr dec m ks =>
      match nkeys_of m with
      | None => EReject
      | Some n =>
          edo '(ks1, st1) <- exs ks st;
          if negb (Nat.eqb (pexprs_len ks) (N.to_nat n)) then EReject else
          let st2 := use st1 m in
          match mt_get st2 m with
          | Open _ => EOk (EIncr dec m ks1, Known TInt, pin st2 m TInt)
          | Known TInt => EOk (EIncr dec m ks1, Known TInt, st2)
          | Known _ => EReject
          end
      end
  | PConvFn to a =>
      edo '(a1, ta, st1) <- ex a st;
      match ta with
      | Open _ => EUnsup
      | Known f => if conv_exists f to then EOk (EConv f to a1, Known to, st1) else EReject
      end
  | PLen a =>
      edo '(a1, ta, st1) <- ex a st;
      match ta with Open _ => EUnsup | Known _ => EOk (ELen a1, Known TInt, warn_if (is_boolt ta) st1) end
  | PTolower a =>
      edo '(a1, ta, st1) <- ex a st;
      match ta with
      | Known TStr => EOk (ETolower a1, Known TStr, st1)
      | Open _ => EUnsup
      | Known _ => EReject
      end
  | PStrtol a b =>
      edo '(a1, ta, st1) <- ex a st;
      edo '(b1, tb, st2) <- ex b st1;
      match ta, tb with
      | Known _, Known _ => EOk (EStrtol a1 b1, Known TInt, warn_if (is_boolt ta || not_intish tb) st2)
      | _, _ => EUnsup
      end
  | PSubst a b c =>
      edo '(a1, ta, st1) <- ex a st;
      edo '(b1, tb, st2) <- ex b st1;
      edo '(c1, tc, st3) <- ex c st2;
      match ta, tb, tc with
      | Known _, Known _, Known _ =>
          EOk (ESubst a1 b1 c1, Known TStr, warn_if (is_boolt ta || is_boolt tb || is_boolt tc) st3)
      | _, _, _ => EUnsup
      end
  | PRsubst pat b c =>
      edo '(pid, st0) <- reg_pat pat false st;
      edo '(b1, tb, st1) <- ex b st0;
      edo '(c1, tc, st2) <- ex c st1;
      match tb, tc with
      | Known _, Known _ => EOk (ERsubst pid b1 c1, Known TStr, warn_if (is_boolt tb || is_boolt tc) st2)
      | _, _ => EUnsup
      end
  | PTimestamp => EOk (ETimestamp, Known TInt, st)
  | PGetfilename => EOk (EGetfilename, Known TStr, st)
  end
with exs (ks : pexprs) (st : est) {struct ks} : eres (exprs * est) :=
  match ks with
  | PXNil => EOk (XNil, st)
  | PXCons e r =>
      edo '(e1, t, st1) <- ex e st;
      edo e2 <- key_conv t e1;
      edo '(r1, st2) <- exs r (warn_if (is_boolt t) st1);
      EOk (XCons e2 r1, st2)
  end
.

(* ---- statements ---- *)

(* keys of an lvalue / del: same as a read, without the value *)
Definition lval (m : N) (ks : pexprs) (st : est) : eres (exprs * est) :=
  match nkeys_of m with
  | None => EReject
  | Some n =>
      edo '(ks1, st1) <- exs ks st;
      if negb (Nat.eqb (pexprs_len ks) (N.to_nat n)) then EReject else EOk (ks1, use st1 m)
  end.

Fixpoint strs_of_expr (e : expr) {struct e} : list bytes :=
  match e with
  | EStr _ s => [s]
  | EConv _ _ a | ENeg a | ESMatch _ a _ | ELen a | ETolower a => strs_of_expr a
  | EArith _ _ a b | EBit _ a b | ECmp _ _ _ a b | EAnd a b | EOr a b | EStrtol a b | ERsubst _ a b =>
      strs_of_expr a ++ strs_of_expr b
  | ESubst a b c => strs_of_expr a ++ strs_of_expr b ++ strs_of_expr c
  | EGet _ ks | EIncr _ _ ks => strs_of_exprs ks
  | _ => []
  end
with strs_of_exprs (ks : exprs) {struct ks} : list bytes :=
  match ks with XNil => [] | XCons e r => strs_of_expr e ++ strs_of_exprs r end.

(* the type an assignment statement is compiled at = the metric's type once
   the statement is checked; Bool has no store instruction *)
Definition assign_ty (st : est) (m : N) (te : tyr) : eres (ty * est) :=
  match mt_get st m, te with
  | Known t, Known _ => EOk (t, st)
  | Open _, Known y => EOk (y, pin st m y)
  | _, Open _ => EUnsup
  end.

Definition warn_mixed (t : ty) (te : tyr) (st : est) : est :=
  match te with
  | Known y => if ty_eqb t y then st else add_warn st WMixed
  | Open _ => st
  end.

Fixpoint es (s : pstmt) (st : est) {struct s} : eres (stmt * est) :=
  match s with
  | PSInc m ks =>
      edo '(ks1, st1) <- lval m ks st;
      match mt_get st1 m with
      | Open _ => EOk (SInc m ks1, pin st1 m TInt)
      | Known TInt => EOk (SInc m ks1, st1)
      | Known _ => EReject
      end
  | PSDec m ks =>
      edo '(ks1, st1) <- lval m ks st;
      match mt_get st1 m with
      | Open _ => EOk (SDec m ks1, pin st1 m TInt)
      | Known TInt => EOk (SDec m ks1, st1)
      | Known _ => EReject
      end
  | PSSet m ks e =>
      edo '(ks1, st1) <- lval m ks st;
      edo '(e1, te, st2) <- ex e st1;
      edo '(t, st3) <- assign_ty st2 m te;
      match t with
      | TBool => EReject
      | _ => EOk (SSet t m ks1 e1, warn_mixed t te st3)
      end
  | PSAddTo m ks e =>
      edo '(ks1, st1) <- lval m ks st;
      (* codegen.go walks the target of a non-Int += twice, before the value *)
      edo st1' <- match mt_get st1 m with
                  | Known TInt => EOk st1
                  | Known _ => EOk (add_strs st1 (strs_of_exprs ks1))
                  | Open _ =>
                      (* the metric takes the type of the value: look at it first
                         (the numbering of the value's own strings depends on it) *)
                      match strs_of_exprs ks1 with
                      | [] => EOk st1
                      | dup =>
                          edo '(_, te0, _) <- ex e st1;
                          match te0 with
                          | Known TInt => EOk st1
                          | Known _ => EOk (add_strs st1 dup)
                          | Open _ => EUnsup
                          end
                      end
                  end;
      edo '(e1, te, st2) <- ex e st1';
      edo '(t, st3) <- assign_ty st2 m te;
      match t with
      | TBool => EReject
      | _ => EOk (SAddTo t m ks1 e1, warn_mixed t te st3)
      end
  | PSSettime e =>
      edo '(e1, te, st1) <- ex e st;
      match te with
      | Open m => EOk (SSettime e1, pin st1 m TInt)
      | Known TInt => EOk (SSettime e1, if is_i64 e1 then st1 else add_warn st1 WSettime)
      | Known _ => EOk (SSettime e1, add_warn st1 WSettime)
      end
  | PSStrptime e layout ok =>
      edo '(e1, te, st1) <- ex e st;
      match te with
      | Open _ => EUnsup
      | Known t =>
          let (sid, st2) := add_str st1 layout in
          if ok then EOk (SStrptime e1 sid layout, warn_if (negb (ty_eqb t TStr)) st2) else EReject
      end
  | PSCond form c th =>
      edo '(c1, tc, st1) <- ex c (push_scope st);
      edo '(th1, st2) <- eb th (push_scope st1);
      let st3 := pop_scope (pop_scope st2) in
      if form then EOk (SCond c1 th1, if cond_fine c1 tc then st3 else add_warn st3 WCond) else EReject
  | PSCondElse form c th el =>
      edo '(c1, tc, st1) <- ex c (push_scope st);
      edo '(th1, st2) <- eb th (push_scope st1);
      edo '(el1, st3) <- eb el (push_scope (pop_scope st2));
      let st4 := pop_scope (pop_scope st3) in
      if form then EOk (SCondElse c1 th1 el1, if cond_fine c1 tc then st4 else add_warn st4 WCond) else EReject
  | PSOtherwise th =>
      edo '(th1, st1) <- eb th (push_scope (push_scope st));
      EOk (SOtherwise th1, pop_scope (pop_scope st1))
  | PSDel m ks =>
      match ks with
      | PXNil => EReject
      | _ => edo '(ks1, st1) <- lval m ks st; EOk (SDel m ks1, st1)
      end
  | PSExpire m ks d =>
      match ks with
      | PXNil => EReject
      | _ => edo '(ks1, st1) <- lval m ks st; EOk (SExpire m ks1 d, st1)
      end
  | PSStop => EOk (SStop, st)
  end
with eb (b : pblock) (st : est) {struct b} : eres (block * est) :=
  match b with
  | PBNil => EOk (BNil, st)
  | PBCons s r =>
      edo '(s1, st1) <- es s st;
      edo '(r1, st2) <- eb r st1;
      EOk (BCons s1 r1, st2)
  end.

End Elab.

Definition init_mt (d : pdecl) : option ty :=
  match pd_kind d with MText => Some TStr | _ => None end.

Definition final_decl (d : pdecl) (t : option ty) : mdecl :=
  mkmdecl (pd_kind d) (match t with Some TBool | None => TInt | Some x => x end) (pd_nkeys d).

(* codegen.go VarDecl: a scalar counter is initialised to zero, which only
   exists for Int and Float *)
Definition decl_fine (d : mdecl) : bool :=
  match Ast.md_kind d, md_ty d, md_nkeys d with
  | MCounter, TStr, 0 => false
  | _, _, _ => true
  end.

Definition elab_raw (u : pre_prog) : eres (prog * list warn) :=
  let st0 := mkest (map init_mt (pp_decls u)) (map (fun _ => false) (pp_decls u)) [] [] [[]] [] in
  edo '(b, st) <- eb (pp_decls u) (pp_caps u) (pp_body u) st0;
  if negb (forallb (fun x => x) (e_used st)) then EReject      (* a declared metric is never used *)
  else
    let ds := map (fun dt => final_decl (fst dt) (snd dt)) (combine (pp_decls u) (e_mt st)) in
    if negb (forallb decl_fine ds) then EReject
    else EOk (mkprog ds b (e_res st) (e_strs st), e_warn st).
