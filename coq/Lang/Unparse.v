(* internal/runtime/compiler/parser/unparser.go on expressions, as a builder of
   token lists (definitions only).

   [raw]/[pr]: the REPAIRED printer (fixes/C23-unparser-*.diff): an operand is
   parenthesised when its syntactic level is lower than the level its position
   requires - lower than the operator's level on the left, lower or equal on the
   right, below primary for the operands of =~ and !~, below unary under ~,
   below postfix under ++/--.
   [raw_old]: the printer before the repair, which never writes a parenthesis. *)
From V Require Import Base.Bytes Lang.Grammar.

Definition level (e : expr) : nat :=
  match e with
  | Bin o _ _ => lvl o
  | Not _ => 8
  | Post _ _ => 9
  | _ => 10
  end.

(* a pattern concatenation: a regex literal, then `+` regex literals or bare
   identifiers (const fragments) *)
Definition simple_part (x : expr) : bool :=
  match x with Atom (ARegex _) => true | Id _ ENil => true | _ => false end.
Fixpoint is_concat (e : expr) : bool :=
  match e with
  | Atom (ARegex _) => true
  | Bin OPlus l x => is_concat l && simple_part x
  | _ => false
  end.

Fixpoint raw (e : expr) : list tk :=
  let pr (req : nat) (x : expr) :=
    if Nat.ltb (level x) req then TLP :: raw x ++ [TRP] else raw x in
  match e with
  | Atom a => [TAtom a]
  | Id x ENil => [TId x]
  | Id x idx => TId x :: TLB :: rawl idx ++ [TRB]
  | Call f ENil => [TBuiltin f; TLP; TRP]
  | Call f args => TBuiltin f :: TLP :: rawl args ++ [TRP]
  | Bin o l r =>
      pr (lreq o) l ++ TOp o :: (if is_match o && is_concat r then raw r else pr (rreq o) r)
  | Not x => TNot :: pr 8 x
  | Post b x => pr 9 x ++ [TPost b]
  end
with rawl (es : exprs) : list tk :=
  match es with
  | ENil => []
  | ECons e ENil => raw e
  | ECons e r => raw e ++ TComma :: rawl r
  end.

Definition pr (req : nat) (x : expr) : list tk :=
  if Nat.ltb (level x) req then TLP :: raw x ++ [TRP] else raw x.

Definition unparse (s : estmt) : list tk :=
  match s with
  | SExpr e => raw e
  | SAssign add l r => pr 8 l ++ TAssign add :: raw r
  end.

(* ---- before the repair ---- *)
Fixpoint raw_old (e : expr) : list tk :=
  match e with
  | Atom a => [TAtom a]
  | Id x ENil => [TId x]
  | Id x idx => TId x :: TLB :: rawl_old idx ++ [TRB]
  | Call f ENil => [TBuiltin f; TLP; TRP]
  | Call f args => TBuiltin f :: TLP :: rawl_old args ++ [TRP]
  | Bin o l r => raw_old l ++ TOp o :: raw_old r
  | Not x => TNot :: raw_old x
  | Post b x => raw_old x ++ [TPost b]
  end
with rawl_old (es : exprs) : list tk :=
  match es with
  | ENil => []
  | ECons e ENil => raw_old e
  | ECons e r => raw_old e ++ TComma :: rawl_old r
  end.

Definition unparse_old (s : estmt) : list tk :=
  match s with
  | SExpr e => raw_old e
  | SAssign add l r => raw_old l ++ TAssign add :: raw_old r
  end.
