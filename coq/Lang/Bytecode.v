(* internal/runtime/code: opcodes.go, instr.go, object.go.
   The object the compiler hands to the VM.  Regular expressions are indices
   (matching is an oracle, Lang/Oracle.v); metrics are descriptors.
   Executable definitions only. *)
From V Require Export Lang.Oracle.
Local Open Scope Z_scope.

(* opcodes.go, same names, same order.  [OpUnknown n] stands for every other
   value of the Go type (lastOpcode, ...): the VM's `default:` branch. *)
Inductive opcode :=
| Bad | Stop | Match | Smatch | Cmp | Jnm | Jm | Jmp | Inc | Dec
| Strptime | Timestamp | Settime | Push | Capref | Str | Sset | Iset
| Iadd | Isub | Imul | Idiv | Imod | Ipow | And | Or | Xor | Neg | Not
| Shl | Shr | Mload | Dload | Iget | Fget | Sget | Tolower | Length | Cat
| Setmatched | Otherwise | Del | Expire
| Fadd | Fsub | Fmul | Fdiv | Fmod | Fpow | Fset
| Getfilename
| I2f | S2i | S2f | I2s | F2s
| Icmp | Fcmp | Scmp
| Subst | Rsubst
| OpUnknown (n : Z).

(* numeric value of the Go constant (iota order) *)
Definition opcode_num (o : opcode) : Z :=
  match o with
  | Bad => 0 | Stop => 1 | Match => 2 | Smatch => 3 | Cmp => 4 | Jnm => 5 | Jm => 6
  | Jmp => 7 | Inc => 8 | Dec => 9 | Strptime => 10 | Timestamp => 11 | Settime => 12
  | Push => 13 | Capref => 14 | Str => 15 | Sset => 16 | Iset => 17 | Iadd => 18
  | Isub => 19 | Imul => 20 | Idiv => 21 | Imod => 22 | Ipow => 23 | And => 24 | Or => 25
  | Xor => 26 | Neg => 27 | Not => 28 | Shl => 29 | Shr => 30 | Mload => 31 | Dload => 32
  | Iget => 33 | Fget => 34 | Sget => 35 | Tolower => 36 | Length => 37 | Cat => 38
  | Setmatched => 39 | Otherwise => 40 | Del => 41 | Expire => 42 | Fadd => 43
  | Fsub => 44 | Fmul => 45 | Fdiv => 46 | Fmod => 47 | Fpow => 48 | Fset => 49
  | Getfilename => 50 | I2f => 51 | S2i => 52 | S2f => 53 | I2s => 54 | F2s => 55
  | Icmp => 56 | Fcmp => 57 | Scmp => 58 | Subst => 59 | Rsubst => 60
  | OpUnknown n => n
  end.

Definition opcode_eqb (a b : opcode) : bool := Z.eqb (opcode_num a) (opcode_num b).

(* Instr.Operand is an interface{}: what codegen.go puts there *)
Inductive operand :=
| ONil
| OInt (z : Z)        (* Go int: indices, jump targets, cmp argument, arg counts *)
| OI64 (z : Z)        (* int64: IntLit *)
| OF64 (b : fbits)    (* float64: FloatLit *)
| OBool (b : bool)    (* Setmatched, Push true/false *)
| ODur (z : Z).       (* time.Duration (ns): del ... after *)

(* Instr without SourceLine (used only in messages) *)
Record instr := mkinstr { i_op : opcode; i_arg : operand }.

(* metrics.Kind / metrics.Type *)
Inductive mkind := KCounter | KGauge | KTimer | KText | KHistogram.
Inductive mtype := TyInt | TyFloat | TyString | TyBuckets.

Definition mtype_eqb (a b : mtype) : bool :=
  match a, b with
  | TyInt, TyInt | TyFloat, TyFloat | TyString, TyString | TyBuckets, TyBuckets => true
  | _, _ => false
  end.

(* what the VM and the store need to know of a *metrics.Metric *)
Record mdesc := mkmdesc {
  md_name : bytes;
  md_kind : mkind;
  md_type : mtype;
  md_arity : nat;                       (* len(Keys) *)
  md_hidden : bool;
  md_buckets : list (fbits * fbits);    (* []datum.Range as (Min, Max) *)
  md_limit : Z
}.

(* code.Object *)
Record object := mkobject {
  o_prog : list instr;
  o_strs : list bytes;
  o_nre : nat;                          (* len(Regexps) *)
  o_metrics : list mdesc
}.
