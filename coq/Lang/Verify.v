(* Bytecode verifier for C04: one forward pass over the program computing, per
   pc, the representation classes of the top of the stack (the stack below the
   known part is arbitrary: mtail leaves the values of expression statements on
   the stack, so the two sides of a join differ in depth and only the common
   top part is kept).  Each instruction accepts exactly the classes that
   PopInt / PopFloat / PopString and the type switches of vm.go accept without
   reaching a fault.  Jumps must go forward and stay inside the program.

   [verify] = [infer] (computes the table; not trusted) followed by [check]
   (local consistency of the table; this is what the soundness proof uses).
   Executable definitions only; soundness is in Proofs/VerifyProofs.v. *)
From V Require Export Lang.Vm.
Local Open Scope Z_scope.

Inductive cls :=
| CNil | CBool | CI64
| CInt (k : option Z)       (* Go int, with its value when it is a constant *)
| CF64 | CStr
| CMetric (i : nat)
| CDatum (t : mtype)
| CDur.

Definition astack := list cls.   (* known top part of the stack, head = top *)

Definition optz_eqb (a b : option Z) : bool :=
  match a, b with Some x, Some y => Z.eqb x y | None, None => true | _, _ => false end.

Definition cls_eqb (a b : cls) : bool :=
  match a, b with
  | CNil, CNil | CBool, CBool | CI64, CI64 | CF64, CF64 | CStr, CStr | CDur, CDur => true
  | CInt x, CInt y => optz_eqb x y
  | CMetric i, CMetric j => Nat.eqb i j
  | CDatum s, CDatum t => mtype_eqb s t
  | _, _ => false
  end.

Definition kind_of_cls (c : cls) : kind :=
  match c with
  | CNil => KNil | CBool => KBool | CI64 => KI64 | CInt _ => KInt | CF64 => KF64
  | CStr => KStr | CMetric _ => KMetric | CDatum _ => KDatum | CDur => KDur
  end.

(* what thread.PopInt / PopFloat / PopString accept without a fault *)
Definition int_ok (c : cls) : bool :=
  match c with CI64 | CInt _ | CStr | CDatum TyInt => true | _ => false end.
Definition float_ok (c : cls) : bool :=
  match c with CF64 | CInt _ | CStr | CDatum TyFloat => true | _ => false end.
Definition str_ok (c : cls) : bool :=
  match c with CStr | CF64 | CInt _ | CI64 | CDatum TyString => true | _ => false end.
(* compare() *)
Definition cmp_ok (c : cls) : bool :=
  match c with CF64 | CInt _ | CI64 | CStr => true | _ => false end.
(* Jnm / Jm *)
Definition cond_ok (c : cls) : bool :=
  match c with CBool | CI64 => true | _ => false end.
Definition is_cls (d : cls) (c : cls) : bool := cls_eqb d c.
Definition is_cint (c : cls) : bool := match c with CInt _ => true | _ => false end.
Definition iset_ok (c : cls) : bool :=
  match c with CDatum TyInt | CDatum TyBuckets => true | _ => false end.
Definition fset_ok (c : cls) : bool :=
  match c with CDatum TyFloat | CDatum TyBuckets => true | _ => false end.

(* verifier results: the kind is that of the offending class (KNil when the
   stack is too short or the operand is wrong) *)
Inductive vres (A : Type) := VOk (a : A) | VBad (k : kind).
Arguments VOk {A}. Arguments VBad {A}.

Definition vbind {A B} (a : vres A) (f : A -> vres B) : vres B :=
  match a with VOk x => f x | VBad k => VBad k end.
Notation "'vdo' x <- a ; b" := (vbind a (fun x => b))
  (at level 200, x binder, a at level 100, b at level 200, right associativity).

Definition apop (ok : cls -> bool) (A : astack) : vres astack :=
  match A with
  | [] => VBad KNil
  | c :: r => if ok c then VOk r else VBad (kind_of_cls c)
  end.

Fixpoint apop_n (ok : cls -> bool) (n : nat) (A : astack) : vres astack :=
  match n with
  | O => VOk A
  | Datatypes.S n' => vdo r <- apop ok A; apop_n ok n' r
  end.

Definition vguard (b : bool) : vres unit := if b then VOk tt else VBad KNil.

Definition arg_int (a : operand) : vres Z :=
  match a with OInt z => VOk z | _ => VBad KNil end.
Definition arg_index (a : operand) (n : nat) : vres nat :=
  vdo z <- arg_int a;
  vdo _ <- vguard ((0 <=? z) && (z <? Z.of_nat n));
  VOk (Z.to_nat z).
Definition arg_cmp (a : operand) : vres unit :=
  vdo z <- arg_int a; vguard ((z =? -1) || (z =? 0) || (z =? 1)).

Definition cls_of_operand (a : operand) : cls :=
  match a with
  | ONil => CNil | OInt z => CInt (Some z) | OI64 _ => CI64 | OF64 _ => CF64
  | OBool _ => CBool | ODur _ => CDur
  end.

Section WithObject.
Variable o : object.

Definition nprog : nat := length (o_prog o).

(* jump target: forward, at most len(prog) *)
Definition arg_target (pc : nat) (a : operand) : vres nat :=
  vdo z <- arg_int a;
  vdo _ <- vguard ((Z.of_nat pc <? z) && (z <=? Z.of_nat nprog));
  VOk (Z.to_nat z).

(* Pop a metric, then its keys: Dload / Del / Expire *)
Definition apop_metric_keys (a : operand) (A : astack) : vres (mdesc * astack) :=
  match A with
  | CMetric m :: r =>
      match nth_error (o_metrics o) m with
      | Some md =>
          vdo k <- arg_int a;
          vdo _ <- vguard (k =? Z.of_nat (md_arity md));
          vdo r' <- apop_n str_ok (md_arity md) r;
          VOk (md, r')
      | None => VBad KMetric
      end
  | c :: _ => VBad (kind_of_cls c)
  | [] => VBad KNil
  end.

(* successors (pc', abstract stack on entry to pc') of instruction [i] at [pc]
   entered with abstract stack [A] *)
Definition transfer (pc : nat) (i : instr) (A : astack) : vres (list (nat * astack)) :=
  let a := i_arg i in
  let fall (A' : astack) : vres (list (nat * astack)) := VOk [(Datatypes.S pc, A')] in
  let unop (ok : cls -> bool) (c : cls) := vdo r <- apop ok A; fall (c :: r) in
  let binop (ok : cls -> bool) (c : cls) := vdo r <- apop ok A; vdo r' <- apop ok r; fall (c :: r') in
  match i_op i with
  | Bad => VBad KNil
  | Stop => VOk []
  | Match => vdo _ <- arg_index a (o_nre o); fall (CBool :: A)
  | Smatch => vdo _ <- arg_index a (o_nre o); unop str_ok CBool
  | Cmp => vdo _ <- arg_cmp a; binop cmp_ok CBool
  | Icmp => vdo _ <- arg_cmp a; binop int_ok CBool
  | Fcmp => vdo _ <- arg_cmp a; binop float_ok CBool
  | Scmp => vdo _ <- arg_cmp a; binop str_ok CBool
  | Jnm | Jm =>
      vdo r <- apop cond_ok A;
      vdo tgt <- arg_target pc a;
      VOk [(Datatypes.S pc, r); (tgt, r)]
  | Jmp => vdo tgt <- arg_target pc a; VOk [(tgt, A)]
  | Inc | Dec =>
      vdo r <- match a with ONil => VOk A | _ => apop int_ok A end;
      vdo r' <- apop (is_cls (CDatum TyInt)) r;
      fall (CI64 :: r')
  | Iset => vdo r <- apop int_ok A; vdo r' <- apop iset_ok r; fall r'
  | Fset => vdo r <- apop float_ok A; vdo r' <- apop fset_ok r; fall r'
  | Sset => vdo r <- apop str_ok A; vdo r' <- apop (is_cls (CDatum TyString)) r; fall r'
  | Strptime => vdo r <- apop str_ok A; vdo r' <- apop (is_cls CStr) r; fall r'
  | Timestamp => fall (CI64 :: A)
  | Settime => vdo r <- apop (is_cls CI64) A; fall r
  | Push => fall (cls_of_operand a :: A)
  | Capref =>
      vdo r <- apop is_cint A;
      vdo k <- arg_int a;
      vdo _ <- vguard (0 <=? k);
      fall (CStr :: r)
  | Str => vdo _ <- arg_index a (length (o_strs o)); fall (CStr :: A)
  | Fadd | Fsub | Fmul | Fdiv | Fmod | Fpow => binop float_ok CF64
  | Iadd | Isub | Imul | Idiv | Imod | Ipow | Shl | Shr | And | Or | Xor => binop int_ok CI64
  | Neg => unop int_ok CI64
  | Not => unop (is_cls CBool) CBool
  | Mload => vdo m <- arg_index a (length (o_metrics o)); fall (CMetric m :: A)
  | Dload => vdo '(md, r) <- apop_metric_keys a A; fall (CDatum (md_type md) :: r)
  | Iget => unop (is_cls (CDatum TyInt)) CI64
  | Fget => unop (is_cls (CDatum TyFloat)) CF64
  | Sget => unop (is_cls (CDatum TyString)) CStr
  | Del => vdo '(_, r) <- apop_metric_keys a A; fall r
  | Expire => vdo '(_, r) <- apop_metric_keys a A; vdo r' <- apop (is_cls CDur) r; fall r'
  | Tolower => unop str_ok CStr
  | Length => unop str_ok (CInt None)
  | Cat => binop str_ok CStr
  | Setmatched => match a with OBool _ => fall A | _ => VBad KNil end
  | Otherwise => fall (CBool :: A)
  | Getfilename => fall (CStr :: A)
  | I2f => unop int_ok CF64
  | S2i =>
      vdo r <- match a with ONil => VOk A | _ => apop int_ok A end;
      vdo r' <- apop str_ok r;
      fall (CI64 :: r')
  | S2f => unop str_ok CF64
  | I2s => unop int_ok CStr
  | F2s => unop float_ok CStr
  | Subst =>
      vdo r <- apop str_ok A; vdo r' <- apop str_ok r; vdo r'' <- apop str_ok r'; fall (CStr :: r'')
  | Rsubst =>
      match A with
      | CInt (Some z) :: r =>
          vdo _ <- vguard ((0 <=? z) && (z <? Z.of_nat (o_nre o)));
          vdo r' <- apop str_ok r; vdo r'' <- apop str_ok r'; fall (CStr :: r'')
      | c :: _ => VBad (kind_of_cls c)
      | [] => VBad KNil
      end
  | OpUnknown _ => VBad KNil
  end.

(* ---- table of entry stacks, one per pc in 0..len(prog) ---- *)
Definition table := list (option astack).

(* T describes a top part of A *)
Fixpoint aprefix (T A : astack) : bool :=
  match T, A with
  | [], _ => true
  | c :: T', d :: A' => cls_eqb c d && aprefix T' A'
  | _ :: _, [] => false
  end.

Fixpoint common (T A : astack) : astack :=
  match T, A with
  | c :: T', d :: A' => if cls_eqb c d then c :: common T' A' else []
  | _, _ => []
  end.

Definition succ_ok (tbl : table) (pc : nat) (s : nat * astack) : bool :=
  let (pc', A') := s in
  Nat.ltb pc pc' && Nat.leb pc' nprog &&
  match nth_error tbl pc' with
  | Some (Some T) => aprefix T A'
  | _ => false
  end.

Definition check_pc (tbl : table) (pc : nat) : bool :=
  match nth_error tbl pc with
  | Some (Some A) =>
      match nth_error (o_prog o) pc with
      | Some i =>
          match transfer pc i A with
          | VOk succs => forallb (succ_ok tbl pc) succs
          | VBad _ => false
          end
      | None => true          (* pc = len(prog): the line ends *)
      end
  | _ => true                 (* not reachable *)
  end.

Definition check (tbl : table) : bool :=
  Nat.eqb (length tbl) (Datatypes.S nprog) &&
  match nth_error tbl 0 with Some (Some []) => true | _ => false end &&
  forallb (check_pc tbl) (seq 0 nprog).

(* ---- inference: forward pass ---- *)
Definition merge (tbl : table) (s : nat * astack) : table :=
  let (pc', A') := s in
  match nth_error tbl pc' with
  | Some (Some T) => list_set tbl pc' (Some (common T A'))
  | Some None => list_set tbl pc' (Some A')
  | None => tbl
  end.

Definition diag := (nat * opcode * kind)%type.

Fixpoint infer_from (prog : list instr) (pc : nat) (tbl : table) : table + diag :=
  match prog with
  | [] => inl tbl
  | i :: rest =>
      match nth_error tbl pc with
      | Some (Some A) =>
          match transfer pc i A with
          | VOk succs => infer_from rest (Datatypes.S pc) (fold_left merge succs tbl)
          | VBad k => inr (pc, i_op i, k)
          end
      | _ => infer_from rest (Datatypes.S pc) tbl
      end
  end.

Definition infer : table + diag :=
  infer_from (o_prog o) 0 (Some [] :: repeat None nprog).

Definition verify : bool :=
  match infer with
  | inl tbl => check tbl
  | inr _ => false
  end.

(* first rejected instruction, None when the object verifies; (0, Bad, KNil)
   stands for a table that [check] refuses although [infer] produced it *)
Definition verify_diag : option diag :=
  match infer with
  | inl tbl => if check tbl then None else Some (O, Bad, KNil)
  | inr d => Some d
  end.

End WithObject.
