(* Well-typedness of core programs ([wt]) and the fragment of the language for
   which compiler correctness is PROVED ([in_fragment]); both are boolean and are
   evaluated on every generated program by the correspondence (Corr/Run_C01.v).

   [wt] is the output contract of the checker as far as the code generator and
   the VM rely on it: operand types, conversions that exist, index arity, table
   indices in range, and the two representation facts the VM is sensitive to
   (a condition / settime argument of type Int must be an int64, which everything
   except a bare len() is; a String comparison must have been given scmp).
   Executable definitions only. *)
From V Require Export Lang.Ast Lang.Codegen.
Local Open Scope Z_scope.

Definition conv_ok (f t : ty) : bool :=
  match f, t with
  | TInt, TInt | TFloat, TFloat | TStr, TStr => true
  | TInt, TFloat | TStr, TInt | TStr, TFloat | TInt, TStr | TFloat, TStr => true
  | _, _ => false
  end.

Definition opt_ty_is (o : option ty) (t : ty) : bool :=
  match o with Some t' => ty_eqb t t' | None => false end.

(* an Int expression whose VM value is an int64 (not the Go int len() leaves) *)
Fixpoint i64 (e : expr) : bool :=
  match e with
  | ELen _ => false
  | EConv TInt TInt a => i64 a
  | _ => true
  end.

Section Wt.
Variable decls : list mdecl.
Variable strs : list bytes.
Variable nre : nat.

Definition wmty (m : N) : ty :=
  match nth_error decls (N.to_nat m) with Some d => md_ty d | None => TInt end.

Definition metric_ok (m : N) (n : nat) : bool :=
  match nth_error decls (N.to_nat m) with
  | Some d => Nat.eqb (N.to_nat (md_nkeys d)) n && negb (ty_eqb (md_ty d) TBool)
  | None => false
  end.

Definition str_ok (sid : N) (s : bytes) : bool :=
  match nth_error strs (N.to_nat sid) with Some s' => bytes_eqb s s' | None => false end.
Definition re_ok (pid : N) : bool := Nat.ltb (N.to_nat pid) nre.

Definition is_cond (e : expr) (t : option ty) : bool :=
  match t with Some TBool => true | Some TInt => i64 e | _ => false end.

Fixpoint etype (e : expr) {struct e} : option ty :=
  match e with
  | EInt _ => Some TInt
  | EFloat _ => Some TFloat
  | EStr sid s => if str_ok sid s then Some TStr else None
  | ECap _ _ t => match t with TBool => None | _ => Some t end
  | EConv f t a => if opt_ty_is (etype a) f && conv_ok f t then Some t else None
  | EArith op t a b =>
      match t with
      | TInt | TFloat => if opt_ty_is (etype a) t && opt_ty_is (etype b) t then Some t else None
      | _ => None
      end
  | EBit _ a b => if opt_ty_is (etype a) TInt && opt_ty_is (etype b) TInt then Some TInt else None
  | ENeg a => if opt_ty_is (etype a) TInt then Some TInt else None
  | ECmp _ t typed a b =>
      match t with
      | TBool => None
      | _ => if opt_ty_is (etype a) t && opt_ty_is (etype b) t
                && (match t with TStr => typed | _ => true end)
             then Some TBool else None
      end
  | EAnd a b | EOr a b =>
      if is_cond a (etype a) && is_cond b (etype b) then Some TBool else None
  | EMatch pid => if re_ok pid then Some TBool else None
  | ESMatch _ a pid => if opt_ty_is (etype a) TStr && re_ok pid then Some TBool else None
  | EGet m ks => if metric_ok m (exprs_len ks) && keys_ok ks then Some (wmty m) else None
  | ELen a => if opt_ty_is (etype a) TStr then Some TInt else None
  | ETolower a => if opt_ty_is (etype a) TStr then Some TStr else None
  | EStrtol a b => if opt_ty_is (etype a) TStr && opt_ty_is (etype b) TInt then Some TInt else None
  | ESubst a b c =>
      if opt_ty_is (etype a) TStr && opt_ty_is (etype b) TStr && opt_ty_is (etype c) TStr
      then Some TStr else None
  | ERsubst pid b c =>
      if re_ok pid && opt_ty_is (etype b) TStr && opt_ty_is (etype c) TStr then Some TStr else None
  | ETimestamp => Some TInt
  | EGetfilename => Some TStr
  | EIncr _ m ks =>
      if metric_ok m (exprs_len ks) && keys_ok ks && ty_eqb (wmty m) TInt then Some TInt else None
  end
with keys_ok (ks : exprs) {struct ks} : bool :=
  match ks with
  | XNil => true
  | XCons e r => opt_ty_is (etype e) TStr && keys_ok r
  end.

Definition cond_ok (c : expr) : bool := is_cond c (etype c).

Fixpoint wt_stmt (s : stmt) {struct s} : bool :=
  match s with
  | SInc m ks | SDec m ks => metric_ok m (exprs_len ks) && keys_ok ks && ty_eqb (wmty m) TInt
  | SSet t m ks e =>
      metric_ok m (exprs_len ks) && keys_ok ks && ty_eqb (wmty m) t && opt_ty_is (etype e) t
  | SAddTo t m ks e =>
      metric_ok m (exprs_len ks) && keys_ok ks && ty_eqb (wmty m) t && opt_ty_is (etype e) t
      (* a `+=` that is not on an Int metric emits its target twice: the second
         copy's string literals are the next entries of the string table *)
      && (ty_eqb t TInt || keys_ok (shift_exprs (nstr_exprs ks) ks))
  | SSettime e => opt_ty_is (etype e) TInt && i64 e
  | SStrptime e sid layout => opt_ty_is (etype e) TStr && str_ok sid layout
  | SCond c th => cond_ok c && wt_block th
  | SCondElse c th el => cond_ok c && wt_block th && wt_block el
  | SOtherwise th => wt_block th
  | SDel m ks | SExpire m ks _ => metric_ok m (exprs_len ks) && keys_ok ks
  | SStop => true
  end
with wt_block (b : block) {struct b} : bool :=
  match b with BNil => true | BCons s r => wt_stmt s && wt_block r end.

End Wt.

Definition decl_ok (d : mdecl) : bool :=
  match md_ty d with
  | TBool => false
  | TStr => match Ast.md_kind d with MCounter => false | _ => true end
  | _ => true
  end.

Definition wt (p : prog) : bool :=
  forallb decl_ok (p_decls p) && wt_block (p_decls p) (p_strs p) (length (p_res p)) (p_body p).

(* ---- the proved fragment: everything above; for a `+=` on a Float or text
   metric (codegen.go emits the target twice, so its index keys are evaluated
   twice by the VM) the keys must be free of effects: no metric read, no x++ ---- *)
Fixpoint pure_expr (e : expr) {struct e} : bool :=
  match e with
  | EInt _ | EFloat _ | EStr _ _ | ECap _ _ _ | ETimestamp | EGetfilename => true
  | EConv _ _ a | ENeg a | ELen a | ETolower a => pure_expr a
  | EArith _ _ a b | EBit _ a b => pure_expr a && pure_expr b
  | _ => false
  end.
Fixpoint pure_keys (ks : exprs) : bool :=
  match ks with XNil => true | XCons e r => pure_expr e && pure_keys r end.

Fixpoint frag_stmt (s : stmt) {struct s} : bool :=
  match s with
  | SAddTo t _ ks _ => ty_eqb t TInt || pure_keys ks
  | SCond _ th | SOtherwise th => frag_block th
  | SCondElse _ th el => frag_block th && frag_block el
  | _ => true
  end
with frag_block (b : block) {struct b} : bool :=
  match b with BNil => true | BCons s r => frag_stmt s && frag_block r end.

Definition in_fragment (p : prog) : bool := frag_block (p_body p).
