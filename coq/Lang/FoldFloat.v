(* C02 - executable instance of the float interface of Lang/Fold.v: Coq
   primitive binary64 floats; float64 values cross the Go/Coq boundary as
   64-bit patterns with every NaN written as one canonical pattern.
   math.Pow, math.Mod and int64(float64) are finite tables recorded by the
   harness from the Go functions.  Used by the correspondence only; the
   theorems are stated for an arbitrary [fops]. *)
From Coq Require Import ZArith NArith List Floats Uint63.
From V Require Import Lang.Fold.
Import ListNotations.
Local Open Scope Z_scope.

Definition nan_bits : Z := 0x7FF8000000000001.   (* math.NaN() *)

Definition bits_to_SF (b : Z) : SpecFloat.spec_float :=
  let s := Z.testbit b 63 in
  let e := Z.land (Z.shiftr b 52) 2047 in
  let m := Z.land b (2^52 - 1) in
  if e =? 0 then
    match m with Zpos p => SpecFloat.S754_finite s p (-1074) | _ => SpecFloat.S754_zero s end
  else if e =? 2047 then
    (if m =? 0 then SpecFloat.S754_infinity s else SpecFloat.S754_nan)
  else
    match m + 2^52 with
    | Zpos p => SpecFloat.S754_finite s p (e - 1075)
    | _ => SpecFloat.S754_nan
    end.

Definition SF_to_bits (f : SpecFloat.spec_float) : Z :=
  match f with
  | SpecFloat.S754_zero s => if s then 2^63 else 0
  | SpecFloat.S754_infinity s => (if s then 2^63 else 0) + 2047 * 2^52
  | SpecFloat.S754_nan => nan_bits
  | SpecFloat.S754_finite s m e =>
      (if s then 2^63 else 0) +
      (if Z.pos m <? 2^52 then Z.pos m else (e + 1075) * 2^52 + (Z.pos m - 2^52))
  end.

Definition of_bits (b : N) : float := SF2Prim (bits_to_SF (Z.of_N b)).
Definition to_bits (f : float) : N := Z.to_N (SF_to_bits (Prim2SF f)).

(* Go float64(int64): round to nearest even; |z| <= 2^63 *)
Definition of_int64 (z : Z) : float :=
  if z =? - 2^63 then SF2Prim (SpecFloat.S754_finite true (2^52)%positive 11)
  else if z <? 0 then PrimFloat.opp (PrimFloat.of_uint63 (Uint63.of_Z (- z)))
  else PrimFloat.of_uint63 (Uint63.of_Z z).

(* oracle tables, keyed by bit patterns *)
Record tabs := {
  t_pow : list (N * N * N);
  t_mod : list (N * N * N);
  t_f2i : list (N * Z)
}.

Fixpoint look2 (t : list (N * N * N)) (a b : N) : option N :=
  match t with
  | [] => None
  | (x, y, v) :: r => if (N.eqb x a && N.eqb y b)%bool then Some v else look2 r a b
  end.
Fixpoint look1 (t : list (N * Z)) (a : N) : option Z :=
  match t with
  | [] => None
  | (x, v) :: r => if N.eqb x a then Some v else look1 r a
  end.

(* a missing entry yields a value no computation here produces, so that the
   case is reported instead of silently agreeing *)
Definition missing_f : N := 0x0000DEADBEEF0001%N.
Definition missing_z : Z := 0x0DEADBEEF0DEAD.

Definition prim_fops (tb : tabs) : fops float := {|
  f_add := PrimFloat.add;
  f_sub := PrimFloat.sub;
  f_mul := PrimFloat.mul;
  f_div := PrimFloat.div;
  f_of_int := of_int64;
  f_is_zero := fun x => PrimFloat.eqb x PrimFloat.zero;
  f_pow := fun a b => of_bits (match look2 (t_pow tb) (to_bits a) (to_bits b) with Some v => v | None => missing_f end);
  f_mod := fun a b => of_bits (match look2 (t_mod tb) (to_bits a) (to_bits b) with Some v => v | None => missing_f end);
  f_to_int := fun a => match look1 (t_f2i tb) (to_bits a) with Some v => v | None => missing_z end
|}.

(* The same interface over the stdlib's SPECIFICATION of binary64
   (SpecFloat, plain Gallina, no primitive): used for the closed witnesses in
   Props/C02.v so that they mention no primitive operation. *)
Definition sprec : Z := 53.
Definition semax : Z := 1024.
Definition spec_of_bits (b : N) : SpecFloat.spec_float := bits_to_SF (Z.of_N b).
Definition spec_to_bits (f : SpecFloat.spec_float) : N := Z.to_N (SF_to_bits f).

Definition spec_fops (tb : tabs) : fops SpecFloat.spec_float := {|
  f_add := SpecFloat.SFadd sprec semax;
  f_sub := SpecFloat.SFsub sprec semax;
  f_mul := SpecFloat.SFmul sprec semax;
  f_div := SpecFloat.SFdiv sprec semax;
  f_of_int := fun z => SpecFloat.binary_normalize sprec semax z 0 false;
  f_is_zero := fun x => SpecFloat.SFeqb x (SpecFloat.S754_zero false);
  f_pow := fun a b => spec_of_bits (match look2 (t_pow tb) (spec_to_bits a) (spec_to_bits b) with Some v => v | None => missing_f end);
  f_mod := fun a b => spec_of_bits (match look2 (t_mod tb) (spec_to_bits a) (spec_to_bits b) with Some v => v | None => missing_f end);
  f_to_int := fun a => match look1 (t_f2i tb) (spec_to_bits a) with Some v => v | None => missing_z end
|}.
