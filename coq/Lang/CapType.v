(* C01: the type of a capture group.

   Two executable functions over the parsed regular expression of a group (the
   tree regexp/syntax yields after Simplify, as mtail's types.ParseRegexp does):

   [infer_top]  a faithful port of types.InferCaprefType / inferGroupType /
                groupOnlyMatches (internal/runtime/compiler/types/types.go): the
                type the checker gives the group.  It is a test on the CHARACTERS
                the group mentions plus three syntactic side conditions.
   [cap_spec]   the language reference's rule (docs/Language.md, "Numerical
                capture groups ..."), read over the LANGUAGE of the group: Int iff
                every string the group matches is an optionally signed run of
                digits, Float iff (not Int and) every such string is a decimal
                floating point numeral, String otherwise.  Decided by pushing the
                start state of the shape's automaton through the tree ([post]).

   The harness prints the tree of every capture group of every generated
   program; the correspondence demands  infer_top tree = the real checker's
   type  and  cap_spec tree = the type the independent Go decision procedure
   (harness/gen/captype.go) gave.  Theorems: Props/C01.v, C01_capref_*.

   Characters are Unicode code points (N); strings are lists of code points.
   Executable definitions only. *)
From V Require Export Lang.Ast.
Local Open Scope N_scope.

Inductive re :=
| RLit (fold : bool) (cs : list N)   (* OpLiteral; fold = the FoldCase flag *)
| RClass (rs : list (N * N))         (* OpCharClass: inclusive ranges *)
| RAny (nl : bool)                   (* OpAnyChar (true) / OpAnyCharNotNL (false) *)
| RZero                              (* OpEmptyMatch and the assertions ^ $ \A \z \b \B *)
| RNone                              (* OpNoMatch *)
| RStar (r : re)
| RPlus (r : re)
| RQuest (r : re)
| RCap (r : re)                      (* a capture group nested in the group *)
| RCat (l : res)
| RAlt (l : res)
with res :=
| RNil
| RCons (r : re) (l : res).

(* ---- the numeric characters ---- *)

Definition is_digit (c : N) : bool := (48 <=? c) && (c <=? 57).
Definition is_sign (c : N) : bool := (c =? 43) || (c =? 45).
Definition is_dot (c : N) : bool := c =? 46.
Definition is_exp (c : N) : bool := (c =? 101) || (c =? 69).
Definition int_char (c : N) : bool := is_digit c || is_sign c.              (* "+-0123456789" *)
Definition float_char (c : N) : bool := int_char c || is_dot c || is_exp c.  (* "+-0123456789.eE" *)

(* ---- the two shapes, as plain recursive acceptors ---- *)

Definition nonempty {A} (l : list A) : bool := match l with [] => false | _ => true end.
Definition strip_sign (w : list N) : list N :=
  match w with c :: r => if is_sign c then r else w | [] => [] end.
Fixpoint drop_digits (w : list N) : list N :=
  match w with c :: r => if is_digit c then drop_digits r else w | [] => [] end.
Definition starts_digit (w : list N) : bool :=
  match w with c :: _ => is_digit c | [] => false end.

(* [+-]?[0-9]+ : what strconv.ParseInt(s, 10, 64) accepts up to range *)
Definition int_shape (w : list N) : bool :=
  let d := strip_sign w in nonempty d && forallb is_digit d.

(* an exponent part: [eE][+-]?[0-9]+ *)
Definition exp_shape (w : list N) : bool :=
  match w with
  | c :: r => is_exp c && (let d := strip_sign r in nonempty d && forallb is_digit d)
  | [] => false
  end.
Definition opt_exp (w : list N) : bool := match w with [] => true | _ => exp_shape w end.

(* [+-]?([0-9]+\.?[0-9]*|\.[0-9]+)([eE][+-]?[0-9]+)? : the decimal numerals
   strconv.ParseFloat accepts up to range *)
Definition float_shape (w : list N) : bool :=
  let m := strip_sign w in
  if starts_digit m then
    match drop_digits m with
    | c :: r => if is_dot c then opt_exp (drop_digits r) else opt_exp (c :: r)
    | [] => true
    end
  else
    match m with
    | c :: r => is_dot c && starts_digit r && opt_exp (drop_digits r)
    | [] => false
    end.

(* ======================================================================= *)
(* faithful model of types.go                                               *)
(* ======================================================================= *)

Fixpoint memN (c : N) (s : list N) : bool :=
  match s with [] => false | x :: r => (c =? x) || memN c r end.

Fixpoint nseq (lo : N) (n : nat) : list N :=
  match n with O => [] | S k => lo :: nseq (lo + 1) k end.

(* for r := lo; r <= hi; r++ { if !strings.ContainsRune(s, r) { return false } }
   A range with more runes than s has characters cannot lie in s (the loop then
   returns false at some rune); shorter ranges are walked. *)
Definition range_all (s : list N) (lo hi : N) : bool :=
  if hi <? lo then true
  else if N.of_nat (length s) <? hi - lo + 1 then false
  else forallb (fun c => memN c s) (nseq lo (N.to_nat (hi - lo + 1))).

(* groupOnlyMatches(group, s) *)
Fixpoint only (s : list N) (r : re) : bool :=
  match r with
  | RLit _ cs => forallb (fun c => memN c s) cs
  | RClass rs => forallb (fun p => range_all s (fst p) (snd p)) rs
  | RStar r' | RPlus r' | RQuest r' | RCap r' => only s r'
  | RCat l | RAlt l => only_all s l
  | RAny _ | RZero | RNone => false
  end
with only_all (s : list N) (l : res) : bool :=
  match l with
  | RNil => true
  | RCons r l' => only s r && only_all s l'
  end.

Definition sign_set : list N := [43; 45].
Definition int_set : list N := [43; 45; 48; 49; 50; 51; 52; 53; 54; 55; 56; 57].
Definition float_set : list N := int_set ++ [46; 101; 69].

(* strings.ContainsAny(group.String(), "0123456789"): digits of the printed
   form that come from literal runes and class range ends *)
Fixpoint str_digit (r : re) : bool :=
  match r with
  | RLit _ cs => existsb is_digit cs
  | RClass rs => existsb (fun p => is_digit (fst p) || is_digit (snd p)) rs
  | RStar r' | RPlus r' | RQuest r' | RCap r' => str_digit r'
  | RCat l | RAlt l => str_digit_any l
  | RAny _ | RZero | RNone => false
  end
with str_digit_any (l : res) : bool :=
  match l with
  | RNil => false
  | RCons r l' => str_digit r || str_digit_any l'
  end.

(* strings.Count(group.String(), "."): a literal '.' prints as \. , a class
   range prints its low end and (if different) its high end, `.` prints (?-s:.) *)
Fixpoint str_dots (r : re) : N :=
  match r with
  | RLit _ cs => N.of_nat (length (filter is_dot cs))
  | RClass rs =>
      fold_right (fun p acc =>
        (if is_dot (fst p) then 1 else 0) +
        (if is_dot (snd p) && negb (fst p =? snd p) then 1 else 0) + acc) 0 rs
  | RStar r' | RPlus r' | RQuest r' | RCap r' => str_dots r'
  | RCat l | RAlt l => str_dots_sum l
  | RAny _ => 1
  | RZero | RNone => 0
  end
with str_dots_sum (l : res) : N :=
  match l with
  | RNil => 0
  | RCons r l' => str_dots r + str_dots_sum l'
  end.

Definition is_alt (r : re) : bool := match r with RAlt _ => true | _ => false end.
Definition is_class (r : re) : bool := match r with RClass _ => true | _ => false end.

(* inferGroupType *)
Definition group_type (r : re) : ty :=
  if only sign_set r then TStr
  else if only int_set r then
    if negb (str_digit r) then TStr
    else if is_alt r || is_class r then TStr
    else TInt
  else if only float_set r then
    if 1 <? str_dots r then TStr else TFloat
  else TStr.

(* LeastUpperBound on Undef (None) < Int < Float < String *)
Definition lub (a : option ty) (b : ty) : option ty :=
  match a with
  | None => Some b
  | Some x =>
      Some (match x, b with
            | TInt, TInt => TInt
            | TInt, TFloat | TFloat, TInt | TFloat, TFloat => TFloat
            | _, _ => TStr
            end)
  end.

Fixpoint lub_all (acc : option ty) (l : res) : option ty :=
  match l with
  | RNil => acc
  | RCons r l' => lub_all (lub acc (group_type r)) l'
  end.

(* InferCaprefType on the body of the capture group.  TBool stands for a type
   no capture group has (Undef: an alternation without alternatives). *)
Definition infer_top (r : re) : ty :=
  match r with
  | RAlt l => match lub_all None l with Some t => t | None => TBool end
  | _ => group_type r
  end.

(* ======================================================================= *)
(* the reference's rule, decided                                            *)
(* ======================================================================= *)

(* character classes the shapes distinguish *)
Definition K_DIGIT : nat := 0.
Definition K_SIGN : nat := 1.
Definition K_DOT : nat := 2.
Definition K_EXP : nat := 3.
Definition K_OTHER : nat := 4.

Definition cls (c : N) : nat :=
  if is_digit c then K_DIGIT
  else if is_sign c then K_SIGN
  else if is_dot c then K_DOT
  else if is_exp c then K_EXP
  else K_OTHER.

Definition overlaps (lo hi a b : N) : bool := (lo <=? b) && (a <=? hi).
Definition has (lo hi c : N) : bool := (lo <=? c) && (c <=? hi).

(* the classes of the characters of [lo, hi] *)
Definition syms_of_range (lo hi : N) : list nat :=
  (if overlaps lo hi 48 57 then [K_DIGIT] else []) ++
  (if has lo hi 43 || has lo hi 45 then [K_SIGN] else []) ++
  (if has lo hi 46 then [K_DOT] else []) ++
  (if has lo hi 69 || has lo hi 101 then [K_EXP] else []) ++
  (if overlaps lo hi 0 42 || has lo hi 44 || has lo hi 47 || overlaps lo hi 58 68
      || overlaps lo hi 70 100 || (102 <=? hi) then [K_OTHER] else []).

(* the runes a case-folded literal rune also matches (unicode.SimpleFold orbit;
   modelled for ASCII runes, the only ones the generator writes) *)
Definition fold_orbit (c : N) : list N :=
  if (65 <=? c) && (c <=? 90) then
    (c + 32) :: (if c =? 75 then [8490] else if c =? 83 then [383] else [])
  else if (97 <=? c) && (c <=? 122) then
    (c - 32) :: (if c =? 107 then [8490] else if c =? 115 then [383] else [])
  else if c =? 8490 then [75; 107]
  else if c =? 383 then [83; 115]
  else [].

Definition syms_of_char (fold : bool) (c : N) : list nat :=
  cls c :: (if fold then map cls (fold_orbit c) else []).

Record dfa := mkdfa {
  d_start : nat;
  d_delta : nat -> nat -> nat;   (* state -> character class -> state *)
  d_acc : nat -> bool
}.

Fixpoint run (d : dfa) (q : nat) (w : list N) : nat :=
  match w with [] => q | c :: r => run d (d_delta d q (cls c)) r end.

Definition accepts (d : dfa) (w : list N) : bool := d_acc d (run d (d_start d) w).

(* [+-]?[0-9]+ : 0 start, 1 after the sign, 2 digits (accepting), 3 dead *)
Definition int_dfa : dfa := mkdfa 0
  (fun q k => match q, k with
              | 0, 0 | 1, 0 | 2, 0 => 2
              | 0, 1 => 1
              | _, _ => 3
              end)%nat
  (fun q => Nat.eqb q 2).

(* 0 start, 1 after the sign, 2 integer digits [acc], 3 digits '.' digits [acc],
   4 a leading '.', 5 '.' digits [acc], 6 after e, 7 after the sign of the
   exponent, 8 exponent digits [acc], 9 dead *)
Definition float_dfa : dfa := mkdfa 0
  (fun q k => match q, k with
              | 0, 0 | 1, 0 | 2, 0 => 2
              | 0, 1 => 1
              | 0, 2 | 1, 2 => 4
              | 2, 2 => 3
              | 3, 0 => 3
              | 4, 0 | 5, 0 => 5
              | 2, 3 | 3, 3 | 5, 3 => 6
              | 6, 1 => 7
              | 6, 0 | 7, 0 | 8, 0 => 8
              | _, _ => 9
              end)%nat
  (fun q => Nat.eqb q 2 || Nat.eqb q 3 || Nat.eqb q 5 || Nat.eqb q 8).

Definition memnat (q : nat) (s : list nat) : bool := existsb (Nat.eqb q) s.
Definition subset (a b : list nat) : bool := forallb (fun q => memnat q b) a.
Fixpoint dedup (s : list nat) : list nat :=
  match s with [] => [] | q :: r => if memnat q r then dedup r else q :: dedup r end.

(* the states reached from a state of s by one character of one of the classes *)
Definition step_set (d : dfa) (s : list nat) (ks : list nat) : list nat :=
  dedup (flat_map (fun q => map (d_delta d q) ks) s).

Definition bind {A B} (x : option A) (f : A -> option B) : option B :=
  match x with Some a => f a | None => None end.

(* least set containing s and closed under f, found by iteration and CHECKED:
   None if the iteration did not close within the fuel (never happens with fuel
   above the number of states; the check makes the soundness proof independent
   of that argument) *)
Fixpoint grow (f : list nat -> option (list nat)) (fuel : nat) (s : list nat) : option (list nat) :=
  match fuel with
  | O => Some s
  | S k => bind (f s) (fun t => grow f k (dedup (s ++ t)))
  end.
Definition close (f : list nat -> option (list nat)) (s : list nat) : option (list nat) :=
  bind (grow f 12 s) (fun t =>
  bind (f t) (fun u => if subset u t then Some t else None)).

(* post d r s: the states the automaton can be in after reading a string of
   L(r) from a state of s *)
Fixpoint post (d : dfa) (r : re) (s : list nat) : option (list nat) :=
  match r with
  | RLit fold cs => Some (fold_left (fun s c => step_set d s (syms_of_char fold c)) cs s)
  | RClass rs => Some (step_set d s (flat_map (fun p => syms_of_range (fst p) (snd p)) rs))
  | RAny _ => Some (step_set d s [K_DIGIT; K_SIGN; K_DOT; K_EXP; K_OTHER])
  | RZero => Some s
  | RNone => Some []
  | RStar r' => close (post d r') s
  | RPlus r' => bind (post d r' s) (close (post d r'))
  | RQuest r' => bind (post d r' s) (fun t => Some (dedup (s ++ t)))
  | RCap r' => post d r' s
  | RCat l => post_cat d l s
  | RAlt l => post_alt d l s
  end
with post_cat (d : dfa) (l : res) (s : list nat) : option (list nat) :=
  match l with
  | RNil => Some s
  | RCons r l' => bind (post d r s) (post_cat d l')
  end
with post_alt (d : dfa) (l : res) (s : list nat) : option (list nat) :=
  match l with
  | RNil => Some []
  | RCons r l' => bind (post d r s) (fun t => bind (post_alt d l' s) (fun u => Some (dedup (t ++ u))))
  end.

(* every string of L(r) is accepted by d *)
Definition included (d : dfa) (r : re) : bool :=
  match post d r [d_start d] with
  | Some t => forallb (d_acc d) t
  | None => false
  end.

Definition cap_spec (r : re) : ty :=
  if included int_dfa r then TInt
  else if included float_dfa r then TFloat
  else TStr.
