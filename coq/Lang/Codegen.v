(* internal/runtime/compiler/codegen/codegen.go as a function from the core
   tree (Lang/Ast.v) to a Lang/Bytecode.v object: same instruction sequences,
   same operands (Go int for indices / jump targets / cmp arguments / argument
   counts, int64 and float64 for literals, bool for setmatched and push
   true/false, Duration for `del ... after`), absolute jump targets (what
   writeJumps leaves).  [pc] is the address of the first instruction emitted.

   Not mirrored (done before this point, by the harness): decorator inlining
   (c.decos), constant folding, numbering of patterns and strings (the tree
   carries pid/sid = the table indices codegen.go assigns in walk order; the
   tables themselves are p_res / p_strs).
   Executable definitions only. *)
From V Require Export Lang.Ast Lang.Bytecode.
Local Open Scope Z_scope.
Local Open Scope N_scope.
Local Open Scope Z_scope.

Definition ins (op : opcode) (a : operand) : instr := mkinstr op a.
Definition zn (n : N) : Z := Z.of_N n.
Definition zl (n : nat) : Z := Z.of_nat n.

Definition conv_code (from to : ty) : list instr :=
  match from, to with
  | TInt, TFloat => [ins I2f ONil]
  | TStr, TFloat => [ins S2f ONil]
  | TStr, TInt => [ins S2i ONil]
  | TFloat, TStr => [ins F2s ONil]
  | TInt, TStr => [ins I2s ONil]
  | _, _ => []
  end.

Definition arith_op (op : arith) (t : ty) : opcode :=
  match t, op with
  | TFloat, AAdd => Fadd | TFloat, ASub => Fsub | TFloat, AMul => Fmul
  | TFloat, ADiv => Fdiv | TFloat, AMod => Fmod | TFloat, APow => Fpow
  | TStr, AAdd => Cat
  | _, AAdd => Iadd | _, ASub => Isub | _, AMul => Imul
  | _, ADiv => Idiv | _, AMod => Imod | _, APow => Ipow
  end.

Definition bit_op (op : bitop) : opcode :=
  match op with BAnd => And | BOr => Or | BXor => Xor | BShl => Shl | BShr => Shr end.

(* (cmpArg, jump taken to the "false" branch) *)
Definition cmp_arg (op : cmpop) : Z * opcode :=
  match op with
  | CLt => (-1, Jnm) | CGt => (1, Jnm) | CLe => (1, Jm) | CGe => (-1, Jm) | CEq => (0, Jnm) | CNe => (0, Jm)
  end.

Definition cmp_opcode (t : ty) (typed : bool) : opcode :=
  if typed then match t with TInt => Icmp | TFloat => Fcmp | TStr => Scmp | TBool => Cmp end else Cmp.

Definition get_op (t : ty) : opcode :=
  match t with TFloat => Fget | TStr => Sget | _ => Iget end.
Definition set_op (t : ty) : opcode :=
  match t with TFloat => Fset | TStr => Sset | _ => Iset end.

(* codegen.go walks the target of a non-Int `+=` twice: the second copy's string
   literals are new entries of the string table, right after the first copy's *)
Fixpoint shift_expr (d : N) (e : expr) {struct e} : expr :=
  match e with
  | EStr sid s => EStr (sid + d) s
  | EConv f t a => EConv f t (shift_expr d a)
  | EArith op t a b => EArith op t (shift_expr d a) (shift_expr d b)
  | EBit op a b => EBit op (shift_expr d a) (shift_expr d b)
  | ENeg a => ENeg (shift_expr d a)
  | ECmp op t ty a b => ECmp op t ty (shift_expr d a) (shift_expr d b)
  | EAnd a b => EAnd (shift_expr d a) (shift_expr d b)
  | EOr a b => EOr (shift_expr d a) (shift_expr d b)
  | ESMatch n a p => ESMatch n (shift_expr d a) p
  | EGet m ks => EGet m (shift_exprs d ks)
  | ELen a => ELen (shift_expr d a)
  | ETolower a => ETolower (shift_expr d a)
  | EStrtol a b => EStrtol (shift_expr d a) (shift_expr d b)
  | ESubst a b c => ESubst (shift_expr d a) (shift_expr d b) (shift_expr d c)
  | ERsubst p b c => ERsubst p (shift_expr d b) (shift_expr d c)
  | EIncr dc m ks => EIncr dc m (shift_exprs d ks)
  | _ => e
  end
with shift_exprs (d : N) (ks : exprs) {struct ks} : exprs :=
  match ks with XNil => XNil | XCons e r => XCons (shift_expr d e) (shift_exprs d r) end.

Fixpoint nstr_expr (e : expr) {struct e} : N :=
  match e with
  | EStr _ _ => 1
  | EConv _ _ a | ENeg a | ESMatch _ a _ | ELen a | ETolower a => nstr_expr a
  | EArith _ _ a b | EBit _ a b | ECmp _ _ _ a b | EAnd a b | EOr a b | EStrtol a b | ERsubst _ a b =>
      nstr_expr a + nstr_expr b
  | ESubst a b c => nstr_expr a + nstr_expr b + nstr_expr c
  | EGet _ ks | EIncr _ _ ks => nstr_exprs ks
  | _ => 0
  end
with nstr_exprs (ks : exprs) {struct ks} : N :=
  match ks with XNil => 0 | XCons e r => nstr_expr e + nstr_exprs r end.

Section Gen.
Variable decls : list mdecl.

Definition mty (m : N) : ty :=
  match nth_error decls (N.to_nat m) with Some d => md_ty d | None => TInt end.

Fixpoint cexpr (pc : nat) (e : expr) {struct e} : list instr :=
  match e with
  | EInt z => [ins Push (OI64 z)]
  | EFloat b => [ins Push (OF64 b)]
  | EStr sid _ => [ins Str (OInt (zn sid))]
  | ECap pid grp t =>
      [ins Push (OInt (zn pid)); ins Capref (OInt (zn grp))] ++
      match t with TFloat => [ins S2f ONil] | TInt => [ins S2i ONil] | _ => [] end
  | EConv from to a => cexpr pc a ++ conv_code from to
  | EArith op t a b =>
      let ca := cexpr pc a in
      let cb := cexpr (pc + length ca) b in
      ca ++ cb ++ [ins (arith_op op t) ONil]
  | EBit op a b =>
      let ca := cexpr pc a in
      let cb := cexpr (pc + length ca) b in
      ca ++ cb ++ [ins (bit_op op) ONil]
  | ENeg a => cexpr pc a ++ [ins Neg ONil]
  | ECmp op t typed a b =>
      let ca := cexpr pc a in
      let cb := cexpr (pc + length ca) b in
      let p := (pc + length ca + length cb)%nat in
      ca ++ cb ++
      [ins (cmp_opcode t typed) (OInt (fst (cmp_arg op)));
       ins (snd (cmp_arg op)) (OInt (zl (p + 4)));
       ins Push (OBool true);
       ins Jmp (OInt (zl (p + 5)));
       ins Push (OBool false)]
  | EAnd a b =>
      let ca := cexpr pc a in
      let cb := cexpr (pc + length ca + 1) b in
      let p := (pc + length ca + 1 + length cb)%nat in
      ca ++ [ins Jnm (OInt (zl (p + 3)))] ++ cb ++
      [ins Jnm (OInt (zl (p + 3))); ins Push (OBool true); ins Jmp (OInt (zl (p + 4))); ins Push (OBool false)]
  | EOr a b =>
      let ca := cexpr pc a in
      let cb := cexpr (pc + length ca + 1) b in
      let p := (pc + length ca + 1 + length cb)%nat in
      ca ++ [ins Jm (OInt (zl (p + 3)))] ++ cb ++
      [ins Jm (OInt (zl (p + 3))); ins Push (OBool false); ins Jmp (OInt (zl (p + 4))); ins Push (OBool true)]
  | EMatch pid => [ins Match (OInt (zn pid))]
  | ESMatch neg a pid =>
      cexpr pc a ++ [ins Smatch (OInt (zn pid))] ++ (if neg then [ins Not ONil] else [])
  | EGet m ks =>
      cexprs pc ks ++ [ins Mload (OInt (zn m)); ins Dload (OInt (zl (exprs_len ks))); ins (get_op (mty m)) ONil]
  | ELen a => cexpr pc a ++ [ins Length (OInt 1)]
  | ETolower a => cexpr pc a ++ [ins Tolower (OInt 1)]
  | EStrtol a base =>
      let ca := cexpr pc a in
      ca ++ cexpr (pc + length ca) base ++ [ins S2i (OInt 2)]
  | ESubst old new val =>
      let c1 := cexpr pc old in
      let c2 := cexpr (pc + length c1) new in
      let c3 := cexpr (pc + length c1 + length c2) val in
      c1 ++ c2 ++ c3 ++ [ins Subst (OInt 3)]
  | ERsubst pid new val =>
      let c2 := cexpr pc new in
      let c3 := cexpr (pc + length c2) val in
      c2 ++ c3 ++ [ins Push (OInt (zn pid)); ins Rsubst (OInt 3)]
  | ETimestamp => [ins Timestamp (OInt 0)]
  | EGetfilename => [ins Getfilename (OInt 0)]
  | EIncr dec m ks =>
      cexprs pc ks ++ [ins Mload (OInt (zn m)); ins Dload (OInt (zl (exprs_len ks)));
                       ins (if dec then Dec else Inc) ONil]
  end
with cexprs (pc : nat) (ks : exprs) {struct ks} : list instr :=
  match ks with
  | XNil => []
  | XCons e r => let ce := cexpr pc e in ce ++ cexprs (pc + length ce) r
  end.

(* keys, then mload; dload: the datum of m[ks] *)
Definition clval (pc : nat) (m : N) (ks : exprs) : list instr :=
  cexprs pc ks ++ [ins Mload (OInt (zn m)); ins Dload (OInt (zl (exprs_len ks)))].

Fixpoint cstmt (pc : nat) (s : stmt) {struct s} : list instr :=
  match s with
  | SInc m ks => clval pc m ks ++ [ins Inc ONil]
  | SDec m ks => clval pc m ks ++ [ins Dec ONil]
  | SSet t m ks e =>
      let cl := clval pc m ks in
      cl ++ cexpr (pc + length cl) e ++ [ins (set_op t) ONil]
  | SAddTo t m ks e =>
      let cl := clval pc m ks in
      match t with
      | TInt | TBool => cl ++ cexpr (pc + length cl) e ++ [ins Inc (OInt 0)]
      | _ =>
          let cl2 := clval (pc + length cl) m (shift_exprs (nstr_exprs ks) ks) in
          cl ++ cl2 ++ cexpr (pc + length cl + length cl2) e ++ [ins (arith_op AAdd t) ONil; ins (set_op t) ONil]
      end
  | SSettime e => cexpr pc e ++ [ins Settime (OInt 1)]
  | SStrptime e sid _ => cexpr pc e ++ [ins Str (OInt (zn sid)); ins Strptime (OInt 2)]
  | SCond c th =>
      let cc := cexpr pc c in
      let ct := cblock (pc + length cc + 2) th in
      let lend := (pc + length cc + 2 + length ct + 1)%nat in
      cc ++ [ins Jnm (OInt (zl lend)); ins Setmatched (OBool false)] ++ ct ++ [ins Setmatched (OBool true)]
  | SCondElse c th el =>
      let cc := cexpr pc c in
      let ct := cblock (pc + length cc + 2) th in
      let lelse := (pc + length cc + 2 + length ct + 2)%nat in
      let ce := cblock lelse el in
      cc ++ [ins Jnm (OInt (zl lelse)); ins Setmatched (OBool false)] ++ ct ++
      [ins Setmatched (OBool true); ins Jmp (OInt (zl (lelse + length ce)))] ++ ce
  | SOtherwise th =>
      let ct := cblock (pc + 3) th in
      [ins Otherwise ONil; ins Jnm (OInt (zl (pc + 3 + length ct + 1))); ins Setmatched (OBool false)] ++ ct ++
      [ins Setmatched (OBool true)]
  | SDel m ks => cexprs pc ks ++ [ins Mload (OInt (zn m)); ins Del (OInt (zl (exprs_len ks)))]
  | SExpire m ks d =>
      [ins Push (ODur d)] ++ cexprs (pc + 1) ks ++ [ins Mload (OInt (zn m)); ins Expire (OInt (zl (exprs_len ks)))]
  | SStop => [ins Stop ONil]
  end
with cblock (pc : nat) (b : block) {struct b} : list instr :=
  match b with
  | BNil => []
  | BCons s r => let cs := cstmt pc s in cs ++ cblock (pc + length cs) r
  end.

End Gen.

Definition mtype_of (t : ty) : mtype :=
  match t with TFloat => TyFloat | TStr => TyString | _ => TyInt end.
Definition mkind_of (k : kind) : mkind :=
  match k with MCounter => KCounter | MGauge => KGauge | MTimer => KTimer | MText => KText end.
Definition mdesc_of (d : mdecl) : mdesc :=
  mkmdesc [] (mkind_of (Ast.md_kind d)) (mtype_of (md_ty d)) (N.to_nat (md_nkeys d)) false [] 0.

Definition codegen (p : prog) : object :=
  mkobject (cblock (p_decls p) 0 (p_body p)) (p_strs p) (length (p_res p)) (map mdesc_of (p_decls p)).
