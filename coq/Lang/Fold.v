(* C02 - constant folding (internal/runtime/compiler/opt/opt.go) and the
   evaluation of the UNFOLDED operators as the checker types them and the VM
   computes them (checker.go BinaryExpr arithmetic case, codegen.go
   typedOperators / ConvExpr, vm.go Iadd..Ipow, Fadd..Fpow, I2f, PopInt,
   PopFloat).

   Self-contained: an own small tree type in which everything that is not an
   Int/Float literal or one of the six arithmetic operators is opaque.
   Executable definitions only; proofs are in Proofs/FoldProofs.v.

   float64 is an abstract type [F] with an operation record [fops]; math.Pow,
   math.Mod and the Go conversion int64(float64) are fields of the same record
   (oracles: the harness tabulates them by calling the Go functions).  The
   correspondence instantiates [F] with Coq primitive floats (FoldFloat.v). *)
From Coq Require Import ZArith List Bool NArith.
From V Require Import Base.Int64.
Import ListNotations.
Local Open Scope Z_scope.

Inductive op := Add | Sub | Mul | Div | Mod | Pow.

Definition op_eqb (a b : op) : bool :=
  match a, b with
  | Add, Add | Sub, Sub | Mul, Mul | Div, Div | Mod, Mod | Pow, Pow => true
  | _, _ => false
  end.

Definition is_divmod (o : op) : bool :=
  match o with Div | Mod => true | _ => false end.

Record fops (F : Type) := {
  f_add : F -> F -> F;
  f_sub : F -> F -> F;
  f_mul : F -> F -> F;
  f_div : F -> F -> F;
  f_of_int : Z -> F;          (* Go float64(int64) *)
  f_is_zero : F -> bool;      (* Go  x == 0  (true for +0 and -0) *)
  f_pow : F -> F -> F;        (* math.Pow   - oracle *)
  f_mod : F -> F -> F;        (* math.Mod   - oracle *)
  f_to_int : F -> Z           (* Go int64(float64) - oracle, result in int64 *)
}.
Arguments f_add {F}. Arguments f_sub {F}. Arguments f_mul {F}. Arguments f_div {F}.
Arguments f_of_int {F}. Arguments f_is_zero {F}. Arguments f_pow {F}.
Arguments f_mod {F}. Arguments f_to_int {F}.

Inductive lit (F : Type) := LInt (z : Z) | LFloat (f : F).
Arguments LInt {F}. Arguments LFloat {F}.

(* ---------------------------------------------------------------------- *)
(* opt.go VisitAfter, the 4 x 6 table, case by case.  [None] = the folder
   adds an error ("divide by zero" / "mod by zero") and leaves the node.   *)

Section FoldBin.
Context {F : Type} (fo : fops F).

(* Go int64 arithmetic as written in opt.go:  lhs.I + rhs.I  etc. *)
Definition go_add (a b : Z) : Z := wrap64 (a + b).
Definition go_sub (a b : Z) : Z := wrap64 (a - b).
Definition go_mul (a b : Z) : Z := wrap64 (a * b).
Definition go_quo (a b : Z) : Z := wrap64 (Z.quot a b).   (* MinInt64 / -1 wraps *)
Definition go_rem (a b : Z) : Z := Z.rem a b.

Definition fold_int_int (o : op) (a b : Z) : option (lit F) :=
  match o with
  | Add => Some (LInt (go_add a b))
  | Sub => Some (LInt (go_sub a b))
  | Mul => Some (LInt (go_mul a b))
  | Div => if b =? 0 then None else Some (LInt (go_quo a b))
  | Mod => if b =? 0 then None else Some (LInt (go_rem a b))
  | Pow => Some (LInt (f_to_int fo (f_pow fo (f_of_int fo a) (f_of_int fo b))))
  end.

(* repaired: the Mod case assigns r.F *)
Definition fold_int_float (o : op) (a : Z) (b : F) : option (lit F) :=
  match o with
  | Add => Some (LFloat (f_add fo (f_of_int fo a) b))
  | Sub => Some (LFloat (f_sub fo (f_of_int fo a) b))
  | Mul => Some (LFloat (f_mul fo (f_of_int fo a) b))
  | Div => if f_is_zero fo b then None else Some (LFloat (f_div fo (f_of_int fo a) b))
  | Mod => if f_is_zero fo b then None else Some (LFloat (f_mod fo (f_of_int fo a) b))
  | Pow => Some (LFloat (f_pow fo (f_of_int fo a) b))
  end.

(* before the repair: `rhs.F = math.Mod(...)` left r.F at its zero value *)
Definition fold_int_float_old (o : op) (a : Z) (b : F) : option (lit F) :=
  match o with
  | Mod => if f_is_zero fo b then None else Some (LFloat (f_of_int fo 0))
  | _ => fold_int_float o a b
  end.

Definition fold_float_int (o : op) (a : F) (b : Z) : option (lit F) :=
  match o with
  | Add => Some (LFloat (f_add fo a (f_of_int fo b)))
  | Sub => Some (LFloat (f_sub fo a (f_of_int fo b)))
  | Mul => Some (LFloat (f_mul fo a (f_of_int fo b)))
  | Div => if b =? 0 then None else Some (LFloat (f_div fo a (f_of_int fo b)))
  | Mod => if b =? 0 then None else Some (LFloat (f_mod fo a (f_of_int fo b)))
  | Pow => Some (LFloat (f_pow fo a (f_of_int fo b)))
  end.

Definition fold_float_float (o : op) (a b : F) : option (lit F) :=
  match o with
  | Add => Some (LFloat (f_add fo a b))
  | Sub => Some (LFloat (f_sub fo a b))
  | Mul => Some (LFloat (f_mul fo a b))
  | Div => if f_is_zero fo b then None else Some (LFloat (f_div fo a b))
  | Mod => if f_is_zero fo b then None else Some (LFloat (f_mod fo a b))
  | Pow => Some (LFloat (f_pow fo a b))
  end.

Definition fold_bin (o : op) (l r : lit F) : option (lit F) :=
  match l, r with
  | LInt a, LInt b => fold_int_int o a b
  | LInt a, LFloat b => fold_int_float o a b
  | LFloat a, LInt b => fold_float_int o a b
  | LFloat a, LFloat b => fold_float_float o a b
  end.

Definition fold_bin_old (o : op) (l r : lit F) : option (lit F) :=
  match l, r with
  | LInt a, LFloat b => fold_int_float_old o a b
  | _, _ => fold_bin o l r
  end.

Definition lit_is_zero (l : lit F) : bool :=
  match l with LInt z => z =? 0 | LFloat f => f_is_zero fo f end.

End FoldBin.

(* ---------------------------------------------------------------------- *)
(* Syntax.  TLit: IntLit / FloatLit.  TBin: BinaryExpr with one of the six
   arithmetic operators.  TLeaf: any terminal (metric, capture reference,
   string, pattern, next, otherwise, stop, declaration).  TNode: every other
   node with the children ast.Walk descends into (other operators, builtins,
   index expressions, conditions, blocks, decorators, the program).
   TNoWalk: DelStmt, whose expression ast.Walk does not descend into. *)

Inductive tree (F : Type) :=
| TLit (l : lit F)
| TLeaf (id : N)
| TBin (o : op) (l r : tree F)
| TNode (tag : N) (cs : trees F)
| TNoWalk (tag : N) (t : tree F)
with trees (F : Type) :=
| TNil
| TCons (t : tree F) (ts : trees F).
Arguments TLit {F}. Arguments TLeaf {F}. Arguments TBin {F}. Arguments TNode {F}.
Arguments TNoWalk {F}. Arguments TNil {F}. Arguments TCons {F}.

(* the tag the dumper gives to a CondStmt; its first child is the condition
   (an `otherwise`/absent condition is a leaf) *)
Definition cond_tag : N := 1%N.

Section FoldTree.
Context {F : Type} (fo : fops F).
Variable fb : op -> lit F -> lit F -> option (lit F).   (* fold_bin or fold_bin_old *)

(* ast.Walk with the optimiser: children first, then VisitAfter.  The result
   is the rewritten tree and the number of errors added (Optimise fails iff it
   is non-zero; a node whose fold failed stays a BinaryExpr).
   [keep] = this node is the condition of a CondStmt (optimiser.conds): its
   operands are folded, the node itself stays a BinaryExpr and reports no
   error (the checker then sees the division by a literal zero). *)
Fixpoint fold_tree (keep : bool) (t : tree F) : tree F * N :=
  match t with
  | TLit l => (TLit l, 0%N)
  | TLeaf i => (TLeaf i, 0%N)
  | TBin o l r =>
      let (l', el) := fold_tree false l in
      let (r', er) := fold_tree false r in
      if keep then (TBin o l' r', (el + er)%N) else
      match l', r' with
      | TLit a, TLit b =>
          match fb o a b with
          | Some v => (TLit v, (el + er)%N)
          | None => (TBin o l' r', (el + er + 1)%N)
          end
      | _, _ => (TBin o l' r', (el + er)%N)
      end
  | TNode tag cs => let (cs', e) := fold_trees (N.eqb tag cond_tag) cs in (TNode tag cs', e)
  | TNoWalk tag t => (TNoWalk tag t, 0%N)
  end
with fold_trees (keep_first : bool) (ts : trees F) : trees F * N :=
  match ts with
  | TNil => (TNil, 0%N)
  | TCons t r =>
      let (t', e1) := fold_tree keep_first t in
      let (r', e2) := fold_trees false r in
      (TCons t' r', (e1 + e2)%N)
  end.

(* opt.Optimise: the tree, or failure *)
Definition fold_prog (t : tree F) : option (tree F) :=
  let (t', e) := fold_tree false t in if (e =? 0)%N then Some t' else None.

(* before the repair: a condition was folded like any other node *)
Fixpoint fold_tree_old (t : tree F) : tree F * N :=
  match t with
  | TLit l => (TLit l, 0%N)
  | TLeaf i => (TLeaf i, 0%N)
  | TBin o l r =>
      let (l', el) := fold_tree_old l in
      let (r', er) := fold_tree_old r in
      match l', r' with
      | TLit a, TLit b =>
          match fb o a b with
          | Some v => (TLit v, (el + er)%N)
          | None => (TBin o l' r', (el + er + 1)%N)
          end
      | _, _ => (TBin o l' r', (el + er)%N)
      end
  | TNode tag cs => let (cs', e) := fold_trees_old cs in (TNode tag cs', e)
  | TNoWalk tag t => (TNoWalk tag t, 0%N)
  end
with fold_trees_old (ts : trees F) : trees F * N :=
  match ts with
  | TNil => (TNil, 0%N)
  | TCons t r =>
      let (t', e1) := fold_tree_old t in
      let (r', e2) := fold_trees_old r in
      (TCons t' r', (e1 + e2)%N)
  end.

Definition fold_prog_old (t : tree F) : option (tree F) :=
  let (t', e) := fold_tree_old t in if (e =? 0)%N then Some t' else None.

End FoldTree.

(* ---------------------------------------------------------------------- *)
(* Evaluation of the unfolded tree.  Types are the checker's; values are what
   the VM holds on its stack.                                               *)

Inductive ty := TyInt | TyFloat | TyOther (n : N).

Inductive value (F : Type) := VInt (z : Z) | VFloat (f : F) | VOther (n : N).
Arguments VInt {F}. Arguments VFloat {F}. Arguments VOther {F}.

Inductive res (F : Type) := ROk (v : value F) | RErr.   (* RErr: v.errorf, the line's run ends *)
Arguments ROk {F}. Arguments RErr {F}.

Section Eval.
Context {F : Type} (fo : fops F).
Variable st : Type.                      (* store, captures, time register, input line *)
Definition D := st -> res F * st.
Definition den_t := (ty * D)%type.

(* everything that is not arithmetic on Int/Float is a parameter *)
Variable leaf_sem : N -> den_t.
Variable node_sem : N -> list den_t -> den_t.
Variable nowalk_sem : N -> den_t -> den_t.
Variable other_bin : op -> den_t -> den_t -> den_t.   (* `+` on strings/patterns, ill-typed operands *)
Variable other_int : N -> option Z.      (* PopInt on a Go int, string, time, datum *)
Variable other_float : N -> option F.    (* PopFloat on a Go int, string, datum *)

(* vm.go PopInt / PopFloat: note PopFloat has no int64 case *)
Definition pop_int (v : value F) : option Z :=
  match v with VInt z => Some z | VFloat _ => None | VOther n => other_int n end.
Definition pop_float (v : value F) : option F :=
  match v with VFloat f => Some f | VInt _ => None | VOther n => other_float n end.

(* vm.go Iadd Isub Imul Idiv Imod Ipow; None = "Divide by zero" runtime error *)
Definition vm_iop (o : op) (a b : Z) : option Z :=
  match o with
  | Add => Some (wrap64 (a + b))
  | Sub => Some (wrap64 (a - b))
  | Mul => Some (wrap64 (a * b))
  | Div => if Z.eqb b 0 then None else Some (wrap64 (Z.quot a b))
  | Mod => if Z.eqb b 0 then None else Some (Z.rem a b)
  | Pow => Some (f_to_int fo (f_pow fo (f_of_int fo a) (f_of_int fo b)))
  end.

(* vm.go Fadd Fsub Fmul Fdiv Fmod Fpow: never an error *)
Definition vm_fop (o : op) (a b : F) : F :=
  match o with
  | Add => f_add fo a b
  | Sub => f_sub fo a b
  | Mul => f_mul fo a b
  | Div => f_div fo a b
  | Mod => f_mod fo a b
  | Pow => f_pow fo a b
  end.

(* ConvExpr Int -> Float: code.I2f *)
Definition i2f (d : D) : D := fun s =>
  match d s with
  | (ROk v, s1) =>
      match pop_int v with
      | Some z => (ROk (VFloat (f_of_int fo z)), s1)
      | None => (RErr, s1)
      end
  | (RErr, s1) => (RErr, s1)
  end.

(* code for LHS, code for RHS, then the typed opcode (pops b, then a) *)
Definition bin_int (o : op) (dl dr : D) : D := fun s =>
  match dl s with
  | (ROk a, s1) =>
      match dr s1 with
      | (ROk b, s2) =>
          match pop_int b, pop_int a with
          | Some y, Some x =>
              match vm_iop o x y with
              | Some z => (ROk (VInt z), s2)
              | None => (RErr, s2)
              end
          | _, _ => (RErr, s2)
          end
      | (RErr, s2) => (RErr, s2)
      end
  | (RErr, s1) => (RErr, s1)
  end.

Definition bin_float (o : op) (dl dr : D) : D := fun s =>
  match dl s with
  | (ROk a, s1) =>
      match dr s1 with
      | (ROk b, s2) =>
          match pop_float b, pop_float a with
          | Some y, Some x => (ROk (VFloat (vm_fop o x y)), s2)
          | _, _ => (RErr, s2)
          end
      | (RErr, s2) => (RErr, s2)
      end
  | (RErr, s1) => (RErr, s1)
  end.

(* checker.go: lub(Int,Int)=Int, lub with a Float = Float, a ConvExpr on the
   Int side; codegen picks the opcode by the result type *)
Definition arith (o : op) (l r : den_t) : den_t :=
  match fst l, fst r with
  | TyInt, TyInt => (TyInt, bin_int o (snd l) (snd r))
  | TyInt, TyFloat => (TyFloat, bin_float o (i2f (snd l)) (snd r))
  | TyFloat, TyInt => (TyFloat, bin_float o (snd l) (i2f (snd r)))
  | TyFloat, TyFloat => (TyFloat, bin_float o (snd l) (snd r))
  | _, _ => other_bin o l r
  end.

Definition lit_den (l : lit F) : den_t :=
  match l with
  | LInt z => (TyInt, fun s => (ROk (VInt z), s))
  | LFloat f => (TyFloat, fun s => (ROk (VFloat f), s))
  end.

Fixpoint den (t : tree F) : den_t :=
  match t with
  | TLit l => lit_den l
  | TLeaf i => leaf_sem i
  | TBin o l r => arith o (den l) (den r)
  | TNode tag cs => node_sem tag (dens cs)
  | TNoWalk tag t => nowalk_sem tag (den t)
  end
with dens (ts : trees F) : list den_t :=
  match ts with
  | TNil => []
  | TCons t r => den t :: dens r
  end.

(* a program run: one execution of the program's denotation per line *)
Variable set_line : N -> st -> st.
Definition run_line (p : tree F) (s : st) (ln : N) : st := snd (snd (den p) (set_line ln s)).
Definition run_lines (p : tree F) (lines : list N) (s : st) : st :=
  fold_left (run_line p) lines s.

(* The two shape rules of the checker that can tell a literal from a
   BinaryExpr: a CondStmt condition must not be a bare literal; `/` or `%`
   whose RHS is the IntLit 0 is rejected unless the RHS got wrapped in a
   ConvExpr (LHS typed Float). *)
Definition is_lit (t : tree F) : bool := match t with TLit _ => true | _ => false end.
Definition is_int_zero (t : tree F) : bool :=
  match t with TLit (LInt z) => Z.eqb z 0 | _ => false end.
Definition is_ty_float (t : ty) : bool := match t with TyFloat => true | _ => false end.

Fixpoint shape_ok (t : tree F) : bool :=
  match t with
  | TLit _ | TLeaf _ => true
  | TBin o l r =>
      shape_ok l && shape_ok r &&
      negb (is_divmod o && is_int_zero r && negb (is_ty_float (fst (den l))))
  | TNode tag cs =>
      shapes_ok cs &&
      (if N.eqb tag cond_tag then
         match cs with TCons c _ => negb (is_lit c) | TNil => true end
       else true)
  | TNoWalk _ t => shape_ok t
  end
with shapes_ok (ts : trees F) : bool :=
  match ts with
  | TNil => true
  | TCons t r => shape_ok t && shapes_ok r
  end.

End Eval.
