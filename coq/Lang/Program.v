(* Whole programs: the statement and block level of parser.y and of unparser.go
   (definitions only; proofs in Proofs/ProgramProofs.v).

   parser.y:
     stmt_list : (empty) | stmt_list stmt
     stmt : conditional_stmt | expr_stmt | metric_declaration | decorator_declaration
          | decoration_stmt | delete_stmt | NEXT | CONST id_expr opt_nl concat_expr | STOP
     conditional_stmt : conditional_expr compound_stmt [ELSE compound_stmt] | OTHERWISE compound_stmt
     expr_stmt : NL | expr NL            -- only an expression statement consumes a newline;
                                         -- a newline on its own is an empty statement
     compound_stmt : LCURLY stmt_list RCURLY
     decorator_declaration : DEF ID compound_stmt      decoration_stmt : DECO compound_stmt
     delete_stmt : DEL postfix_expr [AFTER DURATIONLITERAL]

   Tokens: expression tokens (Grammar.tk, with DIV REGEX DIV merged into a regex
   atom), declaration tokens (UnparseDecl.dtk: everything from `hidden`/the type
   keyword up to the newline), and the structure tokens below.  AFTER and its
   DURATIONLITERAL are one token carrying the duration in nanoseconds; the text
   of numbers, durations, strings and patterns is below this model (payloads are
   compared with what the real lexer and strconv/time make of the real text).
   Conditions are expressions: a pattern condition `/a/ + X && e` has the tree
   (/a/ + X) && e in the Go AST as well (its PatternExpr and MATCH wrappers are
   transparent to the printer). *)
From V Require Import Base.Bytes Lang.Grammar Lang.Unparse Lang.UnparseDecl.

Inductive ptk :=
| PE (t : tk) | PD (t : dtk)
| PNL | PLC | PRC | PElse | POtherwise | PDef | PDeco (x : bytes) | PNext | PStop
| PDel | PAfter (ns : Z) | PConst.

Inductive stmt :=
| SExprS (s : estmt)                      (* expression statement, assignment *)
| SDecl (d : decl)                        (* ast.VarDecl *)
| SConst (x : bytes) (e : expr)           (* ast.PatternFragment *)
| SIf (c : expr) (t : block)              (* ast.CondStmt *)
| SIfElse (c : expr) (t e : block)
| SOtherwise (t : block)                  (* ast.CondStmt with an OtherwiseStmt condition *)
| SDef (x : bytes) (b : block)            (* ast.DecoDecl *)
| SDeco (x : bytes) (b : block)           (* ast.DecoStmt *)
| SNext | SStop
| SDel (e : expr) (ns : Z)                (* ast.DelStmt; ns = 0: no expiry *)
with block := BNil | BCons (s : stmt) (b : block).

Definition program := block.

(* ---- printer: unparser.go, StmtList / CondStmt / DecoDecl / DecoStmt / DelStmt /
   PatternFragment / NextStmt / StopStmt; every child of a StmtList is followed
   by a newline, DelStmt writes one more of its own ---- *)

Definition pes (l : list tk) : list ptk := map PE l.
Definition pds (l : list dtk) : list ptk := map PD l.

Fixpoint unparse_stmt (s : stmt) : list ptk :=
  match s with
  | SExprS a => pes (unparse a)
  | SDecl d => pds (unparse_decl d)
  | SConst x e => PConst :: PE (TId x) :: pes (raw e)
  | SIf c t => pes (raw c) ++ PLC :: PNL :: unparse_block t ++ [PRC]
  | SIfElse c t e =>
      pes (raw c) ++ PLC :: PNL :: unparse_block t ++ PRC :: PElse :: PLC :: PNL :: unparse_block e ++ [PRC]
  | SOtherwise t => POtherwise :: PLC :: PNL :: unparse_block t ++ [PRC]
  | SDef x b => PDef :: PE (TId x) :: PLC :: PNL :: unparse_block b ++ [PRC]
  | SDeco x b => PDeco x :: PLC :: PNL :: unparse_block b ++ [PRC]
  | SNext => [PNext]
  | SStop => [PStop]
  | SDel e ns => PDel :: pes (raw e) ++ (if Z.eqb ns 0 then [] else [PAfter ns]) ++ [PNL]
  end
with unparse_block (b : block) : list ptk :=
  match b with
  | BNil => []
  | BCons s r => unparse_stmt s ++ PNL :: unparse_block r
  end.

Definition unparse_prog (p : program) : list ptk := unparse_block p.

(* ---- parser ---- *)

Fixpoint span_pe (ts : list ptk) : list tk * list ptk :=
  match ts with
  | PE t :: r => let (a, b) := span_pe r in (t :: a, b)
  | _ => ([], ts)
  end.
Fixpoint span_pd (ts : list ptk) : list dtk * list ptk :=
  match ts with
  | PD t :: r => let (a, b) := span_pd r in (t :: a, b)
  | _ => ([], ts)
  end.

(* a whole expression *)
Definition pcond (f : nat) (es : list tk) : option expr :=
  match pexp f 1 es with Some (e, []) => Some e | _ => None end.
(* postfix_expr *)
Definition ppostfix (f : nat) (es : list tk) : option expr :=
  match punary f es with
  | Some (e, lv, []) => if Nat.leb 9 lv then Some e else None
  | _ => None
  end.

Fixpoint pblock (f : nat) (ts : list ptk) : option (block * list ptk) :=
  match f with
  | O => None
  | S f =>
      match ts with
      | [] => Some (BNil, [])
      | PRC :: _ => Some (BNil, ts)
      | PNL :: r => pblock f r
      | _ =>
          match pstmt1 f ts with
          | Some (s, r) =>
              match pblock f r with
              | Some (b, r') => Some (BCons s b, r')
              | None => None
              end
          | None => None
          end
      end
  end
with pstmt1 (f : nat) (ts : list ptk) : option (stmt * list ptk) :=
  match f with
  | O => None
  | S f =>
      match ts with
      | PNext :: r => Some (SNext, r)
      | PStop :: r => Some (SStop, r)
      | POtherwise :: PLC :: r =>
          match pblock f r with
          | Some (b, PRC :: r') => Some (SOtherwise b, r')
          | _ => None
          end
      | PDef :: PE (TId x) :: PLC :: r =>
          match pblock f r with
          | Some (b, PRC :: r') => Some (SDef x b, r')
          | _ => None
          end
      | PDeco x :: PLC :: r =>
          match pblock f r with
          | Some (b, PRC :: r') => Some (SDeco x b, r')
          | _ => None
          end
      | PConst :: PE (TId x) :: r =>
          let (es, r') := span_pe r in
          match pcond f es with
          | Some e => Some (SConst x e, r')
          | None => None
          end
      | PDel :: r =>
          let (es, r') := span_pe r in
          match ppostfix f es with
          | Some e =>
              match r' with
              | PAfter ns :: r'' => Some (SDel e ns, r'')
              | _ => Some (SDel e 0%Z, r')
              end
          | None => None
          end
      | PD _ :: _ =>
          let (ds, r') := span_pd ts in
          match parse_decl ds with
          | Some d => Some (SDecl d, r')
          | None => None
          end
      | PE _ :: _ =>
          let (es, r') := span_pe ts in
          match r' with
          | PNL :: r'' =>
              match pstmt f es with
              | Some a => Some (SExprS a, r'')
              | None => None
              end
          | PLC :: r'' =>
              match pcond f es with
              | Some c =>
                  match pblock f r'' with
                  | Some (t, PRC :: PElse :: PLC :: r3) =>
                      match pblock f r3 with
                      | Some (e, PRC :: r4) => Some (SIfElse c t e, r4)
                      | _ => None
                      end
                  | Some (t, PRC :: r3) => Some (SIf c t, r3)
                  | _ => None
                  end
              | None => None
              end
          | _ => None
          end
      | _ => None
      end
  end.

Definition pprog (f : nat) (ts : list ptk) : option program :=
  match pblock f ts with Some (b, []) => Some b | _ => None end.

Definition parse_prog (ts : list ptk) : option program := pprog (4 * length ts + 8) ts.

(* ---- well-formedness: what the checker guarantees of a program it accepts and
   the grammar of a program it parsed: the operand of del is a postfix_expr (an
   indexed metric), and a deletion without expiry has expiry 0 by construction ---- *)
Fixpoint wf_stmt (s : stmt) : bool :=
  match s with
  | SIf _ t => wf_block t
  | SIfElse _ t e => wf_block t && wf_block e
  | SOtherwise t => wf_block t
  | SDef _ b => wf_block b
  | SDeco _ b => wf_block b
  | SDel e _ => Nat.leb 9 (level e)
  | _ => true
  end
with wf_block (b : block) : bool :=
  match b with
  | BNil => true
  | BCons s r => wf_stmt s && wf_block r
  end.
