(* internal/runtime/vm/vm.go: execute / ProcessLogLine, as a small-step
   executable model over Lang/Bytecode.v objects.

   Values are what the Go stack really holds (bool, int64, int, float64,
   string, *metrics.Metric, datum.Datum, time.Duration, nil).  A datum.Datum is
   a pointer: [VDatum p] with p an allocation-order id into the store's heap,
   so a datum that `del` removed from its metric stays writable (and
   invisible), as in Go.

   Outcomes.  [Err e]: the VM's explicit checked conditions.  [Fault f]: every
   place where vm.go reaches a `default:` of a type switch / a value of a
   representation the instruction does not accept, a failed type assertion, an
   index outside re/str/Metrics/a match slice, a pop of the empty stack, a panic
   inside the datum package (recovered by execute), an illegal opcode, a jump outside
   the program.  Two of these are SILENT in the Go code and are faults here
   because the property calls them so: Jnm/Jm on a value that is neither bool
   nor int64 (Go: falls through), Strptime on a value that is neither string
   nor int (Go: parses "").  One deviation in the other direction: a pc beyond
   len(prog) is [Fault FJump] here, Go ends the line silently.

   Executable definitions only; proofs are in Proofs/VmProofs.v, VerifyProofs.v. *)
From V Require Export Lang.Bytecode.
Local Open Scope Z_scope.

(* ------------------------------------------------------------------ *)
(* Values                                                              *)

Inductive val :=
| VNil
| VBool (b : bool)
| VI64 (z : Z)          (* int64 *)
| VInt (z : Z)          (* Go int: len(), regexp indices *)
| VF64 (b : fbits)      (* float64, bit pattern *)
| VStr (s : bytes)
| VMetric (i : nat)     (* *metrics.Metric = Metrics[i] *)
| VDatum (p : nat)      (* datum.Datum = heap cell p *)
| VDur (z : Z).         (* time.Duration *)

Inductive kind := KNil | KBool | KI64 | KInt | KF64 | KStr | KMetric | KDatum | KDur.

Definition kind_of (v : val) : kind :=
  match v with
  | VNil => KNil | VBool _ => KBool | VI64 _ => KI64 | VInt _ => KInt | VF64 _ => KF64
  | VStr _ => KStr | VMetric _ => KMetric | VDatum _ => KDatum | VDur _ => KDur
  end.

Inductive err :=
| EConvInt      (* string -> int conversion failed (PopInt, S2i) *)
| EConvFloat    (* string -> float conversion failed (PopFloat, S2f, Cmp) *)
| EStrptime     (* time.Parse failed *)
| EDivZero      (* Idiv / Imod by zero *)
| EShift        (* shift count out of range *)
| ERange        (* S2i base / Strptime index out of int32 range *)
| ECapture      (* capture group of a pattern that did not match *)
| ENoDatum.     (* del ... after on a label tuple without datum *)

Inductive fault :=
| FUnderflow              (* pop of the empty stack *)
| FRepr (k : kind)        (* value of representation k not accepted here *)
| FOperand                (* operand of the wrong Go type / value *)
| FIndex                  (* index outside re / str / Metrics / match slice *)
| FDatum (t : mtype)      (* datum of type t where another type is required (a panic inside the datum package) *)
| FArity                  (* number of keys differs from len(m.Keys) *)
| FBadInstr               (* code.Bad or an unknown opcode *)
| FJump.                  (* jump target outside the program *)

Inductive res (A : Type) := Ok (a : A) | Er (e : err) | Fl (f : fault).
Arguments Ok {A}. Arguments Er {A}. Arguments Fl {A}.

Definition bind {A B} (a : res A) (f : A -> res B) : res B :=
  match a with Ok x => f x | Er e => Er e | Fl x => Fl x end.

Notation "'do' x <- a ; b" := (bind a (fun x => b))
  (at level 200, x binder, a at level 100, b at level 200, right associativity).

(* ------------------------------------------------------------------ *)
(* Store                                                               *)

Inductive dval :=
| DInt (z : Z)
| DFloat (b : fbits)
| DStr (s : bytes)
| DBuckets (count : N) (sum : fbits).   (* per-bucket counts: Metrics/Buckets.v (C21) *)

(* BaseDatum.Time: stamped from the wall clock (time register zero) or from
   the time register *)
Inductive dtime := TNow | TAt (ns : Z).

Record dcell := mkdcell { d_val : dval; d_time : dtime }.

(* metrics.LabelValue *)
Record lvrec := mklv { lv_labels : tuple; lv_datum : nat; lv_expiry : Z }.

(* heap of datum cells + Metrics[i].LabelValues in slice (insertion) order *)
Record store := mkstore { s_heap : list dcell; s_mets : list (list lvrec) }.

(* timeMemos: (layout, value) -> parsed time, most recently used first; only
   successful parses are memoised *)
Definition memo := list ((bytes * bytes) * timeval).

(* what survives from one line to the next *)
Record vmstate := mkvm { vs_store : store; vs_memo : memo }.

Record thread := mkthread {
  t_pc : nat;
  t_stack : list val;                 (* head = top of stack *)
  t_matched : bool;
  t_matches : list (Z * list bytes);  (* map[int][]string; nil = [] *)
  t_time : timeval
}.

Record logline := mklogline { ll_file : bytes; ll_line : bytes }.

Definition dval_type (d : dval) : mtype :=
  match d with DInt _ => TyInt | DFloat _ => TyFloat | DStr _ => TyString | DBuckets _ _ => TyBuckets end.

Definition stamp (t : timeval) : dtime :=
  if time_is_zero t then TNow else TAt (time_unix_nano t).

(* datum.NewInt() etc.: Set(0, zeroTime) stamps from the clock; MakeBuckets does not stamp *)
Definition zero_cell (ty : mtype) : dcell :=
  match ty with
  | TyInt => mkdcell (DInt 0) TNow
  | TyFloat => mkdcell (DFloat fl_zero) TNow
  | TyString => mkdcell (DStr []) TNow
  | TyBuckets => mkdcell (DBuckets 0 fl_zero) (TAt 0)
  end.

Fixpoint list_set {A} (l : list A) (n : nat) (x : A) : list A :=
  match l, n with
  | [], _ => []
  | _ :: r, O => x :: r
  | y :: r, S n' => y :: list_set r n' x
  end.

Fixpoint lv_find (ls : tuple) (l : list lvrec) : option lvrec :=
  match l with
  | [] => None
  | lv :: r => if tuple_eqb ls (lv_labels lv) then Some lv else lv_find ls r
  end.
Fixpoint lv_del (ls : tuple) (l : list lvrec) : list lvrec :=
  match l with
  | [] => []
  | lv :: r => if tuple_eqb ls (lv_labels lv) then r else lv :: lv_del ls r
  end.
Fixpoint lv_set_expiry (ls : tuple) (e : Z) (l : list lvrec) : list lvrec :=
  match l with
  | [] => []
  | lv :: r => if tuple_eqb ls (lv_labels lv)
               then mklv (lv_labels lv) (lv_datum lv) e :: r
               else lv :: lv_set_expiry ls e r
  end.

Section WithObject.
Variable E : env.
Variable o : object.

(* Metric.GetDatum *)
Definition get_datum (st : store) (m : nat) (ls : tuple) : res (nat * store) :=
  match nth_error (o_metrics o) m, nth_error (s_mets st) m with
  | Some md, Some lvs =>
      if negb (Nat.eqb (length ls) (md_arity md)) then Fl FArity else
      match lv_find ls lvs with
      | Some lv => Ok (lv_datum lv, st)
      | None =>
          let p := length (s_heap st) in
          Ok (p, mkstore (s_heap st ++ [zero_cell (md_type md)])
                         (list_set (s_mets st) m (lvs ++ [mklv ls p 0])))
      end
  | _, _ => Fl FIndex
  end.

(* Metric.RemoveDatum *)
Definition remove_datum (st : store) (m : nat) (ls : tuple) : res store :=
  match nth_error (o_metrics o) m, nth_error (s_mets st) m with
  | Some md, Some lvs =>
      if negb (Nat.eqb (length ls) (md_arity md)) then Fl FArity else
      Ok (mkstore (s_heap st) (list_set (s_mets st) m (lv_del ls lvs)))
  | _, _ => Fl FIndex
  end.

(* Metric.ExpireDatum *)
Definition expire_datum (st : store) (m : nat) (ls : tuple) (e : Z) : res store :=
  match nth_error (o_metrics o) m, nth_error (s_mets st) m with
  | Some md, Some lvs =>
      if negb (Nat.eqb (length ls) (md_arity md)) then Fl FArity else
      match lv_find ls lvs with
      | Some _ => Ok (mkstore (s_heap st) (list_set (s_mets st) m (lv_set_expiry ls e lvs)))
      | None => Er ENoDatum
      end
  | _, _ => Fl FIndex
  end.

Definition heap_upd (st : store) (p : nat) (f : dcell -> res dcell) : res store :=
  match nth_error (s_heap st) p with
  | Some c => do c' <- f c; Ok (mkstore (list_set (s_heap st) p c') (s_mets st))
  | None => Fl FIndex
  end.

(* datum.IncIntBy / DecIntBy (delta already negated for Dec) *)
Definition cell_inc (delta : Z) (ts : timeval) (c : dcell) : res dcell :=
  match d_val c with
  | DInt z => Ok (mkdcell (DInt (wrap64 (z + delta))) (stamp ts))
  | d => Fl (FDatum (dval_type d))
  end.
(* datum.SetInt *)
Definition cell_set_int (v : Z) (ts : timeval) (c : dcell) : res dcell :=
  match d_val c with
  | DInt _ => Ok (mkdcell (DInt v) (stamp ts))
  | DBuckets n s => Ok (mkdcell (DBuckets (n + 1) (fl_add E s (fl_of_int E v))) (stamp ts))
  | d => Fl (FDatum (dval_type d))
  end.
(* datum.SetFloat *)
Definition cell_set_float (v : fbits) (ts : timeval) (c : dcell) : res dcell :=
  match d_val c with
  | DFloat _ => Ok (mkdcell (DFloat v) (stamp ts))
  | DBuckets n s => Ok (mkdcell (DBuckets (n + 1) (fl_add E s v)) (stamp ts))
  | d => Fl (FDatum (dval_type d))
  end.
(* datum.SetString *)
Definition cell_set_str (v : bytes) (ts : timeval) (c : dcell) : res dcell :=
  match d_val c with
  | DStr _ => Ok (mkdcell (DStr v) (stamp ts))
  | d => Fl (FDatum (dval_type d))
  end.

(* datum.GetInt / GetFloat / GetString *)
Definition datum_int (h : list dcell) (p : nat) : res Z :=
  match nth_error h p with
  | Some c => match d_val c with DInt z => Ok z | d => Fl (FDatum (dval_type d)) end
  | None => Fl FIndex
  end.
Definition datum_float (h : list dcell) (p : nat) : res fbits :=
  match nth_error h p with
  | Some c => match d_val c with DFloat b => Ok b | d => Fl (FDatum (dval_type d)) end
  | None => Fl FIndex
  end.
Definition datum_str (h : list dcell) (p : nat) : res bytes :=
  match nth_error h p with
  | Some c => match d_val c with DStr s => Ok s | d => Fl (FDatum (dval_type d)) end
  | None => Fl FIndex
  end.

(* ------------------------------------------------------------------ *)
(* Stack                                                               *)

Definition pop (s : list val) : res (val * list val) :=
  match s with [] => Fl FUnderflow | v :: r => Ok (v, r) end.

(* thread.PopInt *)
Definition as_int (h : list dcell) (v : val) : res Z :=
  match v with
  | VI64 z => Ok z
  | VInt z => Ok z
  | VStr s => match parse_int E s 10 64 with Some z => Ok z | None => Er EConvInt end
  | VDatum p => datum_int h p
  | _ => Fl (FRepr (kind_of v))
  end.
(* thread.PopFloat *)
Definition as_float (h : list dcell) (v : val) : res fbits :=
  match v with
  | VF64 b => Ok b
  | VInt z => Ok (fl_of_int E z)
  | VStr s => match parse_float E s with Some b => Ok b | None => Er EConvFloat end
  | VDatum p => datum_float h p
  | _ => Fl (FRepr (kind_of v))
  end.
(* thread.PopString *)
Definition as_str (h : list dcell) (v : val) : res bytes :=
  match v with
  | VStr s => Ok s
  | VF64 b => Ok (fmt_G E b)
  | VInt z => Ok (fmt_int z)
  | VI64 z => Ok (fmt_int z)
  | VDatum p => datum_str h p
  | _ => Fl (FRepr (kind_of v))
  end.

Definition pop_int h (s : list val) : res (Z * list val) :=
  do '(v, r) <- pop s; do z <- as_int h v; Ok (z, r).
Definition pop_float h (s : list val) : res (fbits * list val) :=
  do '(v, r) <- pop s; do z <- as_float h v; Ok (z, r).
Definition pop_str h (s : list val) : res (bytes * list val) :=
  do '(v, r) <- pop s; do z <- as_str h v; Ok (z, r).

(* keys[n-1] is popped first *)
Fixpoint pop_strs h (n : nat) (s : list val) (acc : tuple) : res (tuple * list val) :=
  match n with
  | O => Ok (acc, s)
  | S n' => do '(x, r) <- pop_str h s; pop_strs h n' r (x :: acc)
  end.

Definition operand_int (a : operand) : res Z :=
  match a with OInt z => Ok z | _ => Fl FOperand end.

Definition index_in (z : Z) (n : nat) : res nat :=
  if (0 <=? z) && (z <? Z.of_nat n) then Ok (Z.to_nat z) else Fl FIndex.

(* ------------------------------------------------------------------ *)
(* compare()                                                           *)

Definition cmp_int (a b : Z) (opnd : Z) : res bool :=
  if opnd =? -1 then Ok (a <? b) else if opnd =? 0 then Ok (a =? b)
  else if opnd =? 1 then Ok (b <? a) else Fl FOperand.
Definition cmp_float (a b : fbits) (opnd : Z) : res bool :=
  if opnd =? -1 then Ok (fl_lt E a b) else if opnd =? 0 then Ok (fl_eq E a b)
  else if opnd =? 1 then Ok (fl_lt E b a) else Fl FOperand.
Definition cmp_str (a b : bytes) (opnd : Z) : res bool :=
  if opnd =? -1 then Ok (bytes_ltb a b) else if opnd =? 0 then Ok (bytes_eqb a b)
  else if opnd =? 1 then Ok (bytes_ltb b a) else Fl FOperand.

(* compare(a, b) when a is not a string *)
Definition compare_num (a b : val) (opnd : Z) : res bool :=
  match a with
  | VF64 fa =>
      match b with
      | VF64 fb => cmp_float fa fb opnd
      | VInt ib | VI64 ib => cmp_float fa (fl_of_int E ib) opnd
      | VStr s => match parse_float E s with
                  | Some rx => cmp_float fa rx opnd
                  | None => Er EConvFloat
                  end
      | _ => Fl (FRepr (kind_of b))
      end
  | VInt ia | VI64 ia =>
      match b with
      | VF64 fb => cmp_float (fl_of_int E ia) fb opnd
      | VInt ib | VI64 ib => cmp_int ia ib opnd
      | VStr s => match parse_float E s with
                  | Some rx => cmp_float fl_zero rx opnd   (* sic: vm.go uses lxF, which is 0 here *)
                  | None => Er EConvFloat
                  end
      | _ => Fl (FRepr (kind_of b))
      end
  | _ => Fl (FRepr (kind_of a))
  end.

Definition compare (a b : val) (opnd : Z) : res bool :=
  match a with
  | VStr sa =>
      match parse_float E sa with
      | Some lx => compare_num (VF64 lx) b opnd
      | None =>
          match parse_int E sa 10 32 with
          | Some lx => compare_num (VI64 lx) b opnd
          | None =>
              match b with
              | VStr sb => cmp_str sa sb opnd
              | VF64 _ | VInt _ | VI64 _ => Er EConvFloat  (* "cannot compare": a is not a number *)
              | _ => Fl (FRepr (kind_of b))
              end
          end
      end
  | _ => compare_num a b opnd
  end.

(* ------------------------------------------------------------------ *)
(* thread helpers                                                      *)

Definition with_stack (t : thread) (s : list val) : thread :=
  mkthread (t_pc t) s (t_matched t) (t_matches t) (t_time t).
Definition with_pc (t : thread) (pc : nat) : thread :=
  mkthread pc (t_stack t) (t_matched t) (t_matches t) (t_time t).
Definition with_matched (t : thread) (b : bool) : thread :=
  mkthread (t_pc t) (t_stack t) b (t_matches t) (t_time t).
Definition with_time (t : thread) (s : list val) (tm : timeval) : thread :=
  mkthread (t_pc t) s (t_matched t) (t_matches t) tm.

Fixpoint match_del (k : Z) (l : list (Z * list bytes)) : list (Z * list bytes) :=
  match l with
  | [] => []
  | (k', v) :: r => if Z.eqb k k' then match_del k r else (k', v) :: match_del k r
  end.
Fixpoint match_get (k : Z) (l : list (Z * list bytes)) : list bytes :=
  match l with
  | [] => []
  | (k', v) :: r => if Z.eqb k k' then v else match_get k r
  end.
Definition with_match (t : thread) (s : list val) (k : Z) (m : option (list bytes)) : thread :=
  let groups := match m with Some g => g | None => [] end in
  let b := match m with Some _ => true | None => false end in
  mkthread (t_pc t) (VBool b :: s) (t_matched t) ((k, groups) :: match_del k (t_matches t)) (t_time t).

(* groupcache lru, MaxEntries 64 *)
Definition mkey_eqb (a b : bytes * bytes) : bool :=
  bytes_eqb (fst a) (fst b) && bytes_eqb (snd a) (snd b).
Fixpoint memo_del (k : bytes * bytes) (l : memo) : memo :=
  match l with
  | [] => []
  | (k', v) :: r => if mkey_eqb k k' then r else (k', v) :: memo_del k r
  end.
Fixpoint memo_find (k : bytes * bytes) (l : memo) : option timeval :=
  match l with
  | [] => None
  | (k', v) :: r => if mkey_eqb k k' then Some v else memo_find k r
  end.
Definition memo_get (k : bytes * bytes) (l : memo) : option (timeval * memo) :=
  match memo_find k l with
  | Some v => Some (v, (k, v) :: memo_del k l)
  | None => None
  end.
Definition memo_add (k : bytes * bytes) (v : timeval) (l : memo) : memo :=
  let l' := (k, v) :: memo_del k l in
  if Nat.ltb 64 (length l') then removelast l' else l'.

(* ------------------------------------------------------------------ *)
(* execute                                                             *)

Inductive xres :=
| XNext (t : thread) (s : vmstate)
| XStop
| XErr (e : err) (s : vmstate).   (* errorf after the state was changed (not used by the current code) *)

Definition next (t : thread) (s : vmstate) : res xres := Ok (XNext t s).
Definition with_store (s : vmstate) (st : store) : vmstate := mkvm st (vs_memo s).

Definition jump (a : operand) (t : thread) (stk : list val) : res thread :=
  do z <- operand_int a;
  if z <? 0 then Fl FJump else Ok (mkthread (Z.to_nat z) stk (t_matched t) (t_matches t) (t_time t)).

Definition int_binop (op : opcode) (a b : Z) : res Z :=
  match op with
  | Iadd => Ok (i_add a b)
  | Isub => Ok (i_sub a b)
  | Imul => Ok (i_mul a b)
  | Idiv => if b =? 0 then Er EDivZero else Ok (i_quot a b)
  | Imod => if b =? 0 then Er EDivZero else Ok (i_rem a b)
  | Ipow => Ok (i_pow E a b)
  | Shl => if (b <? 0) || (max_int32 <=? b) then Er EShift else Ok (i_shl a b)
  | Shr => if (b <? 0) || (max_int32 <=? b) then Er EShift else Ok (i_shr a b)
  | And => Ok (i_and a b)
  | Or => Ok (i_or a b)
  | Xor => Ok (i_xor a b)
  | _ => Fl FBadInstr
  end.

Definition float_binop (op : opcode) (a b : fbits) : res fbits :=
  match op with
  | Fadd => Ok (fl_add E a b)
  | Fsub => Ok (fl_sub E a b)
  | Fmul => Ok (fl_mul E a b)
  | Fdiv => Ok (fl_div E a b)
  | Fmod => Ok (fl_mod E a b)
  | Fpow => Ok (fl_pow E a b)
  | _ => Fl FBadInstr
  end.

Definition operand_val (a : operand) : val :=
  match a with
  | ONil => VNil | OInt z => VInt z | OI64 z => VI64 z | OF64 b => VF64 b
  | OBool b => VBool b | ODur z => VDur z
  end.

(* Pop() asserted to be a metric pointer, then `index` keys *)
Definition pop_metric_keys h (a : operand) (stk : list val) : res (nat * tuple * list val) :=
  do '(v, s1) <- pop stk;
  match v with
  | VMetric m =>
      do n <- operand_int a;
      if n <? 0 then Fl FOperand else
      do '(keys, s2) <- pop_strs h (Z.to_nat n) s1 [];
      Ok (m, keys, s2)
  | _ => Fl (FRepr (kind_of v))
  end.

(* Pop().(datum.Datum) with the errorf of the `ok` form *)
Definition pop_datum (stk : list val) : res (nat * list val) :=
  do '(v, s1) <- pop stk;
  match v with VDatum p => Ok (p, s1) | _ => Fl (FRepr (kind_of v)) end.

(* [t] already has pc advanced past the instruction, as in ProcessLogLine *)
Definition exec (line : logline) (i : instr) (t : thread) (s : vmstate) : res xres :=
  let stk := t_stack t in
  let st := vs_store s in
  let h := s_heap st in
  let a := i_arg i in
  match i_op i with
  | Bad => Fl FBadInstr
  | Stop => Ok XStop
  | Match =>
      do idx <- operand_int a;
      do _ <- index_in idx (o_nre o);
      next (with_match t stk idx (re_match E (Z.to_N idx) (ll_line line))) s
  | Smatch =>
      do idx <- operand_int a;
      do '(x, s1) <- pop_str h stk;
      do _ <- index_in idx (o_nre o);
      next (with_match t s1 idx (re_match E (Z.to_N idx) x)) s
  | Cmp =>
      do '(b, s1) <- pop stk;
      do '(x, s2) <- pop s1;
      do opnd <- operand_int a;
      do r <- compare x b opnd;
      next (with_stack t (VBool r :: s2)) s
  | Icmp =>
      do '(b, s1) <- pop_int h stk;
      do '(x, s2) <- pop_int h s1;
      do opnd <- operand_int a;
      do r <- cmp_int x b opnd;
      next (with_stack t (VBool r :: s2)) s
  | Fcmp =>
      do '(b, s1) <- pop_float h stk;
      do '(x, s2) <- pop_float h s1;
      do opnd <- operand_int a;
      do r <- cmp_float x b opnd;
      next (with_stack t (VBool r :: s2)) s
  | Scmp =>
      do '(b, s1) <- pop_str h stk;
      do '(x, s2) <- pop_str h s1;
      do opnd <- operand_int a;
      do r <- cmp_str x b opnd;
      next (with_stack t (VBool r :: s2)) s
  | Jnm =>
      do '(v, s1) <- pop stk;
      match v with
      | VBool b => if b then next (with_stack t s1) s else do t' <- jump a t s1; next t' s
      | VI64 z => if z =? 0 then do t' <- jump a t s1; next t' s else next (with_stack t s1) s
      | _ => Fl (FRepr (kind_of v))      (* Go: silently falls through *)
      end
  | Jm =>
      do '(v, s1) <- pop stk;
      match v with
      | VBool b => if b then do t' <- jump a t s1; next t' s else next (with_stack t s1) s
      | VI64 z => if z =? 0 then next (with_stack t s1) s else do t' <- jump a t s1; next t' s
      | _ => Fl (FRepr (kind_of v))      (* Go: silently falls through *)
      end
  | Jmp => do t' <- jump a t stk; next t' s
  | Inc | Dec =>
      do '(delta, s1) <- match a with ONil => Ok (1, stk) | _ => pop_int h stk end;
      do '(p, s2) <- pop_datum s1;
      let d := match i_op i with Dec => wrap64 (- delta) | _ => delta end in
      do st' <- heap_upd st p (cell_inc d (t_time t));
      do z <- datum_int (s_heap st') p;
      next (with_stack t (VI64 z :: s2)) (with_store s st')
  | Iset =>
      do '(v, s1) <- pop_int h stk;
      do '(p, s2) <- pop_datum s1;
      do st' <- heap_upd st p (cell_set_int v (t_time t));
      next (with_stack t s2) (with_store s st')
  | Fset =>
      do '(v, s1) <- pop_float h stk;
      do '(p, s2) <- pop_datum s1;
      do st' <- heap_upd st p (cell_set_float v (t_time t));
      next (with_stack t s2) (with_store s st')
  | Sset =>
      do '(v, s1) <- pop_str h stk;
      do '(p, s2) <- pop_datum s1;
      do st' <- heap_upd st p (cell_set_str v (t_time t));
      next (with_stack t s2) (with_store s st')
  | Strptime =>
      do '(layout, s1) <- pop_str h stk;
      do '(v, s2) <- pop s1;
      do '(ts, s3) <-
        match v with
        | VStr x => Ok (x, s2)
        | VInt sidx =>
            do '(val, s3) <- pop_int h s2;
            if (val <? 0) || (max_int32 <=? val) then Er ERange else
            let m := match_get val (t_matches t) in
            if (0 <=? sidx) && (sidx <? Z.of_nat (length m))
            then Ok (nth (Z.to_nat sidx) m [], s3) else Fl FIndex
        | _ => Fl (FRepr (kind_of v))    (* Go: silently parses "" *)
        end;
      (* [time_parse] stands for parseTime followed by adjustYear; the Go memo
         holds the value before adjustYear, which is a function of that value *)
      match memo_get (layout, ts) (vs_memo s) with
      | Some (tm, mm) => next (with_time t s3 tm) (mkvm st mm)
      | None =>
          match time_parse E layout ts with
          | Some tm => next (with_time t s3 tm) (mkvm st (memo_add (layout, ts) tm (vs_memo s)))
          | None => Er EStrptime      (* nothing is memoised, the time register is unchanged *)
          end
      end
  | Timestamp =>
      let z := if time_is_zero (t_time t) then now_sec E else time_unix (t_time t) in
      next (with_stack t (VI64 z :: stk)) s
  | Settime =>
      do '(v, s1) <- pop stk;
      match v with
      | VI64 z => next (with_time t s1 (z, 0)) s
      | _ => Fl (FRepr (kind_of v))
      end
  | Capref =>
      do '(v, s1) <- pop stk;
      match v with
      | VInt re =>
          do op <- operand_int a;
          let m := match_get re (t_matches t) in
          if Z.of_nat (length m) <=? op then Er ECapture else
          if op <? 0 then Fl FIndex else
          next (with_stack t (VStr (nth (Z.to_nat op) m []) :: s1)) s
      | _ => Fl (FRepr (kind_of v))
      end
  | Str =>
      do idx <- operand_int a;
      do n <- index_in idx (length (o_strs o));
      next (with_stack t (VStr (nth n (o_strs o) []) :: stk)) s
  | Push => next (with_stack t (operand_val a :: stk)) s
  | Fadd | Fsub | Fmul | Fdiv | Fmod | Fpow =>
      do '(b, s1) <- pop_float h stk;
      do '(x, s2) <- pop_float h s1;
      do r <- float_binop (i_op i) x b;
      next (with_stack t (VF64 r :: s2)) s
  | Iadd | Isub | Imul | Idiv | Imod | Ipow | Shl | Shr | And | Or | Xor =>
      do '(b, s1) <- pop_int h stk;
      do '(x, s2) <- pop_int h s1;
      do r <- int_binop (i_op i) x b;
      next (with_stack t (VI64 r :: s2)) s
  | Neg =>
      do '(x, s1) <- pop_int h stk;
      next (with_stack t (VI64 (i_not x) :: s1)) s
  | Not =>
      do '(v, s1) <- pop stk;
      match v with
      | VBool b => next (with_stack t (VBool (negb b) :: s1)) s
      | _ => Fl (FRepr (kind_of v))
      end
  | Mload =>
      do idx <- operand_int a;
      do n <- index_in idx (length (o_metrics o));
      next (with_stack t (VMetric n :: stk)) s
  | Dload =>
      do '(m, keys, s1) <- pop_metric_keys h a stk;
      do '(p, st') <- get_datum st m keys;
      next (with_stack t (VDatum p :: s1)) (with_store s st')
  | Iget =>
      do '(p, s1) <- pop_datum stk;
      do z <- datum_int h p;
      next (with_stack t (VI64 z :: s1)) s
  | Fget =>
      do '(p, s1) <- pop_datum stk;
      do z <- datum_float h p;
      next (with_stack t (VF64 z :: s1)) s
  | Sget =>
      do '(p, s1) <- pop_datum stk;
      do z <- datum_str h p;
      next (with_stack t (VStr z :: s1)) s
  | Del =>
      do '(m, keys, s1) <- pop_metric_keys h a stk;
      do st' <- remove_datum st m keys;
      next (with_stack t s1) (with_store s st')
  | Expire =>
      do '(m, keys, s1) <- pop_metric_keys h a stk;
      do '(v, s2) <- pop s1;
      match v with
      | VDur e =>
          do st' <- expire_datum st m keys e;
          next (with_stack t s2) (with_store s st')
      | _ => Fl (FRepr (kind_of v))
      end
  | Tolower =>
      do '(x, s1) <- pop_str h stk;
      next (with_stack t (VStr (to_lower E x) :: s1)) s
  | Length =>
      do '(x, s1) <- pop_str h stk;
      next (with_stack t (VInt (Z.of_nat (length x)) :: s1)) s
  | S2i =>
      do '(base, s1) <-
        match a with
        | ONil => Ok (10, stk)
        | _ => do '(val, s1) <- pop_int h stk;
               if (val <=? 0) || (max_int32 <=? val) then Er ERange else Ok (val, s1)
        end;
      do '(x, s2) <- pop_str h s1;
      match parse_int E x base 64 with
      | Some z => next (with_stack t (VI64 z :: s2)) s
      | None => Er EConvInt
      end
  | S2f =>
      do '(x, s1) <- pop_str h stk;
      match parse_float E x with
      | Some b => next (with_stack t (VF64 b :: s1)) s
      | None => Er EConvFloat
      end
  | I2f =>
      do '(x, s1) <- pop_int h stk;
      next (with_stack t (VF64 (fl_of_int E x) :: s1)) s
  | I2s =>
      do '(x, s1) <- pop_int h stk;
      next (with_stack t (VStr (fmt_int x) :: s1)) s
  | F2s =>
      do '(x, s1) <- pop_float h stk;
      next (with_stack t (VStr (fmt_g E x) :: s1)) s
  | Setmatched =>
      match a with
      | OBool b => next (with_matched t b) s
      | _ => Fl FOperand
      end
  | Otherwise => next (with_stack t (VBool (negb (t_matched t)) :: stk)) s
  | Getfilename => next (with_stack t (VStr (ll_file line) :: stk)) s
  | Cat =>
      do '(b, s1) <- pop_str h stk;
      do '(x, s2) <- pop_str h s1;
      next (with_stack t (VStr (x ++ b) :: s2)) s
  | Subst =>
      do '(val, s1) <- pop_str h stk;
      do '(repl, s2) <- pop_str h s1;
      do '(old, s3) <- pop_str h s2;
      next (with_stack t (VStr (str_replace E val old repl) :: s3)) s
  | Rsubst =>
      do '(pat, s1) <- pop_int h stk;
      do '(val, s2) <- pop_str h s1;
      do '(repl, s3) <- pop_str h s2;
      do _ <- index_in pat (o_nre o);
      next (with_stack t (VStr (re_replace E (Z.to_N pat) val repl) :: s3)) s
  | OpUnknown _ => Fl FBadInstr
  end.

(* ------------------------------------------------------------------ *)
(* ProcessLogLine                                                      *)

Inductive outcome :=
| Next                 (* ran off the end of the program *)
| Stopped              (* `stop` *)
| Err (e : err)
| Fault (f : fault)
| OutOfFuel.

Inductive step_result :=
| SNext (t : thread) (s : vmstate)
| SEnd (oc : outcome) (s : vmstate).

(* one fetch-execute cycle *)
Definition step (line : logline) (t : thread) (s : vmstate) : step_result :=
  match nth_error (o_prog o) (t_pc t) with
  | None => if Nat.eqb (t_pc t) (length (o_prog o)) then SEnd Next s else SEnd (Fault FJump) s
  | Some i =>
      match exec line i (with_pc t (S (t_pc t))) s with
      | Ok (XNext t' s') => SNext t' s'
      | Ok XStop => SEnd Stopped s
      | Ok (XErr e s') => SEnd (Err e) s'
      | Er e => SEnd (Err e) s
      | Fl f => SEnd (Fault f) s
      end
  end.

Fixpoint run (fuel : nat) (line : logline) (t : thread) (s : vmstate) : outcome * vmstate :=
  match fuel with
  | O => (OutOfFuel, s)
  | S f =>
      match step line t s with
      | SNext t' s' => run f line t' s'
      | SEnd oc s' => (oc, s')
      end
  end.

Definition init_thread : thread := mkthread 0 [] false [] zero_time.

Definition line_fuel : nat := S (length (o_prog o)).

Definition run_line (line : logline) (s : vmstate) : outcome * vmstate :=
  run line_fuel line init_thread s.

Fixpoint run_lines (lines : list logline) (s : vmstate) : list outcome * vmstate :=
  match lines with
  | [] => ([], s)
  | l :: r => let (oc, s1) := run_line l s in
              let (ocs, s2) := run_lines r s1 in (oc :: ocs, s2)
  end.

End WithObject.

(* ------------------------------------------------------------------ *)
(* The store codegen.go leaves in a freshly compiled object: scalar counters
   are initialised to zero at time.Unix(0,0), scalar histograms get their datum. *)

Definition init_metric (md : mdesc) (p : nat) : option (dcell * lvrec) :=
  if Nat.eqb (md_arity md) 0 then
    match md_kind md, md_type md with
    | KCounter, TyInt => Some (mkdcell (DInt 0) (TAt 0), mklv [] p 0)
    | KCounter, TyFloat => Some (mkdcell (DFloat fl_zero) (TAt 0), mklv [] p 0)
    | KHistogram, ty => Some (zero_cell ty, mklv [] p 0)
    | _, _ => None
    end
  else None.

Fixpoint init_mets (mds : list mdesc) (heap : list dcell) : list dcell * list (list lvrec) :=
  match mds with
  | [] => (heap, [])
  | md :: r =>
      match init_metric md (length heap) with
      | Some (c, lv) => let (h', ms) := init_mets r (heap ++ [c]) in (h', [lv] :: ms)
      | None => let (h', ms) := init_mets r heap in (h', [] :: ms)
      end
  end.

Definition init_store (o : object) : store :=
  let (h, ms) := init_mets (o_metrics o) [] in mkstore h ms.

Definition init_vm (o : object) : vmstate := mkvm (init_store o) [].
