(* String and pattern literals at the text level: how unparser.go writes the
   text of a StringLit / exported name / quoted key (between double quotes) and
   of a PatternLit (between slashes), and how lexQuotedString / lexRegex read it
   back (definitions only; proofs in Proofs/LiteralsProofs.v).

   The lexer removes a backslash only in front of the closing character q (the
   double quote, resp. the slash) and keeps every other backslash pair as
   written; a newline ends the literal with an error.  The printer puts a
   backslash in front of every q.  Bytes, not runes: q, backslash and newline
   are ASCII, so on valid UTF-8 the byte view and the rune view agree (the
   lexer's U+2424 end-of-input convention is not modelled here: no literal text
   the lexer produces contains it). *)
From V Require Import Base.Bytes.
Local Open Scope N_scope.

Fixpoint esc (q : N) (s : bytes) : bytes :=
  match s with
  | [] => []
  | c :: r => if c =? q then 92 :: q :: esc q r else c :: esc q r
  end.

(* the text up to the closing q, and what follows it *)
Fixpoint unq (q : N) (l : bytes) : option (bytes * bytes) :=
  match l with
  | [] => None
  | c :: r =>
      if c =? 92 then
        match r with
        | [] => None
        | d :: r' =>
            if d =? 10 then None else
            match unq q r' with
            | Some (t, rest) => Some ((if d =? q then [q] else [92; d]) ++ t, rest)
            | None => None
            end
        end
      else if c =? 10 then None
      else if c =? q then Some ([], r)
      else match unq q r with
           | Some (t, rest) => Some (c :: t, rest)
           | None => None
           end
  end.

(* the texts the lexer can produce: no newline, and every backslash is the first
   of a pair whose second byte is neither q nor a newline *)
Fixpoint imgb (q : N) (s : bytes) : bool :=
  match s with
  | [] => true
  | c :: r =>
      if c =? 92 then
        match r with
        | [] => false
        | d :: r' => negb (d =? q) && negb (d =? 10) && imgb q r'
        end
      else negb (c =? 10) && imgb q r
  end.
