(* Prometheus exposition: model of internal/exporter/prometheus.go Collect
   (REPAIRED: an unrepresentable label set is skipped alone; [collect_old] is
   the unchanged tree, which abandons the rest of the metric), promTypeForKind,
   promValueForDatum and datum.GetBucketsCumByMax.
   Executable definitions only.  Generic in the float type F: Collect performs
   no float arithmetic, only the int64 -> float64 conversion [of_int] and the
   comparison [f_leb O] by which GetBucketsCumByMax sorts the upper bounds. *)
From V Require Export Base.Bytes Metrics.Buckets.
Local Open Scope N_scope.

Inductive kind := KCounter | KGauge | KTimer | KText | KHistogram.
Inductive ptype := PCounter | PGauge | PUntyped | PHistogram.

Definition kind_eqb (a b : kind) : bool :=
  match a, b with
  | KCounter, KCounter | KGauge, KGauge | KTimer, KTimer | KText, KText
  | KHistogram, KHistogram => true
  | _, _ => false
  end.

(* promTypeForKind; histograms go through NewConstHistogram *)
Definition ptype_of_kind (k : kind) : ptype :=
  match k with
  | KCounter => PCounter
  | KGauge => PGauge
  | KTimer => PGauge
  | KHistogram => PHistogram
  | KText => PUntyped
  end.

(* noHyphens *)
Definition no_hyphens (s : bytes) : bytes := map (fun b => if N.eqb b 45 then 95 else b) s.

Definition str_prog : bytes := [112; 114; 111; 103].                         (* "prog" *)
Definition str_defined_at : bytes := [100;101;102;105;110;101;100;32;97;116;32]. (* "defined at " *)

(* zip(keys, values): a Go map, a later duplicate key overwrites *)
Fixpoint assoc_set (k v : bytes) (l : list (bytes * bytes)) : list (bytes * bytes) :=
  match l with
  | [] => [(k, v)]
  | (k', v') :: r => if bytes_eqb k k' then (k, v) :: r else (k', v') :: assoc_set k v r
  end.
Fixpoint zip_labels (acc : list (bytes * bytes)) (keys vals : list bytes) : list (bytes * bytes) :=
  match keys, vals with
  | k :: ks, v :: vs => zip_labels (assoc_set k v acc) ks vs
  | _, _ => acc
  end.

(* ---- client_golang's acceptance rules, concretely (v1.20.4 with
   common v0.60.0, legacy name validation): prometheus.NewDesc rejects an
   invalid metric name, an invalid or reserved label name and duplicate label
   names; NewConstMetric / NewConstHistogram reject a label value that is not
   valid UTF-8.  Byte-wise: a non-ASCII byte is never part of a valid name. ---- *)
Definition inr (lo hi b : N) : bool := N.leb lo b && N.leb b hi.
Definition is_alpha (b : N) : bool := inr 65 90 b || inr 97 122 b.
Definition is_digit (b : N) : bool := inr 48 57 b.
(* model.IsValidLegacyMetricName: [a-zA-Z_:][a-zA-Z0-9_:]* *)
Definition valid_metric_name (s : bytes) : bool :=
  match s with
  | [] => false
  | b :: r => (is_alpha b || N.eqb b 95 || N.eqb b 58) &&
              forallb (fun x => is_alpha x || N.eqb x 95 || N.eqb x 58 || is_digit x) r
  end.
(* checkLabelName: [a-zA-Z_][a-zA-Z0-9_]* and not starting with "__" *)
Definition valid_label_name (s : bytes) : bool :=
  match s with
  | [] => false
  | b :: r => (is_alpha b || N.eqb b 95) &&
              forallb (fun x => is_alpha x || N.eqb x 95 || is_digit x) r &&
              negb (match s with 95 :: 95 :: _ => true | _ => false end)
  end.
Fixpoint mem_bytes (x : bytes) (l : list bytes) : bool :=
  match l with [] => false | y :: r => bytes_eqb x y || mem_bytes x r end.
Fixpoint nodup_bytes (l : list bytes) : bool :=
  match l with [] => true | x :: r => negb (mem_bytes x r) && nodup_bytes r end.
(* utf8.ValidString: well-formed UTF-8 (no overlong forms, no surrogates, <= U+10FFFF) *)
Definition cont (b : N) : bool := inr 128 191 b.
Fixpoint valid_utf8 (s : bytes) : bool :=
  match s with
  | [] => true
  | b0 :: r0 =>
      if N.ltb b0 128 then valid_utf8 r0
      else match r0 with
      | [] => false
      | b1 :: r1 =>
          if inr 194 223 b0 then cont b1 && valid_utf8 r1
          else match r1 with
          | [] => false
          | b2 :: r2 =>
              if N.eqb b0 224 then inr 160 191 b1 && cont b2 && valid_utf8 r2
              else if inr 225 236 b0 || inr 238 239 b0 then cont b1 && cont b2 && valid_utf8 r2
              else if N.eqb b0 237 then inr 128 159 b1 && cont b2 && valid_utf8 r2
              else match r2 with
              | [] => false
              | b3 :: r3 =>
                  if N.eqb b0 240 then inr 144 191 b1 && cont b2 && cont b3 && valid_utf8 r3
                  else if inr 241 243 b0 then cont b1 && cont b2 && cont b3 && valid_utf8 r3
                  else if N.eqb b0 244 then inr 128 143 b1 && cont b2 && cont b3 && valid_utf8 r3
                  else false
              end
          end
      end
  end.

Section Prom.
Context {F : Type} (O : fops F) (of_int : Z -> F) (fzero : F).

(* datum: Int | Float | String (exported as 0) | Buckets *)
Inductive dval := DInt (z : Z) | DFloat (f : F) | DStr | DBuckets (d : @bdatum F).

Record labelset := {
  ls_vals : tuple;        (* LabelValue.Labels *)
  ls_val : dval;          (* LabelValue.Value *)
  ls_time : Z;            (* datum time, ns since the epoch *)
  ls_repr : bool          (* oracle: NewDesc + NewConst{Metric,Histogram} accept
                             this metric's name, label names and these values *)
}.

Record metric := {
  m_name : bytes; m_prog : bytes; m_kind : kind; m_keys : list bytes;
  m_source : bytes; m_lvs : list labelset
}.

(* Store.Metrics: one group per name (map order is unspecified: outputs are
   compared as multisets), each group in slice order *)
Definition store := list (list metric).

Record cfg := { omit_prog : bool; emit_ts : bool }.

Inductive sval := SV (f : F) | SH (count : N) (sum : F) (cum : list (F * N)).

Record sample := {
  s_name : bytes; s_help : bytes; s_labels : list (bytes * bytes);
  s_typ : ptype; s_val : sval; s_ts : option Z   (* ms since the epoch *)
}.

Definition labels_of (c : cfg) (m : metric) (ls : labelset) : list (bytes * bytes) :=
  (if omit_prog c then [] else [(str_prog, m_prog m)]) ++ zip_labels [] (m_keys m) (ls_vals ls).

(* would client_golang accept the series Collect builds for (m, ls)?  The label
   names and values are the ones Collect passes: prog first unless omitted,
   then the entries of the label map. *)
Definition representable (c : cfg) (m : metric) (ls : labelset) : bool :=
  let l := labels_of c m ls in
  valid_metric_name (no_hyphens (m_name m)) &&
  forallb valid_label_name (map fst l) && nodup_bytes (map fst l) &&
  forallb valid_utf8 (map snd l).

(* promValueForDatum / the three histogram getters *)
Definition value_of (k : kind) (v : dval) : sval :=
  match k, v with
  | KHistogram, DBuckets d => SH (b_count d) (b_sum d) (cum_by_max O d)
  | _, DInt z => SV (of_int z)
  | _, DFloat f => SV f
  | _, _ => SV fzero
  end.

Definition sample_of (c : cfg) (src : bytes) (m : metric) (ls : labelset) : sample :=
  {| s_name := no_hyphens (m_name m);
     s_help := str_defined_at ++ src;
     s_labels := labels_of c m ls;
     s_typ := ptype_of_kind (m_kind m);
     s_val := value_of (m_kind m) (ls_val ls);
     s_ts := if emit_ts c then Some (ls_time ls / 1000000)%Z else None |}.

Definition exported (m : metric) : bool := negb (kind_eqb (m_kind m) KText).

(* lastSource: the Source of the first metric of the name that reaches the
   label-set loop, i.e. is not Text and has a label set *)
Fixpoint group_source (g : list metric) : bytes :=
  match g with
  | [] => []
  | m :: g' => if exported m && negb (match m_lvs m with [] => true | _ => false end)
               then m_source m else group_source g'
  end.

Definition collect_metric (c : cfg) (src : bytes) (m : metric) : list sample :=
  if exported m
  then flat_map (fun ls => if ls_repr ls then [sample_of c src m ls] else []) (m_lvs m)
  else [].

Definition collect_group (c : cfg) (g : list metric) : list sample :=
  flat_map (collect_metric c (group_source g)) g.

Definition collect (c : cfg) (s : store) : list sample := flat_map (collect_group c) s.

(* ---- the unchanged tree: `return nil` inside the label-set loop ---- *)
Fixpoint take_repr (l : list labelset) : list labelset :=
  match l with
  | [] => []
  | ls :: r => if ls_repr ls then ls :: take_repr r else []
  end.
Definition collect_metric_old (c : cfg) (src : bytes) (m : metric) : list sample :=
  if exported m then map (sample_of c src m) (take_repr (m_lvs m)) else [].
Definition collect_old (c : cfg) (s : store) : list sample :=
  flat_map (fun g => flat_map (collect_metric_old c (group_source g)) g) s.

(* the store without its unrepresentable label sets *)
Definition drop_unrepr_metric (m : metric) : metric :=
  {| m_name := m_name m; m_prog := m_prog m; m_kind := m_kind m; m_keys := m_keys m;
     m_source := m_source m; m_lvs := filter ls_repr (m_lvs m) |}.

End Prom.
Arguments dval : clear implicits. Arguments labelset : clear implicits.
Arguments metric : clear implicits. Arguments sample : clear implicits.
Arguments sval : clear implicits.
