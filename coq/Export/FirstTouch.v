(* C11 - "no counter increment is lost" for lookups-or-creations plus adds on
   one label set of one metric.  n goroutines each run
       d := m.GetDatum(labels...);  datum.IncIntBy(d, delta)
   on the SAME, not yet existing, label set.  `lvcount` is the number of
   LabelValues the metric holds for that label set, `idx` what labelValuesMap
   points at (datums are numbered in creation order), `vals` the datums'
   values.  Two versions of GetDatum:
   - atomic: lookup and creation are ONE step, which is what holding the
     metric's write lock across both gives (C11_isolation: while a thread
     holds the write lock no other thread performs an access guarded by it);
   - split: lookup under the read lock is one step, creation under the write
     lock WITHOUT looking again is another (the seeded fast path).
   The add is one indivisible step (atomic.AddInt64).  Schedules are
   arbitrary lists of thread indices.  Definitions only. *)
From Coq Require Import List ZArith Arith Bool.
Import ListNotations.

Record thr := mkthr { delta : Z; pc : nat; dat : nat }.
Record ft := mkft { lvcount : nat; idx : option nat; vals : list Z; ths : list thr }.

Fixpoint upd_nth {A} (l : list A) (i : nat) (a : A) : list A :=
  match l, i with
  | [], _ => []
  | _ :: r, O => a :: r
  | x :: r, S j => x :: upd_nth r j a
  end.

Fixpoint add_at (l : list Z) (d : nat) (z : Z) : list Z :=
  match l, d with
  | [], _ => []
  | x :: r, O => (x + z)%Z :: r
  | x :: r, S j => x :: add_at r j z
  end.

Definition init (deltas : list Z) : ft :=
  mkft 0 None [] (map (fun d => mkthr d 0 0) deltas).

(* ---- GetDatum with find-and-create in one critical section ---- *)
Definition step_atomic (s : ft) (i : nat) : ft :=
  match nth_error (ths s) i with
  | None => s
  | Some t =>
      match pc t with
      | 0 =>
          match idx s with
          | Some d => mkft (lvcount s) (idx s) (vals s) (upd_nth (ths s) i (mkthr (delta t) 1 d))
          | None =>
              let d := length (vals s) in
              mkft (S (lvcount s)) (Some d) (vals s ++ [0%Z]) (upd_nth (ths s) i (mkthr (delta t) 1 d))
          end
      | 1 => mkft (lvcount s) (idx s) (add_at (vals s) (dat t) (delta t))
                  (upd_nth (ths s) i (mkthr (delta t) 2 (dat t)))
      | _ => s
      end
  end.
Definition run_atomic (sched : list nat) (s : ft) : ft := fold_left step_atomic sched s.
Definition done_atomic (s : ft) : bool := forallb (fun t => Nat.eqb (pc t) 2) (ths s).

(* ---- the seeded GetDatum: lookup, release, create without looking again ---- *)
Definition step_split (s : ft) (i : nat) : ft :=
  match nth_error (ths s) i with
  | None => s
  | Some t =>
      match pc t with
      | 0 => (* lookup under RLock; the answer is remembered *)
          match idx s with
          | Some d => mkft (lvcount s) (idx s) (vals s) (upd_nth (ths s) i (mkthr (delta t) 2 d))
          | None => mkft (lvcount s) (idx s) (vals s) (upd_nth (ths s) i (mkthr (delta t) 1 0))
          end
      | 1 => (* missed: create under Lock *)
          let d := length (vals s) in
          mkft (S (lvcount s)) (Some d) (vals s ++ [0%Z]) (upd_nth (ths s) i (mkthr (delta t) 2 d))
      | 2 => mkft (lvcount s) (idx s) (add_at (vals s) (dat t) (delta t))
                  (upd_nth (ths s) i (mkthr (delta t) 3 (dat t)))
      | _ => s
      end
  end.
Definition run_split (sched : list nat) (s : ft) : ft := fold_left step_split sched s.
Definition done_split (s : ft) : bool := forallb (fun t => Nat.eqb (pc t) 3) (ths s).

Definition zsum (l : list Z) : Z := fold_right Z.add 0%Z l.
(* what a later lookup of the label set finds *)
Definition exported (s : ft) : option Z :=
  match idx s with Some d => nth_error (vals s) d | None => None end.
