(* C12 - control-path IR of one export closure (the function passed to
   Store.Range by Collect, writeSocketMetrics, HandleVarz, HandleGraphite), its
   nondeterministic path semantics and the checker `balanced`.

   The IR is regenerated from /repo's source on every run by harness/xlate.
   Definitions only; the soundness proof is in Proofs/PathIRProofs.v. *)
From Coq Require Import List Arith Bool.
Import ListNotations.

(* ---------- syntax (mutual, see DESIGN 4.4) ---------- *)
Inductive stmt :=
| SRLock                      (* m.RLock() *)
| SRUnlock                    (* m.RUnlock() *)
| SDeferRUnlock               (* defer m.RUnlock() *)
| SSpawn                      (* ch := make(chan ..); go m.EmitLabelSets(ch) *)
| SRange (body : block)       (* for ls := range ch { body } *)
| SDrain                      (* for range ch {} *)
| SIf (t e : block)           (* any condition / select / switch arm: both possible *)
| SContinue
| SBreak
| SReturn
| SOther                      (* no lock, channel, goroutine or control effect *)
| SUnknown                    (* outside the vocabulary: anything may happen *)
with block :=
| BNil
| BCons (s : stmt) (r : block).

Fixpoint block_of (l : list stmt) : block :=
  match l with [] => BNil | s :: r => BCons s (block_of r) end.

(* the emitter goroutine (metric.go EmitLabelSets), flattened *)
Inductive estmt :=
| ESendEach                   (* for _, lv := range m.LabelValues { ...; c <- ls } *)
| EClose                      (* close(c) *)
| EOther
| EUnknown.

(* "sends every label set, then closes the channel, then ends" *)
Fixpoint emitter_closes_after (sent : bool) (e : list estmt) : bool :=
  match e with
  | [] => false
  | EOther :: r => emitter_closes_after sent r
  | ESendEach :: r => if sent then false else emitter_closes_after true r
  | EClose :: r => sent && forallb (fun x => match x with EOther => true | _ => false end) r
  | EUnknown :: _ => false
  end.
Definition emitter_closes (e : list estmt) : bool := emitter_closes_after false e.

(* ---------- path semantics ---------- *)
(* how a statement / block ends.  Wrong = the goroutine blocks for ever, may
   deadlock against a waiting writer, or dies in a runtime fatal error *)
Inductive flow := Fall | Cont | Brk | Ret | Wrong.

(* per-metric state: read locks held by the exporter on m, pending deferred
   RUnlocks, emitter: None = not started, Some k = k label sets still to hand
   over on the unbuffered channel (it closes the channel and ends only after
   the last one has been received) *)
Record st := mkst { locks : nat; defers : nat; emit : option nat }.

Definition init : st := mkst 0 0 None.

Section Exec.
(* does the emitter close its channel after the last label set? *)
Variable closes : bool.

Inductive exec_stmt : stmt -> st -> flow -> st -> Prop :=
| E_rlock s : locks s = 0 ->
    exec_stmt SRLock s Fall (mkst 1 (defers s) (emit s))
| E_rlock_again s n : locks s = S n ->      (* recursive read lock: deadlocks with a waiting writer *)
    exec_stmt SRLock s Wrong s
| E_runlock s n : locks s = S n ->
    exec_stmt SRUnlock s Fall (mkst n (defers s) (emit s))
| E_runlock_free s : locks s = 0 ->         (* fatal error: RUnlock of unlocked RWMutex *)
    exec_stmt SRUnlock s Wrong s
| E_defer s :
    exec_stmt SDeferRUnlock s Fall (mkst (locks s) (S (defers s)) (emit s))
| E_spawn s k : emit s = None ->            (* any number k of label sets *)
    exec_stmt SSpawn s Fall (mkst (locks s) (defers s) (Some k))
| E_spawn_again s k : emit s = Some k ->
    exec_stmt SSpawn s Wrong s
| E_other s : exec_stmt SOther s Fall s
| E_unknown s f s' : exec_stmt SUnknown s f s'
| E_if_t t e s f s' : exec_block t s f s' -> exec_stmt (SIf t e) s f s'
| E_if_e t e s f s' : exec_block e s f s' -> exec_stmt (SIf t e) s f s'
| E_continue s : exec_stmt SContinue s Cont s
| E_break s : exec_stmt SBreak s Brk s
| E_return s : exec_stmt SReturn s Ret s
| E_drain s k : emit s = Some k -> closes = true ->
    exec_stmt SDrain s Fall (mkst (locks s) (defers s) (Some 0))
| E_drain_blocks s : emit s = None \/ closes = false ->
    exec_stmt SDrain s Wrong s
| E_range_nochan body s : emit s = None ->  (* nobody ever sends or closes *)
    exec_stmt (SRange body) s Wrong s
| E_range_done body s : emit s = Some 0 -> closes = true ->
    exec_stmt (SRange body) s Fall s
| E_range_never_closed body s : emit s = Some 0 -> closes = false ->
    exec_stmt (SRange body) s Wrong s
| E_range_iter body s k s1 fl f s' : emit s = Some (S k) ->
    exec_block body (mkst (locks s) (defers s) (Some k)) fl s1 ->
    fl = Fall \/ fl = Cont ->
    exec_stmt (SRange body) s1 f s' ->
    exec_stmt (SRange body) s f s'
| E_range_break body s k s1 : emit s = Some (S k) ->
    exec_block body (mkst (locks s) (defers s) (Some k)) Brk s1 ->
    exec_stmt (SRange body) s Fall s1
| E_range_exit body s k s1 fl : emit s = Some (S k) ->
    exec_block body (mkst (locks s) (defers s) (Some k)) fl s1 ->
    fl = Ret \/ fl = Wrong ->
    exec_stmt (SRange body) s fl s1
with exec_block : block -> st -> flow -> st -> Prop :=
| E_nil s : exec_block BNil s Fall s
| E_cons_fall x r s s1 f s' : exec_stmt x s Fall s1 -> exec_block r s1 f s' ->
    exec_block (BCons x r) s f s'
| E_cons_stop x r s f s' : exec_stmt x s f s' -> f <> Fall ->
    exec_block (BCons x r) s f s'.

(* when the closure has ended (return or end of body) the deferred RUnlocks
   run.  Good: they release exactly what is held, and the emitter is not left
   blocked in a send *)
Definition good_exit (s : st) : Prop :=
  locks s = defers s /\ (emit s = None \/ emit s = Some 0).

(* the closure ran to its end and left the metric unlocked, no goroutine stuck *)
Definition good_outcome (f : flow) (s : st) : Prop :=
  (f = Ret \/ f = Fall) /\ good_exit s.

End Exec.

(* Store.Range calls the closure once per metric, in sequence, each metric
   with its own lock and its own emitter; it stops at the first error.  The
   outcome of an export attempt is therefore the list of per-metric outcomes
   of the visited prefix. *)
Inductive exec_store (closes : bool) (b : block) : nat -> list (flow * st) -> Prop :=
| ES_none n : exec_store closes b n []
| ES_next n f s' r : exec_block closes b init f s' -> exec_store closes b n r ->
    exec_store closes b (S n) ((f, s') :: r).

(* ---------- the checker: abstract interpretation ---------- *)
Inductive aemit := ANone | ALive | ADone.   (* not started | k >= 0 pending | 0 pending *)
Record ast := mkast { alocks : nat; adefers : nat; aem : aemit }.

Definition aemit_eqb (x y : aemit) : bool :=
  match x, y with ANone, ANone | ALive, ALive | ADone, ADone => true | _, _ => false end.

(* a is at least as precise as i *)
Definition ast_le (a i : ast) : bool :=
  Nat.eqb (alocks a) (alocks i) && Nat.eqb (adefers a) (adefers i) &&
  (aemit_eqb (aem a) (aem i) || (aemit_eqb (aem a) ADone && aemit_eqb (aem i) ALive)).

Definition join (a b : ast) : option ast :=
  if Nat.eqb (alocks a) (alocks b) && Nat.eqb (adefers a) (adefers b) then
    match aem a, aem b with
    | ANone, ANone => Some a
    | ANone, _ | _, ANone => None
    | ADone, ADone => Some a
    | _, _ => Some (mkast (alocks a) (adefers a) ALive)
    end
  else None.

Definition joinopt (x y : option ast) : option (option ast) :=
  match x, y with
  | None, z | z, None => Some z
  | Some a, Some b => match join a b with Some c => Some (Some c) | None => None end
  end.

Definition exit_ok (a : ast) : bool :=
  Nat.eqb (alocks a) (adefers a) &&
  match aem a with ANone | ADone => true | ALive => false end.

(* abstract states in which the statement may fall through / break *)
Record res := mkres { rfall : option ast; rbrk : option ast }.

Section Check.
Variable closes : bool.

(* inv: Some i inside a range loop whose head state is i *)
Fixpoint check_stmt (inv : option ast) (s : stmt) (a : ast) {struct s} : option res :=
  match s with
  | SRLock => match alocks a with
              | 0 => Some (mkres (Some (mkast 1 (adefers a) (aem a))) None)
              | S _ => None
              end
  | SRUnlock => match alocks a with
                | 0 => None
                | S n => Some (mkres (Some (mkast n (adefers a) (aem a))) None)
                end
  | SDeferRUnlock => Some (mkres (Some (mkast (alocks a) (S (adefers a)) (aem a))) None)
  | SSpawn => match aem a with
              | ANone => Some (mkres (Some (mkast (alocks a) (adefers a) ALive)) None)
              | _ => None
              end
  | SOther => Some (mkres (Some a) None)
  | SUnknown => None
  | SDrain => match aem a with
              | ANone => None
              | _ => if closes then Some (mkres (Some (mkast (alocks a) (adefers a) ADone)) None)
                     else None
              end
  | SContinue => match inv with
                 | Some i => if ast_le a i then Some (mkres None None) else None
                 | None => None
                 end
  | SBreak => match inv with
              | Some _ => Some (mkres None (Some a))
              | None => None
              end
  | SReturn => if exit_ok a then Some (mkres None None) else None
  | SIf t e =>
      match check_block inv t a, check_block inv e a with
      | Some x, Some y =>
          match joinopt (rfall x) (rfall y), joinopt (rbrk x) (rbrk y) with
          | Some f, Some b => Some (mkres f b)
          | _, _ => None
          end
      | _, _ => None
      end
  | SRange body =>
      match aem a with
      | ALive =>
          if closes then
            match check_block (Some a) body a with
            | Some x =>
                if match rfall x with Some a' => ast_le a' a | None => true end then
                  match joinopt (Some (mkast (alocks a) (adefers a) ADone)) (rbrk x) with
                  | Some f => Some (mkres f None)
                  | None => None
                  end
                else None
            | None => None
            end
          else None
      | _ => None
      end
  end
with check_block (inv : option ast) (b : block) (a : ast) {struct b} : option res :=
  match b with
  | BNil => Some (mkres (Some a) None)
  | BCons s r =>
      match check_stmt inv s a with
      | None => None
      | Some x =>
          match rfall x with
          | None => Some x                       (* the rest is unreachable *)
          | Some a1 =>
              match check_block inv r a1 with
              | None => None
              | Some y =>
                  match joinopt (rbrk x) (rbrk y) with
                  | Some b => Some (mkres (rfall y) b)
                  | None => None
                  end
              end
          end
      end
  end.

Definition balanced (b : block) : bool :=
  match check_block None b (mkast 0 0 ANone) with
  | Some x => match rfall x with Some a => exit_ok a | None => true end
  | None => false
  end.

End Check.

(* what the harness submits: the emitter and one closure *)
Definition closure_ok (e : list estmt) (b : list stmt) : bool :=
  balanced (emitter_closes e) (block_of b).

(* ---------- the shapes found in the repository ---------- *)
Definition emitter_repo : list estmt := [ESendEach; EClose].

(* prometheus.go Collect before the repair: `return nil` inside the range loop *)
Definition collect_old : list stmt :=
  [SRLock; SIf (block_of [SRUnlock; SReturn]) BNil; SOther; SSpawn;
   SRange (block_of [SIf (block_of [SOther]) BNil; SOther;
                     SIf (block_of [SOther]) (block_of [SOther]);
                     SIf (block_of [SOther; SReturn]) BNil;
                     SIf (block_of [SOther]) (block_of [SOther])]);
   SRUnlock; SReturn].
(* export.go writeSocketMetrics before the repair: `return err` inside the loop *)
Definition socket_old : list stmt :=
  [SRLock; SIf (block_of [SRUnlock; SReturn]) BNil; SOther; SSpawn;
   SRange (block_of [SOther; SOther; SOther;
                     SIf (block_of [SOther]) (block_of [SReturn])]);
   SRUnlock; SReturn].
(* repaired: defer RUnlock, continue on a bad label set *)
Definition collect_new : list stmt :=
  [SRLock; SDeferRUnlock; SIf (block_of [SReturn]) BNil; SOther; SSpawn;
   SRange (block_of [SIf (block_of [SOther]) BNil; SOther;
                     SIf (block_of [SOther]) (block_of [SOther]);
                     SIf (block_of [SOther; SContinue]) BNil;
                     SIf (block_of [SOther]) (block_of [SOther])]);
   SReturn].
(* repaired: defer RUnlock, drain before the error return *)
Definition socket_new : list stmt :=
  [SRLock; SDeferRUnlock; SIf (block_of [SReturn]) BNil; SOther; SSpawn;
   SRange (block_of [SOther; SOther; SOther;
                     SIf (block_of [SOther]) (block_of [SDrain; SReturn])]);
   SReturn].
(* varz.go / graphite.go: cancellation is tested before the lock is taken *)
Definition handler_repo : list stmt :=
  [SIf (block_of [SReturn]) BNil; SRLock; SOther; SSpawn;
   SRange (block_of [SOther; SOther]); SRUnlock; SReturn].
