(* Text and JSON export formats: model of
     internal/exporter/export.go   formatLabels, writeSocketMetrics (text metrics skipped)
     internal/exporter/varz.go     metricToVarz / HandleVarz
     internal/exporter/graphite.go metricToGraphite / HandleGraphite  (REPAIRED:
                                   the histogram lines use the label set's own
                                   datum; [to_graphite_old] is the unchanged tree)
     internal/exporter/statsd.go   metricToStatsd
     internal/exporter/collectd.go metricToCollectd
     internal/metrics/store.go     MarshalJSON, the datum MarshalJSON methods
   Executable definitions only.  Float formatting (%g, %v, encoding/json) is a
   library oracle: a float travels with the texts Go's strconv gives it. *)
From V Require Export Base.Bytes.
Local Open Scope N_scope.

(* ---- small string library ---- *)
Definition replace_byte (a b : byte) (s : bytes) : bytes := map (fun x => if N.eqb x a then b else x) s.
Fixpoint join (sep : bytes) (l : list bytes) : bytes :=
  match l with [] => [] | [x] => x | x :: r => x ++ sep ++ join sep r end.

(* byte-wise lexicographic order (Go string <) *)
Fixpoint bytes_leb (a b : bytes) : bool :=
  match a, b with
  | [], _ => true
  | _ :: _, [] => false
  | x :: a', y :: b' => if N.ltb x y then true else if N.eqb x y then bytes_leb a' b' else false
  end.
Fixpoint insert_by {A} (le : A -> A -> bool) (x : A) (l : list A) : list A :=
  match l with [] => [x] | y :: r => if le x y then x :: l else y :: insert_by le x r end.
Definition sort_by {A} (le : A -> A -> bool) (l : list A) : list A := fold_right (insert_by le) [] l.

(* %d *)
Fixpoint digits (fuel : nat) (n : N) (acc : bytes) : bytes :=
  match fuel with
  | O => acc
  | S f => let acc' := (48 + n mod 10) :: acc in
           if n / 10 =? 0 then acc' else digits f (n / 10) acc'
  end.
Definition fmt_N (n : N) : bytes := digits 25 n [].
Definition fmt_Z (z : Z) : bytes :=
  match z with Z0 => [48] | Zpos p => fmt_N (Npos p) | Zneg p => 45 :: fmt_N (Npos p) end.

(* ---- store content ---- *)
Inductive kind := KCounter | KGauge | KTimer | KText | KHistogram.
Inductive vtype := TInt | TFloat | TString | TBuckets.

(* a float64 with the texts of fmt "%g"/"%v" (= strconv 'g', -1) and of
   encoding/json (None: json.Marshal refuses the value: NaN, +-Inf) *)
Record fval := { f_bits : N; f_g : bytes; f_json : option bytes }.

Record bucket := { bk_min : fval; bk_max : fval; bk_count : N }.
Inductive dval :=
| VInt (z : Z) | VFloat (f : fval) | VStr (s : bytes)
| VBuckets (bs : list bucket) (count : N) (sum : fval).

Record lset := { l_vals : tuple; l_val : dval; l_time : Z; l_expiry : Z }.

Record metric := {
  m_name : bytes; m_prog : bytes; m_kind : kind; m_type : vtype; m_hidden : bool;
  m_keys : list bytes; m_lsets : list lset; m_source : bytes;
  m_ranges : list (fval * fval); m_limit : Z
}.

Record cfg := {
  c_host : bytes; c_omit_prog : bool; c_interval_s : Z;
  c_graphite_prefix : bytes; c_statsd_prefix : bytes; c_collectd_prefix : bytes
}.

(* Datum.ValueString / TimeString *)
Definition value_string (v : dval) : bytes :=
  match v with
  | VInt z => fmt_Z z
  | VFloat f => f_g f
  | VStr s => s
  | VBuckets _ _ sum => f_g sum
  end.
Definition time_string (t : Z) : bytes := fmt_Z (Z.quot t 1000000000).

(* zip(keys, values) as a Go map *)
Fixpoint assoc_set (k v : bytes) (l : list (bytes * bytes)) : list (bytes * bytes) :=
  match l with
  | [] => [(k, v)]
  | (k', v') :: r => if bytes_eqb k k' then (k, v) :: r else (k', v') :: assoc_set k v r
  end.
Fixpoint zip_labels (acc : list (bytes * bytes)) (keys vals : list bytes) : list (bytes * bytes) :=
  match keys, vals with
  | k :: ks, v :: vs => zip_labels (assoc_set k v acc) ks vs
  | _, _ => acc
  end.
Definition labels_of (m : metric) (l : lset) : list (bytes * bytes) := zip_labels [] (m_keys m) (l_vals l).

(* export.go formatLabels with one-byte separators *)
Definition format_labels (name : bytes) (labels : list (bytes * bytes)) (ksep sep rep : byte) : bytes :=
  match labels with
  | [] => name
  | _ =>
    let sorted := sort_by (fun a b => bytes_leb (fst a) (fst b)) labels in
    let clean s := replace_byte sep rep (replace_byte ksep rep s) in
    name ++ [sep] ++ join [sep] (map (fun kv => clean (fst kv) ++ [ksep] ++ clean (snd kv)) sorted)
  end.

Definition c_dot : byte := 46.  Definition c_dash : byte := 45.  Definition c_us : byte := 95.
Definition c_sp : byte := 32.   Definition c_nl : byte := 10.    Definition c_eq : byte := 61.

(* ---- varz: name{k=v,...,prog=P,instance=H} value\n (every metric) ---- *)
Definition str_prog_eq : bytes := [112; 114; 111; 103; 61].
Definition str_instance_eq : bytes := [105; 110; 115; 116; 97; 110; 99; 101; 61].
Definition to_varz (c : cfg) (m : metric) (l : lset) : bytes :=
  let kv := sort_by bytes_leb (map (fun p => fst p ++ [c_eq] ++ snd p) (labels_of m l)) in
  let all := kv ++ (if c_omit_prog c then [] else [str_prog_eq ++ m_prog m]) ++ [str_instance_eq ++ c_host c] in
  m_name m ++ [123] ++ join [44] all ++ [125; c_sp] ++ value_string (l_val l) ++ [c_nl].

(* ---- graphite ---- *)
Definition graphite_path (c : cfg) (m : metric) (l : lset) : bytes :=
  c_graphite_prefix c ++ m_prog m ++ [c_dot] ++ format_labels (m_name m) (labels_of m l) c_dot c_dot c_us.
Definition str_bin : bytes := [46; 98; 105; 110; 95].     (* ".bin_" *)
Definition str_count : bytes := [46; 99; 111; 117; 110; 116]. (* ".count" *)
Definition str_inf : bytes := [105; 110; 102].
Definition is_pinf_bits (b : N) : bool := N.eqb b 0x7FF0000000000000.
Definition graphite_line (path value : bytes) (t : Z) : bytes :=
  path ++ [c_sp] ++ value ++ [c_sp] ++ time_string t ++ [c_nl].

(* the lines of one label set; [hd] is the datum the histogram lines read *)
Definition graphite_lines_with (c : cfg) (m : metric) (l : lset) (hd : dval) : list bytes :=
  let p := graphite_path c m l in
  (match m_kind m, m_type m, hd with
   | KHistogram, TBuckets, VBuckets bs count _ =>
       map (fun b => graphite_line
                       (p ++ str_bin ++ (if is_pinf_bits (f_bits (bk_max b)) then str_inf else f_g (bk_max b)))
                       (fmt_N (bk_count b)) (l_time l)) bs
       ++ [graphite_line (p ++ str_count) (fmt_N count) (l_time l)]
   | _, _, _ => []
   end) ++ [graphite_line p (value_string (l_val l)) (l_time l)].

Definition to_graphite (c : cfg) (m : metric) (l : lset) : list bytes :=
  graphite_lines_with c m l (l_val l).
(* unchanged tree: d := m.LabelValues[0].Value *)
Definition to_graphite_old (c : cfg) (m : metric) (l : lset) : list bytes :=
  graphite_lines_with c m l (match m_lsets m with l0 :: _ => l_val l0 | [] => l_val l end).

(* ---- statsd: prefix prog.path:value|t (no terminator; one write each) ---- *)
Definition statsd_type (k : kind) : bytes :=
  match k with KCounter => [99] | KGauge => [103] | KTimer => [109; 115] | _ => [] end.
Definition to_statsd (c : cfg) (m : metric) (l : lset) : bytes :=
  c_statsd_prefix c ++ m_prog m ++ [c_dot] ++ format_labels (m_name m) (labels_of m l) c_dot c_dot c_us
  ++ [58] ++ value_string (l_val l) ++ [124] ++ statsd_type (m_kind m).

(* ---- collectd: PUTVAL <quote>host/prefixmtail-prog/type-name-k-v<quote> interval=N time:value\n ---- *)
Definition str_putval : bytes := [80; 85; 84; 86; 65; 76; 32; 34].            (* PUTVAL + space + quote *)
Definition str_mtail_dash : bytes := [109; 116; 97; 105; 108; 45].           (* mtail- *)
Definition str_interval : bytes := [34; 32; 105; 110; 116; 101; 114; 118; 97; 108; 61]. (* quote + space + interval= *)
Definition collectd_type (k : kind) : bytes :=
  match k with
  | KCounter => [99; 111; 117; 110; 116; 101; 114]
  | KGauge | KTimer => [103; 97; 117; 103; 101]
  | KText => [116; 101; 120; 116]
  | KHistogram => [104; 105; 115; 116; 111; 103; 114; 97; 109]
  end.
Definition collectd_id (c : cfg) (m : metric) (l : lset) : bytes :=
  c_host c ++ [47] ++ c_collectd_prefix c ++ str_mtail_dash ++ m_prog m ++ [47] ++
  collectd_type (m_kind m) ++ [c_dash] ++ format_labels (m_name m) (labels_of m l) c_dash c_dash c_us.
Definition to_collectd (c : cfg) (m : metric) (l : lset) : bytes :=
  str_putval ++ collectd_id c m l ++ str_interval ++ fmt_Z (c_interval_s c) ++ [c_sp] ++
  time_string (l_time l) ++ [58] ++ value_string (l_val l) ++ [c_nl].

(* ---- whole-store outputs: one record (list of lines / one write) per label
   set; metric order is Go map order, so outputs are compared as multisets ---- *)
Definition is_text (m : metric) : bool := match m_kind m with KText => true | _ => false end.
Definition per_lset {A} (f : metric -> lset -> list A) (ms : list metric) : list A :=
  flat_map (fun m => flat_map (f m) (m_lsets m)) ms.
Definition export_varz (c : cfg) (s : list metric) : list bytes := per_lset (fun m l => [to_varz c m l]) s.
Definition export_graphite_http (c : cfg) (s : list metric) : list bytes := per_lset (to_graphite c) s.
Definition pushed (s : list metric) : list metric := filter (fun m => negb (is_text m)) s.
Definition export_graphite_push (c : cfg) (s : list metric) : list bytes := per_lset (to_graphite c) (pushed s).
Definition export_statsd (c : cfg) (s : list metric) : list bytes := per_lset (fun m l => [to_statsd c m l]) (pushed s).
Definition export_collectd (c : cfg) (s : list metric) : list bytes := per_lset (fun m l => [to_collectd c m l]) (pushed s).
Definition export_graphite_http_old (c : cfg) (s : list metric) : list bytes := per_lset (to_graphite_old c) s.

(* ---- JSON tree (object fields in the order Go writes them) ---- *)
Inductive json :=
| JNull | JBool (b : bool) | JNum (text : bytes) | JStr (s : bytes)
| JArr (l : list json) | JObj (l : list (bytes * json)).

Definition k_Name := [78;97;109;101].            Definition k_Program := [80;114;111;103;114;97;109].
Definition k_Kind := [75;105;110;100].           Definition k_Type := [84;121;112;101].
Definition k_Hidden := [72;105;100;100;101;110]. Definition k_Keys := [75;101;121;115].
Definition k_LabelValues := [76;97;98;101;108;86;97;108;117;101;115].
Definition k_Source := [83;111;117;114;99;101].  Definition k_Buckets := [66;117;99;107;101;116;115].
Definition k_Limit := [76;105;109;105;116].      Definition k_Labels := [76;97;98;101;108;115].
Definition k_Value := [86;97;108;117;101].       Definition k_Expiry := [69;120;112;105;114;121].
Definition k_Time := [84;105;109;101].           Definition k_Count := [67;111;117;110;116].
Definition k_Sum := [83;117;109].                Definition k_Min := [77;105;110].
Definition k_Max := [77;97;120].

Definition kind_num (k : kind) : Z :=
  match k with KCounter => 1 | KGauge => 2 | KTimer => 3 | KText => 4 | KHistogram => 5 end.
Definition type_num (t : vtype) : Z :=
  match t with TInt => 0 | TFloat => 1 | TString => 2 | TBuckets => 3 end.

Definition opt_field {A} (present : bool) (k : bytes) (v : A) : list (bytes * A) :=
  if present then [(k, v)] else [].

(* None: encoding/json fails (a non-finite float) *)
Definition json_float (f : fval) : option json := option_map JNum (f_json f).

(* map[string]uint64 keyed by the bound's text: a later equal key overwrites,
   keys are written in sorted order *)
Fixpoint map_set (k : bytes) (v : N) (l : list (bytes * N)) : list (bytes * N) :=
  match l with
  | [] => [(k, v)]
  | (k', v') :: r => if bytes_eqb k k' then (k, v) :: r else (k', v') :: map_set k v r
  end.
Definition buckets_map (bs : list bucket) : list (bytes * N) :=
  sort_by (fun a b => bytes_leb (fst a) (fst b))
          (fold_left (fun acc b => map_set (f_g (bk_max b)) (bk_count b) acc) bs []).

Definition json_datum (v : dval) (t : Z) : option json :=
  match v with
  | VInt z => Some (JObj [(k_Value, JNum (fmt_Z z)); (k_Time, JNum (fmt_Z t))])
  | VFloat f => match json_float f with
                | Some j => Some (JObj [(k_Value, j); (k_Time, JNum (fmt_Z t))])
                | None => None
                end
  | VStr s => Some (JObj [(k_Value, JStr s); (k_Time, JNum (fmt_Z t))])
  | VBuckets bs count sum =>
      match json_float sum with
      | Some j => Some (JObj [(k_Buckets, JObj (map (fun kv => (fst kv, JNum (fmt_N (snd kv)))) (buckets_map bs)));
                              (k_Count, JNum (fmt_N count)); (k_Sum, j); (k_Time, JNum (fmt_Z t))])
      | None => None
      end
  end.

Definition json_lset (l : lset) : option json :=
  match json_datum (l_val l) (l_time l) with
  | Some d => Some (JObj (opt_field (negb (match l_vals l with [] => true | _ => false end)) k_Labels (JArr (map JStr (l_vals l)))
                          ++ [(k_Value, d)]
                          ++ opt_field (negb (Z.eqb (l_expiry l) 0)) k_Expiry (JNum (fmt_Z (l_expiry l)))))
  | None => None
  end.

Fixpoint all_some {A} (l : list (option A)) : option (list A) :=
  match l with
  | [] => Some []
  | Some x :: r => match all_some r with Some r' => Some (x :: r') | None => None end
  | None :: _ => None
  end.

Definition json_range (r : fval * fval) : json :=
  JObj [(k_Min, JStr (f_g (fst r))); (k_Max, JStr (f_g (snd r)))].

Definition json_metric (m : metric) : option json :=
  match all_some (map json_lset (m_lsets m)) with
  | Some ls =>
      Some (JObj ([(k_Name, JStr (m_name m)); (k_Program, JStr (m_prog m));
                   (k_Kind, JNum (fmt_Z (kind_num (m_kind m)))); (k_Type, JNum (fmt_Z (type_num (m_type m))))]
                  ++ opt_field (m_hidden m) k_Hidden (JBool true)
                  ++ opt_field (negb (match m_keys m with [] => true | _ => false end)) k_Keys (JArr (map JStr (m_keys m)))
                  ++ opt_field (negb (match ls with [] => true | _ => false end)) k_LabelValues (JArr ls)
                  ++ opt_field (negb (match m_source m with [] => true | _ => false end)) k_Source (JStr (m_source m))
                  ++ opt_field (negb (match m_ranges m with [] => true | _ => false end)) k_Buckets (JArr (map json_range (m_ranges m)))
                  ++ opt_field (negb (Z.eqb (m_limit m) 0)) k_Limit (JNum (fmt_Z (m_limit m)))))
  | None => None
  end.

(* Store.MarshalJSON: an array of all metrics (map order); None = HTTP 500 *)
Definition json_store (s : list metric) : option (list json) := all_some (map json_metric s).
