(* C20 (structure) - ordered-events IR of the runtime's goroutines
   (internal/runtime/runtime.go CompileAndRun, startVM, UnloadProgram, the
   line loop of New; internal/runtime/vm/vm.go Run), re-extracted from the
   source on every run by harness/xlate/seqir.go, its trace semantics, a
   generic verified checker "every trace of the IR is accepted by a given
   safety automaton", and the automata that state the structural facts the
   models Run/Reload.v (C20) and Run/Pipeline.v (C19) assume.
   Definitions only; proofs in Proofs/SeqIRProofs.v. *)
From Coq Require Import List NArith Bool.
Import ListNotations.

(* event classes the translator recognises *)
Inductive rev :=
| AcqR | RelR | AcqW | RelW          (* r.handleMu.RLock / RUnlock / Lock / Unlock *)
| ReadHandles                        (* r.handles[..] read, range r.handles *)
| InstallHandle                      (* r.handles[name] = handle *)
| DeleteHandle                       (* delete(r.handles, ..) *)
| SendLine                           (* <handle>.lines <- line *)
| CloseLines                         (* close(<handle>.lines) *)
| RecvDone                           (* <-<handle>.done *)
| CallAdd                            (* r.ms.Add(m) *)
| CallStartVM                        (* r.startVM(name, handle) *)
| TakeLine                           (* one iteration of `for line := range lines` (the tailer's channel) *)
| InputClosed                        (* that loop ended: the channel was closed *)
| CloseQuit                          (* close(r.signalQuit) *)
| VmRecv                             (* one iteration of the VM's `for line := range lines` *)
| VmProcess                          (* v.ProcessLogLine(ctx, line) *)
| VmClosed                           (* the VM's loop ended: its channel was closed *)
| WgDone                             (* wg.Done() *)
| CloseDone                          (* close(done) *)
| WgAdd | WgWait | Spawn | RecvInit | MakeChans.

(* statements; a loop's invariant is supplied separately, per automaton *)
Inductive qstmt :=
| QEv (c : rev) (site : N)
| QIf (t e : qblock)
| QLoop (body : qblock) (site : N)
| QReturn
| QUnknown (site : N)
with qblock :=
| QNil
| QCons (s : qstmt) (r : qblock).

Fixpoint qblock_of (l : list qstmt) : qblock :=
  match l with [] => QNil | s :: r => QCons s (qblock_of r) end.

Inductive qflow := QFall | QRet.

(* traces: any branch at every `if`, any number of iterations of every loop *)
Inductive qrun_stmt : qstmt -> list rev -> qflow -> Prop :=
| Q_ev c site : qrun_stmt (QEv c site) [c] QFall
| Q_if_t t e tr f : qrun_block t tr f -> qrun_stmt (QIf t e) tr f
| Q_if_e t e tr f : qrun_block e tr f -> qrun_stmt (QIf t e) tr f
| Q_loop_done body site : qrun_stmt (QLoop body site) [] QFall
| Q_loop_iter body site t1 t2 f :
    qrun_block body t1 QFall -> qrun_stmt (QLoop body site) t2 f ->
    qrun_stmt (QLoop body site) (t1 ++ t2) f
| Q_loop_ret body site t1 :
    qrun_block body t1 QRet -> qrun_stmt (QLoop body site) t1 QRet
| Q_return : qrun_stmt QReturn [] QRet
| Q_unknown site tr f : qrun_stmt (QUnknown site) tr f
with qrun_block : qblock -> list rev -> qflow -> Prop :=
| Q_nil : qrun_block QNil [] QFall
| Q_cons_fall s b t1 t2 f :
    qrun_stmt s t1 QFall -> qrun_block b t2 f -> qrun_block (QCons s b) (t1 ++ t2) f
| Q_cons_ret s b t1 : qrun_stmt s t1 QRet -> qrun_block (QCons s b) t1 QRet.

(* ---------- safety automata and the checker ---------- *)
Section Engine.
Variable Q : Type.
Variable qeqb : Q -> Q -> bool.
Variable delta : Q -> rev -> option Q.     (* None: the event is not allowed in that state *)

Fixpoint arun (q : Q) (tr : list rev) : option Q :=
  match tr with
  | [] => Some q
  | c :: r => match delta q c with Some q' => arun q' r | None => None end
  end.

Definition qmem (q : Q) (X : list Q) : bool := existsb (qeqb q) X.
Definition qsubset (A B : list Q) : bool := forallb (fun q => qmem q B) A.

Fixpoint stepset (X : list Q) (c : rev) : option (list Q) :=
  match X with
  | [] => Some []
  | q :: r => match delta q c, stepset r c with
              | Some q', Some r' => Some (q' :: r')
              | _, _ => None
              end
  end.

Definition ounion (x y : option (list Q)) : option (list Q) :=
  match x, y with
  | None, z | z, None => z
  | Some a, Some b => Some (a ++ b)
  end.

Variable invs : N -> list Q.               (* loop site -> states possible at the loop head *)

Fixpoint qcheck_stmt (s : qstmt) (X : list Q) {struct s} : list N * option (list Q) :=
  match s with
  | QEv c site =>
      match stepset X c with
      | Some X' => ([], Some X')
      | None => ([site], Some [])
      end
  | QIf t e =>
      let x := qcheck_block t X in
      let y := qcheck_block e X in
      (fst x ++ fst y, ounion (snd x) (snd y))
  | QLoop body site =>
      let H := invs site in
      let x := qcheck_block body H in
      ((if qsubset X H then [] else [site]) ++
       (match snd x with Some H' => if qsubset H' H then [] else [site] | None => [] end) ++
       fst x, Some H)
  | QReturn => ([], None)
  | QUnknown site => ([site], Some [])
  end
with qcheck_block (b : qblock) (X : list Q) {struct b} : list N * option (list Q) :=
  match b with
  | QNil => ([], Some X)
  | QCons s r =>
      let x := qcheck_stmt s X in
      match snd x with
      | None => x
      | Some X1 => let y := qcheck_block r X1 in (fst x ++ fst y, snd y)
      end
  end.

(* sites at which some trace of b, started in q0, is refused by the automaton *)
Definition qviolations (b : qblock) (q0 : Q) : list N := fst (qcheck_block b [q0]).
End Engine.

(* ---------- the automata ---------- *)
Inductive lk := L0 | LR | LW.
Definition lk_eqb (a b : lk) : bool :=
  match a, b with L0, L0 | LR, LR | LW, LW => true | _, _ => false end.

Definition lock_step (l : lk) (c : rev) : option lk :=
  match c, l with
  | AcqR, L0 => Some LR
  | RelR, LR => Some L0
  | AcqW, L0 => Some LW
  | RelW, LW => Some L0
  | (AcqR | RelR | AcqW | RelW), _ => None
  | (ReadHandles | SendLine), (LR | LW) => Some l
  | (ReadHandles | SendLine), L0 => None
  | (InstallHandle | DeleteHandle | CloseLines | RecvDone | CallAdd | CallStartVM), LW => Some l
  | (InstallHandle | DeleteHandle | CloseLines | RecvDone | CallAdd | CallStartVM), _ => None
  | _, _ => Some l
  end.

(* (c) UnloadProgram, and startVM entered with the write lock held: handle
   table and handle channels only under the lock of the right kind *)
Definition d_lock (q : lk) (c : rev) : option lk := lock_step q c.

(* (a)+(d) the line loop of New: a line is taken with no lock held, every
   hand-over of it happens under the read lock, and the VM channels are closed
   (under the write lock) only after the input channel has been closed *)
Record lq := mkLQ { lq_lock : lk; lq_ended : bool }.
Definition lq_eqb (a b : lq) : bool := lk_eqb (lq_lock a) (lq_lock b) && Bool.eqb (lq_ended a) (lq_ended b).
Definition d_loop (q : lq) (c : rev) : option lq :=
  match lock_step (lq_lock q) c with
  | None => None
  | Some l' =>
      match c with
      | TakeLine => if lq_ended q then None else match lq_lock q with L0 => Some q | _ => None end
      | InputClosed => match lq_lock q with L0 => Some (mkLQ l' true) | _ => None end
      | CloseLines | DeleteHandle => if lq_ended q then Some (mkLQ l' (lq_ended q)) else None
      | SendLine => if lq_ended q then None else Some (mkLQ l' (lq_ended q))
      | _ => Some (mkLQ l' (lq_ended q))
      end
  end.

(* (b) CompileAndRun: inside one write-locked section, close(old.lines) must be
   followed by <-old.done before ms.Add or startVM; no Add/startVM before a
   close; the section is not left between the close and the wait *)
Inductive od := O0 (* nothing yet *) | O1 (* closed, not waited *) | O3 (* closed and waited *) | O2 (* added / started *).
Definition od_eqb (a b : od) : bool :=
  match a, b with O0, O0 | O1, O1 | O2, O2 | O3, O3 => true | _, _ => false end.
Record rq := mkRQ { rq_lock : lk; rq_ord : od }.
Definition rq_eqb (a b : rq) : bool := lk_eqb (rq_lock a) (rq_lock b) && od_eqb (rq_ord a) (rq_ord b).
Definition d_reload (q : rq) (c : rev) : option rq :=
  match lock_step (rq_lock q) c with
  | None => None
  | Some l' =>
      match c, rq_ord q with
      | CloseLines, O0 => Some (mkRQ l' O1)
      | CloseLines, _ => None
      | RecvDone, O1 => Some (mkRQ l' O3)
      | RecvDone, _ => None                    (* nothing was closed: would wait for ever *)
      | (CallAdd | CallStartVM), O1 => None
      | (CallAdd | CallStartVM), O0 => Some (mkRQ l' O2)
      | (CallAdd | CallStartVM), o => Some (mkRQ l' o)
      | RelW, O1 => None
      | RelW, _ => Some (mkRQ l' O0)
      | _, o => Some (mkRQ l' o)
      end
  end.

(* (e) the VM goroutine (startVM's go func with VM.Run inlined): lines are
   received and processed strictly alternately; wg.Done and close(done) only
   after the loop has ended; nothing is processed afterwards *)
Inductive vq := V0 (* at its receive *) | V1 (* has a line *) | V2 (* loop ended *) | V3 (* wg.Done *) | V4 (* done closed *).
Definition vq_eqb (a b : vq) : bool :=
  match a, b with V0, V0 | V1, V1 | V2, V2 | V3, V3 | V4, V4 => true | _, _ => false end.
Definition d_vm (q : vq) (c : rev) : option vq :=
  match c, q with
  | VmRecv, V0 => Some V1
  | VmProcess, V1 => Some V0
  | VmClosed, V0 => Some V2
  | WgDone, V2 => Some V3
  | CloseDone, V3 => Some V4
  | (VmRecv | VmProcess | VmClosed | WgDone | CloseDone), _ => None
  | _, _ => Some q
  end.

(* ---------- two goroutines: the reloader and the previous VM ---------- *)
(* a joint schedule: (true, c) is an event of CompileAndRun, (false, c) one of
   the goroutine of the VM being replaced *)
Definition proj (b : bool) (s : list (bool * rev)) : list rev :=
  map snd (filter (fun x => Bool.eqb (fst x) b) s).

(* `done` is only ever closed, never sent on: a receive returns only after the close *)
Definition done_rule (s : list (bool * rev)) : Prop :=
  forall s1 s2, s = s1 ++ (true, RecvDone) :: s2 -> In (false, CloseDone) s1.

(* ---------- shapes found in the repository (for the Props file) ---------- *)
Definition compile_and_run_repo : qblock :=
  qblock_of [QEv AcqR 1; QEv ReadHandles 2; QEv RelR 3; QIf (qblock_of [QReturn]) QNil;
             QIf (qblock_of [QReturn]) QNil; QIf (qblock_of [QReturn]) QNil;
             QEv AcqW 4; QEv ReadHandles 5;
             QIf (qblock_of [QEv CloseLines 6; QEv RecvDone 7]) QNil;
             QLoop (qblock_of [QIf (qblock_of [QEv CallAdd 8;
                                   QIf (qblock_of [QIf (qblock_of [QEv CallStartVM 9]) QNil; QEv RelW 10; QReturn]) QNil]) QNil]) 11;
             QIf (qblock_of [QEv RelW 10; QReturn]) QNil;
             QEv CallStartVM 12; QEv RelW 10; QReturn].
(* before e1b9b7cf: the channel is closed, nobody waits *)
Definition compile_and_run_old : qblock :=
  qblock_of [QEv AcqW 4; QEv ReadHandles 5; QIf (qblock_of [QEv CloseLines 6]) QNil;
             QLoop (qblock_of [QEv CallAdd 8]) 11; QEv CallStartVM 12; QEv RelW 10; QReturn].
Definition vm_goroutine_repo : qblock :=
  qblock_of [QLoop (qblock_of [QEv VmRecv 1; QEv VmProcess 2]) 3; QEv VmClosed 4; QEv WgDone 5; QEv CloseDone 6].
