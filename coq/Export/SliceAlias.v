(* C11 - slice headers and backing arrays of the store's per-name metric lists.
   `Store.Metrics[name]` is a Go slice: a header (array pointer, length) over
   a backing array whose length is the capacity.  Copying the header copies no
   element.  `Store.Add` appends the new metric (in place when there is spare
   capacity, otherwise into a fresh array of the grown capacity) and, on a
   reload, removes the metric it replaces by `append(l[0:i], l[i+1:]...)`,
   which ALWAYS shifts the tail down inside the same array.  A walker that kept
   a header therefore reads cells that a later Add rewrites; a walker that
   copied the elements (a fresh array) does not.  Definitions only; proofs are
   in Proofs/SliceAliasProofs.v.  Tied to the code by the CWalk cases of
   Corr/Run_C11.v (visited sequence, final length and every cell of the backing
   array up to its capacity). *)
From Coq Require Import List NArith Bool Arith.
Import ListNotations.

Definition met := (N * N)%type.             (* program, generation of its metric; (0,0) = nil pointer *)
Definition nilm : met := (0%N, 0%N).
Definition arr := list met.                  (* the cells of a backing array; its length is the capacity *)
Record hdr := mkhdr { h_arr : nat; h_len : nat }.          (* array id, length (offset always 0 here) *)
Record sstore := mkss { heap : list arr; cur : hdr }.      (* all arrays ever allocated; s.Metrics[name] *)

Definition arr_of (s : sstore) (a : nat) : arr := nth a (heap s) [].
Definition content (s : sstore) : list met := firstn (h_len (cur s)) (arr_of s (h_arr (cur s))).
Definition cap_of (s : sstore) : nat := length (arr_of s (h_arr (cur s))).
Definition cells (s : sstore) : arr := arr_of s (h_arr (cur s)).

(* a name nobody declared yet: the nil slice *)
Definition sempty : sstore := mkss [[]] (mkhdr 0 0).

Fixpoint set_nth {A : Type} (n : nat) (x : A) (l : list A) : list A :=
  match l, n with
  | [], _ => []
  | _ :: r, O => x :: r
  | a :: r, S k => a :: set_nth k x r
  end.

(* runtime.growslice for pointer-sized elements and the capacities met here (< 256) *)
Definition grow (c : nat) : nat := match c with O => 1 | _ => 2 * c end.

(* l = append(l, x) *)
Definition append1 (s : sstore) (x : met) : sstore :=
  let h := cur s in
  let a := arr_of s (h_arr h) in
  if h_len h <? length a
  then mkss (set_nth (h_arr h) (set_nth (h_len h) x a) (heap s)) (mkhdr (h_arr h) (S (h_len h)))
  else mkss (heap s ++ [firstn (h_len h) a ++ x :: repeat nilm (grow (length a) - S (h_len h))])
            (mkhdr (length (heap s)) (S (h_len h))).

(* the cells after memmove(a[i:], a[i+1:n]) *)
Definition shift_out (i n : nat) (a : arr) : arr :=
  firstn i a ++ firstn (n - S i) (skipn (S i) a) ++ skipn (n - 1) a.

(* l = append(l[0:i], l[i+1:]...): never reallocates *)
Definition remove_at (i : nat) (s : sstore) : sstore :=
  let h := cur s in
  mkss (set_nth (h_arr h) (shift_out i (h_len h) (arr_of s (h_arr h))) (heap s))
       (mkhdr (h_arr h) (h_len h - 1)).

(* Store.Add's search: the index of the last metric of the same program
   (name, type, source and keys are the same throughout) *)
Fixpoint find_last (p : N) (l : list met) (i : nat) (acc : option nat) : option nat :=
  match l with
  | [] => acc
  | m :: r => find_last p r (S i) (if N.eqb (fst m) p then Some i else acc)
  end.

Definition add (m : met) (s : sstore) : sstore :=
  let d := find_last (fst m) (content s) 0 None in
  let s1 := append1 s m in
  match d with Some i => remove_at i s1 | None => s1 end.

Definition adds (ms : list met) (s : sstore) : sstore := fold_left (fun s m => add m s) ms s.

(* ---------- walkers ---------- *)
(* a schedule: an Add takes effect (as one step - every reader that respects
   searchMu sees it so, C11_isolation; a reader that does not may see even
   less), or the walker reads its next element *)
Inductive wev := WAdd (m : met) | WVisit.

(* the walker owns a header `snap` and reads the array it points to *)
Fixpoint walk (snap : hdr) (pos : nat) (s : sstore) (sch : list wev) : list met * sstore :=
  match sch with
  | [] => ([], s)
  | WAdd m :: r => walk snap pos (add m s) r
  | WVisit :: r =>
      if pos <? h_len snap
      then let vs := walk snap (S pos) s r in
           (nth pos (arr_of s (h_arr snap)) nilm :: fst vs, snd vs)
      else walk snap pos s r
  end.

(* the seeded Store.Range: the header is copied, the lock released *)
Definition range_hdr (s : sstore) (sch : list wev) : list met * sstore := walk (cur s) 0 s sch.

(* the elements are copied into a fresh array of the walker's own *)
Definition range_copy (s : sstore) (sch : list wev) : list met * sstore :=
  walk (mkhdr (length (heap s)) (h_len (cur s))) 0 (mkss (heap s ++ [content s]) (cur s)) sch.

(* Store.Range as it is: searchMu is read-locked for the whole walk, so every
   Add attempted meanwhile takes effect after the last visit
   (C11_read_lock_excludes_writers) *)
Definition range_locked (s : sstore) (attempted : list met) : list met * sstore :=
  range_hdr s (repeat WVisit (h_len (cur s)) ++ map WAdd attempted).

Definition visits (sch : list wev) : nat :=
  length (filter (fun e => match e with WVisit => true | _ => false end) sch).

(* the contents the store holds at the moments of a schedule *)
Fixpoint held (s : sstore) (sch : list wev) : list (list met) :=
  content s :: match sch with
               | [] => []
               | WAdd m :: r => held (add m s) r
               | WVisit :: r => held s r
               end.

Definition wf (s : sstore) : Prop :=
  h_arr (cur s) < length (heap s) /\ h_len (cur s) <= length (arr_of s (h_arr (cur s))).

Definition progs (l : list met) : list N := map fst l.

(* the witness: three programs export one name (capacity 4, length 3); the
   walker has visited the first metric when program 1 is reloaded *)
Definition wit_store : sstore := adds [(1, 1); (2, 1); (3, 1)]%N sempty.
Definition wit_sched : list wev := [WVisit; WAdd (1, 2)%N; WVisit; WVisit].
