(* C11 - lock-discipline IR of the functions that touch shared metric state,
   its trace semantics, the RWMutex machine over a set of threads, and the
   must-hold lockset checker.  The IR is regenerated from /repo's source on
   every run by harness/xlate/lockir.go.  Definitions only; proofs are in
   Proofs/LockIRProofs.v. *)
From Coq Require Import List NArith Bool Arith.
Import ListNotations.
Local Open Scope N_scope.

Inductive mode := MR | MW.
Inductive kind := KRead | KWrite | KAtomic.

(* how a field is protected *)
Inductive guard :=
| GLock (l : N)     (* lock l of the same object: write mode to write, read or write mode to read *)
| GAtomic           (* only sync/atomic accesses *)
| GImm              (* never written after the object is published *)
| GNone.            (* not in the table *)

(* objects are symbols (receiver, parameters, loop variables); l a lock name,
   f a field name, site an index into the harness's table of source positions *)
Inductive stmt :=
| LAcq (o l : N) (m : mode)
| LRel (o l : N) (m : mode)
| LBind (x : N)                       (* x now names some other object *)
| LAcc (o f : N) (k : kind) (site : N)
| LIf (t e : block)
| LLoop (body : block) (site : N)
| LContinue
| LBreak
| LReturn
| LUnknown (site : N)
with block :=
| LNil
| LCons (s : stmt) (r : block).

Fixpoint lblock_of (l : list stmt) : block :=
  match l with [] => LNil | s :: r => LCons s (lblock_of r) end.

(* ---------- the specification table (part of the statement) ---------- *)
(* lock names *)
Definition l_mu : N := 1.        (* Metric's embedded RWMutex *)
Definition l_search : N := 2.    (* Store.searchMu *)
Definition l_insert : N := 3.    (* Store.insertMu *)
Definition l_dmu : N := 4.       (* the datum's own mutex (Buckets' embedded RWMutex, String.mu) *)
Definition l_emit : N := 5.      (* pseudo-lock of an exporter on a metric: "no emitter goroutine I
                                    started is running unsupervised" - taken with the metric lock,
                                    given up at the spawn and while an item received from the emitter
                                    is being handled, retaken on arriving at the receive loop and when
                                    the loop is back at its receive; leaving the loop any other way
                                    than by the channel's close does not retake it *)
Definition l_handle : N := 6.    (* Runtime.handleMu *)
(* field names *)
Definition f_LabelValues : N := 1.     (* Metric.LabelValues: slice header and elements *)
Definition f_labelValuesMap : N := 2.  (* Metric.labelValuesMap *)
Definition f_Source : N := 3.          (* Metric.Source: set by SetSource before the metric is added to a store *)
Definition f_Expiry : N := 4.          (* LabelValue.Expiry, attributed to the owning metric *)
Definition f_MetricImm : N := 5.       (* Metric.Name Program Kind Type Hidden Keys Buckets Limit *)
Definition f_LVImm : N := 6.           (* LabelValue.Labels, LabelValue.Value (the pointer) *)
Definition f_Metrics : N := 7.         (* Store.Metrics: the map and the slices in it *)
Definition f_IntValue : N := 8.        (* datum.Int.Value *)
Definition f_FloatBits : N := 9.       (* datum.Float.Valuebits *)
Definition f_Time : N := 10.           (* datum.BaseDatum.Time *)
Definition f_BucketsData : N := 11.    (* datum.Buckets.Buckets Count Sum *)
Definition f_StringValue : N := 12.    (* datum.String.Value *)
Definition f_EmitterQuiet : N := 13.   (* pseudo-field read at every release of the metric lock by an
                                          exporter that spawns an emitter: the emitter must have finished *)
Definition f_handles : N := 14.        (* Runtime.handles *)
Definition f_hlines : N := 15.         (* vmHandle.lines of the handles of a Runtime: send = read use,
                                          close / replace = write *)

Definition mtail_spec (f : N) : guard :=
  match f with
  | 1 | 2 | 4 => GLock l_mu
  | 3 | 5 | 6 => GImm
  | 7 => GLock l_search
  | 8 | 9 | 10 => GAtomic
  | 11 | 12 => GLock l_dmu
  | 13 => GLock l_emit
  | 14 | 15 => GLock l_handle
  | _ => GNone
  end.

(* ---------- thread-local trace semantics ---------- *)
Inductive event :=
| EvAcq (x l : N) (m : mode)
| EvRel (x l : N) (m : mode)
| EvAcc (x f : N) (k : kind)
| EvReset.   (* marker, no effect on the machine: the thread selects another
                object (LBind) or passes a loop boundary; the check-then-act
                monitor below forgets what it knew *)

Definition env := N -> N.
Definition upd (r : env) (x v : N) : env := fun y => if N.eqb y x then v else r y.

Inductive lflow := LFall | LCont | LBrk | LRet.

Inductive run_stmt : stmt -> env -> list event -> env -> lflow -> Prop :=
| R_acq o l m r : run_stmt (LAcq o l m) r [EvAcq (r o) l m] r LFall
| R_rel o l m r : run_stmt (LRel o l m) r [EvRel (r o) l m] r LFall
| R_bind x v r : run_stmt (LBind x) r [EvReset] (upd r x v) LFall
| R_acc o f k site r : run_stmt (LAcc o f k site) r [EvAcc (r o) f k] r LFall
| R_if_t t e r tr r' fl : run_block t r tr r' fl -> run_stmt (LIf t e) r tr r' fl
| R_if_e t e r tr r' fl : run_block e r tr r' fl -> run_stmt (LIf t e) r tr r' fl
| R_loop_done body site r : run_stmt (LLoop body site) r [EvReset] r LFall
| R_loop_iter body site r tr1 r1 f1 tr2 r2 fl :
    run_block body r tr1 r1 f1 -> f1 = LFall \/ f1 = LCont ->
    run_stmt (LLoop body site) r1 tr2 r2 fl ->
    run_stmt (LLoop body site) r (EvReset :: tr1 ++ tr2) r2 fl
| R_loop_break body site r tr1 r1 :
    run_block body r tr1 r1 LBrk -> run_stmt (LLoop body site) r (EvReset :: tr1 ++ [EvReset]) r1 LFall
| R_loop_ret body site r tr1 r1 :
    run_block body r tr1 r1 LRet -> run_stmt (LLoop body site) r (EvReset :: tr1) r1 LRet
| R_continue r : run_stmt LContinue r [] r LCont
| R_break r : run_stmt LBreak r [] r LBrk
| R_return r : run_stmt LReturn r [] r LRet
| R_unknown site r tr r' fl : run_stmt (LUnknown site) r tr r' fl
with run_block : block -> env -> list event -> env -> lflow -> Prop :=
| R_nil r : run_block LNil r [] r LFall
| R_cons_fall s b r tr1 r1 tr2 r2 fl :
    run_stmt s r tr1 r1 LFall -> run_block b r1 tr2 r2 fl ->
    run_block (LCons s b) r (tr1 ++ tr2) r2 fl
| R_cons_stop s b r tr1 r1 fl :
    run_stmt s r tr1 r1 fl -> fl <> LFall -> run_block (LCons s b) r tr1 r1 fl.

(* ---------- the machine: threads over RWMutexes ---------- *)
Definition hold := (N * N * mode)%type.       (* object, lock, mode *)

Definition mode_eqb (a b : mode) : bool :=
  match a, b with MR, MR | MW, MW => true | _, _ => false end.
Definition hold_eqb (a b : hold) : bool :=
  let '(x, l, m) := a in let '(y, k, n) := b in N.eqb x y && N.eqb l k && mode_eqb m n.

Fixpoint remove_one (h : hold) (H : list hold) : list hold :=
  match H with
  | [] => []
  | a :: r => if hold_eqb a h then r else a :: remove_one h r
  end.

Definition apply1 (H : list hold) (ev : event) : list hold :=
  match ev with
  | EvAcq x l m => (x, l, m) :: H
  | EvRel x l m => remove_one (x, l, m) H
  | EvAcc _ _ _ => H
  | EvReset => H
  end.

Definition apply (H : list hold) (tr : list event) : list hold := fold_left apply1 tr H.

Record thread := mkthread { th_H : list hold; th_rest : list event }.
Definition gstate := nat -> thread.

(* a writer excludes everyone (also itself: no re-entrance), readers exclude writers *)
Definition can_fire (g : gstate) (ev : event) : Prop :=
  match ev with
  | EvAcq x l MW => forall j m, ~ In (x, l, m) (th_H (g j))
  | EvAcq x l MR => forall j, ~ In (x, l, MW) (th_H (g j))
  | _ => True
  end.

Definition gupd (g : gstate) (i : nat) (t : thread) : gstate :=
  fun j => if Nat.eqb j i then t else g j.

Inductive gstep : gstate -> gstate -> Prop :=
| G_step g i ev rest : th_rest (g i) = ev :: rest -> can_fire g ev ->
    gstep g (gupd g i (mkthread (apply1 (th_H (g i)) ev) rest)).

Inductive reachable (g0 : gstate) : gstate -> Prop :=
| Reach_refl : reachable g0 g0
| Reach_step g g' : reachable g0 g -> gstep g g' -> reachable g0 g'.

(* two accesses to the same (object, field) conflict unless both read or both are atomic *)
Definition conflict (a b : kind) : bool :=
  match a, b with
  | KRead, KRead => false
  | KAtomic, KAtomic => false
  | _, _ => true
  end.

(* a data race: two different threads are both about to perform conflicting
   accesses to the same (object, field) *)
Definition race (g : gstate) : Prop :=
  exists i j x f k1 k2 r1 r2, i <> j /\
    th_rest (g i) = EvAcc x f k1 :: r1 /\ th_rest (g j) = EvAcc x f k2 :: r2 /\
    conflict k1 k2 = true.

(* the dynamic discipline of one trace *)
Definition ok_access (g : guard) (k : kind) (x : N) (H : list hold) : Prop :=
  match g, k with
  | GLock l, KWrite => In (x, l, MW) H
  | GLock l, KRead => In (x, l, MW) H \/ In (x, l, MR) H
  | GAtomic, KAtomic => True
  | GImm, KRead => True
  | _, _ => False
  end.

Fixpoint guarded (spec : N -> guard) (H : list hold) (tr : list event) : Prop :=
  match tr with
  | [] => True
  | ev :: r =>
      match ev with EvAcc x f k => ok_access (spec f) k x H | _ => True end /\
      guarded spec (apply1 H ev) r
  end.

(* ---------- the checker: must-hold locksets ---------- *)
Definition lockset := list hold.   (* here the first component is a symbol *)

Definition memh (h : hold) (L : lockset) : bool := existsb (hold_eqb h) L.
Definition subseth (A B : lockset) : bool := forallb (fun h => memh h B) A.
Definition inter (A B : lockset) : lockset := filter (fun h => memh h B) A.
Definition meetopt (x y : option lockset) : option lockset :=
  match x, y with
  | None, z | z, None => z
  | Some a, Some b => Some (inter a b)
  end.

Definition sok (g : guard) (k : kind) (o : N) (L : lockset) : bool :=
  match g, k with
  | GLock l, KWrite => memh (o, l, MW) L
  | GLock l, KRead => memh (o, l, MW) L || memh (o, l, MR) L
  | GAtomic, KAtomic => true
  | GImm, KRead => true
  | _, _ => false
  end.

Record lres := mklres { lviol : list N; lfall : option lockset; lbrk : option lockset }.

Section LCheck.
Variable spec : N -> guard.

(* inv = Some (Lh, site) inside a loop whose head lockset is Lh *)
Fixpoint lcheck_stmt (inv : option (lockset * N)) (s : stmt) (L : lockset) {struct s} : lres :=
  match s with
  | LAcq o l m => mklres [] (Some ((o, l, m) :: L)) None
  | LRel o l m =>
      (* aliasing: drop every entry on a lock of that name *)
      mklres [] (Some (filter (fun h => negb (N.eqb (snd (fst h)) l)) L)) None
  | LBind x => mklres [] (Some (filter (fun h => negb (N.eqb (fst (fst h)) x)) L)) None
  | LAcc o f k site => mklres (if sok (spec f) k o L then [] else [site]) (Some L) None
  | LIf t e =>
      let x := lcheck_block inv t L in
      let y := lcheck_block inv e L in
      mklres (lviol x ++ lviol y) (meetopt (lfall x) (lfall y)) (meetopt (lbrk x) (lbrk y))
  | LLoop body site =>
      let x := lcheck_block (Some (L, site)) body L in
      let back := match lfall x with Some L' => subseth L L' | None => true end in
      mklres (lviol x ++ (if back then [] else [site]))
             (meetopt (Some L) (lbrk x)) None
  | LContinue =>
      match inv with
      | Some (Lh, site) => mklres (if subseth Lh L then [] else [site]) None None
      | None => mklres [0] None None
      end
  | LBreak =>
      match inv with
      | Some _ => mklres [] None (Some L)
      | None => mklres [0] None None
      end
  | LReturn => mklres [] None None
  | LUnknown site => mklres [site] (Some []) None
  end
with lcheck_block (inv : option (lockset * N)) (b : block) (L : lockset) {struct b} : lres :=
  match b with
  | LNil => mklres [] (Some L) None
  | LCons s r =>
      let x := lcheck_stmt inv s L in
      match lfall x with
      | None => x
      | Some L1 =>
          let y := lcheck_block inv r L1 in
          mklres (lviol x ++ lviol y) (lfall y) (meetopt (lbrk x) (lbrk y))
      end
  end.

(* sites at which the function, called with no lock held, is not disciplined *)
Definition violations (b : block) : list N := lviol (lcheck_block None b []).
Definition disciplined (T : list block) : bool :=
  forallb (fun b => match violations b with [] => true | _ => false end) T.

End LCheck.

(* ---------- shapes for the refutation ---------- *)
(* Store.Gc's closure reads m.LabelValues with no metric lock (store.go) *)
Definition gc_shape : block :=
  lblock_of [LAcc 1 f_MetricImm KRead 1; LAcc 1 f_LabelValues KRead 2].
(* Metric.GetDatum appends under the write lock *)
Definition getdatum_shape : block :=
  lblock_of [LAcq 0 l_mu MW; LAcc 0 f_labelValuesMap KRead 3;
             LAcc 0 f_LabelValues KWrite 4; LAcc 0 f_labelValuesMap KWrite 5; LRel 0 l_mu MW].

(* ====================================================================== *)
(* Check-then-act atomicity ("no write from stale knowledge").
   Lock discipline alone does not give "no lost update": a function may read
   a guarded field in one critical section, release the lock, and later write
   the field in another critical section relying on what it read (broken
   double-checked locking).  The monitor below watches one thread's trace:
   every (object, field) the thread has read or written becomes STALE when the
   thread releases the lock that guards it, and fresh again when the thread
   reads it anew; writing a stale (object, field) is the violation.  EvReset
   (another object is selected, or a loop boundary) makes the monitor forget:
   staleness is tracked inside loop-free stretches of work on one selection
   of objects. *)
Definition opair := (N * N)%type.                 (* object (or symbol), field *)
Definition opair_eqb (a b : opair) : bool := N.eqb (fst a) (fst b) && N.eqb (snd a) (snd b).
Record mst := mkmst { mR : list opair; mS : list opair }.   (* touched; stale *)
Definition mst0 : mst := mkmst [] [].

Definition guarded_by (spec : N -> guard) (l : N) (p : opair) : bool :=
  match spec (snd p) with GLock l' => N.eqb l' l | _ => false end.

Definition mon1 (spec : N -> guard) (D : mst) (ev : event) : mst * bool :=
  match ev with
  | EvAcc x f KRead =>
      (mkmst ((x, f) :: mR D) (filter (fun p => negb (opair_eqb p (x, f))) (mS D)), true)
  | EvAcc x f KWrite =>
      (mkmst ((x, f) :: mR D) (mS D), negb (existsb (opair_eqb (x, f)) (mS D)))
  | EvAcc _ _ KAtomic => (D, true)
  | EvRel x l _ =>
      (mkmst (mR D) (filter (fun p => N.eqb (fst p) x && guarded_by spec l p) (mR D) ++ mS D), true)
  | EvAcq _ _ _ => (D, true)
  | EvReset => (mst0, true)
  end.

Fixpoint atomic_from (spec : N -> guard) (D : mst) (tr : list event) : Prop :=
  match tr with
  | [] => True
  | ev :: r => snd (mon1 spec D ev) = true /\ atomic_from spec (fst (mon1 spec D ev)) r
  end.
Definition mon_apply (spec : N -> guard) (D : mst) (tr : list event) : mst :=
  fold_left (fun d ev => fst (mon1 spec d ev)) tr D.

(* the trace never writes from stale knowledge *)
Definition atomic_trace (spec : N -> guard) (tr : list event) : Prop := atomic_from spec mst0 tr.

(* static counterpart on symbols: a release stales the touched fields of that
   lock name on every symbol, a write is flagged when the field is stale on
   any symbol (aliasing) *)
Section SCheck.
Variable spec : N -> guard.

Definition munion (x y : option mst) : option mst :=
  match x, y with
  | None, z | z, None => z
  | Some a, Some b => Some (mkmst (mR a ++ mR b) (mS a ++ mS b))
  end.

Fixpoint scheck_stmt (s : stmt) (X : mst) {struct s} : list N * option mst :=
  match s with
  | LAcq _ _ _ => ([], Some X)
  | LRel o l _ => ([], Some (mkmst (mR X) (filter (guarded_by spec l) (mR X) ++ mS X)))
  | LBind _ => ([], Some mst0)
  | LAcc o f KRead _ =>
      ([], Some (mkmst ((o, f) :: mR X) (filter (fun p => negb (opair_eqb p (o, f))) (mS X))))
  | LAcc o f KWrite site =>
      (if existsb (fun p => N.eqb (snd p) f) (mS X) then [site] else [],
       Some (mkmst ((o, f) :: mR X) (mS X)))
  | LAcc _ _ KAtomic _ => ([], Some X)
  | LIf t e =>
      let x := scheck_block t X in
      let y := scheck_block e X in
      (fst x ++ fst y, munion (snd x) (snd y))
  | LLoop body _ => (fst (scheck_block body mst0), Some mst0)
  | LContinue | LBreak | LReturn => ([], None)
  | LUnknown site => ([site], Some mst0)
  end
with scheck_block (b : block) (X : mst) {struct b} : list N * option mst :=
  match b with
  | LNil => ([], Some X)
  | LCons s r =>
      let x := scheck_stmt s X in
      match snd x with
      | None => x
      | Some X1 => let y := scheck_block r X1 in (fst x ++ fst y, snd y)
      end
  end.

(* write sites that may act on stale knowledge *)
Definition stale_violations (b : block) : list N := fst (scheck_block b mst0).
Definition atomic_ok (T : list block) : bool :=
  forallb (fun b => match stale_violations b with [] => true | _ => false end) T.
End SCheck.

(* the seeded shape: lookup under the read lock, creation under the write lock
   without looking again *)
Definition getdatum_split_shape : block :=
  lblock_of [LAcq 0 l_mu MR; LAcc 0 f_labelValuesMap KRead 3; LRel 0 l_mu MR;
             LIf LNil
                 (lblock_of [LAcq 0 l_mu MW; LAcc 0 f_LabelValues KRead 6; LAcc 0 f_LabelValues KWrite 4;
                             LAcc 0 f_labelValuesMap KWrite 5; LRel 0 l_mu MW])].
(* correct double-checked locking: looks again under the write lock *)
Definition getdatum_recheck_shape : block :=
  lblock_of [LAcq 0 l_mu MR; LAcc 0 f_labelValuesMap KRead 3; LRel 0 l_mu MR;
             LIf LNil
                 (lblock_of [LAcq 0 l_mu MW; LAcc 0 f_labelValuesMap KRead 7;
                             LIf LNil (lblock_of [LAcc 0 f_LabelValues KRead 6; LAcc 0 f_LabelValues KWrite 4;
                                                  LAcc 0 f_labelValuesMap KWrite 5]);
                             LRel 0 l_mu MW])].

(* ---------- round 4: emitter supervision and the vm input channels ---------- *)
(* an exporter closure on metric 2: lock (+ supervision), spawn (emitter reads,
   supervision given up), arrive at the receive loop, per item: give it up,
   emitter reads, handle the item, back at the receive; on a write error the
   repaired code drains (a second receive loop run to the close) and leaves *)
Definition emitter_item : list stmt := [LRel 2 l_emit MR; LAcc 2 f_LabelValues KRead 1].
Definition exporter_drained_shape : block :=
  lblock_of [LAcq 2 l_mu MR; LAcq 2 l_emit MR; LAcc 2 f_LabelValues KRead 1; LRel 2 l_emit MR;
             LAcq 2 l_emit MR;
             LLoop (lblock_of ([LIf (lblock_of [LBreak]) LNil] ++ emitter_item ++
                      [LIf LNil (lblock_of [LAcq 2 l_emit MR;
                                            LLoop (lblock_of ([LIf (lblock_of [LBreak]) LNil] ++ emitter_item ++ [LAcq 2 l_emit MR])) 3;
                                            LBreak]);
                       LAcq 2 l_emit MR])) 4;
             LAcc 2 f_EmitterQuiet KRead 5; LRel 2 l_mu MR; LRel 2 l_emit MR].
(* the seeded push writer: leaves the loop on a write error without draining *)
Definition exporter_undrained_shape : block :=
  lblock_of [LAcq 2 l_mu MR; LAcq 2 l_emit MR; LAcc 2 f_LabelValues KRead 1; LRel 2 l_emit MR;
             LAcq 2 l_emit MR;
             LLoop (lblock_of ([LIf (lblock_of [LBreak]) LNil] ++ emitter_item ++
                      [LIf LNil (lblock_of [LBreak]); LAcq 2 l_emit MR])) 4;
             LAcc 2 f_EmitterQuiet KRead 5; LRel 2 l_mu MR; LRel 2 l_emit MR].
(* the line loop: hand-over under the read lock / on a snapshot after the unlock *)
Definition lineloop_shape : block :=
  lblock_of [LLoop (lblock_of [LAcq 1 l_handle MR; LAcc 1 f_handles KRead 1;
                               LLoop (lblock_of [LAcc 1 f_handles KRead 2; LAcc 1 f_hlines KRead 3]) 4;
                               LRel 1 l_handle MR]) 5].
Definition lineloop_snapshot_shape : block :=
  lblock_of [LLoop (lblock_of [LAcq 1 l_handle MR; LAcc 1 f_handles KRead 1;
                               LLoop (lblock_of [LAcc 1 f_handles KRead 2; LAcc 1 f_hlines KRead 3]) 4;
                               LRel 1 l_handle MR;
                               LLoop (lblock_of [LAcc 1 f_hlines KRead 6]) 7]) 5].
