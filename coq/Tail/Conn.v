(* Model of the connection-oriented and datagram log streams
   (socketstream.go, fifostream.go, dgramstream.go, cancel.go).
   Executable definitions only; proofs are in Proofs/ConnProofs.v.

   A connection (or the single writer side of a pipe) is the list of reads its
   handler makes; each handler owns one LineReader (Tail/LineReader.v) and calls
   Finish when the connection ends.  The stream's channel carries an
   interleaving of the handlers' outputs.  Lines are tagged with the index of
   the connection that produced them (the harness tags the payload). *)
From V Require Import Base.Bytes Tail.LineReader.

Definition conn := list bytes.

(* what one handler sends: ReadAndSend for every read, then Finish *)
Definition conn_lines (sz : nat) (c : conn) : list bytes := deliver sz c.

Definition tagged := (nat * bytes)%type.
Definition tag (i : nat) (ls : list bytes) : list tagged := map (pair i) ls.

Fixpoint tag_all (sz i : nat) (cs : list conn) : list (list tagged) :=
  match cs with
  | [] => []
  | c :: r => tag i (conn_lines sz c) :: tag_all sz (S i) r
  end.

(* [out] is an interleaving of the lists [ls]: every list's order is kept,
   nothing is added, lost or duplicated *)
Inductive Interleave {A} : list (list A) -> list A -> Prop :=
| il_done : forall ls, Forall (fun l => l = []) ls -> Interleave ls []
| il_take : forall pre x l post out,
    Interleave (pre ++ l :: post) out ->
    Interleave (pre ++ (x :: l) :: post) (x :: out).

Definition project (i : nat) (out : list tagged) : list bytes :=
  map snd (filter (fun t => Nat.eqb (fst t) i) out).

(* a socket stream with connections cs may put [out] on its channel *)
Definition socket_out (sz : nat) (cs : list conn) (out : list tagged) : Prop :=
  Interleave (tag_all sz 0 cs) out.

(* a datagram stream has ONE reader for the socket: the datagrams in arrival
   order (tagged with their sender) are its reads *)
(* Each Read takes ONE datagram; what does not fit the space offered is
   discarded by the kernel (LineReader.run_dg). *)
Definition dgram_lines (sz : nat) (arrivals : list tagged) : list bytes :=
  deliver_dg sz (map snd arrivals).

(* what Proofs/LineReaderProofs.deliver_dg_cut shows dgram_lines to be: every
   datagram cut to the reader's size, the rest framed as one byte stream *)
Definition dgram_lines_spec (sz : nat) (arrivals : list tagged) : list bytes :=
  frame (concat (map (fun t => firstn sz (snd t)) arrivals)).

Definition terminated (d : bytes) : Prop := d = [] \/ last d 0%N = NL.
Definition terminatedb (d : bytes) : bool :=
  match d with [] => true | _ => N.eqb (last d 0%N) NL end.

(* executable check used by the correspondence: the observed channel content
   is consistent with "an interleaving of the per-connection outputs".
   closed i = the writer closed connection i before the stream was cancelled:
   then everything must be there; otherwise the handler was cut by the
   cancellation after reading some prefix of what was written. *)

Fixpoint any_prefix (n : nat) (s : bytes) (got : list bytes) : bool :=
  list_eqb bytes_eqb (frame (firstn n s)) got ||
  match n with 0 => false | S n' => any_prefix n' s got end.

Fixpoint conns_ok (sz i : nat) (cs : list (bool * conn)) (out : list tagged) : bool :=
  match cs with
  | [] => true
  | (closed, c) :: r =>
      (if closed
       then list_eqb bytes_eqb (conn_lines sz c) (project i out)
       else any_prefix (length (concat c)) (concat c) (project i out))
      && conns_ok sz (S i) r out
  end.

Definition tags_in_range (n : nat) (out : list tagged) : bool :=
  forallb (fun t => Nat.ltb (fst t) n) out.

Definition stream_ok (sz : nat) (cs : list (bool * conn)) (out : list tagged) : bool :=
  tags_in_range (length cs) out && conns_ok sz 0 cs out.

(* ---------------- how a stream ends ---------------- *)
(* phases of one handler / of a pipe or datagram stream goroutine *)
Inductive phase := Open | WriterClosed | Cancelled | Flushed | Closed.
Inductive event := ERead | EEof | ECancel | EFinish | EClose.

Definition next (p : phase) (e : event) : option phase :=
  match p, e with
  | Open, ERead => Some Open
  | Open, EEof => Some WriterClosed
  | Open, ECancel => Some Cancelled
  | Cancelled, ERead => Some Cancelled      (* the read cut short by the deadline *)
  | WriterClosed, EFinish => Some Flushed
  | Cancelled, EFinish => Some Flushed
  | Flushed, EClose => Some Closed
  | _, _ => None
  end.

Fixpoint run_phase (p : phase) (es : list event) : option phase :=
  match es with
  | [] => Some p
  | e :: r => match next p e with Some p' => run_phase p' r | None => None end
  end.

(* ---------------- when a socket stream shuts down ---------------- *)
(* the goroutine that closes the listener and, after the handlers, the channel:
   before fixes/C17-socket-cancel-before-first-connection it waited for the
   first accepted connection before it looked at the cancellation *)
Definition closer_proceeds (repaired : bool) (accepted : nat) (cancelled : bool) : bool :=
  if repaired then cancelled else (0 <? accepted) && cancelled.
