(* Model of internal/tailer/logstream/filestream.go under a Tailer
   (internal/tailer/tail.go) that polls one path.  Executable definitions only;
   proofs are in Proofs/FileStreamProofs.v.

   The line reader inside a stream is the ABSTRACT reader of Tail/LineReader.v
   (pending bytes + [split]); Props/C15.v shows the concrete reader refines it
   for every way the file's new bytes are cut into reads.

   Two booleans select the behaviour before the two repairs of fixes/C16-*:
     ft = true : Finish empties the reader's buffer (truncation no longer
                 re-delivers the fragment merged with later data)
     fr = true : a stream that finds its path pointing at another file calls
                 Finish before starting the stream for the new file *)
From V Require Import Base.Bytes Tail.LineReader.

(* operations on the file at the tailed path *)
Inductive op :=
| AppendLine (l : bytes) | AppendFrag (f : bytes) | AppendCRLF (l : bytes)
| AppendRep (u : bytes) (k : nat) (t : bytes)
| Truncate | RenameCreate (d : bytes) | CopyTruncate | Delete | Recreate | Idle.
(* RenameCreate d: the file is renamed away and a new file containing d is
   created at the path in one step (d = [] for a plain rename + create) *)

(* AppendRep u k t: one large append, u repeated k times followed by t (used to
   place a line ending exactly on the 131072-byte read boundary without
   shipping 128 KiB through the case files) *)
Definition rep_data (u : bytes) (k : nat) (t : bytes) : bytes := concat (repeat u k) ++ t.

(* ---------------- specification ---------------- *)
(* state: None = no file at the path; Some g = a file that is being tailed, g =
   the bytes appended to it since it began to be tailed (or since its
   generation began).  A generation's bytes are framed when it ends. *)
Definition spec_step (sp : option bytes) (o : op) : list bytes * option bytes :=
  match sp, o with
  | None, Recreate => ([], Some [])
  | None, _ => ([], None)
  | Some g, AppendLine l => ([], Some (g ++ l ++ [NL]))
  | Some g, AppendFrag f => ([], Some (g ++ f))
  | Some g, AppendCRLF l => ([], Some (g ++ l ++ [CR; NL]))
  | Some g, AppendRep u k t => ([], Some (g ++ rep_data u k t))
  | Some g, Truncate | Some g, CopyTruncate => (frame g, Some [])
  | Some g, RenameCreate d => (frame g, Some d)
  | Some g, Delete => (frame g, None)
  | Some g, Recreate | Some g, Idle => ([], Some g)
  end.

Fixpoint spec_from (sp : option bytes) (ops : list op) : list bytes :=
  match ops with
  | [] => match sp with Some g => frame g | None => [] end      (* tailing stops *)
  | o :: r => let (out, sp') := spec_step sp o in out ++ spec_from sp' r
  end.

(* init = the file's content when tailing begins (ignored: tailing starts at its end) *)
Definition spec (init : option bytes) (ops : list op) : list bytes :=
  spec_from (match init with Some _ => Some [] | None => None end) ops.

(* ---------------- file system ---------------- *)
(* inode numbers are allocation order; [files] gives every inode's content
   (an unlinked or renamed inode keeps its content for the descriptor that
   still refers to it); [cur] is the inode the path names *)
Record fsys := mk_fs { files : nat -> bytes; cur : option nat; next_ino : nat }.

Definition upd (f : nat -> bytes) (i : nat) (c : bytes) : nat -> bytes :=
  fun j => if Nat.eqb j i then c else f j.

Definition fs_op (o : op) (s : fsys) : fsys :=
  match cur s with
  | Some i =>
      let f := files s in
      match o with
      | AppendLine l => mk_fs (upd f i (f i ++ l ++ [NL])) (cur s) (next_ino s)
      | AppendFrag d => mk_fs (upd f i (f i ++ d)) (cur s) (next_ino s)
      | AppendCRLF l => mk_fs (upd f i (f i ++ l ++ [CR; NL])) (cur s) (next_ino s)
      | AppendRep u k t => mk_fs (upd f i (f i ++ rep_data u k t)) (cur s) (next_ino s)
      | Truncate => mk_fs (upd f i []) (cur s) (next_ino s)
      | RenameCreate d => mk_fs (upd f (next_ino s) d) (Some (next_ino s)) (S (next_ino s))
      | CopyTruncate => mk_fs (upd (upd f (next_ino s) (f i)) i []) (cur s) (S (next_ino s))
      | Delete => mk_fs f None (next_ino s)
      | Recreate | Idle => s
      end
  | None =>
      match o with
      | Recreate => mk_fs (upd (files s) (next_ino s) []) (Some (next_ino s)) (S (next_ino s))
      | _ => s
      end
  end.

(* ---------------- one file stream goroutine ---------------- *)
Record stream := mk_stream { s_ino : nat; s_off : nat; s_pend : bytes }.

(* ReadAndSend until EOF: everything between the offset and the end of the
   descriptor's file goes through the line reader *)
Definition read_new (f : nat -> bytes) (s : stream) : list bytes * stream :=
  let d := skipn (s_off s) (f (s_ino s)) in
  let (ls, p) := split (s_pend s) d in
  (ls, mk_stream (s_ino s) (s_off s + length d) p).

(* one pass of the loop body after a wake-up: read to EOF, then the EOF branch:
   stat the path; gone -> Finish, close, end; another file -> (Finish,) start
   the new stream at offset 0, end; shorter than the offset -> Finish, seek 0,
   go round again; otherwise wait.  Returns the lines sent and the stream that
   is waiting afterwards (None = channel closed). *)
Fixpoint wake (fuel : nat) (ft fr : bool) (fs : fsys) (s : stream) : list bytes * option stream :=
  match fuel with
  | 0 => ([], Some s)
  | S n =>
      let (ls, s1) := read_new (files fs) s in
      match cur fs with
      | None => (ls ++ flush (s_pend s1), None)
      | Some i =>
          if negb (Nat.eqb i (s_ino s1)) then
            let (ls2, r) := wake n ft fr fs (mk_stream i 0 []) in
            (ls ++ (if fr then flush (s_pend s1) else []) ++ ls2, r)
          else if length (files fs i) <? s_off s1 then
            let (ls2, r) := wake n ft fr fs (mk_stream (s_ino s1) 0 (if ft then [] else s_pend s1)) in
            (ls ++ flush (s_pend s1) ++ ls2, r)
          else (ls, Some s1)
      end
  end.

Definition wake_fuel := 4.

(* ---------------- the tailer ---------------- *)
Record tstate := mk_t { t_fs : fsys; t_stream : option stream }.

Definition wake_stream (ft fr : bool) (t : tstate) : list bytes * tstate :=
  match t_stream t with
  | None => ([], t)
  | Some s => let (ls, r) := wake wake_fuel ft fr (t_fs t) s in (ls, mk_t (t_fs t) r)
  end.

(* doPatternGlob + TailPath: a path that exists and has no stream gets one,
   positioned at the end of the file *)
Definition poll (t : tstate) : tstate :=
  match t_stream t, cur (t_fs t) with
  | None, Some i => mk_t (t_fs t) (Some (mk_stream i (length (files (t_fs t) i)) []))
  | _, _ => t
  end.

(* "the tailer has observed the step": stream wake; pattern poll; stream wake *)
Definition observe (ft fr : bool) (t : tstate) : list bytes * tstate :=
  let (l1, t1) := wake_stream ft fr t in
  let t2 := poll t1 in
  let (l2, t3) := wake_stream ft fr t2 in
  (l1 ++ l2, t3).

Definition step (ft fr : bool) (t : tstate) (o : op) : list bytes * tstate :=
  observe ft fr (mk_t (fs_op o (t_fs t)) (t_stream t)).

(* cancellation: one more pass of the loop, then Finish and close *)
Definition stop (ft fr : bool) (t : tstate) : list bytes :=
  let (l1, t1) := wake_stream ft fr t in
  l1 ++ match t_stream t1 with Some s => flush (s_pend s) | None => [] end.

Fixpoint run_from (ft fr : bool) (t : tstate) (ops : list op) : list bytes :=
  match ops with
  | [] => stop ft fr t
  | o :: r => let (l, t') := step ft fr t o in l ++ run_from ft fr t' r
  end.

Definition start (init : option bytes) : tstate :=
  match init with
  | Some c => mk_t (mk_fs (upd (fun _ => []) 0 c) (Some 0) 1) None
  | None => mk_t (mk_fs (fun _ => []) None 0) None
  end.

(* tailer.New polls the pattern once, then the harness lets it observe *)
Definition run (ft fr : bool) (init : option bytes) (ops : list op) : list bytes :=
  let (l0, t0) := observe ft fr (poll (start init)) in
  l0 ++ run_from ft fr t0 ops.

Definition delivered := run true true.        (* repaired code *)
Definition delivered_old := run false false.   (* the tree before fixes/C16-* *)
