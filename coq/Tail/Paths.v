(* C18 - model of internal/tailer/tail.go (pattern polling, Ignore, TailPath,
   removal of a stream when it completes) over a small file tree, with the part
   of logstream/filestream.go that decides when a stream completes.

   Definitions only (executable).  Paths, inodes and stream ids are numbers.
   [glob_match] (filepath.Glob/Match of a pattern against an existing path) and
   [ignore_match] (the ignore regexp on the base name) are ORACLES: section
   variables, tabulated by the harness with the library functions the tailer
   itself calls.  [U] lists the names that may exist in the polled directory.

   Granularity: one operation = one file-system call, one wake-up of all
   pattern pollers (Poll) or one wake-up of all streams (StreamPoll), each run
   to quiescence.  Races between a poll and a stream completing are not
   modelled. *)
From V Require Export Base.Bytes.
Local Open Scope N_scope.

Definition path := N.

Inductive node :=
| File (readable : bool) (ino : N)   (* regular file *)
| Other (isdir : bool) (ino : N).    (* directory, or an entry that is neither (socket, device) *)
Notation Dir i := (Other true i).
Notation Sock i := (Other false i).

Inductive op :=
| Create (p : path)              (* O_CREATE|O_EXCL *)
| Mkdir (p : path)
| Mksock (p : path)              (* mknod S_IFSOCK: exists, is no directory, cannot be streamed *)
| Delete (p : path)              (* os.Remove: unlink / rmdir (directories are empty) *)
| Rename (p q : path)            (* os.Rename *)
| Chmod (p : path) (r : bool)    (* regular files only *)
| Append (p : path)              (* one more line in the file at p *)
| Poll                           (* every pattern poller: doPatternGlob *)
| StreamPoll.                    (* every stream: read to EOF, then stat *)

Record stream := mkStream {
  s_id : N;
  s_path : path;     (* the key it was registered under *)
  s_ino : N;         (* the file it holds open *)
  s_off : N          (* lines of that file already read *)
}.

(* a forwarded line: path of the forwarding stream, the stream, the file and
   the index of the line in that file *)
Record fwd := mkFwd { f_path : path; f_sid : N; f_ino : N; f_idx : N }.

Record state := mkState {
  tree : path -> option node;
  len : N -> N;                 (* lines appended so far, per file inode *)
  streams : list stream;        (* live stream goroutines *)
  reg : path -> option N;       (* Tailer.logstreams: path -> stream *)
  count : Z;                    (* the log_count expvar *)
  tick : N;                     (* operations so far: source of fresh inodes *)
  nsid : N;                     (* next stream id *)
  out : list fwd                (* lines forwarded to the tailer's output *)
}.

Definition upd {A} (f : N -> A) (k : N) (v : A) : N -> A :=
  fun x => if N.eqb x k then v else f x.

Definition is_some {A} (o : option A) : bool := match o with Some _ => true | None => false end.

(* lines [from, from+n) of file [ino] forwarded by [st] *)
Fixpoint recs (p sid ino from : N) (n : nat) : list fwd :=
  match n with
  | O => []
  | S n' => mkFwd p sid ino from :: recs p sid ino (from + 1) n'
  end.

Inductive outcome :=
| Stay (st : stream)   (* the stream keeps running *)
| Close                (* close(fs.lines): the copier deletes the map entry *)
| Leak.                (* the stream stops forwarding but its entry stays *)

Section Model.
Variable U : list path.
Variable pats : list N.
Variable glob_match : N -> path -> bool.
Variable ignore_match : path -> bool.

Definition in_U (p : path) : bool := existsb (N.eqb p) U.

(* ---- file system ---- *)

Definition set_tree (s : state) (t : path -> option node) : state :=
  mkState t (len s) (streams s) (reg s) (count s) (tick s) (nsid s) (out s).

Definition rename_ok (s : state) (p q : path) : bool :=
  negb (N.eqb p q) && in_U q &&
  match tree s p, tree s q with
  | Some _, None => true
  | Some (Dir _), Some _ => false      (* a directory cannot replace anything *)
  | Some _, Some (Dir _) => false      (* os.Rename refuses a directory target *)
  | Some _, Some _ => true             (* file or socket replaces file or socket *)
  | None, _ => false
  end.

Definition fs_step (s : state) (o : op) : state :=
  let fresh := 10 + tick s in
  match o with
  | Create p =>
      if in_U p && negb (is_some (tree s p))
      then mkState (upd (tree s) p (Some (File true fresh))) (upd (len s) fresh 0)
                   (streams s) (reg s) (count s) (tick s) (nsid s) (out s)
      else s
  | Mkdir p =>
      if in_U p && negb (is_some (tree s p)) then set_tree s (upd (tree s) p (Some (Dir fresh))) else s
  | Mksock p =>
      if in_U p && negb (is_some (tree s p)) then set_tree s (upd (tree s) p (Some (Sock fresh))) else s
  | Delete p => set_tree s (upd (tree s) p None)
  | Rename p q =>
      if rename_ok s p q then set_tree s (upd (upd (tree s) q (tree s p)) p None) else s
  | Chmod p r =>
      match tree s p with
      | Some (File _ i) => set_tree s (upd (tree s) p (Some (File r i)))
      | _ => s
      end
  | Append p =>
      match tree s p with
      | Some (File _ i) =>
          mkState (tree s) (upd (len s) i (len s i + 1)) (streams s) (reg s) (count s) (tick s) (nsid s) (out s)
      | _ => s
      end
  | Poll | StreamPoll => s
  end.

(* ---- Tailer.TailPath ---- *)

(* [check] = the lookup in logstreams is made (false only in the mutant used
   to show that the theorems depend on it) *)
Definition tail_path (check : bool) (s : state) (p : path) : state :=
  if check && is_some (reg s p) then s
  else match tree s p with
       | Some (File true i) =>     (* logstream.New: stat, regular, open succeeds; seek to the end *)
           mkState (tree s) (len s)
                   (streams s ++ [mkStream (nsid s) p i (len s i)])
                   (upd (reg s) p (Some (nsid s))) (count s + 1)%Z (tick s) (nsid s + 1) (out s)
       | _ => s                    (* the error is logged, nothing is registered *)
       end.

(* Tailer.Ignore: stat fails, directory, or the base name matches *)
Definition ignored (s : state) (p : path) : bool :=
  match tree s p with
  | Some (File _ _) | Some (Sock _) => ignore_match p
  | _ => true
  end.

(* doPatternGlob: filepath.Glob returns the existing paths that match *)
Definition glob_one (check : bool) (s : state) (pat : N) : state :=
  fold_left (fun s p =>
               if is_some (tree s p) && glob_match pat p && negb (ignored s p)
               then tail_path check s p else s) U s.

Definition poll (check : bool) (s : state) : state := fold_left (glob_one check) pats s.

(* a variant used only to show what completeness rests on: doPatternGlob gives
   up at the first match it cannot start a stream on, instead of logging the
   error and going on with the next match *)
Definition tail_path_fails (s : state) (p : path) : bool :=
  negb (is_some (reg s p)) && match tree s p with Some (File true _) => false | _ => true end.
Definition glob_one_stop (s : state) (pat : N) : state :=
  fst (fold_left (fun (a : state * bool) p =>
                    let (s, go) := a in
                    if go && is_some (tree s p) && glob_match pat p && negb (ignored s p)
                    then (tail_path true s p, negb (tail_path_fails s p)) else a) U (s, true)).
Definition poll_stop (s : state) : state := fold_left glob_one_stop pats s.

(* ---- one stream, one wake-up (filestream.go) ---- *)

(* [repaired] = a stream whose path now names a directory or a file it cannot
   open completes (fix C18-stream-leak); in the code before the repair it
   stays registered for ever without forwarding anything *)
Definition round (repaired : bool) (s : state) (st : stream) : outcome * list fwd :=
  let n := len s (s_ino st) in
  let got := recs (s_path st) (s_id st) (s_ino st) (s_off st) (N.to_nat (n - s_off st)) in
  match tree s (s_path st) with
  | None => (Close, got)                                   (* stat: not exist *)
  | Some (File r j) =>
      if N.eqb j (s_ino st) then (Stay (mkStream (s_id st) (s_path st) (s_ino st) n), got)
      else if r
           then (Stay (mkStream (s_id st) (s_path st) j (len s j)),       (* reopened, from the start *)
                 got ++ recs (s_path st) (s_id st) j 0 (N.to_nat (len s j)))
           else (if repaired then Close else Leak, got)
  | Some (Other _ _) => (if repaired then Close else Leak, got)   (* not a regular file any more *)
  end.

Definition kept (repaired : bool) (s : state) (sts : list stream) : list stream :=
  flat_map (fun st => match fst (round repaired s st) with Stay st' => [st'] | _ => [] end) sts.

Definition closed_paths (repaired : bool) (s : state) (sts : list stream) : list path :=
  flat_map (fun st => match fst (round repaired s st) with Close => [s_path st] | _ => [] end) sts.

(* the lines forwarded by the next stream poll *)
Definition batch (repaired : bool) (s : state) : list fwd :=
  flat_map (fun st => snd (round repaired s st)) (streams s).

Definition unreg (r : path -> option N) (cl : list path) : path -> option N :=
  fold_left (fun r p => upd r p None) cl r.

Definition stream_poll (repaired : bool) (s : state) : state :=
  let cl := closed_paths repaired s (streams s) in
  mkState (tree s) (len s) (kept repaired s (streams s))
          (unreg (reg s) cl)
          (count s - Z.of_nat (length cl))%Z (tick s) (nsid s)
          (out s ++ batch repaired s).

Definition bump (s : state) : state :=
  mkState (tree s) (len s) (streams s) (reg s) (count s) (tick s + 1) (nsid s) (out s).

Definition step_gen (check repaired : bool) (s : state) (o : op) : state :=
  bump (match o with
        | Poll => poll check s
        | StreamPoll => stream_poll repaired s
        | _ => fs_step s o
        end).

Definition step := step_gen true true.          (* the repaired code *)
Definition step_old := step_gen true false.     (* before fix C18-stream-leak *)

Definition run_gen (check repaired : bool) (s : state) (h : list op) : state :=
  fold_left (step_gen check repaired) h s.
Definition run := run_gen true true.
Definition run_old := run_gen true false.

(* tailer.New: every pattern is globbed once while the options are applied *)
Definition start_gen (check : bool) (t : path -> option node) (l : N -> N) : state :=
  poll check (mkState t l [] (fun _ => None) 0%Z 0 0 []).
Definition start := start_gen true.

Definition tailed (s : state) : list path := filter (fun p => is_some (reg s p)) U.

End Model.
