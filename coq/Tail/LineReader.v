(* Model of internal/tailer/logstream/reader.go (LineReader).
   Executable definitions only; proofs are in Proofs/LineReaderProofs.v.

   Two layers:
   - the SPEC: [frame stream], the stream split at '\n', one trailing '\r'
     removed from every terminated line, followed by the non-empty remainder;
   - the CONCRETE reader: the Go struct {buf; off; size} plus the capacity of
     buf (it decides how many bytes each Read may return), with the same index
     computations as reader.go on lists (firstn/skipn/nth).  A slice expression
     that would panic in Go sets [bad]. *)
From V Require Import Base.Bytes.

Definition NL : byte := 10%N.
Definition CR : byte := 13%N.

(* ---------------- specification ---------------- *)

(* remove one trailing '\r' *)
Definition strip_cr (l : bytes) : bytes :=
  if N.eqb (last l 0%N) CR then removelast l else l.

(* [split acc s]: the completed lines of [acc ++ s] given that [acc] is the
   unterminated text so far, and the unterminated remainder *)
Fixpoint split (acc s : bytes) : list bytes * bytes :=
  match s with
  | [] => ([], acc)
  | c :: s' =>
      if N.eqb c NL
      then let (ls, r) := split [] s' in (strip_cr acc :: ls, r)
      else split (acc ++ [c]) s'
  end.

Definition flush (r : bytes) : list bytes :=
  match r with [] => [] | _ => [r] end.

Definition frame (s : bytes) : list bytes :=
  let (ls, r) := split [] s in ls ++ flush r.

(* the abstract reader keeps only the pending bytes *)
Fixpoint feeds (pend : bytes) (chunks : list bytes) : list bytes * bytes :=
  match chunks with
  | [] => ([], pend)
  | c :: cs =>
      let (l1, p1) := split pend c in
      let (l2, p2) := feeds p1 cs in (l1 ++ l2, p2)
  end.

(* ---------------- concrete reader ---------------- *)

Record lr := mk_lr {
  buf  : bytes;   (* lr.buf[0:len(lr.buf)] *)
  cap  : nat;     (* cap(lr.buf) *)
  off  : nat;     (* lr.off *)
  size : nat;     (* lr.size *)
  bad  : bool     (* a slice expression was out of range: Go would have panicked *)
}.

Definition new_lr (sz : nat) : lr := mk_lr [] sz 0 sz false.

Definition set_buf (r : lr) (b : bytes) := mk_lr b (cap r) (off r) (size r) (bad r).
Definition set_cap (r : lr) (c : nat)   := mk_lr (buf r) c (off r) (size r) (bad r).
Definition set_off (r : lr) (o : nat)   := mk_lr (buf r) (cap r) o (size r) (bad r).
Definition set_bad (r : lr)             := mk_lr (buf r) (cap r) (off r) (size r) true.

(* buf[off:] : what Finish would send *)
Definition pending (r : lr) : bytes := skipn (off r) (buf r).

(* bytes.IndexByte(s, '\n') *)
Fixpoint index_nl (s : bytes) : option nat :=
  match s with
  | [] => None
  | c :: s' => if N.eqb c NL then Some 0 else option_map S (index_nl s')
  end.

(* b[lo:hi] *)
Definition slice (lo hi : nat) (b : bytes) : option bytes :=
  if (lo <=? hi) && (hi <=? length b) then Some (firstn (hi - lo) (skipn lo b)) else None.

(* one call of lr.send: None = "return false" (no newline),
   Some (line, r') = a line was sent and off moved *)
Definition send (r : lr) : option (bytes * lr) :=
  match slice (off r) (length (buf r)) (buf r) with
  | None => Some ([], set_bad r)
  | Some rest =>
      match index_nl rest with
      | None => None
      | Some i =>
          let e := off r + i in
          let strip := (0 <? e) && N.eqb (nth (e - 1) (buf r) 0%N) CR in
          let e' := if strip then e - 1 else e in
          let skip := if strip then 2 else 1 in
          match slice (off r) e' (buf r) with
          | Some line => Some (line, set_off r (e' + skip))
          | None => Some ([], set_bad r)
          end
      end
  end.

(* for ok { ok = lr.send(ctx) } *)
Fixpoint send_loop (fuel : nat) (r : lr) : list bytes * lr :=
  match fuel with
  | 0 => ([], r)
  | S f =>
      match send r with
      | None => ([], r)
      | Some (l, r') =>
          if bad r' then ([], r')
          else let (ls, r'') := send_loop f r' in (l :: ls, r'')
      end
  end.

(* the growth test at the top of ReadAndSend *)
Definition grow (r : lr) : lr :=
  if cap r - length (buf r) <? size r
  then set_cap r (length (buf r) + size r) else r.

(* len(lr.buf[len(lr.buf):cap(lr.buf)]): what the io.Reader is offered *)
Definition space (r : lr) : nat := cap r - length (buf r).

(* lr.buf = lr.buf[lr.off:len(lr.buf)]; lr.off = 0 *)
Definition reslice (r : lr) : lr :=
  match slice (off r) (length (buf r)) (buf r) with
  | Some b => mk_lr b (cap r - off r) 0 (size r) (bad r)
  | None => set_bad r
  end.

(* ReadAndSend when the io.Reader returned [chunk] (length chunk <= space (grow r)) *)
Definition read_and_send (r : lr) (chunk : bytes) : list bytes * lr :=
  let r1 := grow r in
  let r2 := set_buf r1 (buf r1 ++ chunk) in
  if 0 <? length chunk
  then let (ls, r3) := send_loop (S (length (buf r2))) r2 in (ls, reslice r3)
  else ([], r2).

(* Finish *)
Definition finish (r : lr) : list bytes := flush (pending r).

(* A scripted io.Reader holds the chunks still to be returned; Read(p) returns
   min(len p, len head) bytes of the head chunk.  One observation per call:
   (len p offered, count returned, lines sent, pending afterwards). *)
Record obs := mk_obs { o_space : nat; o_count : nat; o_lines : list bytes; o_pending : bytes }.

Fixpoint run (fuel : nat) (r : lr) (script : list bytes) : list obs * lr :=
  match fuel with
  | 0 => ([], r)
  | S f =>
      match script with
      | [] => ([], r)
      | c :: rest =>
          let sp := space (grow r) in
          let n := Nat.min (length c) sp in
          let (ls, r') := read_and_send r (firstn n c) in
          let script' := if n <? length c then skipn n c :: rest else rest in
          let (os, r'') := run f r' script' in
          (mk_obs sp n ls (pending r') :: os, r'')
      end
  end.

Definition run_fuel (script : list bytes) : nat := length (concat script) + length script.

Definition run_all (sz : nat) (script : list bytes) : list obs * lr :=
  run (run_fuel script) (new_lr sz) script.

Definition emitted (os : list obs) : list bytes := concat (map o_lines os).

(* An io.Reader may return an error TOGETHER with bytes (io.EOF with the last
   bytes, or any other error): 0 = nil, 1 = io.EOF, 2 = another error.
   ReadAndSend extends the buffer by the count and frames it whatever the
   error is, and hands the error back to its caller.  A scripted chunk carries
   the error returned with its last byte; when the chunk is cut because it
   exceeds the space offered, the earlier parts come with nil. *)
Definition rerr := N.

Fixpoint runE (fuel : nat) (r : lr) (script : list (bytes * rerr)) : list (obs * rerr) * lr :=
  match fuel with
  | 0 => ([], r)
  | S f =>
      match script with
      | [] => ([], r)
      | (c, e) :: rest =>
          let sp := space (grow r) in
          let n := Nat.min (length c) sp in
          let (ls, r') := read_and_send r (firstn n c) in
          let script' := if n <? length c then (skipn n c, e) :: rest else rest in
          let eo := if n <? length c then 0%N else e in
          let (os, r'') := runE f r' script' in
          ((mk_obs sp n ls (pending r'), eo) :: os, r'')
      end
  end.

Definition run_allE (sz : nat) (script : list (bytes * rerr)) : list (obs * rerr) * lr :=
  runE (run_fuel (map fst script)) (new_lr sz) script.

Definition nonnil (e : rerr) : bool := negb (N.eqb e 0).

(* everything delivered for a source that returns [script] and then ends *)
Definition deliver (sz : nat) (script : list bytes) : list bytes :=
  let (os, r) := run_all sz script in emitted os ++ finish r.

(* ---------------- a reader that lives on after Finish ---------------- *)
(* Finish as a state transformer: lr.buf = lr.buf[:0]; lr.off = 0 (the capacity
   stays).  File streams call it at a truncation and go on reading the same
   file with the same reader; a script is then a list of GENERATIONS, each a
   list of reads, every generation closed by one Finish. *)
Definition finish_st (r : lr) : lr := mk_lr [] (cap r) 0 (size r) (bad r).

Fixpoint run_gens (r : lr) (gens : list (list bytes)) : list (list obs * list bytes) * lr :=
  match gens with
  | [] => ([], r)
  | g :: rest =>
      let (os, r1) := run (run_fuel g) r g in
      let (more, r2) := run_gens (finish_st r1) rest in
      ((os, finish r1) :: more, r2)
  end.

Definition gen_lines (x : list obs * list bytes) : list bytes := emitted (fst x) ++ snd x.

(* ---------------- datagram reads ---------------- *)
(* A datagram socket hands ONE datagram to each Read: the kernel copies at most
   len(p) bytes and DISCARDS the rest of the datagram (recvfrom without
   MSG_PEEK).  [run_dg] is the reader fed by such a source. *)
Fixpoint run_dg (r : lr) (dgs : list bytes) : list obs * lr :=
  match dgs with
  | [] => ([], r)
  | c :: rest =>
      let sp := space (grow r) in
      let n := Nat.min (length c) sp in
      let (ls, r') := read_and_send r (firstn n c) in
      let (os, r'') := run_dg r' rest in
      (mk_obs sp n ls (pending r') :: os, r'')
  end.

Definition deliver_dg (sz : nat) (dgs : list bytes) : list bytes :=
  let (os, r) := run_dg (new_lr sz) dgs in emitted os ++ finish r.
