(* C14: reload.  Identical source is a no-op; a failed compile changes nothing
   but the error counter; Store.Add hands every cell (datum identity, hence
   value and time, and the pending expiry) of the replaced metric over to the
   new one and drops the old entry. *)
From V Require Import Metrics.StoreAdd Run.Loader Proofs.StoreAddProofs Proofs.LoaderIsolation.
Local Open Scope N_scope.

Section Reload.
Variable c1 c2 omit : bool.
Variable compile : bytes -> N -> option (list decl).
Notation load := (load c1 c2 omit compile).
Notation load_r := (load_r c1 c2 omit compile).

Lemma identical_noop st p src hd :
  ps_handle (getp p st) = Some hd -> h_src hd = src ->
  load_r st p src = (st, LSame).
Proof.
  intros H E. unfold Loader.load_r. rewrite H, E, N.eqb_refl. reflexivity.
Qed.

(* everything the exporters and the VMs can see *)
Definition visible_eq (st st' : state) : Prop :=
  st_index st' = st_index st /\ st_lines st' = st_lines st /\
  forall q, ps_heap (getp q st') = ps_heap (getp q st) /\ ps_handle (getp q st') = ps_handle (getp q st).

Lemma failed_compile_noop st p src :
  compile p src = None -> visible_eq st (load st p src).
Proof.
  intros C. unfold Loader.load, Loader.load_r.
  destruct (match ps_handle (getp p st) with Some hd => N.eqb (h_src hd) src | None => false end).
  { cbn [fst]. repeat split. }
  rewrite C. cbn [fst]. unfold setp. split; [reflexivity|]. split; [reflexivity|].
  intros q. destruct (bytes_eqb q p) eqn:E.
  - apply bytes_eqb_spec in E. subst q.
    set (x := getp p st).
    replace (getp p (mkst (st_index st) (bupdate p (with_errs x) (st_progs st)) (st_lines st)))
      with (with_errs x) by (unfold getp; cbn [st_progs]; rewrite blookup_bupdate_same; reflexivity).
    split; reflexivity.
  - apply bytes_eqb_false in E.
    replace (getp q (mkst (st_index st) (bupdate p (with_errs (getp p st)) (st_progs st)) (st_lines st)))
      with (getp q st) by (unfold getp; cbn [st_progs]; rewrite blookup_bupdate_other by exact E; reflexivity).
    split; reflexivity.
Qed.
End Reload.

(* ---- the hand-over ---- *)
Lemma tuple_eqb_refl ls : tuple_eqb ls ls = true.
Proof. apply tuple_eqb_spec. reflexivity. Qed.

Lemma lv_find_labels ls l x : lv_find ls l = Some x -> sl_labels x = ls.
Proof.
  induction l as [|y l IH]; cbn [lv_find]; [discriminate|].
  destruct (tuple_eqb ls (sl_labels y)) eqn:E.
  - intros H. injection H as <-. apply tuple_eqb_spec in E. congruence.
  - exact IH.
Qed.

Lemma lv_find_app_l ls a b x : lv_find ls a = Some x -> lv_find ls (a ++ b) = Some x.
Proof.
  induction a as [|y a IH]; cbn [lv_find app]; [discriminate|].
  destruct (tuple_eqb ls (sl_labels y)); [auto|exact IH].
Qed.

Lemma lv_find_app_r ls a b : lv_find ls a = None -> lv_find ls (a ++ b) = lv_find ls b.
Proof.
  induction a as [|y a IH]; cbn [lv_find app]; [reflexivity|].
  destruct (tuple_eqb ls (sl_labels y)); [discriminate|exact IH].
Qed.

Lemma lv_find_del_same ls l : NoDup (map sl_labels l) -> lv_find ls (lv_del ls l) = None.
Proof.
  induction l as [|y l IH]; cbn [lv_del lv_find map]; intros ND; [reflexivity|].
  inversion ND as [|? ? NI ND']; subst.
  destruct (tuple_eqb ls (sl_labels y)) eqn:E.
  - apply tuple_eqb_spec in E. subst ls.
    destruct (lv_find (sl_labels y) l) eqn:F; [|reflexivity].
    exfalso. apply NI. pose proof (lv_find_labels _ _ _ F) as <-.
    apply in_map. clear - F. induction l as [|z l IH]; cbn [lv_find] in F; [discriminate|].
    destruct (tuple_eqb _ _); [injection F as <-; left; reflexivity|right; exact (IH F)].
  - cbn [lv_find]. rewrite E. exact (IH ND').
Qed.

Lemma lv_find_del_other ls ls' l : ls <> ls' -> lv_find ls (lv_del ls' l) = lv_find ls l.
Proof.
  intros N. induction l as [|y l IH]; cbn [lv_del lv_find]; [reflexivity|].
  destruct (tuple_eqb ls' (sl_labels y)) eqn:E.
  - apply tuple_eqb_spec in E. destruct (tuple_eqb ls (sl_labels y)) eqn:E2; [|reflexivity].
    apply tuple_eqb_spec in E2. congruence.
  - cbn [lv_find]. destruct (tuple_eqb ls (sl_labels y)); [reflexivity|exact IH].
Qed.

Lemma lv_del_labels_incl ls l : incl (map sl_labels (lv_del ls l)) (map sl_labels l).
Proof.
  induction l as [|y l IH]; cbn [lv_del map]; [apply incl_refl|].
  destruct (tuple_eqb ls (sl_labels y)).
  - apply incl_tl, incl_refl.
  - intros z [H|H]; [left; exact H|right; exact (IH _ H)].
Qed.

Lemma lv_del_nodup ls l : NoDup (map sl_labels l) -> NoDup (map sl_labels (lv_del ls l)).
Proof.
  induction l as [|y l IH]; cbn [lv_del map]; intros ND; [constructor|].
  inversion ND as [|? ? NI ND']; subst.
  destruct (tuple_eqb ls (sl_labels y)); [exact ND'|].
  cbn [map]. constructor; [|exact (IH ND')].
  intros I. apply NI. exact (lv_del_labels_incl _ _ _ I).
Qed.

(* one step of the hand-over: the tuple moves to the end with the old datum
   and (after the repair) the old expiry; every other tuple keeps its cell *)
Definition ho_step (ce : bool) (acc : list slv) (o : slv) : list slv :=
  lv_del (sl_labels o) acc ++ [mkslv (sl_labels o) (sl_datum o) (if ce then sl_expiry o else 0%Z)].

Lemma ho_step_find_same ce acc o :
  NoDup (map sl_labels acc) ->
  lv_find (sl_labels o) (ho_step ce acc o) =
    Some (mkslv (sl_labels o) (sl_datum o) (if ce then sl_expiry o else 0%Z)).
Proof.
  intros ND. unfold ho_step. rewrite lv_find_app_r by (apply lv_find_del_same; exact ND).
  cbn [lv_find sl_labels]. rewrite tuple_eqb_refl. reflexivity.
Qed.

Lemma ho_step_find_other ce acc o ls :
  ls <> sl_labels o -> lv_find ls (ho_step ce acc o) = lv_find ls acc.
Proof.
  intros N. unfold ho_step.
  destruct (lv_find ls (lv_del (sl_labels o) acc)) eqn:F.
  - rewrite (lv_find_app_l _ _ _ _ F). rewrite <- F. apply lv_find_del_other. exact N.
  - rewrite lv_find_app_r by exact F. cbn [lv_find sl_labels].
    destruct (tuple_eqb ls (sl_labels o)) eqn:E; [apply tuple_eqb_spec in E; contradiction|].
    rewrite <- F. apply lv_find_del_other. exact N.
Qed.

Lemma ho_step_nodup ce acc o : NoDup (map sl_labels acc) -> NoDup (map sl_labels (ho_step ce acc o)).
Proof.
  intros ND. unfold ho_step. rewrite map_app. cbn [map sl_labels].
  apply nodup_snoc; [apply lv_del_nodup; exact ND|].
  intros I. apply in_map_iff in I. destruct I as (x & E & I).
  assert (F : lv_find (sl_labels o) (lv_del (sl_labels o) acc) = None) by (apply lv_find_del_same; exact ND).
  clear - E I F. induction (lv_del (sl_labels o) acc) as [|y l IH]; [destruct I|].
  cbn [lv_find] in F. destruct (tuple_eqb (sl_labels o) (sl_labels y)) eqn:T; [discriminate|].
  destruct I as [->|I]; [rewrite E, tuple_eqb_refl in T; discriminate|exact (IH I F)].
Qed.

Lemma hand_over_spec ce : forall old init,
  NoDup (map sl_labels old) -> NoDup (map sl_labels init) ->
  NoDup (map sl_labels (hand_over ce old init)) /\
  forall ls x, lv_find ls old = Some x ->
    lv_find ls (hand_over ce old init) = Some (mkslv ls (sl_datum x) (if ce then sl_expiry x else 0%Z)).
Proof.
  unfold hand_over. induction old as [|o old IH]; intros init NDo NDi; cbn [fold_left].
  - split; [exact NDi|]. intros ls x F. discriminate.
  - inversion NDo as [|? ? NI NDo']; subst.
    change (lv_del (sl_labels o) init ++ [mkslv (sl_labels o) (sl_datum o) (if ce then sl_expiry o else 0%Z)])
      with (ho_step ce init o).
    destruct (IH (ho_step ce init o) NDo' (ho_step_nodup ce init o NDi)) as (ND & FS).
    split; [exact ND|]. intros ls x F. cbn [lv_find] in F.
    destruct (tuple_eqb ls (sl_labels o)) eqn:E.
    + injection F as <-. apply tuple_eqb_spec in E. subst ls.
      (* o's tuple does not occur in the rest: its cell survives the later steps *)
      clear IH FS ND.
      assert (G : forall rest acc,
        ~ In (sl_labels o) (map sl_labels rest) ->
        lv_find (sl_labels o) (fold_left (ho_step ce) rest acc) = lv_find (sl_labels o) acc).
      { induction rest as [|r rest IHr]; intros acc NIr; cbn [fold_left]; [reflexivity|].
        rewrite IHr by (intros I; apply NIr; right; exact I).
        apply ho_step_find_other. intros Eq. apply NIr. left. symmetry. exact Eq. }
      change (fun acc o0 => lv_del (sl_labels o0) acc ++
                [mkslv (sl_labels o0) (sl_datum o0) (if ce then sl_expiry o0 else 0%Z)]) with (ho_step ce).
      rewrite (G old _ NI). apply ho_step_find_same. exact NDi.
    + exact (FS ls x F).
Qed.

(* ---- the scan when exactly one entry of the bucket matches ---- *)
Section Unique.
Variable ce : bool.
Variable h : pheap.
Variable p : bytes.
Variable d : decl.

Definition matches (v : entry) : bool :=
  bytes_eqb (e_prog v) p && N.eqb (d_type (e_decl v)) (d_type d)
  && bytes_eqb (d_source (e_decl v)) (d_source d).

Lemma scan_step_nomatch i v s : matches v = false -> scan_step ce h p d i v s = s.
Proof.
  unfold matches, scan_step. intros M. destruct (sc_broke s); [reflexivity|].
  destruct (bytes_eqb (e_prog v) p); cbn [negb andb] in *; [|reflexivity].
  destruct (N.eqb (d_type (e_decl v)) (d_type d)); cbn [negb andb] in *; [|reflexivity].
  rewrite M. reflexivity.
Qed.

Lemma scan_nomatch l : forall i s, (forall v, In v l -> matches v = false) -> scan_from ce h p d i l s = s.
Proof.
  induction l as [|v l IH]; intros i s H; cbn [scan_from]; [reflexivity|].
  rewrite scan_step_nomatch by (apply H; left; reflexivity).
  apply IH. intros w I. apply H. right. exact I.
Qed.

Lemma scan_unique pre o post init :
  (forall v, In v (pre ++ post) -> matches v = false) ->
  scan_from ce h p d 0 (pre ++ mkentry p o d :: post) (mkscan None init false) =
  mkscan (Some (length pre)) (hand_over ce (obj_lvs h o) init) false.
Proof.
  intros H.
  assert (G : forall pre' i s, (forall v, In v pre' -> matches v = false) ->
            scan_from ce h p d i (pre' ++ mkentry p o d :: post) s =
            scan_from ce h p d (length pre' + i) (mkentry p o d :: post) s).
  { induction pre' as [|v pre' IHp]; intros i s Hp; cbn [app scan_from length]; [reflexivity|].
    rewrite scan_step_nomatch by (apply Hp; left; reflexivity).
    rewrite IHp by (intros w I; apply Hp; right; exact I).
    replace (length pre' + S i)%nat with (S (length pre' + i)) by lia. reflexivity. }
  rewrite G by (intros v I; apply H; apply in_or_app; left; exact I).
  cbn [scan_from]. rewrite Nat.add_0_r.
  unfold scan_step at 1. cbn [sc_broke e_prog e_decl e_id sc_mlvs].
  rewrite !bytes_eqb_refl, N.eqb_refl. cbn [negb].
  replace (keys_eqb (d_keys d) (d_keys d)) with true
    by (symmetry; apply (list_eqb_spec bytes_eqb bytes_eqb_spec); reflexivity).
  cbn [negb]. apply scan_nomatch. intros v I. apply H. apply in_or_app. right. exact I.
Qed.
End Unique.

(* Store.Add of the new version's metric (object o', same descriptor d) when
   the bucket holds the previous version's metric (object o) as the only entry
   of the program with this type and source position. *)
Theorem add_keeps_data ce idx h p o o' d pre post :
  entries_of idx (d_name d) = pre ++ mkentry p o d :: post ->
  (forall v, In v (pre ++ post) -> matches p d v = false) ->
  kind_conflict (entries_of idx (d_name d)) d = false ->
  o <> o' ->
  NoDup (map sl_labels (obj_lvs h o)) -> NoDup (map sl_labels (obj_lvs h o')) ->
  exists idx' h',
    add ce idx h p o' d = Some (idx', h') /\
    (* the old entry is gone, the new one is last: no duplicate is left *)
    entries_of idx' (d_name d) = pre ++ post ++ [mkentry p o' d] /\
    (* data are not copied: the new label values point to the same datum objects *)
    ph_data h' = ph_data h /\
    obj_lvs h' o = obj_lvs h o /\
    forall ls x, lv_find ls (obj_lvs h o) = Some x ->
      lv_find ls (obj_lvs h' o') = Some (mkslv ls (sl_datum x) (if ce then sl_expiry x else 0%Z)).
Proof.
  intros B U K NO ND ND'. unfold add. rewrite K, B.
  rewrite scan_unique by exact U.
  eexists _, _. split; [reflexivity|].
  assert (L : forall k (l : list slv) m, nlookup k (nupdate k l m) = Some l).
  { intros k l m. induction m as [|[k' y] m IH]; cbn [nupdate nlookup].
    - rewrite N.eqb_refl. reflexivity.
    - destruct (N.eqb k k') eqn:E; cbn [nlookup]; [rewrite N.eqb_refl; reflexivity|rewrite E; exact IH]. }
  assert (L' : forall k k' (l : list slv) m, k' <> k -> nlookup k' (nupdate k l m) = nlookup k' m).
  { intros k k' l m N. induction m as [|[k2 y] m IH]; cbn [nupdate nlookup].
    - destruct (N.eqb k' k) eqn:E; [apply N.eqb_eq in E; contradiction|reflexivity].
    - destruct (N.eqb k k2) eqn:E; cbn [nlookup].
      + apply N.eqb_eq in E. subst k2. destruct (N.eqb k' k) eqn:E2; [apply N.eqb_eq in E2; contradiction|reflexivity].
      + destruct (N.eqb k' k2); [reflexivity|exact IH]. }
  split.
  { rewrite entries_of_bupdate_same. unfold replace_dupe. cbn [sc_dupe].
    rewrite <- app_assoc. cbn [app]. rewrite remove_nth_app_length. reflexivity. }
  split; [reflexivity|].
  split.
  { unfold obj_lvs, set_obj_lvs. cbn [ph_lvs]. rewrite L' by exact NO. reflexivity. }
  intros ls x F. cbn [sc_mlvs]. unfold obj_lvs at 1, set_obj_lvs. cbn [ph_lvs]. rewrite L.
  exact (proj2 (hand_over_spec ce _ _ ND ND') ls x F).
Qed.
