(* C01: capture-group typing (Lang/CapType.v).

   [matches r w]: the string w (code points) is in the language of the group's
   regular expression r.  Zero-width assertions match the empty string
   unconditionally (an over-approximation of the real language: every theorem
   "for all matched strings" below also covers the real one).

   post_sound / included_sound: the decision procedure of the reference's rule
   is sound: cap_spec r = TInt (TFloat) implies every matched string has the
   int (float) shape.
   infer_alphabet: the faithful model of types.InferCaprefType has the property
   its character test is there for: a group typed Int / Float matches only
   strings over "+-0123456789" / "+-0123456789.eE".
   infer_int_unsound / infer_float_unsound: it does NOT have the full property
   (witnesses \d* and [0-9.]+). *)
From V Require Import Lang.CapType.
Local Open Scope N_scope.

Definition char_match (fold : bool) (c d : N) : Prop :=
  d = c \/ (fold = true /\ In d (fold_orbit c)).

Inductive matches : re -> list N -> Prop :=
| MLit fold cs w : Forall2 (char_match fold) cs w -> matches (RLit fold cs) w
| MClass rs lo hi c : In (lo, hi) rs -> lo <= c -> c <= hi -> matches (RClass rs) [c]
| MAny nl c : nl = true \/ c <> 10 -> matches (RAny nl) [c]
| MZero : matches RZero []
| MStar0 r : matches (RStar r) []
| MStarS r w1 w2 : matches r w1 -> matches (RStar r) w2 -> matches (RStar r) (w1 ++ w2)
| MPlus r w1 w2 : matches r w1 -> matches (RStar r) w2 -> matches (RPlus r) (w1 ++ w2)
| MQuest0 r : matches (RQuest r) []
| MQuest1 r w : matches r w -> matches (RQuest r) w
| MCap r w : matches r w -> matches (RCap r) w
| MCat l w : matches_cat l w -> matches (RCat l) w
| MAlt l w : matches_alt l w -> matches (RAlt l) w
with matches_cat : res -> list N -> Prop :=
| MCNil : matches_cat RNil []
| MCCons r l w1 w2 : matches r w1 -> matches_cat l w2 -> matches_cat (RCons r l) (w1 ++ w2)
with matches_alt : res -> list N -> Prop :=
| MAHere r l w : matches r w -> matches_alt (RCons r l) w
| MANext r l w : matches_alt l w -> matches_alt (RCons r l) w.

Scheme matches_min := Minimality for matches Sort Prop
  with matches_cat_min := Minimality for matches_cat Sort Prop
  with matches_alt_min := Minimality for matches_alt Sort Prop.
Combined Scheme matches_mutind from matches_min, matches_cat_min, matches_alt_min.

Scheme re_ind2 := Induction for re Sort Prop
  with res_ind2 := Induction for res Sort Prop.
Combined Scheme re_mutind from re_ind2, res_ind2.

(* a star match is a concatenation of matches of the body *)
Lemma star_split r w :
  matches (RStar r) w -> exists ws, w = concat ws /\ Forall (matches r) ws.
Proof.
  intros H. remember (RStar r) as r0 eqn:E. revert r E.
  induction H; intros r' E; try discriminate.
  - exists []. split; [reflexivity | constructor].
  - injection E as ->. destruct (IHmatches2 r' eq_refl) as [ws [-> F]].
    exists (w1 :: ws). split; [reflexivity | constructor; assumption].
Qed.

(* ---- small sets of states ---- *)

Lemma memnat_In q s : memnat q s = true <-> In q s.
Proof.
  unfold memnat. rewrite existsb_exists. split.
  - intros [x [Hi He]]. apply Nat.eqb_eq in He. subst. exact Hi.
  - intros H. exists q. split; [exact H | apply Nat.eqb_refl].
Qed.

Lemma dedup_In q s : In q (dedup s) <-> In q s.
Proof.
  induction s as [|x s IH]; cbn [dedup]; [tauto|].
  destruct (memnat x s) eqn:M.
  - rewrite IH. split; [right; assumption|]. intros [->|H]; [apply memnat_In; exact M | exact H].
  - cbn [In]. rewrite IH. tauto.
Qed.

Lemma subset_In a b q : subset a b = true -> In q a -> In q b.
Proof.
  unfold subset. rewrite forallb_forall. intros H Hq. apply memnat_In. apply H. exact Hq.
Qed.

Lemma step_set_In d s ks p k : In p s -> In k ks -> In (d_delta d p k) (step_set d s ks).
Proof.
  intros Hp Hk. unfold step_set. apply dedup_In. apply in_flat_map. exists p. split; [exact Hp|].
  apply in_map. exact Hk.
Qed.

Lemma run_app d p w1 w2 : run d p (w1 ++ w2) = run d (run d p w1) w2.
Proof. revert p; induction w1 as [|c w1 IH]; intros p; cbn; [reflexivity | apply IH]. Qed.

(* ---- character classes ---- *)

Lemma digit_excl c : is_digit c = true -> is_sign c = false /\ is_dot c = false /\ is_exp c = false.
Proof.
  unfold is_digit, is_sign, is_dot, is_exp. intros H. apply andb_true_iff in H as [H1 H2].
  apply N.leb_le in H1, H2.
  repeat split; repeat (apply orb_false_iff; split); apply N.eqb_neq; lia.
Qed.
Lemma sign_excl c : is_sign c = true -> is_dot c = false /\ is_exp c = false.
Proof.
  unfold is_sign, is_dot, is_exp. intros H. apply orb_true_iff in H.
  destruct H as [H|H]; apply N.eqb_eq in H; subst; split; reflexivity.
Qed.
Lemma dot_excl c : is_dot c = true -> is_exp c = false.
Proof. unfold is_dot, is_exp. intros H. apply N.eqb_eq in H. subst. reflexivity. Qed.

Lemma cls_range lo hi c : lo <= c -> c <= hi -> In (cls c) (syms_of_range lo hi).
Proof.
  intros H1 H2. unfold syms_of_range, cls.
  destruct (is_digit c) eqn:D.
  { unfold is_digit in D. apply andb_true_iff in D as [Da Db]. apply N.leb_le in Da, Db.
    apply in_or_app. left. unfold overlaps.
    replace (lo <=? 57) with true by (symmetry; apply N.leb_le; lia).
    replace (48 <=? hi) with true by (symmetry; apply N.leb_le; lia). left. reflexivity. }
  apply in_or_app. right.
  destruct (is_sign c) eqn:S.
  { apply in_or_app. left. unfold is_sign in S. apply orb_true_iff in S.
    destruct S as [S|S]; apply N.eqb_eq in S; subst c; unfold has.
    - replace (lo <=? 43) with true by (symmetry; apply N.leb_le; lia).
      replace (43 <=? hi) with true by (symmetry; apply N.leb_le; lia). left. reflexivity.
    - replace (lo <=? 45) with true by (symmetry; apply N.leb_le; lia).
      replace (45 <=? hi) with true by (symmetry; apply N.leb_le; lia).
      rewrite orb_true_r. left. reflexivity. }
  apply in_or_app. right.
  destruct (is_dot c) eqn:T.
  { apply in_or_app. left. unfold is_dot in T. apply N.eqb_eq in T. subst c. unfold has.
    replace (lo <=? 46) with true by (symmetry; apply N.leb_le; lia).
    replace (46 <=? hi) with true by (symmetry; apply N.leb_le; lia). left. reflexivity. }
  apply in_or_app. right.
  destruct (is_exp c) eqn:X.
  { apply in_or_app. left. unfold is_exp in X. apply orb_true_iff in X.
    destruct X as [X|X]; apply N.eqb_eq in X; subst c; unfold has.
    - replace (lo <=? 101) with true by (symmetry; apply N.leb_le; lia).
      replace (101 <=? hi) with true by (symmetry; apply N.leb_le; lia).
      rewrite orb_true_r. left. reflexivity.
    - replace (lo <=? 69) with true by (symmetry; apply N.leb_le; lia).
      replace (69 <=? hi) with true by (symmetry; apply N.leb_le; lia). left. reflexivity. }
  apply in_or_app. right.
  (* c is none of the fifteen numeric characters: it lies in one of the gaps *)
  unfold is_digit in D. unfold is_sign in S. unfold is_dot in T. unfold is_exp in X.
  apply orb_false_iff in S as [S1 S2]. apply orb_false_iff in X as [X1 X2].
  apply N.eqb_neq in S1, S2, T, X1, X2.
  assert (G : c <= 42 \/ c = 44 \/ c = 47 \/ (58 <= c /\ c <= 68) \/ (70 <= c /\ c <= 100) \/ 102 <= c).
  { apply andb_false_iff in D. destruct D as [D|D]; [apply N.leb_gt in D | apply N.leb_gt in D]; lia. }
  assert (E : (overlaps lo hi 0 42 || has lo hi 44 || has lo hi 47 || overlaps lo hi 58 68
               || overlaps lo hi 70 100 || (102 <=? hi)) = true).
  { unfold overlaps, has.
    destruct G as [G|[G|[G|[G|[G|G]]]]].
    - replace (lo <=? 42) with true by (symmetry; apply N.leb_le; lia).
      replace (0 <=? hi) with true by (symmetry; apply N.leb_le; lia). reflexivity.
    - subst c. replace (lo <=? 44) with true by (symmetry; apply N.leb_le; lia).
      replace (44 <=? hi) with true by (symmetry; apply N.leb_le; lia).
      cbn. rewrite !orb_true_r. reflexivity.
    - subst c. replace (lo <=? 47) with true by (symmetry; apply N.leb_le; lia).
      replace (47 <=? hi) with true by (symmetry; apply N.leb_le; lia).
      cbn. rewrite !orb_true_r. reflexivity.
    - replace (lo <=? 68) with true by (symmetry; apply N.leb_le; lia).
      replace (58 <=? hi) with true by (symmetry; apply N.leb_le; lia).
      cbn. rewrite !orb_true_r. reflexivity.
    - replace (lo <=? 100) with true by (symmetry; apply N.leb_le; lia).
      replace (70 <=? hi) with true by (symmetry; apply N.leb_le; lia).
      cbn. rewrite !orb_true_r. reflexivity.
    - replace (102 <=? hi) with true by (symmetry; apply N.leb_le; lia).
      rewrite !orb_true_r. reflexivity. }
  rewrite E. left. reflexivity.
Qed.

Lemma cls_any c : In (cls c) [K_DIGIT; K_SIGN; K_DOT; K_EXP; K_OTHER].
Proof.
  unfold cls. destruct (is_digit c); [cbn; tauto|]. destruct (is_sign c); [cbn; tauto|].
  destruct (is_dot c); [cbn; tauto|]. destruct (is_exp c); cbn; tauto.
Qed.

Lemma cls_char fold c d : char_match fold c d -> In (cls d) (syms_of_char fold c).
Proof.
  unfold syms_of_char. intros [->|[-> H]]; [left; reflexivity|]. right. apply in_map. exact H.
Qed.

(* ---- closure ---- *)

Lemma grow_incl f n : forall s t p, grow f n s = Some t -> In p s -> In p t.
Proof.
  induction n as [|n IH]; intros s t p H Hp; cbn in H.
  - injection H as <-. exact Hp.
  - destruct (f s) as [u|]; cbn in H; [|discriminate].
    apply (IH _ _ _ H). apply dedup_In. apply in_or_app. left. exact Hp.
Qed.

Lemma close_spec f s t :
  close f s = Some t ->
  (forall p, In p s -> In p t) /\ exists u, f t = Some u /\ forall p, In p u -> In p t.
Proof.
  unfold close. destruct (grow f 12 s) as [t0|] eqn:G; cbn; [|discriminate].
  destruct (f t0) as [u|] eqn:F; cbn; [|discriminate].
  destruct (subset u t0) eqn:S; [|discriminate]. intros H. injection H as <-. split.
  - intros p Hp. exact (grow_incl _ _ _ _ _ G Hp).
  - exists u. split; [exact F|]. intros p Hp. exact (subset_In _ _ _ S Hp).
Qed.

Section Post.
Variable d : dfa.

Lemma lit_sound fold : forall cs w, Forall2 (char_match fold) cs w ->
  forall s p, In p s -> In (run d p w) (fold_left (fun s c => step_set d s (syms_of_char fold c)) cs s).
Proof.
  induction 1 as [|c x cs w Hc _ IH]; intros s p Hp; cbn; [exact Hp|].
  apply IH. apply step_set_In; [exact Hp | apply cls_char; exact Hc].
Qed.

(* from a set closed under the body, a star match stays in the set *)
Lemma star_sound (r : re) (t u : list nat) :
  (forall w, matches r w -> forall s t p, post d r s = Some t -> In p s -> In (run d p w) t) ->
  post d r t = Some u -> (forall p, In p u -> In p t) ->
  forall ws, Forall (matches r) ws -> forall p, In p t -> In (run d p (concat ws)) t.
Proof.
  intros IH F C ws H. induction H as [|w ws Hw _ IHws]; intros p Hp; cbn; [exact Hp|].
  rewrite run_app. apply IHws. apply C. exact (IH w Hw t u p F Hp).
Qed.

Lemma post_sound_all :
  (forall r w, matches r w -> forall s t p, post d r s = Some t -> In p s -> In (run d p w) t) /\
  (forall l,
    (forall w, matches_cat l w -> forall s t p, post_cat d l s = Some t -> In p s -> In (run d p w) t) /\
    (forall w, matches_alt l w -> forall s t p, post_alt d l s = Some t -> In p s -> In (run d p w) t)).
Proof.
  apply re_mutind.
  - (* RLit *) intros fold cs w H s t p E Hp. inversion H; subst. cbn in E. injection E as <-.
    apply lit_sound; assumption.
  - (* RClass *) intros rs w H s t p E Hp. inversion H; subst. cbn in E. injection E as <-. cbn.
    apply step_set_In; [exact Hp|]. apply in_flat_map. exists (lo, hi). split; [assumption|].
    cbn. apply cls_range; assumption.
  - (* RAny *) intros nl w H s t p E Hp. inversion H; subst. cbn in E. injection E as <-. cbn.
    apply step_set_In; [exact Hp | apply cls_any].
  - (* RZero *) intros w H s t p E Hp. inversion H; subst. cbn in E. injection E as <-. exact Hp.
  - (* RNone *) intros w H. inversion H.
  - (* RStar *) intros r IH w H s t p E Hp. cbn in E.
    destruct (close_spec _ _ _ E) as [I [u [F C]]].
    destruct (star_split _ _ H) as [ws [-> Hws]].
    apply (star_sound r t u IH F C ws Hws). apply I. exact Hp.
  - (* RPlus *) intros r IH w H s t p E Hp. inversion H; subst. cbn in E.
    destruct (post d r s) as [t1|] eqn:P1; cbn in E; [|discriminate].
    destruct (close_spec _ _ _ E) as [I [u [F C]]].
    match goal with Hb : matches r ?a, Hs : matches (RStar r) ?b |- _ =>
      destruct (star_split _ _ Hs) as [ws [-> Hws]];
      rewrite run_app; apply (star_sound r t u IH F C ws Hws); apply I;
      exact (IH a Hb s t1 p P1 Hp)
    end.
  - (* RQuest *) intros r IH w H s t p E Hp. cbn in E.
    destruct (post d r s) as [t1|] eqn:P1; cbn in E; [|discriminate]. injection E as <-.
    apply dedup_In. apply in_or_app. inversion H; subst.
    + left. exact Hp.
    + right. match goal with Hb : matches r w |- _ => exact (IH w Hb s t1 p P1 Hp) end.
  - (* RCap *) intros r IH w H s t p E Hp. inversion H; subst. cbn in E.
    match goal with Hb : matches r w |- _ => exact (IH w Hb s t p E Hp) end.
  - (* RCat *) intros l [IH _] w H s t p E Hp. inversion H; subst. cbn in E.
    match goal with Hb : matches_cat l w |- _ => exact (IH w Hb s t p E Hp) end.
  - (* RAlt *) intros l [_ IH] w H s t p E Hp. inversion H; subst. cbn in E.
    match goal with Hb : matches_alt l w |- _ => exact (IH w Hb s t p E Hp) end.
  - (* cat RNil / alt RNil *) split.
    + intros w H s t p E Hp. inversion H; subst. cbn in E. injection E as <-. exact Hp.
    + intros w H. inversion H.
  - (* RCons *) intros r IHr l [IHc IHa]. split.
    + intros w H s t p E Hp. inversion H; subst. cbn in E.
      destruct (post d r s) as [t1|] eqn:P1; cbn in E; [|discriminate].
      match goal with Hb : matches r ?a, Hc : matches_cat l ?b |- _ =>
        rewrite run_app; apply (IHc b Hc t1 t _ E); exact (IHr a Hb s t1 p P1 Hp)
      end.
    + intros w H s t p E Hp. cbn in E.
      destruct (post d r s) as [t1|] eqn:P1; cbn in E; [|discriminate].
      destruct (post_alt d l s) as [t2|] eqn:P2; cbn in E; [|discriminate]. injection E as <-.
      apply dedup_In. apply in_or_app. inversion H; subst.
      * left. match goal with Hb : matches r w |- _ => exact (IHr w Hb s t1 p P1 Hp) end.
      * right. match goal with Hb : matches_alt l w |- _ => exact (IHa w Hb s t2 p P2 Hp) end.
Qed.

Lemma included_sound r w : included d r = true -> matches r w -> accepts d w = true.
Proof.
  unfold included, accepts. destruct (post d r [d_start d]) as [t|] eqn:P; [|discriminate].
  intros A H. rewrite forallb_forall in A. apply A.
  apply (proj1 post_sound_all r w H [d_start d] t (d_start d) P). left. reflexivity.
Qed.
End Post.

(* ======================================================================= *)
(* the automata accept exactly the two shapes                               *)
(* ======================================================================= *)

Ltac kinds c :=
  unfold cls;
  let D := fresh "D" in let S := fresh "S" in let T := fresh "T" in let X := fresh "X" in
  destruct (is_digit c) eqn:D;
  [ destruct (digit_excl c D) as [S [T X]]
  | destruct (is_sign c) eqn:S;
    [ destruct (sign_excl c S) as [T X]
    | destruct (is_dot c) eqn:T;
      [ pose proof (dot_excl c T) as X
      | destruct (is_exp c) eqn:X ] ] ];
  repeat (cbn; rewrite ?D, ?S, ?T, ?X); try reflexivity.

Definition int_from (q : nat) (w : list N) : bool :=
  match q with
  | 0 => int_shape w
  | 1 => nonempty w && forallb is_digit w
  | 2 => forallb is_digit w
  | _ => false
  end%nat.

Lemma int_dfa_from : forall w q, d_acc int_dfa (run int_dfa q w) = int_from q w.
Proof.
  induction w as [|c w IH]; intros q.
  - destruct q as [|[|[|q]]]; reflexivity.
  - cbn [run]. rewrite IH.
    destruct q as [|[|[|q]]]; unfold int_from, int_shape, strip_sign; kinds c.
Qed.

Lemma int_dfa_shape w : accepts int_dfa w = int_shape w.
Proof. exact (int_dfa_from w 0%nat). Qed.

Definition after_int (w : list N) : bool :=
  match drop_digits w with
  | c :: r => if is_dot c then opt_exp (drop_digits r) else opt_exp (c :: r)
  | [] => true
  end.
Definition float_body (m : list N) : bool :=
  if starts_digit m then after_int m
  else match m with
       | c :: r => is_dot c && starts_digit r && opt_exp (drop_digits r)
       | [] => false
       end.
Definition float_from (q : nat) (w : list N) : bool :=
  match q with
  | 0 => float_shape w
  | 1 => float_body w
  | 2 => after_int w
  | 3 | 5 => opt_exp (drop_digits w)
  | 4 => starts_digit w && opt_exp (drop_digits w)
  | 6 => (let d := strip_sign w in nonempty d && forallb is_digit d)
  | 7 => nonempty w && forallb is_digit w
  | 8 => forallb is_digit w
  | _ => false
  end%nat.

Lemma float_dfa_from : forall w q, d_acc float_dfa (run float_dfa q w) = float_from q w.
Proof.
  induction w as [|c w IH]; intros q.
  - do 10 (destruct q as [|q]; [reflexivity|]). reflexivity.
  - cbn [run]. rewrite IH.
    do 10 (destruct q as [|q];
           [unfold float_from, float_shape, float_body, after_int, opt_exp, exp_shape, strip_sign, starts_digit;
            kinds c|]).
    unfold float_from; kinds c.
Qed.

Lemma float_dfa_shape w : accepts float_dfa w = float_shape w.
Proof. exact (float_dfa_from w 0%nat). Qed.

(* ---- the reference's decision procedure is sound ---- *)

Lemma cap_spec_sound r w :
  matches r w ->
  (cap_spec r = TInt -> int_shape w = true) /\ (cap_spec r = TFloat -> float_shape w = true).
Proof.
  intros H. unfold cap_spec. split.
  - destruct (included int_dfa r) eqn:I.
    + intros _. rewrite <- int_dfa_shape. exact (included_sound _ _ _ I H).
    + destruct (included float_dfa r); discriminate.
  - destruct (included int_dfa r); [discriminate|].
    destruct (included float_dfa r) eqn:F; [|discriminate].
    intros _. rewrite <- float_dfa_shape. exact (included_sound _ _ _ F H).
Qed.

(* ======================================================================= *)
(* the faithful model: what its character test guarantees                   *)
(* ======================================================================= *)

Lemma memN_In c s : memN c s = true <-> In c s.
Proof.
  induction s as [|x s IH]; cbn; [split; [discriminate | tauto]|].
  rewrite orb_true_iff, IH, N.eqb_eq. split; intros [H|H]; auto.
Qed.

Lemma In_nseq : forall n lo c, lo <= c -> c < lo + N.of_nat n -> In c (nseq lo n).
Proof.
  induction n as [|n IH]; intros lo c H1 H2; [lia|].
  cbn [nseq]. destruct (N.eq_dec lo c) as [->|Ne]; [left; reflexivity|].
  right. apply IH; lia.
Qed.

Lemma range_all_sound s lo hi c : range_all s lo hi = true -> lo <= c -> c <= hi -> memN c s = true.
Proof.
  unfold range_all. intros H H1 H2.
  replace (hi <? lo) with false in H by (symmetry; apply N.ltb_ge; lia).
  destruct (N.of_nat (length s) <? hi - lo + 1); [discriminate|].
  rewrite forallb_forall in H. apply H. apply In_nseq; [exact H1|]. rewrite N2Nat.id. lia.
Qed.

Section Only.
Variable s : list N.
Hypothesis closed : forall c d, memN c s = true -> In d (fold_orbit c) -> memN d s = true.
Let ok (w : list N) : Prop := Forall (fun c => memN c s = true) w.

Lemma only_sound_all :
  (forall r w, matches r w -> only s r = true -> ok w) /\
  (forall l w, matches_cat l w -> only_all s l = true -> ok w) /\
  (forall l w, matches_alt l w -> only_all s l = true -> ok w).
Proof.
  apply matches_mutind; unfold ok; cbn [only only_all]; intros.
  - (* MLit *) rewrite forallb_forall in H0.
    induction H as [|c x cs w Hc _ IH]; constructor.
    + destruct Hc as [->|[_ Ho]]; [apply H0; left; reflexivity|].
      apply (closed c); [apply H0; left; reflexivity | exact Ho].
    + apply IH. intros y Hy. apply H0. right. exact Hy.
  - (* MClass *) rewrite forallb_forall in H2. constructor; [|constructor].
    apply (range_all_sound s lo hi); [exact (H2 (lo, hi) H) | assumption | assumption].
  - discriminate.
  - discriminate.
  - constructor.
  - apply Forall_app. split; auto.
  - apply Forall_app. split; auto.
  - constructor.
  - auto.
  - auto.
  - auto.
  - auto.
  - constructor.
  - apply andb_true_iff in H3 as [Ha Hb]. apply Forall_app. split; auto.
  - apply andb_true_iff in H1 as [Ha Hb]. auto.
  - apply andb_true_iff in H1 as [Ha Hb]. auto.
Qed.
End Only.

Lemma int_set_closed c d : memN c int_set = true -> In d (fold_orbit c) -> memN d int_set = true.
Proof.
  intros H. apply memN_In in H. cbn in H.
  repeat (destruct H as [<-|H]; [cbn; tauto|]). destruct H.
Qed.

Lemma float_set_closed c d : memN c float_set = true -> In d (fold_orbit c) -> memN d float_set = true.
Proof.
  intros H. apply memN_In in H. cbn in H.
  repeat (destruct H as [<-|H]; [cbn; intros Hd; repeat (destruct Hd as [<-|Hd]; [reflexivity|]); destruct Hd|]).
  destruct H.
Qed.

Lemma int_set_chars c : memN c int_set = true -> int_char c = true.
Proof.
  intros H. apply memN_In in H. cbn in H. repeat (destruct H as [<-|H]; [reflexivity|]). destruct H.
Qed.
Lemma float_set_chars c : memN c float_set = true -> float_char c = true.
Proof.
  intros H. apply memN_In in H. cbn in H. repeat (destruct H as [<-|H]; [reflexivity|]). destruct H.
Qed.
Lemma int_float_char c : int_char c = true -> float_char c = true.
Proof. unfold float_char. intros ->. reflexivity. Qed.

Lemma group_type_only r :
  (group_type r = TInt -> only int_set r = true) /\ (group_type r = TFloat -> only float_set r = true).
Proof.
  unfold group_type.
  destruct (only sign_set r); [split; discriminate|].
  destruct (only int_set r).
  - split; [reflexivity|]. destruct (negb (str_digit r)); [discriminate|].
    destruct (is_alt r || is_class r); discriminate.
  - destruct (only float_set r); [|split; discriminate].
    split; [|reflexivity]. destruct (1 <? str_dots r); discriminate.
Qed.

Lemma group_type_chars r w :
  matches r w ->
  (group_type r = TInt -> Forall (fun c => int_char c = true) w) /\
  (group_type r = TFloat -> Forall (fun c => float_char c = true) w).
Proof.
  intros H. destruct (group_type_only r) as [GI GF]. split; intros E.
  - eapply Forall_impl; [exact int_set_chars|].
    exact (proj1 (only_sound_all int_set int_set_closed) r w H (GI E)).
  - eapply Forall_impl; [exact float_set_chars|].
    exact (proj1 (only_sound_all float_set float_set_closed) r w H (GF E)).
Qed.

(* Undef < Int < Float < String (and the non-type TBool) *)
Definition rk (t : ty) : nat := match t with TInt => 1 | TFloat => 2 | _ => 3 end.
Definition rko (a : option ty) : nat := match a with None => 0 | Some t => rk t end.

Lemma lub_ge a b : (rko a <= rko (lub a b))%nat /\ (rk b <= rko (lub a b))%nat.
Proof. destruct a as [[]|], b; cbn; lia. Qed.

Lemma lub_all_bound : forall l acc t, lub_all acc l = Some t ->
  (rko acc <= rk t)%nat /\
  forall w, matches_alt l w -> exists r, matches r w /\ (rk (group_type r) <= rk t)%nat.
Proof.
  induction l as [|r l IH]; intros acc t E; cbn in E.
  - subst acc. split; [cbn; lia|]. intros w H. inversion H.
  - destruct (IH _ _ E) as [B1 B2]. destruct (lub_ge acc (group_type r)) as [G1 G2]. split; [lia|].
    intros w H. inversion H; subst.
    + exists r. split; [assumption | lia].
    + apply B2. assumption.
Qed.

Lemma group_type_rk r : group_type r = TInt \/ group_type r = TFloat \/ group_type r = TStr.
Proof.
  unfold group_type. destruct (only sign_set r); [tauto|].
  destruct (only int_set r).
  - destruct (negb (str_digit r)); [tauto|]. destruct (is_alt r || is_class r); tauto.
  - destruct (only float_set r); [|tauto]. destruct (1 <? str_dots r); tauto.
Qed.

Lemma infer_alphabet r w :
  matches r w ->
  (infer_top r = TInt -> Forall (fun c => int_char c = true) w) /\
  (infer_top r = TFloat -> Forall (fun c => float_char c = true) w).
Proof.
  intros H.
  assert (ALT : forall l, matches_alt l w -> forall t, lub_all None l = Some t ->
            (t = TInt -> Forall (fun c => int_char c = true) w) /\
            (t = TFloat -> Forall (fun c => float_char c = true) w)).
  { intros l Hl t E. destruct (lub_all_bound l None t E) as [_ B].
    destruct (B w Hl) as [r' [Hr Rk]]. destruct (group_type_chars r' w Hr) as [CI CF].
    split; intros ->; cbn in Rk.
    - apply CI. destruct (group_type_rk r') as [G|[G|G]]; rewrite G in *; cbn in Rk; [reflexivity | lia | lia].
    - destruct (group_type_rk r') as [G|[G|G]]; rewrite G in *; cbn in Rk; [| apply CF; reflexivity | lia].
      eapply Forall_impl; [exact int_float_char | apply CI; reflexivity]. }
  destruct r; try exact (group_type_chars _ w H).
  cbn [infer_top]. inversion H; subst.
  destruct (lub_all None l) as [t|] eqn:E; [|split; discriminate].
  match goal with Hl : matches_alt l w |- _ => destruct (ALT l Hl t E) as [AI AF] end.
  split; intros ->; auto.
Qed.

(* ---- ... and what it does not guarantee ---- *)

(* \d* is typed Int and matches the empty string *)
Lemma infer_int_unsound :
  exists r w, matches r w /\ infer_top r = TInt /\ int_shape w = false.
Proof.
  exists (RStar (RClass [(48, 57)])), []. split; [constructor | split; reflexivity].
Qed.

(* [0-9.]+ is typed Float and matches "." (and 1.2.3) *)
Lemma infer_float_unsound :
  exists r w, matches r w /\ infer_top r = TFloat /\ float_shape w = false.
Proof.
  exists (RPlus (RClass [(46, 46); (48, 57)])), ([46] ++ []). split; [|split; reflexivity].
  apply MPlus; [|constructor]. apply (MClass _ 46 46); [left; reflexivity | lia | lia].
Qed.
