(* C14: the hand-over theorem lifted from one Store.Add call to the whole
   registration loop of CompileAndRun. *)
From V Require Import Metrics.StoreAdd Run.Loader Proofs.StoreAddProofs Proofs.LoaderIsolation Proofs.LoaderReload.
Local Open Scope N_scope.

Lemma nlookup_nupdate_same {A} k (x : A) m : nlookup k (nupdate k x m) = Some x.
Proof.
  induction m as [|[k' y] m IH]; cbn [nupdate nlookup].
  - rewrite N.eqb_refl. reflexivity.
  - destruct (N.eqb k k') eqn:E; cbn [nlookup]; [rewrite N.eqb_refl; reflexivity|rewrite E; exact IH].
Qed.

Lemma nlookup_nupdate_other {A} k k' (x : A) m : k' <> k -> nlookup k' (nupdate k x m) = nlookup k' m.
Proof.
  intros N. induction m as [|[k2 y] m IH]; cbn [nupdate nlookup].
  - destruct (N.eqb k' k) eqn:E; [apply N.eqb_eq in E; contradiction|reflexivity].
  - destruct (N.eqb k k2) eqn:E; cbn [nlookup].
    + apply N.eqb_eq in E. subst k2. destruct (N.eqb k' k) eqn:E2; [apply N.eqb_eq in E2; contradiction|reflexivity].
    + destruct (N.eqb k' k2); [reflexivity|exact IH].
Qed.

Section Lift.
Variable ce : bool.

(* an Add for another name and another object leaves the bucket, the data heap
   and the label values of every other object alone *)
Lemma add_other idx h p o2 d2 idx' h' :
  add ce idx h p o2 d2 = Some (idx', h') ->
  ph_data h' = ph_data h /\
  (forall name, name <> d_name d2 -> entries_of idx' name = entries_of idx name) /\
  (forall o, o <> o2 -> obj_lvs h' o = obj_lvs h o).
Proof.
  unfold add. destruct (kind_conflict _ _); [discriminate|]. intros E. injection E as <- <-.
  split; [reflexivity|]. split.
  - intros name N. apply entries_of_bupdate_other. exact N.
  - intros o N. unfold obj_lvs, set_obj_lvs. cbn [ph_lvs]. rewrite nlookup_nupdate_other by exact N. reflexivity.
Qed.

Definition apart (name : bytes) (oa ob : N) (ms : list (N * decl)) : Prop :=
  forall o2 d2, In (o2, d2) ms -> d_hidden d2 = false -> d_name d2 <> name /\ o2 <> oa /\ o2 <> ob.

Lemma register_frame p name oa ob : forall ms idx h idx' h' b,
  register ce idx h p ms = (idx', h', b) -> apart name oa ob ms ->
  ph_data h' = ph_data h /\ entries_of idx' name = entries_of idx name /\
  obj_lvs h' oa = obj_lvs h oa /\ obj_lvs h' ob = obj_lvs h ob.
Proof.
  induction ms as [|[o2 d2] r IH]; intros idx h idx' h' b E AP; cbn [register] in E.
  - injection E as <- <- <-. auto.
  - assert (APr : apart name oa ob r) by (intros o3 d3 I; apply AP; right; exact I).
    destruct (d_hidden d2) eqn:HD; [exact (IH _ _ _ _ _ E APr)|].
    destruct (add ce idx h p o2 d2) as [[i1 h1]|] eqn:A.
    + destruct (AP o2 d2 (or_introl eq_refl) HD) as (N1 & N2 & N3).
      destruct (add_other _ _ _ _ _ _ _ A) as (D & B & L).
      destruct (IH _ _ _ _ _ E APr) as (D' & B' & La & Lb).
      rewrite D', B', La, Lb, D, (B name) by congruence. rewrite !L by congruence. auto.
    + injection E as <- <- <-. auto.
Qed.

Lemma register_app p : forall ms1 ms2 idx h idx' h',
  register ce idx h p (ms1 ++ ms2) = (idx', h', true) ->
  exists i1 h1, register ce idx h p ms1 = (i1, h1, true) /\ register ce i1 h1 p ms2 = (idx', h', true).
Proof.
  induction ms1 as [|[o d] r IH]; intros ms2 idx h idx' h' E; cbn [app register] in *.
  - eauto.
  - destruct (d_hidden d); [exact (IH _ _ _ _ _ E)|].
    destruct (add ce idx h p o d) as [[i1 h1]|]; [exact (IH _ _ _ _ _ E)|discriminate].
Qed.

(* The registration loop of a successful load.  (o, d) is the metric of the
   running version, exported as the only entry of p with d's type and position
   in the bucket of d's name; the new version's table is ms1 ++ (o', d) :: ms2
   with the same descriptor d, every other exported declaration having another
   name (distinct exported names) and another object.  Then every cell of o is
   found in o' with the same datum object and the same expiry, the data heap is
   untouched, and the bucket holds the new entry instead of the old one. *)
Theorem register_keeps_data idx h p o o' d pre post ms1 ms2 idx' h' :
  entries_of idx (d_name d) = pre ++ mkentry p o d :: post ->
  (forall v, In v (pre ++ post) -> matches p d v = false) ->
  d_hidden d = false -> o <> o' ->
  apart (d_name d) o o' ms1 -> apart (d_name d) o o' ms2 ->
  NoDup (map sl_labels (obj_lvs h o)) -> NoDup (map sl_labels (obj_lvs h o')) ->
  register ce idx h p (ms1 ++ (o', d) :: ms2) = (idx', h', true) ->
  entries_of idx' (d_name d) = pre ++ post ++ [mkentry p o' d] /\
  ph_data h' = ph_data h /\
  forall ls x, lv_find ls (obj_lvs h o) = Some x ->
    lv_find ls (obj_lvs h' o') = Some (mkslv ls (sl_datum x) (if ce then sl_expiry x else 0%Z)).
Proof.
  intros B U HD NO A1 A2 N1 N2 R.
  destruct (register_app p _ _ _ _ _ _ R) as (i1 & h1 & R1 & R2).
  destruct (register_frame p _ o o' _ _ _ _ _ _ R1 A1) as (D1 & B1 & La1 & Lb1).
  cbn [register] in R2. rewrite HD in R2.
  destruct (add ce i1 h1 p o' d) as [[i2 h2]|] eqn:AD; [|discriminate].
  assert (K : kind_conflict (entries_of i1 (d_name d)) d = false).
  { unfold add in AD. destruct (kind_conflict _ _); [discriminate|reflexivity]. }
  rewrite <- La1 in N1. rewrite <- Lb1 in N2. rewrite <- B1 in B.
  destruct (add_keeps_data ce i1 h1 p o o' d pre post B U K NO N1 N2) as (i & g & AD' & E & D2 & Lo & F).
  rewrite AD in AD'. injection AD' as <- <-.
  destruct (register_frame p _ o o' _ _ _ _ _ _ R2 A2) as (D3 & B3 & La3 & Lb3).
  split; [rewrite B3; exact E|]. split; [congruence|].
  intros ls x Fx. rewrite Lb3. apply F. rewrite La1. exact Fx.
Qed.
End Lift.

(* ---- vm.New: the objects of the new version are fresh ---- *)
Definition heap_fresh (h : pheap) : Prop :=
  forall k l, nlookup k (ph_lvs h) = Some l -> k < ph_nexto h.

Lemma nlookup_app_some {A} k (a b : list (N * A)) x : nlookup k a = Some x -> nlookup k (a ++ b) = Some x.
Proof.
  induction a as [|[k' y] a IH]; cbn [nlookup app]; [discriminate|].
  destruct (N.eqb k k'); [auto|exact IH].
Qed.

Lemma nlookup_app_none {A} k (a b : list (N * A)) : nlookup k a = None -> nlookup k (a ++ b) = nlookup k b.
Proof.
  induction a as [|[k' y] a IH]; cbn [nlookup app]; [reflexivity|].
  destruct (N.eqb k k'); [discriminate|exact IH].
Qed.

Lemma fresh_none h k : heap_fresh h -> ph_nexto h <= k -> nlookup k (ph_lvs h) = None.
Proof.
  intros F L. destruct (nlookup k (ph_lvs h)) eqn:E; [|reflexivity]. apply F in E. lia.
Qed.

Lemma alloc_obj_spec h d h1 o :
  alloc_obj h d = (h1, o) -> heap_fresh h ->
  o = ph_nexto h /\ ph_nexto h1 = N.succ o /\ heap_fresh h1 /\
  (forall k l, nlookup k (ph_lvs h) = Some l -> nlookup k (ph_lvs h1) = Some l) /\
  (forall k x, nlookup k (ph_data h) = Some x -> nlookup k (ph_data h1) = Some x) /\
  (length (obj_lvs h1 o) <= 1)%nat.
Proof.
  intros E F. unfold alloc_obj in E.
  assert (G : forall lv dat nd, (length lv <= 1)%nat ->
    let h1 := mkph (ph_lvs h ++ [(ph_nexto h, lv)]) (ph_data h ++ dat) (N.succ (ph_nexto h)) nd in
    ph_nexto h = ph_nexto h /\ ph_nexto h1 = N.succ (ph_nexto h) /\ heap_fresh h1 /\
    (forall k l, nlookup k (ph_lvs h) = Some l -> nlookup k (ph_lvs h1) = Some l) /\
    (forall k x, nlookup k (ph_data h) = Some x -> nlookup k (ph_data h1) = Some x) /\
    (length (obj_lvs h1 (ph_nexto h)) <= 1)%nat).
  { intros lv dat nd LL. cbn zeta. split; [reflexivity|]. split; [reflexivity|]. split.
    - intros k l. cbn [ph_lvs ph_nexto]. destruct (nlookup k (ph_lvs h)) eqn:E1.
      + rewrite (nlookup_app_some _ _ _ _ E1). intros _. apply F in E1. lia.
      + rewrite (nlookup_app_none _ _ _ E1). cbn [nlookup]. destruct (N.eqb k (ph_nexto h)) eqn:E2; intros X; [|discriminate X].
        apply N.eqb_eq in E2. lia.
    - split; [intros k l; cbn [ph_lvs]; apply nlookup_app_some|].
      split; [intros k x; cbn [ph_data]; apply nlookup_app_some|].
      unfold obj_lvs. cbn [ph_lvs]. rewrite nlookup_app_none by (apply fresh_none; [exact F|lia]).
      cbn [nlookup]. rewrite N.eqb_refl. exact LL. }
  destruct (prealloc d); injection E as <- <-.
  - apply (G [mkslv [] (ph_nextd h) 0%Z] [(ph_nextd h, mkdatum (zero_dval (d_type d)) 0%Z)] (N.succ (ph_nextd h))). cbn. lia.
  - pose proof (G [] [] (ph_nextd h)) as G0. rewrite app_nil_r in G0. apply G0. cbn. lia.
Qed.

Lemma alloc_objs_spec : forall ds h h1 objs,
  alloc_objs h ds = (h1, objs) -> heap_fresh h ->
  ph_nexto h <= ph_nexto h1 /\ heap_fresh h1 /\
  (forall k l, nlookup k (ph_lvs h) = Some l -> nlookup k (ph_lvs h1) = Some l) /\
  (forall k x, nlookup k (ph_data h) = Some x -> nlookup k (ph_data h1) = Some x) /\
  (forall o d, In (o, d) objs -> ph_nexto h <= o < ph_nexto h1 /\ (length (obj_lvs h1 o) <= 1)%nat) /\
  NoDup (map fst objs).
Proof.
  induction ds as [|d ds IH]; intros h h1 objs E F; cbn [alloc_objs] in E.
  - injection E as <- <-. split; [lia|]. split; [exact F|]. split; [auto|]. split; [auto|].
    split; [intros o d []|constructor].
  - destruct (alloc_obj h d) as [ha o] eqn:A. destruct (alloc_objs ha ds) as [hb l] eqn:B. injection E as <- <-.
    destruct (alloc_obj_spec _ _ _ _ A F) as (Eo & En & Fa & La & Da & Ln).
    destruct (IH _ _ _ B Fa) as (Le & Fb & Lb & Db & Ob & ND).
    split; [lia|]. split; [exact Fb|]. split; [intros k x H; apply Lb, La, H|]. split; [intros k x H; apply Db, Da, H|].
    split.
    + intros o2 d2 [I|I].
      * injection I as <- <-. split; [lia|].
        unfold obj_lvs in *. destruct (nlookup o (ph_lvs ha)) as [lv|] eqn:Q.
        -- rewrite (Lb _ _ Q). exact Ln.
        -- exfalso. revert Q. unfold alloc_obj in A.
           destruct (prealloc d); injection A as <- <-; cbn [ph_lvs];
             rewrite nlookup_app_none by (apply fresh_none; [exact F|lia]); cbn [nlookup]; rewrite N.eqb_refl; discriminate.
      * destruct (Ob _ _ I) as (R & LL). split; [lia|exact LL].
    + cbn [map fst]. constructor; [|exact ND]. intros I. apply in_map_iff in I. destruct I as ([o2 d2] & E2 & I).
      cbn [fst] in E2. subst o2. destruct (Ob _ _ I) as (R & _). lia.
Qed.

Section LoadLevel.
Variable ce c2 omit : bool.
Variable compile : bytes -> N -> option (list decl).

(* C14_keep_decl_keeps_data for a whole successful CompileAndRun *)
Theorem load_keeps_data st p src st' o d pre post lvs0 :
  load_r ce c2 omit compile st p src = (st', LLoaded) ->
  let h := ps_heap (getp p st) in
  heap_fresh h -> nlookup o (ph_lvs h) = Some lvs0 ->
  entries_of (st_index st) (d_name d) = pre ++ mkentry p o d :: post ->
  (forall v, In v (pre ++ post) -> matches p d v = false) ->
  d_hidden d = false ->
  NoDup (map sl_labels (obj_lvs h o)) ->
  forall hd' ms1 o' ms2,
    ps_handle (getp p st') = Some hd' -> h_objs hd' = ms1 ++ (o', d) :: ms2 ->
    (forall o2 d2, In (o2, d2) (ms1 ++ ms2) -> d_hidden d2 = false -> d_name d2 <> d_name d) ->
    let h' := ps_heap (getp p st') in
    h_src hd' = src /\
    entries_of (st_index st') (d_name d) = pre ++ post ++ [mkentry p o' d] /\
    forall ls x, lv_find ls (obj_lvs h o) = Some x ->
      lv_find ls (obj_lvs h' o') = Some (mkslv ls (sl_datum x) (if ce then sl_expiry x else 0%Z)) /\
      forall dd, nlookup (sl_datum x) (ph_data h) = Some dd -> nlookup (sl_datum x) (ph_data h') = Some dd.
Proof.
  intros LR h HF AL B U HD ND hd' ms1 o' ms2 HH HO NM h'.
  unfold Loader.load_r in LR. fold h in LR.
  destruct (match ps_handle (getp p st) with Some hd => N.eqb (h_src hd) src | None => false end); [discriminate|].
  destruct (compile p src) as [ds|]; [|discriminate].
  destruct (alloc_objs h ds) as [h1 objs0] eqn:AO.
  set (objs := map (fun od => (fst od, strip omit (snd od))) objs0) in *.
  destruct (register ce (st_index st) h1 p objs) as [[idx h2] [|]] eqn:R; [|discriminate].
  injection LR as <-.
  unfold h' in *. rewrite getp_bupdate_same in *. cbn [ps_handle ps_heap st_index] in *.
  injection HH as <-. cbn [h_objs h_src] in *.
  destruct (alloc_objs_spec _ _ _ _ AO HF) as (Le & F1 & L1 & D1 & O1 & NDo).
  assert (FST : map fst objs = map fst objs0).
  { unfold objs. rewrite map_map. cbn [fst]. reflexivity. }
  assert (IDS : forall o2 d2, In (o2, d2) objs -> ph_nexto h <= o2 /\ (length (obj_lvs h1 o2) <= 1)%nat).
  { intros o2 d2 I. unfold objs in I. apply in_map_iff in I. destruct I as ([o3 d3] & E & I). cbn [fst snd] in E.
    injection E as <- _. destruct (O1 _ _ I) as (Rg & LL). split; [lia|exact LL]. }
  assert (OLT : o < ph_nexto h) by exact (HF _ _ AL).
  assert (IO' : In (o', d) objs) by (rewrite HO; apply in_or_app; right; left; reflexivity).
  destruct (IDS _ _ IO') as (GE' & LL').
  assert (NO : o <> o') by lia.
  assert (NI : ~ In o' (map fst ms1 ++ map fst ms2)).
  { rewrite <- FST, HO, map_app in NDo. cbn [map fst] in NDo. exact (NoDup_remove_2 _ _ _ NDo). }
  assert (AP : forall ms, incl ms (ms1 ++ ms2) -> (forall x, In x (map fst ms) -> In x (map fst ms1 ++ map fst ms2)) ->
               apart (d_name d) o o' ms).
  { intros ms IN INF o2 d2 I Hh. split; [apply (NM o2 d2); [apply IN; exact I|exact Hh]|].
    assert (In (o2, d2) objs).
    { rewrite HO. apply IN in I. apply in_app_or in I. apply in_or_app. destruct I; [left|right; right]; assumption. }
    destruct (IDS _ _ H) as (G2 & _). split; [lia|].
    intros ->. apply NI. apply INF. change o' with (fst (o', d2)). apply in_map. exact I. }
  assert (A1 : apart (d_name d) o o' ms1).
  { apply AP; [apply incl_appl, incl_refl|intros x I; apply in_or_app; left; exact I]. }
  assert (A2 : apart (d_name d) o o' ms2).
  { apply AP; [apply incl_appr, incl_refl|intros x I; apply in_or_app; right; exact I]. }
  assert (LO : obj_lvs h1 o = obj_lvs h o).
  { unfold obj_lvs. rewrite AL, (L1 _ _ AL). reflexivity. }
  assert (N1 : NoDup (map sl_labels (obj_lvs h1 o))) by (rewrite LO; exact ND).
  assert (N2 : NoDup (map sl_labels (obj_lvs h1 o'))).
  { destruct (obj_lvs h1 o') as [|a [|b r]]; cbn [map]; [constructor|constructor; [intros []|constructor]|cbn in LL'; lia]. }
  rewrite HO in R.
  destruct (register_keeps_data ce _ _ _ _ _ _ _ _ _ _ _ _ B U HD NO A1 A2 N1 N2 R) as (E & DD & F).
  split; [reflexivity|]. split; [exact E|].
  intros ls x Fx. split; [apply F; rewrite LO; exact Fx|].
  intros dd Q. rewrite DD. apply D1. exact Q.
Qed.
End LoadLevel.
