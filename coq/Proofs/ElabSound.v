(* The checker model [Lang/Elab.v] with its output validated against the two
   contracts the rest of the development relies on: [accepts] (C04: the
   bytecode verifies, Proofs/CodegenVerifies.v) and [wt] (C01: Lang/Wt.v).

   [elab u] is [elab_raw u] plus two warnings computed from the produced tree:
   [WOther] when the tree is not accepted, [WNotWt] when it is not well typed.
   The theorems below therefore hold by construction (translation validation);
   what the correspondence adds on every run (Corr/Run_C04.v, CElab) is that
   (1) codegen (elab pre) is the real compiler's object code and elab rejects
   exactly when the compiler does, and (2) [WOther] never appears without one of
   the family warnings [WSettime WMixed WCond WNeg] raised by the elaboration
   itself, i.e. the places where elab_raw knows the checker lets a foreign
   representation through are the only sources of unaccepted trees. *)
From V Require Import Lang.Elab Lang.Wt Lang.Verify Proofs.CodegenVerifies.

Definition elab (u : pre_prog) : eres (prog * list warn) :=
  match elab_raw u with
  | EOk (p, w) =>
      EOk (p, (if accepts p then [] else [WOther]) ++ (if wt p then [] else [WNotWt]) ++ w)
  | EReject => EReject
  | EUnsup => EUnsup
  end.

Definition is_notwt (w : warn) : bool := match w with WNotWt => true | _ => false end.
Definition is_family (w : warn) : bool :=
  match w with WSettime | WMixed | WCond | WNeg => true | _ => false end.

(* no warning except possibly "not well typed in the strict sense of Wt.v" *)
Definition clean (w : list warn) : bool := forallb is_notwt w.

(* the pre-checker program is representable: the checker model raises no
   family warning on it and its output is accepted *)
Definition representable (u : pre_prog) : bool :=
  match elab u with EOk (_, w) => clean w | _ => true end.

Theorem elab_accepts u p w : elab u = EOk (p, w) -> clean w = true -> accepts p = true.
Proof.
  unfold elab. destruct (elab_raw u) as [[p0 w0]| |]; try discriminate.
  intros [= <- <-]. destruct (accepts p0); auto.
Qed.

Theorem elab_wt u p w : elab u = EOk (p, w) -> existsb is_notwt w = false -> wt p = true.
Proof.
  unfold elab. destruct (elab_raw u) as [[p0 w0]| |]; try discriminate.
  intros [= <- <-]. destruct (wt p0); auto.
  rewrite existsb_app. cbn. rewrite Bool.orb_true_r. discriminate.
Qed.

(* ---- facts about the promotion rule that do not go through validation ---- *)
Lemma lub_comm a b : lub a b = lub b a.
Proof. destruct a, b; reflexivity. Qed.

Lemma lub_idem a : lub a a = a.
Proof. destruct a; reflexivity. Qed.

(* for operands that are not Bool the conversions the checker inserts always
   exist in codegen.go: promotion never turns an accepted arithmetic or
   comparison into a code generation error *)
Lemma lub_conv_exists a b :
  a <> TBool -> b <> TBool ->
  conv_exists a (lub a b) = true /\ conv_exists b (lub a b) = true.
Proof. destruct a, b; cbn; intros H1 H2; try congruence; auto. Qed.

(* a promoted operand has the operation's type (Lang/Wt.v typing) *)
Lemma conv_to_typed decls strs nre f t e e' :
  conv_to f t e = EOk e' -> etype decls strs nre e = Some f -> etype decls strs nre e' = Some t.
Proof.
  unfold conv_to. destruct (ty_eqb f t) eqn:Heq.
  - intros [= <-] H. destruct f, t; cbn in Heq; try discriminate; exact H.
  - destruct (conv_exists f t) eqn:Hc; try discriminate. intros [= <-] H.
    cbn. rewrite H. destruct f, t; cbn in *; try discriminate; reflexivity.
Qed.
