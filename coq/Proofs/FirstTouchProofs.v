(* C11 - first-touch: with find-and-create in one critical section every
   schedule ends with one label set holding the sum; the split version loses
   increments. *)
From Coq Require Import List ZArith Arith Bool Lia.
Import ListNotations.
From V Require Import Export.FirstTouch.

Definition contrib (t : thr) : Z := if Nat.eqb (pc t) 2 then delta t else 0%Z.
Definition sumdone (l : list thr) : Z := zsum (map contrib l).

Lemma sumdone_upd l : forall i old a, nth_error l i = Some old ->
  sumdone (upd_nth l i a) = (sumdone l - contrib old + contrib a)%Z.
Proof.
  induction l as [|x r IH]; intros i old a H.
  - destruct i; discriminate.
  - destruct i as [|j]; simpl in H.
    + inversion H; subst. unfold sumdone. simpl. lia.
    + unfold sumdone in *. simpl. rewrite (IH j old a H). lia.
Qed.

Lemma In_upd {A} (l : list A) : forall i a x, In x (upd_nth l i a) -> x = a \/ In x l.
Proof.
  induction l as [|y r IH]; intros i a x H.
  - destruct i; destruct H.
  - destruct i as [|j]; simpl in H.
    + destruct H as [<-|H]; [left; reflexivity|right; right; exact H].
    + destruct H as [<-|H]; [right; left; reflexivity|].
      destruct (IH j a x H) as [E|E]; [left; exact E|right; right; exact E].
Qed.

Lemma map_delta_upd l : forall i old a, nth_error l i = Some old -> delta a = delta old ->
  map delta (upd_nth l i a) = map delta l.
Proof.
  induction l as [|x r IH]; intros i old a H E.
  - destruct i; discriminate.
  - destruct i as [|j]; simpl in H.
    + inversion H; subst. simpl. congruence.
    + simpl. f_equal. eapply IH; eauto.
Qed.

Definition Inv (deltas : list Z) (s : ft) : Prop :=
  map delta (ths s) = deltas /\
  ((idx s = None /\ lvcount s = 0 /\ vals s = [] /\ forall t, In t (ths s) -> pc t = 0) \/
   (idx s = Some 0 /\ lvcount s = 1 /\ vals s = [sumdone (ths s)] /\
    forall t, In t (ths s) -> (pc t = 1 \/ pc t = 2 -> dat t = 0) /\ pc t <= 2)).

Lemma Inv_init deltas : Inv deltas (init deltas).
Proof.
  split.
  - unfold init. simpl. rewrite map_map. simpl. apply map_id.
  - left. unfold init. simpl. repeat split; try reflexivity.
    intros t Hi. apply in_map_iff in Hi. destruct Hi as (d & <- & _). reflexivity.
Qed.

Lemma Inv_step deltas s i : Inv deltas s -> Inv deltas (step_atomic s i).
Proof.
  intros [Hd HI]. unfold step_atomic.
  destruct (nth_error (ths s) i) as [t|] eqn:Ht; [|split; assumption].
  assert (Hin : In t (ths s)) by (eapply nth_error_In; eauto).
  destruct (pc t) as [|[|n]] eqn:Hpc.
  - (* lookup-or-create *)
    destruct HI as [(Hi & Hc & Hv & Hp)|(Hi & Hc & Hv & Hp)].
    + rewrite Hi. split; simpl.
      * rewrite <- Hd. eapply map_delta_upd; eauto.
      * right. rewrite Hv, Hc. simpl. repeat split; try reflexivity.
        -- f_equal. rewrite (sumdone_upd _ _ _ _ Ht). unfold contrib. simpl. rewrite Hpc. simpl.
           assert (sumdone (ths s) = 0%Z).
           { unfold sumdone. clear -Hp. induction (ths s) as [|x r IH]; simpl; [reflexivity|].
             unfold contrib at 1. rewrite (Hp x (or_introl eq_refl)). simpl.
             rewrite IH; [reflexivity|]. intros t Hi. apply Hp. right. exact Hi. }
           lia.
        -- intros Hq. apply In_upd in H. destruct H as [->|H]; [reflexivity|].
           rewrite (Hp _ H) in Hq. destruct Hq; discriminate.
        -- apply In_upd in H. destruct H as [->|H]; simpl; [lia|]. rewrite (Hp _ H). lia.
    + rewrite Hi. split; simpl.
      * rewrite <- Hd. eapply map_delta_upd; eauto.
      * right. repeat split; try assumption.
        -- rewrite Hv. f_equal. rewrite (sumdone_upd _ _ _ _ Ht). unfold contrib. simpl. rewrite Hpc. simpl. lia.
        -- intros Hq. apply In_upd in H. destruct H as [->|H]; [reflexivity|]. apply (Hp _ H). exact Hq.
        -- apply In_upd in H. destruct H as [->|H]; simpl; [lia|]. apply (Hp _ H).
  - (* add *)
    destruct HI as [(Hi & Hc & Hv & Hp)|(Hi & Hc & Hv & Hp)].
    + rewrite (Hp _ Hin) in Hpc. discriminate.
    + assert (Hdat : dat t = 0) by (apply (Hp _ Hin); left; exact Hpc).
      split; simpl.
      * rewrite <- Hd. eapply map_delta_upd; eauto.
      * right. repeat split; try assumption.
        -- rewrite Hv, Hdat. simpl. f_equal. rewrite (sumdone_upd _ _ _ _ Ht).
           unfold contrib. simpl. rewrite Hpc. simpl. lia.
        -- intros Hq. apply In_upd in H. destruct H as [->|H]; [exact Hdat|]. apply (Hp _ H). exact Hq.
        -- apply In_upd in H. destruct H as [->|H]; simpl; [lia|]. apply (Hp _ H).
  - split; assumption.
Qed.

Lemma Inv_run deltas sched : forall s, Inv deltas s -> Inv deltas (run_atomic sched s).
Proof.
  induction sched as [|i r IH]; intros s H; simpl; [exact H|].
  apply IH. apply Inv_step. exact H.
Qed.

Lemma sumdone_all_done l : forallb (fun t => Nat.eqb (pc t) 2) l = true ->
  sumdone l = zsum (map delta l).
Proof.
  induction l as [|x r IH]; simpl; intros H; [reflexivity|].
  apply andb_prop in H. destruct H as [Hx Hr]. unfold sumdone in *. simpl.
  unfold contrib at 1. rewrite Hx. rewrite (IH Hr). reflexivity.
Qed.

Theorem first_touch_atomic (deltas : list Z) (sched : list nat) :
  deltas <> [] ->
  let s := run_atomic sched (init deltas) in
  done_atomic s = true ->
  lvcount s = 1 /\ idx s = Some 0 /\ vals s = [zsum deltas] /\ exported s = Some (zsum deltas).
Proof.
  intros Hne s Hdone.
  destruct (Inv_run deltas sched _ (Inv_init deltas)) as [Hd HI]. fold s in Hd, HI.
  unfold done_atomic in Hdone.
  destruct HI as [(Hi & Hc & Hv & Hp)|(Hi & Hc & Hv & Hp)].
  - exfalso. destruct (ths s) as [|t r] eqn:Et.
    + simpl in Hd. congruence.
    + simpl in Hdone. apply andb_prop in Hdone. destruct Hdone as [Ht _].
      rewrite (Hp t (or_introl eq_refl)) in Ht. discriminate.
  - assert (Hv' : vals s = [zsum deltas]).
    { rewrite Hv, (sumdone_all_done _ Hdone), Hd. reflexivity. }
    repeat split; try assumption. unfold exported. rewrite Hi, Hv'. reflexivity.
Qed.

(* the split version: two goroutines, one increment each, both miss, both create *)
Theorem first_touch_split_loses :
  let s := run_split [0; 1; 0; 1; 0; 1] (init [1%Z; 1%Z]) in
  done_split s = true /\ lvcount s = 2 /\ exported s = Some 1%Z /\ zsum [1%Z; 1%Z] = 2%Z.
Proof. vm_compute. repeat split; reflexivity. Qed.
