(* Effect-free expressions (Lang/Wt.v pure_expr): evaluation leaves the state
   alone, does not depend on the store, and ignores string-table indices.
   Needed for `+=` on a Float / text metric, whose index keys the VM evaluates
   twice (codegen.go emits the target twice). *)
From V Require Import Lang.RefSem Lang.Codegen Lang.Wt.
Local Open Scope Z_scope.

Section Pure.
Variable E : env.
Variable decls : list mdecl.
Variable file line : bytes.

Notation eval := (RefSem.eval E decls file line).
Notation eval_keys := (RefSem.eval_keys E decls file line).
Notation rbind := RefSem.bind.

Definition ws (s : rstate) (st : rstore) : rstate := RefSem.with_store s st.

Definition pure_spec (e : expr) : Prop :=
  forall s, match eval e s with
            | ROk v s' => s' = s /\ forall d st, eval (shift_expr d e) (ws s st) = ROk v (ws s st)
            | RAbort _ _ => True
            end.

Lemma conv_pure f t v s : match RefSem.conv E f t v s with
                          | ROk v' s' => s' = s /\ forall s2, RefSem.conv E f t v s2 = ROk v' s2
                          | RAbort _ _ => True end.
Proof.
  destruct f, t, v; cbn; auto;
    try (destruct (parse_int E s0 10 64); cbn; auto);
    try (destruct (parse_float E s0); cbn; auto).
Qed.

Ltac step_sub IH s :=
  let H := fresh "H" in
  pose proof (IH s) as H;
  match type of H with context [eval ?a s] => destruct (eval a s) as [?v ?s1|? ?] end;
  [destruct H as [-> ?Hsh] | cbn [RefSem.bind]; exact I].

Lemma pure_eval e : pure_expr e = true -> pure_spec e.
Proof.
  induction e as [z|b|sid str|pid grp t|from to e IHe|op t e1 IHe1 e2 IHe2|op e1 IHe1 e2 IHe2|e IHe
    |op t typed e1 IHe1 e2 IHe2|e1 IHe1 e2 IHe2|e1 IHe1 e2 IHe2|pid|neg e IHe pid|m ks|e IHe|e IHe
    |e1 IHe1 e2 IHe2|e1 IHe1 e2 IHe2 e3 IHe3|pid e1 IHe1 e2 IHe2| | |dec m ks];
    intros Hp; cbn [pure_expr] in Hp; try discriminate; intros s.
  - cbn. auto.
  - cbn. auto.
  - cbn. auto.
  - (* ECap *) cbn [RefSem.eval shift_expr]. unfold ws. cbn [RefSem.with_store rs_matches].
    destruct (lookup_match pid (rs_matches s)) as [gs|]; [|exact I].
    destruct (nth_error gs (N.to_nat grp)) as [x|]; [|exact I].
    pose proof (conv_pure TStr t (RStr x) s) as Hc. destruct (RefSem.conv E TStr t (RStr x) s); [|exact I].
    destruct Hc as [-> Hc]. split; [reflexivity|]. intros d st. apply Hc.
  - (* EConv *) change (eval (EConv from to e) s) with (rbind (eval e s) (fun v s1 => RefSem.conv E from to v s1)).
    step_sub (IHe Hp) s. cbn [RefSem.bind].
    pose proof (conv_pure from to v s) as Hc. destruct (RefSem.conv E from to v s); [|exact I].
    destruct Hc as [-> Hc]. split; [reflexivity|]. intros d st.
    change (eval (shift_expr d (EConv from to e)) (ws s st)) with
      (rbind (eval (shift_expr d e) (ws s st)) (fun v s1 => RefSem.conv E from to v s1)).
    rewrite Hsh. cbn [RefSem.bind]. apply Hc.
  - (* EArith *) apply andb_prop in Hp as [Hp1 Hp2].
    change (eval (EArith op t e1 e2) s) with
      (rbind (eval e1 s) (fun va s1 => rbind (eval e2 s1) (fun vb s2 => do_arith E op t va vb s2))).
    step_sub (IHe1 Hp1) s. cbn [RefSem.bind]. step_sub (IHe2 Hp2) s. cbn [RefSem.bind].
    assert (Hd : match do_arith E op t v v0 s with ROk v' s' => s' = s /\ forall s2, do_arith E op t v v0 s2 = ROk v' s2 | RAbort _ _ => True end).
    { destruct t, v, v0; cbn; auto. destruct op; cbn; auto; destruct (z0 =? 0); cbn; auto. }
    destruct (do_arith E op t v v0 s); [|exact I]. destruct Hd as [-> Hd]. split; [reflexivity|]. intros d st.
    change (eval (shift_expr d (EArith op t e1 e2)) (ws s st)) with
      (rbind (eval (shift_expr d e1) (ws s st)) (fun va s1 => rbind (eval (shift_expr d e2) s1) (fun vb s2 => do_arith E op t va vb s2))).
    rewrite Hsh. cbn [RefSem.bind]. rewrite Hsh0. cbn [RefSem.bind]. apply Hd.
  - (* EBit *) apply andb_prop in Hp as [Hp1 Hp2].
    change (eval (EBit op e1 e2) s) with
      (rbind (eval e1 s) (fun va s1 => rbind (eval e2 s1) (fun vb s2 => do_bit op va vb s2))).
    step_sub (IHe1 Hp1) s. cbn [RefSem.bind]. step_sub (IHe2 Hp2) s. cbn [RefSem.bind].
    assert (Hd : match do_bit op v v0 s with ROk v' s' => s' = s /\ forall s2, do_bit op v v0 s2 = ROk v' s2 | RAbort _ _ => True end).
    { destruct v, v0; cbn; auto. destruct op; cbn; auto; destruct ((z0 <? 0) || (max_int32 <=? z0)); cbn; auto. }
    destruct (do_bit op v v0 s); [|exact I]. destruct Hd as [-> Hd]. split; [reflexivity|]. intros d st.
    change (eval (shift_expr d (EBit op e1 e2)) (ws s st)) with
      (rbind (eval (shift_expr d e1) (ws s st)) (fun va s1 => rbind (eval (shift_expr d e2) s1) (fun vb s2 => do_bit op va vb s2))).
    rewrite Hsh. cbn [RefSem.bind]. rewrite Hsh0. cbn [RefSem.bind]. apply Hd.
  - (* ENeg *)
    change (eval (ENeg e) s) with
      (rbind (eval e s) (fun va s1 => match va with RInt z => ROk (RInt (i_not z)) s1 | _ => RefSem.fail REType s1 end)).
    step_sub (IHe Hp) s. cbn [RefSem.bind]. destruct v; try exact I. split; [reflexivity|]. intros d st.
    change (eval (shift_expr d (ENeg e)) (ws s st)) with
      (rbind (eval (shift_expr d e) (ws s st)) (fun va s1 => match va with RInt z => ROk (RInt (i_not z)) s1 | _ => RefSem.fail REType s1 end)).
    rewrite Hsh. reflexivity.
  - (* ELen *)
    change (eval (ELen e) s) with
      (rbind (eval e s) (fun va s1 => rbind (RefSem.as_str va s1) (fun x s2 => ROk (RInt (Z.of_nat (length x))) s2))).
    step_sub (IHe Hp) s. cbn [RefSem.bind]. destruct v; try exact I. cbn. split; [reflexivity|]. intros d st.
    change (eval (shift_expr d (ELen e)) (ws s st)) with
      (rbind (eval (shift_expr d e) (ws s st)) (fun va s1 => rbind (RefSem.as_str va s1) (fun x s2 => ROk (RInt (Z.of_nat (length x))) s2))).
    rewrite Hsh. reflexivity.
  - (* ETolower *)
    change (eval (ETolower e) s) with
      (rbind (eval e s) (fun va s1 => rbind (RefSem.as_str va s1) (fun x s2 => ROk (RStr (to_lower E x)) s2))).
    step_sub (IHe Hp) s. cbn [RefSem.bind]. destruct v; try exact I. cbn. split; [reflexivity|]. intros d st.
    change (eval (shift_expr d (ETolower e)) (ws s st)) with
      (rbind (eval (shift_expr d e) (ws s st)) (fun va s1 => rbind (RefSem.as_str va s1) (fun x s2 => ROk (RStr (to_lower E x)) s2))).
    rewrite Hsh. reflexivity.
  - cbn. auto.
  - cbn. auto.
Qed.

Lemma pure_keys_eval ks : pure_keys ks = true ->
  forall s, match eval_keys ks s with
            | ROk keys s' => s' = s /\ forall d st, eval_keys (shift_exprs d ks) (ws s st) = ROk keys (ws s st)
            | RAbort _ _ => True
            end.
Proof.
  induction ks as [|e r IH]; intros Hp s; [cbn; auto|].
  cbn [pure_keys] in Hp. apply andb_prop in Hp as [Hp1 Hp2].
  change (eval_keys (XCons e r) s) with
    (rbind (eval e s) (fun v s1 => rbind (RefSem.as_str v s1) (fun x s2 => rbind (eval_keys r s2) (fun xs s3 => ROk (x :: xs) s3)))).
  pose proof (pure_eval e Hp1 s) as H. destruct (eval e s) as [v s1|]; [|exact I]. destruct H as [-> Hsh].
  cbn [RefSem.bind]. destruct v; try exact I. cbn [RefSem.as_str RefSem.bind].
  pose proof (IH Hp2 s) as H2. destruct (eval_keys r s) as [xs s2|]; [|exact I]. destruct H2 as [-> Hsh2].
  cbn [RefSem.bind]. split; [reflexivity|]. intros d st.
  change (eval_keys (shift_exprs d (XCons e r)) (ws s st)) with
    (rbind (eval (shift_expr d e) (ws s st)) (fun v s1 => rbind (RefSem.as_str v s1) (fun x s2 => rbind (eval_keys (shift_exprs d r) s2) (fun xs s3 => ROk (x :: xs) s3)))).
  rewrite Hsh. cbn [RefSem.bind RefSem.as_str]. rewrite Hsh2. reflexivity.
Qed.

End Pure.
