(* Proofs about Metrics/Buckets.v.  Everything is proved for an arbitrary float
   type and arbitrary operations [O : fops F]; no order axiom on the comparison
   is needed except where stated as a hypothesis. *)
From V Require Import Metrics.Buckets.
Local Open Scope N_scope.

Section P.
Context {F : Type} (O : fops F).
Notation range := (@range F).
Notation bdatum := (@bdatum F).

(* increment the count at position i *)
Fixpoint bump_at (i : nat) (bs : list (range * N)) {struct bs} : list (range * N) :=
  match bs, i with
  | [], _ => []
  | (r, c) :: bs', 0%nat => (r, c + 1) :: bs'
  | b :: bs', S i' => b :: bump_at i' bs'
  end.

Definition maxes (bs : list (range * N)) : list F := map (fun rc => r_max (fst rc)) bs.

(* the property's choice of bucket, as a relation on the list of upper bounds *)
Definition is_target (v : F) (ms : list F) (i : nat) : Prop :=
  (i < length ms)%nat /\
  (forall j m, (j < i)%nat -> nth_error ms j = Some m -> f_leb O v m = false) /\
  ((exists m, nth_error ms i = Some m /\ f_leb O v m = true) \/
   (S i = length ms /\ forall m, In m ms -> f_leb O v m = false)).

Lemma bucket_index_cons2 v r c b bs' :
  bucket_index O v ((r, c) :: b :: bs') =
  if f_leb O v (r_max r) then 0%nat else S (bucket_index O v (b :: bs')).
Proof. reflexivity. Qed.

Lemma bucket_index_lt v bs : bs <> [] -> (bucket_index O v bs < length bs)%nat.
Proof.
  induction bs as [|[r c] bs IH]; [congruence|]. intros _.
  destruct bs as [|b bs']; [cbn; lia|].
  rewrite bucket_index_cons2. destruct (f_leb O v (r_max r)); [cbn; lia|].
  cbn [length]. apply -> Nat.succ_lt_mono. apply IH. discriminate.
Qed.

Lemma bump_first_is_bump_at v bs : bump_first O v bs = bump_at (bucket_index O v bs) bs.
Proof.
  induction bs as [|[r c] bs IH]; [reflexivity|].
  destruct bs as [|b bs']; [reflexivity|].
  rewrite bucket_index_cons2. cbn [bump_first]. destruct (f_leb O v (r_max r)); [reflexivity|].
  cbn [bump_at]. f_equal. exact IH.
Qed.

Lemma bucket_index_target v bs : bs <> [] -> is_target v (maxes bs) (bucket_index O v bs).
Proof.
  induction bs as [|[r c] bs IH]; [congruence|]. intros _.
  destruct bs as [|b bs'].
  - unfold is_target, maxes. cbn [bucket_index map length fst nth_error].
    split; [lia|]. split; [intros j m Hj; lia|].
    destruct (f_leb O v (r_max r)) eqn:E.
    + left. exists (r_max r). split; [reflexivity|exact E].
    + right. split; [reflexivity|]. intros m [<-|[]]. exact E.
  - rewrite bucket_index_cons2. destruct (f_leb O v (r_max r)) eqn:E.
    + unfold is_target, maxes. split; [cbn [map length]; lia|]. split; [intros j m Hj; lia|].
      left. exists (r_max r). split; [reflexivity|exact E].
    + destruct IH as (Hlt & Hbefore & Hat); [discriminate|].
      split; [cbn [maxes map length] in *; lia|]. split.
      * intros [|j] m Hj Hn.
        -- cbn in Hn. injection Hn as <-. exact E.
        -- apply (Hbefore j m); [lia|exact Hn].
      * destruct Hat as [(m & Hn & Hm)|(Hlast & Hall)].
        -- left. exists m. split; [exact Hn|exact Hm].
        -- right. split; [cbn [maxes map length] in *; lia|].
           intros m [<-|Hin]; [exact E|apply Hall; exact Hin].
Qed.

Lemma is_target_unique v ms i j : is_target v ms i -> is_target v ms j -> i = j.
Proof.
  intros (Hi & Bi & Ai) (Hj & Bj & Aj).
  destruct (Nat.lt_trichotomy i j) as [L|[E|L]]; [|exact E|]; exfalso.
  - destruct Ai as [(m & Hn & Hm)|(Hl & _)]; [|lia].
    rewrite (Bj i m L Hn) in Hm. discriminate.
  - destruct Aj as [(m & Hn & Hm)|(Hl & _)]; [|lia].
    rewrite (Bi j m L Hn) in Hm. discriminate.
Qed.

Lemma counts_bump_at i bs j :
  nth_error (map snd (bump_at i bs)) j =
  if Nat.eqb j i then option_map (fun c => c + 1) (nth_error (map snd bs) j)
  else nth_error (map snd bs) j.
Proof.
  revert i j. induction bs as [|[r c] bs IH]; intros i j.
  - destruct (Nat.eqb j i); destruct i; destruct j; reflexivity.
  - destruct i as [|i]; destruct j as [|j]; cbn; try reflexivity. apply IH.
Qed.

Lemma maxes_bump_at i bs : map fst (bump_at i bs) = map fst bs.
Proof.
  revert i; induction bs as [|[r c] bs IH]; intros [|i]; cbn; try reflexivity.
  f_equal. apply IH.
Qed.

Lemma sumN_bump_at i bs : (i < length bs)%nat ->
  sumN (map snd (bump_at i bs)) = sumN (map snd bs) + 1.
Proof.
  revert i; induction bs as [|[r c] bs IH]; intros i Hi; [cbn in Hi; lia|].
  destruct i as [|i]; cbn [bump_at map snd sumN].
  - lia.
  - rewrite IH; [lia|cbn in Hi; lia].
Qed.

(* With bounds sorted by a transitive <=, the chosen bucket is the only one whose
   half-open range (previous bound, own bound] contains v. *)
Theorem target_is_containing_range v ms i :
  (forall x y z, f_leb O x y = true -> f_leb O y z = true -> f_leb O x z = true) ->
  (forall a b x y, (a < b)%nat -> nth_error ms a = Some x -> nth_error ms b = Some y -> f_leb O x y = true) ->
  is_target v ms i ->
  forall m, nth_error ms i = Some m -> f_leb O v m = true ->
  forall j mj, nth_error ms j = Some mj -> f_leb O v mj = true ->
    (j = 0%nat \/ exists p, nth_error ms (pred j) = Some p /\ f_leb O v p = false) -> j = i.
Proof.
  intros Tr So (Hi & Bi & _) m Hm Lm j mj Hj Lj Hprev.
  destruct (Nat.lt_trichotomy j i) as [L|[E|L]]; [|exact E|]; exfalso.
  - rewrite (Bi j mj L Hj) in Lj. discriminate.
  - destruct Hprev as [->|(p & Hp & Lp)]; [lia|].
    destruct (Nat.eq_dec (pred j) i) as [E|N].
    + rewrite E, Hm in Hp. injection Hp as <-. congruence.
    + assert (Lt : (i < pred j)%nat) by lia.
      pose proof (So i (pred j) m p Lt Hm Hp) as S. rewrite (Tr v m p Lm S) in Lp. discriminate.
Qed.

(* ---- one observation ---- *)

Theorem observe_one_bucket (d : bdatum) (v : F) :
  b_buckets d <> [] ->
  exists i,
    is_target v (bounds d) i /\
    (forall j, is_target v (bounds d) j -> j = i) /\
    (forall j, nth_error (counts (observe O v d)) j =
               if Nat.eqb j i then option_map (fun c => c + 1) (nth_error (counts d) j)
               else nth_error (counts d) j) /\
    map fst (b_buckets (observe O v d)) = map fst (b_buckets d) /\
    b_count (observe O v d) = b_count d + 1 /\
    b_sum (observe O v d) = f_add O (b_sum d) v.
Proof.
  intros Hne. exists (bucket_index O v (b_buckets d)).
  pose proof (bucket_index_target v (b_buckets d) Hne) as T.
  split; [exact T|]. split; [intros j Tj; exact (is_target_unique v _ _ _ Tj T)|].
  unfold observe, counts; cbn [b_buckets b_count b_sum]. rewrite bump_first_is_bump_at.
  split; [intros j; apply counts_bump_at|]. split; [apply maxes_bump_at|]. split; reflexivity.
Qed.

Lemma observe_nonempty v (d : bdatum) : b_buckets d <> [] -> b_buckets (observe O v d) <> [].
Proof.
  unfold observe; cbn [b_buckets]. destruct (b_buckets d) as [|[r c] [|b bs]]; [congruence| |]; intros _.
  - cbn. discriminate.
  - cbn [bump_first]. destruct (f_leb O v (r_max r)); discriminate.
Qed.

Lemma observe_sum_counts v (d : bdatum) : b_buckets d <> [] ->
  sumN (counts (observe O v d)) = sumN (counts d) + 1.
Proof.
  intros Hne. unfold observe, counts; cbn [b_buckets]. rewrite bump_first_is_bump_at.
  apply sumN_bump_at. apply bucket_index_lt. exact Hne.
Qed.

(* ---- sequences ---- *)

Lemma observe_all_inv vs (d : bdatum) : b_buckets d <> [] ->
  b_buckets (observe_all O vs d) <> [] /\
  sumN (counts (observe_all O vs d)) = sumN (counts d) + N.of_nat (length vs) /\
  b_count (observe_all O vs d) = b_count d + N.of_nat (length vs) /\
  b_sum (observe_all O vs d) = fold_left (f_add O) vs (b_sum d) /\
  map fst (b_buckets (observe_all O vs d)) = map fst (b_buckets d).
Proof.
  revert d; induction vs as [|v vs IH]; intros d Hne.
  - cbn. repeat split; try lia; assumption.
  - cbn [observe_all fold_left length].
    destruct (IH (observe O v d) (observe_nonempty v d Hne)) as (A & B & C & D & E).
    fold (observe_all O vs (observe O v d)).
    split; [exact A|]. split; [rewrite B, observe_sum_counts by exact Hne; lia|].
    split; [rewrite C; cbn [observe b_count]; lia|].
    split; [rewrite D; reflexivity|].
    rewrite E. unfold observe; cbn [b_buckets]. rewrite bump_first_is_bump_at. apply maxes_bump_at.
Qed.

Lemma scan_ranges_seen rs seen h :
  fst (scan_ranges O rs seen h) = true -> seen = true \/ rs <> [].
Proof.
  destruct rs; [cbn; intros ->; left; reflexivity|right; discriminate].
Qed.

Lemma make_buckets_fresh rs :
  b_buckets (make_buckets O rs) <> [] /\
  sumN (counts (make_buckets O rs)) = 0 /\ b_count (make_buckets O rs) = 0 /\
  b_sum (make_buckets O rs) = f_zero O.
Proof.
  unfold make_buckets. destruct (scan_ranges O rs false (f_zero O)) as [seen h] eqn:E.
  cbn [b_buckets b_count b_sum counts].
  assert (Z : forall l : list range, sumN (map snd (map (fun r => (r, 0)) l)) = 0)
    by (induction l; cbn; [reflexivity|assumption]).
  split; [|split; [apply Z|split; reflexivity]].
  destruct seen.
  - destruct (scan_ranges_seen rs false (f_zero O)) as [H|H]; [rewrite E; reflexivity|discriminate|].
    destruct rs; [congruence|discriminate].
  - destruct rs; discriminate.
Qed.

Theorem counts_sum_to_count rs vs :
  let d := observe_all O vs (make_buckets O rs) in
  sumN (counts d) = b_count d /\ b_count d = N.of_nat (length vs).
Proof.
  destruct (make_buckets_fresh rs) as (Hne & S0 & C0 & _).
  destruct (observe_all_inv vs _ Hne) as (_ & B & C & _). cbn zeta.
  rewrite B, C, S0, C0. split; reflexivity.
Qed.

Theorem sum_is_fold rs vs :
  b_sum (observe_all O vs (make_buckets O rs)) = fold_left (f_add O) vs (f_zero O).
Proof.
  destruct (make_buckets_fresh rs) as (Hne & _ & _ & S0).
  destruct (observe_all_inv vs _ Hne) as (_ & _ & _ & D & _). rewrite D, S0. reflexivity.
Qed.

Theorem observe_all_keeps_ranges vs (d : bdatum) :
  b_buckets d <> [] -> bounds (observe_all O vs d) = bounds d.
Proof.
  intros Hne. destruct (observe_all_inv vs d Hne) as (_ & _ & _ & _ & E).
  unfold bounds. rewrite <- !(map_map fst (fun r : range => r_max r)), E. reflexivity.
Qed.

(* ---- declared boundaries vs ranges ---- *)

Lemma ranges_from_maxes mn rest rs :
  ranges_from O mn rest = Some rs -> map r_max rs = rest ++ [f_inf O].
Proof.
  revert mn rs; induction rest as [|mx rest IH]; intros mn rs H; cbn [ranges_from] in H.
  - injection H as <-. reflexivity.
  - destruct (f_leb O mx mn); [discriminate|].
    destruct (ranges_from O mx rest) as [rs'|] eqn:E; [|discriminate].
    injection H as <-. cbn. f_equal. apply (IH mx). exact E.
Qed.

Theorem bounds_positive_first bs rs b0 :
  make_ranges O bs = Some rs -> hd_error bs = Some b0 -> f_ltb O (f_zero O) b0 = true ->
  map r_max rs = bs ++ [f_inf O].
Proof.
  destruct bs as [|b [|b1 rest]]; try discriminate. cbn [make_ranges hd_error].
  intros H E L. injection E as ->.
  destruct (ranges_from O b0 (b1 :: rest)) as [rs'|] eqn:R; [|discriminate].
  rewrite L in H. injection H as <-. cbn [map r_max]. rewrite (ranges_from_maxes _ _ _ R). reflexivity.
Qed.

Theorem bounds_nonpositive_first bs rs b0 :
  make_ranges O bs = Some rs -> hd_error bs = Some b0 -> f_ltb O (f_zero O) b0 = false ->
  map r_max rs = tl bs ++ [f_inf O].
Proof.
  destruct bs as [|b [|b1 rest]]; try discriminate. cbn [make_ranges hd_error].
  intros H E L. injection E as ->.
  destruct (ranges_from O b0 (b1 :: rest)) as [rs'|] eqn:R; [|discriminate].
  rewrite L in H. injection H as <-. rewrite (ranges_from_maxes _ _ _ R). reflexivity.
Qed.

Theorem bounds_nonpositive_differ bs rs b0 :
  make_ranges O bs = Some rs -> hd_error bs = Some b0 -> f_ltb O (f_zero O) b0 = false ->
  map r_max rs <> bs ++ [f_inf O].
Proof.
  intros H E L. rewrite (bounds_nonpositive_first bs rs b0 H E L).
  destruct bs as [|b rest]; [discriminate|]. cbn [tl]. intros A.
  apply (f_equal (@length F)) in A. rewrite !app_length in A. cbn in A. lia.
Qed.

(* the ranges tile: each range starts where the previous one ends, and the
   declared boundaries were accepted only if no boundary is <= its predecessor *)
Fixpoint chained (rs : list range) : Prop :=
  match rs with
  | r1 :: ((r2 :: _) as rest) => r_min r2 = r_max r1 /\ chained rest
  | _ => True
  end.

Lemma ranges_from_chained mn rest rs :
  ranges_from O mn rest = Some rs ->
  chained rs /\ (exists r rs', rs = r :: rs' /\ r_min r = mn).
Proof.
  revert mn rs; induction rest as [|mx rest IH]; intros mn rs H; cbn [ranges_from] in H.
  - injection H as <-. split; [exact I|]. eexists _, _. split; reflexivity.
  - destruct (f_leb O mx mn); [discriminate|].
    destruct (ranges_from O mx rest) as [rs'|] eqn:E; [|discriminate].
    injection H as <-. destruct (IH mx rs' E) as (C & r & rs'' & -> & Hm).
    split; [cbn; split; [exact Hm|exact C]|]. eexists _, _. split; reflexivity.
Qed.

Lemma ranges_from_increasing mn rest rs :
  ranges_from O mn rest = Some rs ->
  forall i a b, nth_error (mn :: rest) i = Some a -> nth_error (mn :: rest) (S i) = Some b ->
                f_leb O b a = false.
Proof.
  revert mn rs; induction rest as [|mx rest IH]; intros mn rs H i a b Ha Hb.
  - destruct i as [|[|i]]; cbn in Hb; discriminate.
  - cbn [ranges_from] in H. destruct (f_leb O mx mn) eqn:L; [discriminate|].
    destruct (ranges_from O mx rest) as [rs'|] eqn:E; [|discriminate].
    destruct i as [|i].
    + cbn in Ha, Hb. injection Ha as <-. injection Hb as <-. exact L.
    + apply (IH mx rs' E i a b); assumption.
Qed.

Theorem accepted_boundaries_increase bs rs :
  make_ranges O bs = Some rs ->
  (2 <= length bs)%nat /\
  forall i a b, nth_error bs i = Some a -> nth_error bs (S i) = Some b -> f_leb O b a = false.
Proof.
  destruct bs as [|b0 [|b1 rest]]; try discriminate. cbn [make_ranges]. intros H.
  destruct (ranges_from O b0 (b1 :: rest)) as [rs'|] eqn:R; [|discriminate].
  split; [cbn; lia|]. exact (ranges_from_increasing _ _ _ R).
Qed.

Theorem ranges_chained bs rs : make_ranges O bs = Some rs -> chained rs.
Proof.
  destruct bs as [|b0 [|b1 rest]]; try discriminate. cbn [make_ranges]. intros H.
  destruct (ranges_from O b0 (b1 :: rest)) as [rs'|] eqn:R; [|discriminate].
  destruct (ranges_from_chained _ _ _ R) as (C & r & rs'' & -> & Hm).
  destruct (f_ltb O (f_zero O) b0); injection H as <-; [|exact C].
  cbn. split; [exact Hm|exact C].
Qed.

(* make_buckets adds nothing when the ranges already end in +Inf *)
Lemma scan_ranges_true rs h : fst (scan_ranges O rs true h) = true.
Proof.
  revert h; induction rs as [|r rs IH]; intros h; [reflexivity|]. cbn [scan_ranges].
  destruct (f_is_pinf O (r_max r)); [apply IH|]. destruct (f_ltb O h (r_max r)); apply IH.
Qed.

Lemma scan_ranges_inf rs seen h :
  f_is_pinf O (f_inf O) = true -> In (f_inf O) (map r_max rs) -> fst (scan_ranges O rs seen h) = true.
Proof.
  intros Hinf. revert seen h; induction rs as [|r rs IH]; intros seen h Hin; [destruct Hin|].
  cbn [scan_ranges]. destruct Hin as [E|Hin].
  - rewrite E, Hinf. apply scan_ranges_true.
  - destruct (f_is_pinf O (r_max r)); [apply IH; exact Hin|].
    destruct (f_ltb O h (r_max r)); apply IH; exact Hin.
Qed.

Theorem declared_bounds_exported bs rs b0 vs :
  f_is_pinf O (f_inf O) = true ->
  make_ranges O bs = Some rs -> hd_error bs = Some b0 -> f_ltb O (f_zero O) b0 = true ->
  bounds (observe_all O vs (make_buckets O rs)) = bs ++ [f_inf O].
Proof.
  intros Hinf H E L.
  destruct (make_buckets_fresh rs) as (Hne & _).
  rewrite (observe_all_keeps_ranges vs _ Hne).
  pose proof (bounds_positive_first bs rs b0 H E L) as B.
  unfold make_buckets. destruct (scan_ranges O rs false (f_zero O)) as [seen h] eqn:S.
  assert (seen = true) as ->.
  { change seen with (fst (seen, h)). rewrite <- S. apply scan_ranges_inf; [exact Hinf|].
    rewrite B. apply in_or_app. right. left. reflexivity. }
  unfold bounds; cbn [b_buckets]. rewrite map_map. cbn [fst]. exact B.
Qed.

(* ---- the unrepaired Observe ---- *)

Lemma bump_first_old_none v bs :
  (forall r c, In (r, c) bs -> f_leb O v (r_max r) = false) -> bump_first_old O v bs = bs.
Proof.
  induction bs as [|[r c] bs IH]; intros H; [reflexivity|].
  cbn [bump_first_old]. rewrite (H r c (or_introl eq_refl)). f_equal. apply IH.
  intros r' c' Hin. apply (H r' c'). right. exact Hin.
Qed.

Theorem old_observe_loses (d : bdatum) v :
  (forall r c, In (r, c) (b_buckets d) -> f_leb O v (r_max r) = false) ->
  counts (observe_old O v d) = counts d /\
  b_count (observe_old O v d) = b_count d + 1.
Proof.
  intros H. unfold observe_old, counts; cbn [b_buckets b_count].
  rewrite (bump_first_old_none v _ H). split; reflexivity.
Qed.

Theorem old_observe_breaks_invariant (d : bdatum) v :
  (forall r c, In (r, c) (b_buckets d) -> f_leb O v (r_max r) = false) ->
  sumN (counts d) = b_count d ->
  sumN (counts (observe_old O v d)) <> b_count (observe_old O v d).
Proof.
  intros H I. destruct (old_observe_loses d v H) as (A & B). rewrite A, B, I. lia.
Qed.

(* the repair changes nothing when some bound is >= v *)
Lemma bump_first_old_same v bs :
  (exists r c, In (r, c) bs /\ f_leb O v (r_max r) = true) ->
  bump_first_old O v bs = bump_first O v bs.
Proof.
  induction bs as [|[r c] bs IH]; intros (r' & c' & Hin & L); [destruct Hin|].
  destruct bs as [|b bs'].
  - destruct Hin as [E|[]]. injection E as <- <-. cbn. rewrite L. reflexivity.
  - cbn [bump_first_old bump_first]. destruct (f_leb O v (r_max r)) eqn:E; [reflexivity|].
    f_equal. apply IH. destruct Hin as [E'|Hin].
    + injection E' as <- <-. congruence.
    + exists r', c'. split; assumption.
Qed.

Theorem repair_is_conservative (d : bdatum) v :
  (exists r c, In (r, c) (b_buckets d) /\ f_leb O v (r_max r) = true) ->
  observe_old O v d = observe O v d.
Proof.
  intros H. unfold observe_old, observe. rewrite (bump_first_old_same v _ H). reflexivity.
Qed.

End P.

(* ---- a small float-like instance (NaN, both infinities, integers as the
   finite values) used for the non-vacuity examples; the correspondence uses
   primitive binary64 floats instead ---- *)
Inductive xf := XNaN | XNegInf | XFin (z : Z) | XPosInf.
Definition xleb (a b : xf) : bool :=
  match a, b with
  | XNaN, _ | _, XNaN => false
  | XNegInf, _ => true
  | _, XPosInf => true
  | XFin x, XFin y => Z.leb x y
  | _, _ => false
  end.
Definition xadd (a b : xf) : xf :=
  match a, b with
  | XNaN, _ | _, XNaN => XNaN
  | XPosInf, XNegInf | XNegInf, XPosInf => XNaN
  | XPosInf, _ | _, XPosInf => XPosInf
  | XNegInf, _ | _, XNegInf => XNegInf
  | XFin x, XFin y => XFin (x + y)
  end.
Definition xops : fops xf := {|
  f_leb := xleb; f_ltb := fun a b => xleb a b && negb (xleb b a); f_add := xadd;
  f_zero := XFin 0; f_inf := XPosInf;
  f_is_pinf := fun a => match a with XPosInf => true | _ => false end |}.

Lemma xleb_nan_false x : xleb XNaN x = false /\ xleb x XNaN = false.
Proof. destruct x; split; reflexivity. Qed.
Lemma xleb_trans x y z : xleb x y = true -> xleb y z = true -> xleb x z = true.
Proof.
  destruct x, y, z; cbn; try congruence; intros A B.
  apply Z.leb_le in A, B. apply Z.leb_le. lia.
Qed.
Lemma xleb_total x y : x <> XNaN -> y <> XNaN -> xleb x y = true \/ xleb y x = true.
Proof.
  destruct x, y; cbn; try congruence; intros _ _; try (left; reflexivity); try (right; reflexivity).
  destruct (Z.leb_spec z z0); [left; reflexivity|right; apply Z.leb_le; lia].
Qed.
