(* Stage (a) of C01: pure straight-line expressions.  Code for [e], run from
   stack [stk], ends with the value of [e] on top of [stk] and nothing else
   changed — or in [Err] with the state untouched — exactly as the reference
   semantics evaluates [e]. *)
From V Require Import Lang.RefSem Lang.Codegen Lang.Vm Proofs.C01Sim.
From Coq Require Import Lia.
Local Open Scope Z_scope.

Inductive vrel : rval -> val -> Prop :=
| vr_i64 z : vrel (RInt z) (VI64 z)
| vr_int z : vrel (RInt z) (VInt z)      (* len() leaves a Go int *)
| vr_f b : vrel (RFloat b) (VF64 b)
| vr_s x : vrel (RStr x) (VStr x)
| vr_b b : vrel (RBool b) (VBool b).

Definition vty (v : rval) : ty :=
  match v with RInt _ => TInt | RFloat _ => TFloat | RStr _ => TStr | RBool _ => TBool end.

Definition conv_ok (f t : ty) : bool :=
  match f, t with
  | TInt, TInt | TFloat, TFloat | TStr, TStr => true
  | TInt, TFloat | TStr, TInt | TStr, TFloat | TInt, TStr | TFloat, TStr => true
  | _, _ => false
  end.

Definition opt_ty_is (o : option ty) (t : ty) : bool :=
  match o with Some t' => ty_eqb t t' | None => false end.

Section Expr.
Variable E : env.
Variable decls : list mdecl.
Variable file line : bytes.
Variable o : object.

Notation ll := (mklogline file line).
Notation step := (Vm.step E o ll).
Notation nsteps := (nsteps E o ll).
Notation eval := (RefSem.eval E decls file line).
Notation cexpr := (Codegen.cexpr decls).

(* the straight-line pure fragment, with its typing: [tyof e = Some t] *)
Fixpoint tyof (e : expr) : option ty :=
  match e with
  | EInt _ => Some TInt
  | EFloat _ => Some TFloat
  | EStr sid s =>
      match nth_error (o_strs o) (N.to_nat sid) with
      | Some s' => if bytes_eqb s s' then Some TStr else None
      | None => None
      end
  | ECap _ _ t => match t with TBool => None | _ => Some t end
  | EConv f t a => if opt_ty_is (tyof a) f && conv_ok f t then Some t else None
  | EArith op t a b =>
      match t with
      | TInt | TFloat => if opt_ty_is (tyof a) t && opt_ty_is (tyof b) t then Some t else None
      | _ => None
      end
  | EBit _ a b => if opt_ty_is (tyof a) TInt && opt_ty_is (tyof b) TInt then Some TInt else None
  | ENeg a => if opt_ty_is (tyof a) TInt then Some TInt else None
  | ELen a => if opt_ty_is (tyof a) TStr then Some TInt else None
  | ETolower a => if opt_ty_is (tyof a) TStr then Some TStr else None
  | ETimestamp => Some TInt
  | EGetfilename => Some TStr
  | _ => None
  end.

Definition mrel (rs : rstate) (ms : list (Z * list bytes)) : Prop :=
  forall pid, match lookup_match pid (rs_matches rs) with
              | Some gs => match_get (Z.of_N pid) ms = gs
              | None => match_get (Z.of_N pid) ms = []
              end.

Definition trel (rs : rstate) (tm : timeval) : Prop := tm = time_reg rs.

(* what "the VM computes e as the reference does" means at one program point *)
Definition sim_at (e : expr) (t : ty) (pc : nat) (stk : list val) (mt : bool)
    (ms : list (Z * list bytes)) (tm : timeval) (rs : rstate) (vs : vmstate) : Prop :=
  match eval e rs with
  | ROk v rs' =>
      rs' = rs /\ vty v = t /\
      exists w, vrel v w /\
        nsteps (length (cexpr pc e)) (mkthread pc stk mt ms tm) vs =
        Some (mkthread (pc + length (cexpr pc e)) (w :: stk) mt ms tm, vs)
  | RAbort (AErr _) rs' =>
      rs' = rs /\
      exists n t1 e', nsteps n (mkthread pc stk mt ms tm) vs = Some (t1, vs) /\
                      step t1 vs = SEnd (Err e') vs
  | RAbort AStop _ => False
  end.

Lemma opt_ty_is_eq o' t : opt_ty_is o' t = true -> o' = Some t.
Proof. destruct o' as [t'|]; cbn; [|discriminate]. destruct t, t'; cbn; congruence. Qed.

Lemma as_int_rel h z w : vrel (RInt z) w -> as_int E h w = Ok z.
Proof. inversion 1; reflexivity. Qed.
Lemma as_str_rel h x w : vrel (RStr x) w -> Vm.as_str E h w = Ok x.
Proof. inversion 1; reflexivity. Qed.
Lemma as_float_rel h b w : vrel (RFloat b) w -> as_float E h w = Ok b.
Proof. inversion 1; reflexivity. Qed.

Lemma vty_int v : vty v = TInt -> exists z, v = RInt z.
Proof. destruct v; cbn; try discriminate; eauto. Qed.
Lemma vty_float v : vty v = TFloat -> exists z, v = RFloat z.
Proof. destruct v; cbn; try discriminate; eauto. Qed.
Lemma vty_str v : vty v = TStr -> exists z, v = RStr z.
Proof. destruct v; cbn; try discriminate; eauto. Qed.

(* run one more instruction after a prefix *)
Lemma nsteps_snoc n t vs t1 vs1 t2 vs2 :
  nsteps n t vs = Some (t1, vs1) -> step t1 vs1 = SNext t2 vs2 ->
  nsteps (n + 1) t vs = Some (t2, vs2).
Proof. intros H1 H2. rewrite (nsteps_app _ _ _ _ _ _ _ _ _ H1). cbn. rewrite H2. reflexivity. Qed.

(* a failing instruction after a prefix *)
Lemma err_after n t vs t1 e' :
  nsteps n t vs = Some (t1, vs) -> step t1 vs = SEnd (Err e') vs ->
  exists n t1 e', nsteps n t vs = Some (t1, vs) /\ step t1 vs = SEnd (Err e') vs.
Proof. eauto 6. Qed.

(* an error inside a sub-expression that runs after a prefix *)
Lemma err_in_sub n t vs t1 :
  nsteps n t vs = Some (t1, vs) ->
  (exists m t2 e', nsteps m t1 vs = Some (t2, vs) /\ step t2 vs = SEnd (Err e') vs) ->
  exists m t2 e', nsteps m t vs = Some (t2, vs) /\ step t2 vs = SEnd (Err e') vs.
Proof.
  intros H (m & t2 & e' & Hm & Hs). exists (n + m)%nat, t2, e'. split; [|exact Hs].
  rewrite (nsteps_app _ _ _ _ _ _ _ _ _ H). exact Hm.
Qed.

(* ---- unfolding equations ---- *)
Lemma cexpr_conv pc f t a : cexpr pc (EConv f t a) = cexpr pc a ++ conv_code f t.
Proof. reflexivity. Qed.
Lemma cexpr_arith pc op t a b :
  cexpr pc (EArith op t a b) =
  cexpr pc a ++ cexpr (pc + length (cexpr pc a)) b ++ [ins (arith_op op t) ONil].
Proof. reflexivity. Qed.
Lemma cexpr_bit pc op a b :
  cexpr pc (EBit op a b) =
  cexpr pc a ++ cexpr (pc + length (cexpr pc a)) b ++ [ins (bit_op op) ONil].
Proof. reflexivity. Qed.
Lemma cexpr_neg pc a : cexpr pc (ENeg a) = cexpr pc a ++ [ins Neg ONil].
Proof. reflexivity. Qed.
Lemma cexpr_len pc a : cexpr pc (ELen a) = cexpr pc a ++ [ins Length (OInt 1)].
Proof. reflexivity. Qed.
Lemma cexpr_tolower pc a : cexpr pc (ETolower a) = cexpr pc a ++ [ins Tolower (OInt 1)].
Proof. reflexivity. Qed.

Lemma eval_conv f t a rs : eval (EConv f t a) rs = RefSem.bind (eval a rs) (fun v s1 => RefSem.conv E f t v s1).
Proof. reflexivity. Qed.
Lemma eval_arith op t a b rs :
  eval (EArith op t a b) rs =
  RefSem.bind (eval a rs) (fun va s1 => RefSem.bind (eval b s1) (fun vb s2 => do_arith E op t va vb s2)).
Proof. reflexivity. Qed.
Lemma eval_bit op a b rs :
  eval (EBit op a b) rs =
  RefSem.bind (eval a rs) (fun va s1 => RefSem.bind (eval b s1) (fun vb s2 => do_bit op va vb s2)).
Proof. reflexivity. Qed.
Lemma eval_neg a rs :
  eval (ENeg a) rs =
  RefSem.bind (eval a rs) (fun va s1 => match va with RInt z => ROk (RInt (i_not z)) s1 | _ => RefSem.fail REType s1 end).
Proof. reflexivity. Qed.
Lemma eval_len a rs :
  eval (ELen a) rs =
  RefSem.bind (eval a rs) (fun va s1 => RefSem.bind (RefSem.as_str va s1) (fun x s2 => ROk (RInt (Z.of_nat (length x))) s2)).
Proof. reflexivity. Qed.
Lemma eval_tolower a rs :
  eval (ETolower a) rs =
  RefSem.bind (eval a rs) (fun va s1 => RefSem.bind (RefSem.as_str va s1) (fun x s2 => ROk (RStr (to_lower E x)) s2)).
Proof. reflexivity. Qed.

Lemma step1 pc stk mt ms tm vs i r t' :
  at_pc o pc (i :: r) ->
  exec E o ll i (mkthread (S pc) stk mt ms tm) vs = Ok (XNext t' vs) ->
  nsteps 1 (mkthread pc stk mt ms tm) vs = Some (t', vs).
Proof.
  intros Ha Hx. cbn [C01Sim.nsteps]. erewrite step_next; [reflexivity | exact (at_pc_head _ _ _ _ Ha) | exact Hx].
Qed.

Lemma step1_err pc stk mt ms tm vs i r e' :
  at_pc o pc (i :: r) ->
  exec E o ll i (mkthread (S pc) stk mt ms tm) vs = Er e' ->
  step (mkthread pc stk mt ms tm) vs = SEnd (Err e') vs.
Proof. intros Ha Hx. eapply step_err; [exact (at_pc_head _ _ _ _ Ha) | exact Hx]. Qed.

(* after the code of a sub-expression: one final instruction [i] that maps the
   top of the stack *)
Lemma finish_ok n pc stk mt ms tm vs stk1 i stk2 :
  nsteps n (mkthread pc stk mt ms tm) vs = Some (mkthread (pc + n) stk1 mt ms tm, vs) ->
  at_pc o (pc + n) [i] ->
  exec E o ll i (mkthread (S (pc + n)) stk1 mt ms tm) vs = Ok (XNext (mkthread (S (pc + n)) stk2 mt ms tm) vs) ->
  nsteps (n + 1) (mkthread pc stk mt ms tm) vs = Some (mkthread (pc + (n + 1)) stk2 mt ms tm, vs).
Proof.
  intros H1 Ha Hx. rewrite (nsteps_app _ _ _ _ _ _ _ _ _ H1).
  replace (pc + (n + 1))%nat with (S (pc + n)) by lia.
  eapply step1; eauto.
Qed.

Lemma finish_err n pc stk mt ms tm vs stk1 i e0 :
  nsteps n (mkthread pc stk mt ms tm) vs = Some (mkthread (pc + n) stk1 mt ms tm, vs) ->
  at_pc o (pc + n) [i] ->
  exec E o ll i (mkthread (S (pc + n)) stk1 mt ms tm) vs = Er e0 ->
  exists m t1 e', nsteps m (mkthread pc stk mt ms tm) vs = Some (t1, vs) /\ step t1 vs = SEnd (Err e') vs.
Proof.
  intros H1 Ha Hx. exists n, (mkthread (pc + n) stk1 mt ms tm), e0. split; [exact H1|].
  eapply step1_err; eauto.
Qed.


Lemma to_nat_zn n : Z.to_nat (zn n) = N.to_nat n.
Proof. unfold zn. rewrite <- N_nat_Z. apply Nat2Z.id. Qed.


Definition is_int_op (op : opcode) : bool :=
  match op with Iadd | Isub | Imul | Idiv | Imod | Ipow | Shl | Shr | And | Or | Xor => true | _ => false end.
Definition is_float_op (op : opcode) : bool :=
  match op with Fadd | Fsub | Fmul | Fdiv | Fmod | Fpow => true | _ => false end.

Lemma exec_int_binop op x y wa wb r pc' stk mt ms tm vs :
  is_int_op op = true -> vrel (RInt x) wa -> vrel (RInt y) wb -> int_binop E op x y = Ok r ->
  exec E o ll (ins op ONil) (mkthread pc' (wb :: wa :: stk) mt ms tm) vs =
  Ok (XNext (mkthread pc' (VI64 r :: stk) mt ms tm) vs).
Proof.
  intros Hop Ha Hb Hr. destruct op; try discriminate;
    inversion Ha; subst; inversion Hb; subst; cbn -[int_binop]; rewrite Hr; reflexivity.
Qed.
Lemma exec_int_binop_err op x y wa wb e0 pc' stk mt ms tm vs :
  is_int_op op = true -> vrel (RInt x) wa -> vrel (RInt y) wb -> int_binop E op x y = Er e0 ->
  exec E o ll (ins op ONil) (mkthread pc' (wb :: wa :: stk) mt ms tm) vs = Er e0.
Proof.
  intros Hop Ha Hb Hr. destruct op; try discriminate;
    inversion Ha; subst; inversion Hb; subst; cbn -[int_binop]; rewrite Hr; reflexivity.
Qed.
Lemma exec_float_binop op x y wa wb r pc' stk mt ms tm vs :
  is_float_op op = true -> vrel (RFloat x) wa -> vrel (RFloat y) wb -> float_binop E op x y = Ok r ->
  exec E o ll (ins op ONil) (mkthread pc' (wb :: wa :: stk) mt ms tm) vs =
  Ok (XNext (mkthread pc' (VF64 r :: stk) mt ms tm) vs).
Proof.
  intros Hop Ha Hb Hr. destruct op; try discriminate;
    inversion Ha; subst; inversion Hb; subst; cbn -[float_binop]; rewrite Hr; reflexivity.
Qed.

(* two sub-expressions in sequence *)
Lemma seq2 pc la lb stk wa wb mt ms tm vs :
  nsteps la (mkthread pc stk mt ms tm) vs = Some (mkthread (pc + la) (wa :: stk) mt ms tm, vs) ->
  nsteps lb (mkthread (pc + la) (wa :: stk) mt ms tm) vs =
    Some (mkthread (pc + la + lb) (wb :: wa :: stk) mt ms tm, vs) ->
  nsteps (la + lb) (mkthread pc stk mt ms tm) vs =
    Some (mkthread (pc + (la + lb)) (wb :: wa :: stk) mt ms tm, vs).
Proof. intros H1 H2. rewrite (nsteps_app _ _ _ _ _ _ _ _ _ H1), Nat.add_assoc. exact H2. Qed.

(* a sub-expression evaluated first: either its error is the whole error, or we
   continue from its final thread *)
Ltac sub_err IH :=
  destruct IH as (-> & n0 & t10 & e0 & Hn0 & Hs0); split; [reflexivity|]; eauto 8.

Theorem sim_expr : forall e t, tyof e = Some t ->
  forall pc stk mt ms tm rs vs,
    at_pc o pc (cexpr pc e) -> mrel rs ms -> trel rs tm ->
    sim_at e t pc stk mt ms tm rs vs.
Proof.
  induction e; intros ty Hty pc stk mt ms tm rs vs Hat Hm Ht; cbn [tyof] in Hty; try discriminate;
    unfold sim_at.
  - (* EInt *)
    inversion Hty; subst ty. cbn [RefSem.eval Codegen.cexpr length]. repeat split.
    exists (VI64 z). split; [constructor|].
    rewrite Nat.add_1_r. eapply step1; [exact Hat | reflexivity].
  - (* EFloat *)
    inversion Hty; subst ty. cbn [RefSem.eval Codegen.cexpr length]. repeat split.
    exists (VF64 b). split; [constructor|].
    rewrite Nat.add_1_r. eapply step1; [exact Hat | reflexivity].
  - (* EStr *)
    destruct (nth_error (o_strs o) (N.to_nat sid)) as [s'|] eqn:Hn; [|discriminate].
    destruct (bytes_eqb s s') eqn:Hs; [|discriminate]. apply bytes_eqb_spec in Hs. subst s'.
    inversion Hty; subst ty. cbn [RefSem.eval Codegen.cexpr length]. repeat split.
    exists (VStr s). split; [constructor|].
    rewrite Nat.add_1_r. eapply step1; [exact Hat|].
    cbn. unfold index_in.
    assert (Hlt : (N.to_nat sid < length (o_strs o))%nat) by (apply nth_error_Some; congruence).
    replace ((0 <=? zn sid) && (zn sid <? Z.of_nat (length (o_strs o)))) with true
      by (symmetry; apply andb_true_iff; unfold zn; split; [apply Z.leb_le|apply Z.ltb_lt]; lia).
    cbn. rewrite to_nat_zn. rewrite (nth_error_nth _ _ _ Hn). reflexivity.
  - (* ECap *)
    assert (Hty' : ty = t /\ t <> TBool) by (destruct t; inversion Hty; split; congruence).
    destruct Hty' as [-> Hnb]. clear Hty.
    cbn [RefSem.eval].
    pose proof (Hm pid) as Hp. change (Z.of_N pid) with (zn pid) in Hp.
    set (code := cexpr pc (ECap pid grp t)) in *.
    assert (Hcode : code = [ins Push (OInt (zn pid)); ins Capref (OInt (zn grp))] ++
                           match t with TFloat => [ins S2f ONil] | TInt => [ins S2i ONil] | _ => [] end)
      by reflexivity.
    rewrite Hcode in Hat. apply at_pc_app in Hat as [Hat1 Hat2]. cbn [length] in Hat2.
    (* the push *)
    assert (H1 : nsteps 1 (mkthread pc stk mt ms tm) vs =
                 Some (mkthread (pc + 1) (VInt (zn pid) :: stk) mt ms tm, vs)).
    { rewrite Nat.add_1_r. eapply step1; [exact Hat1 | reflexivity]. }
    apply at_pc_tail in Hat1. replace (S pc) with (pc + 1)%nat in Hat1 by lia.
    destruct (lookup_match pid (rs_matches rs)) as [gs|] eqn:Hl.
    2:{ (* the pattern did not match: no groups *)
      split; [reflexivity|].
      eapply finish_err with (n := 1%nat); [exact H1 | | ].
      - exact Hat1.
      - cbn. rewrite Hp.
        replace (Z.of_nat (length (@nil bytes)) <=? zn grp) with true; [reflexivity|].
        symmetry. apply Z.leb_le. unfold zn. cbn. lia. }
    destruct (nth_error gs (N.to_nat grp)) as [x|] eqn:Hg.
    2:{ split; [reflexivity|].
      eapply finish_err with (n := 1%nat); [exact H1 | | ].
      - exact Hat1.
      - cbn. rewrite Hp. apply nth_error_None in Hg.
        replace (Z.of_nat (length gs) <=? zn grp) with true; [reflexivity|].
        symmetry. apply Z.leb_le. unfold zn. lia. }
    (* the capture: the string is on the stack after two instructions *)
    assert (Hlt : (N.to_nat grp < length gs)%nat) by (apply nth_error_Some; congruence).
    assert (H2 : nsteps 2 (mkthread pc stk mt ms tm) vs =
                 Some (mkthread (pc + 2) (VStr x :: stk) mt ms tm, vs)).
    { change 2%nat with (1 + 1)%nat at 1. eapply finish_ok with (n := 1%nat); [exact H1 | | ].
      - exact Hat1.
      - cbn. rewrite Hp.
        replace (Z.of_nat (length gs) <=? zn grp) with false
          by (symmetry; apply Z.leb_gt; unfold zn; lia).
        replace (zn grp <? 0) with false by (symmetry; apply Z.ltb_ge; unfold zn; lia).
        rewrite to_nat_zn. rewrite (nth_error_nth _ _ _ Hg). reflexivity. }
    destruct t; try congruence; cbn [RefSem.conv].
    + (* Int: s2i *)
      rewrite Hcode. cbn [length app].
      destruct (parse_int E x 10 64) as [z|] eqn:Hpi.
      * repeat split. exists (VI64 z). split; [constructor|].
        change 3%nat with (2 + 1)%nat. eapply finish_ok with (n := 2%nat); [exact H2 | exact Hat2 | ].
        cbn. rewrite Hpi. reflexivity.
      * split; [reflexivity|]. eapply finish_err with (n := 2%nat); [exact H2 | exact Hat2 | ].
        cbn. rewrite Hpi. reflexivity.
    + (* Float: s2f *)
      rewrite Hcode. cbn [length app].
      destruct (parse_float E x) as [z|] eqn:Hpf.
      * repeat split. exists (VF64 z). split; [constructor|].
        change 3%nat with (2 + 1)%nat. eapply finish_ok with (n := 2%nat); [exact H2 | exact Hat2 | ].
        cbn. rewrite Hpf. reflexivity.
      * split; [reflexivity|]. eapply finish_err with (n := 2%nat); [exact H2 | exact Hat2 | ].
        cbn. rewrite Hpf. reflexivity.
    + (* String *)
      rewrite Hcode. cbn [length app]. repeat split. exists (VStr x). split; [constructor|]. exact H2.
  - (* EConv *)
    destruct (opt_ty_is (tyof e) from) eqn:Ha; [|discriminate]. cbn [andb] in Hty.
    destruct (conv_ok from to) eqn:Hc; [|discriminate]. inversion Hty; subst ty.
    apply opt_ty_is_eq in Ha.
    rewrite cexpr_conv in *. apply at_pc_app in Hat as [Hat1 Hat2]. rewrite eval_conv.
    pose proof (IHe _ Ha pc stk mt ms tm rs vs Hat1 Hm Ht) as IH. unfold sim_at in IH.
    destruct (eval e rs) as [v rs'|[|x] rs']; cbn [RefSem.bind]; [| contradiction | sub_err IH].
    destruct IH as (-> & Hv & w & Hw & Hn). rewrite app_length.
    destruct from, to; try discriminate; cbn [conv_code length] in *;
      try (apply vty_int in Hv as [z ->]); try (apply vty_float in Hv as [z ->]); try (apply vty_str in Hv as [z ->]);
      cbn [RefSem.conv];
      try (rewrite Nat.add_0_r; repeat split; eexists; split; [exact Hw | exact Hn]).
    + (* Int -> Float *)
      repeat split. exists (VF64 (fl_of_int E z)). split; [constructor|].
      eapply finish_ok; [exact Hn | exact Hat2 | inversion Hw; subst; reflexivity].
    + (* Int -> Str *)
      repeat split. exists (VStr (fmt_int z)). split; [constructor|].
      eapply finish_ok; [exact Hn | exact Hat2 | inversion Hw; subst; reflexivity].
    + (* Float -> Str *)
      repeat split. exists (VStr (fmt_g E z)). split; [constructor|].
      eapply finish_ok; [exact Hn | exact Hat2 | inversion Hw; subst; reflexivity].
    + (* Str -> Int *)
      inversion Hw; subst.
      destruct (parse_int E z 10 64) as [i|] eqn:Hp.
      * repeat split. exists (VI64 i). split; [constructor|].
        eapply finish_ok; [exact Hn | exact Hat2 | cbn; rewrite Hp; reflexivity].
      * split; [reflexivity|]. eapply finish_err; [exact Hn | exact Hat2 | cbn; rewrite Hp; reflexivity].
    + (* Str -> Float *)
      inversion Hw; subst.
      destruct (parse_float E z) as [i|] eqn:Hp.
      * repeat split. exists (VF64 i). split; [constructor|].
        eapply finish_ok; [exact Hn | exact Hat2 | cbn; rewrite Hp; reflexivity].
      * split; [reflexivity|]. eapply finish_err; [exact Hn | exact Hat2 | cbn; rewrite Hp; reflexivity].
  - (* EArith *)
    assert (Hab : opt_ty_is (tyof e1) t = true /\ opt_ty_is (tyof e2) t = true /\ ty = t /\ (t = TInt \/ t = TFloat)).
    { destruct t; try discriminate;
        destruct (opt_ty_is (tyof e1) _) eqn:Ha; try discriminate;
        destruct (opt_ty_is (tyof e2) _) eqn:Hb; try discriminate; cbn in Hty; inversion Hty; auto. }
    destruct Hab as (Ha & Hb & -> & Ht2). clear Hty.
    apply opt_ty_is_eq in Ha. apply opt_ty_is_eq in Hb.
    rewrite cexpr_arith in *. apply at_pc_app in Hat as [Hat1 Hat23]. apply at_pc_app in Hat23 as [Hat2 Hat3].
    rewrite eval_arith.
    pose proof (IHe1 _ Ha pc stk mt ms tm rs vs Hat1 Hm Ht) as IH1. unfold sim_at in IH1.
    destruct (eval e1 rs) as [va rs'|[|x] rs']; cbn [RefSem.bind]; [| contradiction | sub_err IH1].
    destruct IH1 as (-> & Hva & wa & Hwa & Hn1).
    pose proof (IHe2 _ Hb (pc + length (cexpr pc e1))%nat (wa :: stk) mt ms tm rs vs Hat2 Hm Ht) as IH2.
    unfold sim_at in IH2.
    destruct (eval e2 rs) as [vb rs'|[|x] rs']; cbn [RefSem.bind]; [| contradiction | ].
    2:{ destruct IH2 as (-> & IH2). split; [reflexivity|]. eapply err_in_sub; [exact Hn1 | exact IH2]. }
    destruct IH2 as (-> & Hvb & wb & Hwb & Hn2).
    pose proof (seq2 _ _ _ _ _ _ _ _ _ _ Hn1 Hn2) as Hn12.
    replace (length (cexpr pc e1 ++ cexpr (pc + length (cexpr pc e1)) e2 ++ [ins (arith_op op t) ONil]))
      with (length (cexpr pc e1) + length (cexpr (pc + length (cexpr pc e1)) e2) + 1)%nat
      by (rewrite !app_length; cbn [length]; lia).
    rewrite <- Nat.add_assoc in Hat3.
    destruct Ht2 as [-> | ->].
    + apply vty_int in Hva as [x ->]. apply vty_int in Hvb as [y ->]. cbn [do_arith].
      assert (Hop : is_int_op (arith_op op TInt) = true) by (destruct op; reflexivity).
      destruct op; cbn [arith_int];
        try (repeat split; eexists; split; [apply vr_i64|];
             eapply finish_ok; [exact Hn12 | exact Hat3 | ];
             eapply exec_int_binop; [exact Hop | exact Hwa | exact Hwb | reflexivity]).
      * destruct (y =? 0) eqn:Hz.
        -- split; [reflexivity|]. eapply finish_err; [exact Hn12 | exact Hat3 | ].
           eapply exec_int_binop_err; [exact Hop | exact Hwa | exact Hwb | cbn; rewrite Hz; reflexivity].
        -- repeat split; eexists; split; [apply vr_i64|].
           eapply finish_ok; [exact Hn12 | exact Hat3 | ].
           eapply exec_int_binop; [exact Hop | exact Hwa | exact Hwb | cbn; rewrite Hz; reflexivity].
      * destruct (y =? 0) eqn:Hz.
        -- split; [reflexivity|]. eapply finish_err; [exact Hn12 | exact Hat3 | ].
           eapply exec_int_binop_err; [exact Hop | exact Hwa | exact Hwb | cbn; rewrite Hz; reflexivity].
        -- repeat split; eexists; split; [apply vr_i64|].
           eapply finish_ok; [exact Hn12 | exact Hat3 | ].
           eapply exec_int_binop; [exact Hop | exact Hwa | exact Hwb | cbn; rewrite Hz; reflexivity].
    + apply vty_float in Hva as [x ->]. apply vty_float in Hvb as [y ->]. cbn [do_arith].
      assert (Hop : is_float_op (arith_op op TFloat) = true) by (destruct op; reflexivity).
      repeat split; eexists; split; [apply vr_f|].
      eapply finish_ok; [exact Hn12 | exact Hat3 | ].
      eapply exec_float_binop; [exact Hop | exact Hwa | exact Hwb | destruct op; reflexivity].
  - (* EBit *)
    destruct (opt_ty_is (tyof e1) TInt) eqn:Ha; [|discriminate].
    destruct (opt_ty_is (tyof e2) TInt) eqn:Hb; [|discriminate]. cbn in Hty. inversion Hty; subst ty.
    apply opt_ty_is_eq in Ha. apply opt_ty_is_eq in Hb.
    rewrite cexpr_bit in *. apply at_pc_app in Hat as [Hat1 Hat23]. apply at_pc_app in Hat23 as [Hat2 Hat3].
    rewrite eval_bit.
    pose proof (IHe1 _ Ha pc stk mt ms tm rs vs Hat1 Hm Ht) as IH1. unfold sim_at in IH1.
    destruct (eval e1 rs) as [va rs'|[|x] rs']; cbn [RefSem.bind]; [| contradiction | sub_err IH1].
    destruct IH1 as (-> & Hva & wa & Hwa & Hn1).
    pose proof (IHe2 _ Hb (pc + length (cexpr pc e1))%nat (wa :: stk) mt ms tm rs vs Hat2 Hm Ht) as IH2.
    unfold sim_at in IH2.
    destruct (eval e2 rs) as [vb rs'|[|x] rs']; cbn [RefSem.bind]; [| contradiction | ].
    2:{ destruct IH2 as (-> & IH2). split; [reflexivity|]. eapply err_in_sub; [exact Hn1 | exact IH2]. }
    destruct IH2 as (-> & Hvb & wb & Hwb & Hn2).
    pose proof (seq2 _ _ _ _ _ _ _ _ _ _ Hn1 Hn2) as Hn12.
    replace (length (cexpr pc e1 ++ cexpr (pc + length (cexpr pc e1)) e2 ++ [ins (bit_op op) ONil]))
      with (length (cexpr pc e1) + length (cexpr (pc + length (cexpr pc e1)) e2) + 1)%nat
      by (rewrite !app_length; cbn [length]; lia).
    rewrite <- Nat.add_assoc in Hat3.
    apply vty_int in Hva as [x ->]. apply vty_int in Hvb as [y ->]. cbn [do_bit].
    assert (Hop : is_int_op (bit_op op) = true) by (destruct op; reflexivity).
    destruct op;
      try (repeat split; eexists; split; [apply vr_i64|];
           eapply finish_ok; [exact Hn12 | exact Hat3 | ];
           eapply exec_int_binop; [exact Hop | exact Hwa | exact Hwb | reflexivity]).
    + destruct ((y <? 0) || (max_int32 <=? y)) eqn:Hz.
      * split; [reflexivity|]. eapply finish_err; [exact Hn12 | exact Hat3 | ].
        eapply exec_int_binop_err; [exact Hop | exact Hwa | exact Hwb | cbn; rewrite Hz; reflexivity].
      * repeat split; eexists; split; [apply vr_i64|].
        eapply finish_ok; [exact Hn12 | exact Hat3 | ].
        eapply exec_int_binop; [exact Hop | exact Hwa | exact Hwb | cbn; rewrite Hz; reflexivity].
    + destruct ((y <? 0) || (max_int32 <=? y)) eqn:Hz.
      * split; [reflexivity|]. eapply finish_err; [exact Hn12 | exact Hat3 | ].
        eapply exec_int_binop_err; [exact Hop | exact Hwa | exact Hwb | cbn; rewrite Hz; reflexivity].
      * repeat split; eexists; split; [apply vr_i64|].
        eapply finish_ok; [exact Hn12 | exact Hat3 | ].
        eapply exec_int_binop; [exact Hop | exact Hwa | exact Hwb | cbn; rewrite Hz; reflexivity].
  - (* ENeg *)
    destruct (opt_ty_is (tyof e) TInt) eqn:Ha; [|discriminate]. inversion Hty; subst ty.
    apply opt_ty_is_eq in Ha.
    rewrite cexpr_neg in *. apply at_pc_app in Hat as [Hat1 Hat2]. rewrite eval_neg.
    pose proof (IHe _ Ha pc stk mt ms tm rs vs Hat1 Hm Ht) as IH. unfold sim_at in IH.
    destruct (eval e rs) as [v rs'|[|x] rs']; cbn [RefSem.bind]; [| contradiction | sub_err IH].
    destruct IH as (-> & Hv & w & Hw & Hn). rewrite app_length. cbn [length].
    apply vty_int in Hv as [z ->]. repeat split. exists (VI64 (i_not z)). split; [constructor|].
    eapply finish_ok; [exact Hn | exact Hat2 | inversion Hw; subst; reflexivity].
  - (* ELen *)
    destruct (opt_ty_is (tyof e) TStr) eqn:Ha; [|discriminate]. inversion Hty; subst ty.
    apply opt_ty_is_eq in Ha.
    rewrite cexpr_len in *. apply at_pc_app in Hat as [Hat1 Hat2]. rewrite eval_len.
    pose proof (IHe _ Ha pc stk mt ms tm rs vs Hat1 Hm Ht) as IH. unfold sim_at in IH.
    destruct (eval e rs) as [v rs'|[|x] rs']; cbn [RefSem.bind]; [| contradiction | sub_err IH].
    destruct IH as (-> & Hv & w & Hw & Hn). rewrite app_length. cbn [length].
    apply vty_str in Hv as [z ->]. cbn [RefSem.as_str RefSem.bind].
    repeat split. exists (VInt (Z.of_nat (length z))). split; [constructor|].
    eapply finish_ok; [exact Hn | exact Hat2 | inversion Hw; subst; reflexivity].
  - (* ETolower *)
    destruct (opt_ty_is (tyof e) TStr) eqn:Ha; [|discriminate]. inversion Hty; subst ty.
    apply opt_ty_is_eq in Ha.
    rewrite cexpr_tolower in *. apply at_pc_app in Hat as [Hat1 Hat2]. rewrite eval_tolower.
    pose proof (IHe _ Ha pc stk mt ms tm rs vs Hat1 Hm Ht) as IH. unfold sim_at in IH.
    destruct (eval e rs) as [v rs'|[|x] rs']; cbn [RefSem.bind]; [| contradiction | sub_err IH].
    destruct IH as (-> & Hv & w & Hw & Hn). rewrite app_length. cbn [length].
    apply vty_str in Hv as [z ->]. cbn [RefSem.as_str RefSem.bind].
    repeat split. exists (VStr (to_lower E z)). split; [constructor|].
    eapply finish_ok; [exact Hn | exact Hat2 | inversion Hw; subst; reflexivity].
  - (* ETimestamp *)
    inversion Hty; subst ty. cbn [RefSem.eval Codegen.cexpr length]. repeat split.
    eexists. split; [apply vr_i64|].
    rewrite Nat.add_1_r. eapply step1; [exact Hat|].
    cbn. unfold trel in Ht. subst tm. destruct (time_is_zero (time_reg rs)); reflexivity.
  - (* EGetfilename *)
    inversion Hty; subst ty. cbn [RefSem.eval Codegen.cexpr length]. repeat split.
    exists (VStr file). split; [constructor|].
    rewrite Nat.add_1_r. eapply step1; [exact Hat | reflexivity].
Qed.

End Expr.
