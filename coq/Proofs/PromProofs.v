(* Proofs about Export/Prom.v (for every float type F and conversion of_int). *)
From V Require Import Export.Prom Proofs.BucketsProofs.
Local Open Scope N_scope.

Section P.
Context {F : Type} (of_int : Z -> F) (fzero : F).
Notation metric := (metric F).
Notation labelset := (labelset F).
Notation sample := (sample F).
Notation collect := (collect of_int fzero).
Notation collect_group := (collect_group of_int fzero).
Notation collect_metric := (collect_metric of_int fzero).
Notation sample_of := (sample_of of_int fzero).

(* where a sample comes from *)
Definition origin (c : cfg) (s : list (list metric)) (x : sample) (g : list metric) (m : metric) (ls : labelset) : Prop :=
  In g s /\ In m g /\ m_kind m <> KText /\ In ls (m_lvs m) /\ ls_repr ls = true /\
  x = sample_of c (group_source g) m ls.

Lemma exported_iff (m : metric) : exported m = true <-> m_kind m <> KText.
Proof. unfold exported. destruct (m_kind m); cbn; split; congruence. Qed.

Lemma in_collect_metric c src (m : metric) x :
  In x (collect_metric c src m) <->
  m_kind m <> KText /\ exists ls, In ls (m_lvs m) /\ ls_repr ls = true /\ x = sample_of c src m ls.
Proof.
  unfold Prom.collect_metric. destruct (exported m) eqn:E.
  - rewrite in_flat_map. split.
    + intros (ls & Hin & Hx). destruct (ls_repr ls) eqn:R; [|destruct Hx].
      destruct Hx as [<-|[]]. split; [apply exported_iff; exact E|]. exists ls. auto.
    + intros (_ & ls & Hin & R & ->). exists ls. split; [exact Hin|]. rewrite R. left. reflexivity.
  - split; [intros []|]. intros (K & _). apply exported_iff in K. congruence.
Qed.

Theorem in_collect c s x :
  In x (collect c s) <-> exists g m ls, origin c s x g m ls.
Proof.
  unfold Prom.collect, Prom.collect_group, origin. rewrite in_flat_map. split.
  - intros (g & Hg & Hx). apply in_flat_map in Hx as (m & Hm & Hx).
    apply in_collect_metric in Hx as (K & ls & Hl & R & ->). exists g, m, ls. auto 10.
  - intros (g & m & ls & Hg & Hm & K & Hl & R & ->). exists g. split; [exact Hg|].
    apply in_flat_map. exists m. split; [exact Hm|]. apply in_collect_metric. split; [exact K|].
    exists ls. auto.
Qed.

Definition series_key (x : sample) : bytes * list (bytes * bytes) := (s_name x, s_labels x).

(* "no two exported series share a name and label set" *)
Definition no_dup_series (c : cfg) (s : list (list metric)) : Prop :=
  NoDup (map series_key (collect c s)).

Lemma NoDup_map_unique {A B} (f : A -> B) (l : list A) x y :
  NoDup (map f l) -> In x l -> In y l -> f x = f y -> x = y.
Proof.
  induction l as [|a l IH]; [intros _ []|]. cbn [map]. intros N Hx Hy E.
  inversion N as [|? ? Hn N']; subst.
  destruct Hx as [->|Hx], Hy as [->|Hy]; [reflexivity| | |apply IH; assumption].
  - exfalso. apply Hn. rewrite E. apply in_map. exact Hy.
  - exfalso. apply Hn. rewrite <- E. apply in_map. exact Hx.
Qed.

Theorem one_sample_each c s g m ls :
  no_dup_series c s ->
  In g s -> In m g -> m_kind m <> KText -> In ls (m_lvs m) -> ls_repr ls = true ->
  let x := sample_of c (group_source g) m ls in
  In x (collect c s) /\
  forall y, In y (collect c s) -> s_name y = no_hyphens (m_name m) -> s_labels y = labels_of c m ls -> y = x.
Proof.
  intros N Hg Hm K Hl R x.
  assert (Hx : In x (collect c s)) by (apply in_collect; exists g, m, ls; unfold origin; auto 10).
  split; [exact Hx|]. intros y Hy En El.
  apply (NoDup_map_unique series_key _ y x N Hy Hx). unfold series_key. rewrite En, El. reflexivity.
Qed.

Theorem ts_iff_enabled c s x : In x (collect c s) -> (s_ts x <> None <-> emit_ts c = true).
Proof.
  intros H. apply in_collect in H as (g & m & ls & _ & _ & _ & _ & _ & ->).
  cbn [s_ts Prom.sample_of]. destruct (emit_ts c); split; congruence.
Qed.

(* ---- unrepresentable label sets ---- *)

Lemma collect_metric_drop c src (m : metric) :
  collect_metric c src (drop_unrepr_metric m) = collect_metric c src m.
Proof.
  unfold Prom.collect_metric, drop_unrepr_metric, exported; cbn [m_kind m_lvs].
  destruct (negb (kind_eqb (m_kind m) KText)); [|reflexivity].
  induction (m_lvs m) as [|ls l IH]; [reflexivity|]. cbn [filter flat_map].
  destruct (ls_repr ls) eqn:R.
  - cbn [flat_map]. rewrite R. cbn [app]. f_equal.
    rewrite <- IH. reflexivity.
  - cbn [app]. rewrite <- IH. reflexivity.
Qed.

Definition strip_help (x : sample) : sample :=
  {| s_name := s_name x; s_help := []; s_labels := s_labels x; s_typ := s_typ x;
     s_val := s_val x; s_ts := s_ts x |}.

Lemma collect_metric_strip c src src' (m : metric) :
  map strip_help (collect_metric c src m) = map strip_help (collect_metric c src' m).
Proof.
  unfold Prom.collect_metric. destruct (exported m); [|reflexivity].
  induction (m_lvs m) as [|ls l IH]; [reflexivity|]. cbn [flat_map].
  rewrite !map_app, IH. f_equal. destruct (ls_repr ls); reflexivity.
Qed.

Lemma flat_map_strip c (g g' : list metric) src src' :
  map (collect_metric c src') g' = map (collect_metric c src') g ->
  map strip_help (flat_map (collect_metric c src) g) = map strip_help (flat_map (collect_metric c src') g) .
Proof.
  intros _. induction g as [|m g IH]; [reflexivity|]. cbn [flat_map]. rewrite !map_app, IH.
  f_equal. apply collect_metric_strip.
Qed.

Theorem skip_is_local c s :
  map strip_help (collect c (map (map (@drop_unrepr_metric F)) s)) = map strip_help (collect c s).
Proof.
  unfold Prom.collect. induction s as [|g s IH]; [reflexivity|].
  cbn [map flat_map]. rewrite !map_app, IH. f_equal. clear IH.
  unfold Prom.collect_group.
  generalize (group_source (map (@drop_unrepr_metric F) g)) as src'. generalize (group_source g) as src.
  intros src src'. induction g as [|m g IH]; [reflexivity|].
  cbn [map flat_map]. rewrite !map_app, IH. f_equal.
  rewrite collect_metric_drop. apply collect_metric_strip.
Qed.

Theorem skip_is_local_exact c s :
  Forall (fun g => group_source (map (@drop_unrepr_metric F) g) = group_source g) s ->
  collect c (map (map (@drop_unrepr_metric F)) s) = collect c s.
Proof.
  unfold Prom.collect. induction 1 as [|g s E _ IH]; [reflexivity|].
  cbn [map flat_map]. rewrite IH. f_equal. unfold Prom.collect_group. rewrite E.
  generalize (group_source g) as src. intros src. clear.
  induction g as [|m g IH]; [reflexivity|]. cbn [map flat_map]. rewrite IH, collect_metric_drop. reflexivity.
Qed.

(* ---- histograms ---- *)

Lemma cum_from_snd_ge (acc : N) (bs : list (@range F * N)) i a :
  nth_error (map snd (cum_from acc bs)) i = Some a -> acc <= a.
Proof.
  revert acc i; induction bs as [|[r c] bs IH]; intros acc i H; [destruct i; discriminate|].
  cbn [cum_from map snd] in H. destruct i as [|i]; cbn [nth_error] in H.
  - injection H as <-. lia.
  - apply IH in H. lia.
Qed.

Lemma cum_from_monotone (acc : N) (bs : list (@range F * N)) i a b :
  nth_error (map snd (cum_from acc bs)) i = Some a ->
  nth_error (map snd (cum_from acc bs)) (S i) = Some b -> a <= b.
Proof.
  revert acc i; induction bs as [|[r c] bs IH]; intros acc i Ha Hb; [destruct i; discriminate|].
  cbn [cum_from map snd] in Ha, Hb. destruct i as [|i]; cbn [nth_error] in Ha, Hb.
  - injection Ha as <-. exact (cum_from_snd_ge (acc + c) bs 0%nat b Hb).
  - exact (IH (acc + c) i Ha Hb).
Qed.

Theorem cum_monotone (d : @bdatum F) i a b :
  nth_error (map snd (cum_by_max d)) i = Some a ->
  nth_error (map snd (cum_by_max d)) (S i) = Some b -> a <= b.
Proof. apply cum_from_monotone. Qed.

Lemma cum_from_fst acc (bs : list (@range F * N)) :
  map fst (cum_from acc bs) = map (fun rc => r_max (fst rc)) bs.
Proof.
  revert acc; induction bs as [|[r c] bs IH]; intros acc; [reflexivity|]. cbn. f_equal. apply IH.
Qed.

Lemma cum_from_last acc (bs : list (@range F * N)) dflt :
  bs <> [] -> snd (last (cum_from acc bs) dflt) = acc + sumN (map snd bs).
Proof.
  revert acc; induction bs as [|[r c] bs IH]; intros acc H; [congruence|].
  destruct bs as [|b bs'].
  - cbn. lia.
  - change (cum_from acc ((r, c) :: b :: bs')) with ((r_max r, acc + c) :: cum_from (acc + c) (b :: bs')).
    assert (E : forall (x : F * N) l, l <> [] -> last (x :: l) dflt = last l dflt)
      by (intros x [|y l] Hl; [congruence|reflexivity]).
    rewrite E.
    + rewrite IH by discriminate. cbn [map snd sumN]. lia.
    + destruct b. discriminate.
Qed.

Theorem cum_bounds (d : @bdatum F) : map fst (cum_by_max d) = bounds d.
Proof. apply cum_from_fst. Qed.

Theorem inf_bucket_is_count (O : fops F) rs vs dflt :
  let d := observe_all O vs (make_buckets O rs) in
  snd (last (cum_by_max d) dflt) = b_count d.
Proof.
  cbn zeta. destruct (counts_sum_to_count O rs vs) as (S & _).
  destruct (make_buckets_fresh O rs) as (Hne & _).
  destruct (observe_all_inv O vs _ Hne) as (Hne' & _).
  unfold cum_by_max. rewrite cum_from_last by exact Hne'. rewrite <- S. reflexivity.
Qed.

Lemma last_map {A B} (f : A -> B) l d : last (map f l) (f d) = f (last l d).
Proof. induction l as [|x [|y l] IH]; try reflexivity. exact IH. Qed.

Theorem inf_bucket_bound (O : fops F) bs rs vs dflt :
  f_is_pinf O (f_inf O) = true -> make_ranges O bs = Some rs ->
  let d := observe_all O vs (make_buckets O rs) in
  fst (last (cum_by_max d) dflt) = f_inf O.
Proof.
  intros Hinf H d.
  rewrite <- (last_map fst). rewrite cum_bounds.
  destruct (make_buckets_fresh O rs) as (Hne & _).
  unfold d. rewrite (observe_all_keeps_ranges O vs _ Hne).
  (* bounds (make_buckets rs) = map r_max rs, which ends in +Inf *)
  assert (E : exists pre, map r_max rs = pre ++ [f_inf O]).
  { destruct bs as [|b0 rest]; [discriminate|].
    destruct (f_ltb O (f_zero O) b0) eqn:L.
    - exists (b0 :: rest). exact (bounds_positive_first O _ _ b0 H eq_refl L).
    - exists rest. exact (bounds_nonpositive_first O _ _ b0 H eq_refl L). }
  destruct E as (pre & E).
  unfold make_buckets. destruct (scan_ranges O rs false (f_zero O)) as [seen h] eqn:S.
  assert (seen = true) as ->.
  { change seen with (fst (seen, h)). rewrite <- S. apply scan_ranges_inf; [exact Hinf|].
    rewrite E. apply in_or_app. right. left. reflexivity. }
  unfold bounds; cbn [b_buckets]. rewrite map_map.
  change (last (map (@r_max F) rs) (fst dflt) = f_inf O). rewrite E. apply last_last.
Qed.

End P.
