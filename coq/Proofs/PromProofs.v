(* Proofs about Export/Prom.v (for every float type F and conversion of_int). *)
From V Require Import Export.Prom Proofs.BucketsProofs.
Local Open Scope N_scope.

Section P.
Context {F : Type} (O : fops F) (of_int : Z -> F) (fzero : F).
Notation metric := (metric F).
Notation labelset := (labelset F).
Notation sample := (sample F).
Notation collect := (collect O of_int fzero).
Notation collect_group := (collect_group O of_int fzero).
Notation collect_metric := (collect_metric O of_int fzero).
Notation sample_of := (sample_of O of_int fzero).

(* where a sample comes from *)
Definition origin (c : cfg) (s : list (list metric)) (x : sample) (g : list metric) (m : metric) (ls : labelset) : Prop :=
  In g s /\ In m g /\ m_kind m <> KText /\ In ls (m_lvs m) /\ ls_repr ls = true /\
  x = sample_of c (group_source g) m ls.

Lemma exported_iff (m : metric) : exported m = true <-> m_kind m <> KText.
Proof. unfold exported. destruct (m_kind m); cbn; split; congruence. Qed.

Lemma in_collect_metric c src (m : metric) x :
  In x (collect_metric c src m) <->
  m_kind m <> KText /\ exists ls, In ls (m_lvs m) /\ ls_repr ls = true /\ x = sample_of c src m ls.
Proof.
  unfold Prom.collect_metric. destruct (exported m) eqn:E.
  - rewrite in_flat_map. split.
    + intros (ls & Hin & Hx). destruct (ls_repr ls) eqn:R; [|destruct Hx].
      destruct Hx as [<-|[]]. split; [apply exported_iff; exact E|]. exists ls. auto.
    + intros (_ & ls & Hin & R & ->). exists ls. split; [exact Hin|]. rewrite R. left. reflexivity.
  - split; [intros []|]. intros (K & _). apply exported_iff in K. congruence.
Qed.

Theorem in_collect c s x :
  In x (collect c s) <-> exists g m ls, origin c s x g m ls.
Proof.
  unfold Prom.collect, Prom.collect_group, origin. rewrite in_flat_map. split.
  - intros (g & Hg & Hx). apply in_flat_map in Hx as (m & Hm & Hx).
    apply in_collect_metric in Hx as (K & ls & Hl & R & ->). exists g, m, ls. auto 10.
  - intros (g & m & ls & Hg & Hm & K & Hl & R & ->). exists g. split; [exact Hg|].
    apply in_flat_map. exists m. split; [exact Hm|]. apply in_collect_metric. split; [exact K|].
    exists ls. auto.
Qed.

Definition series_key (x : sample) : bytes * list (bytes * bytes) := (s_name x, s_labels x).

(* "no two exported series share a name and label set" *)
Definition no_dup_series (c : cfg) (s : list (list metric)) : Prop :=
  NoDup (map series_key (collect c s)).

Lemma NoDup_map_unique {A B} (f : A -> B) (l : list A) x y :
  NoDup (map f l) -> In x l -> In y l -> f x = f y -> x = y.
Proof.
  induction l as [|a l IH]; [intros _ []|]. cbn [map]. intros N Hx Hy E.
  inversion N as [|? ? Hn N']; subst.
  destruct Hx as [->|Hx], Hy as [->|Hy]; [reflexivity| | |apply IH; assumption].
  - exfalso. apply Hn. rewrite E. apply in_map. exact Hy.
  - exfalso. apply Hn. rewrite <- E. apply in_map. exact Hx.
Qed.

Theorem one_sample_each c s g m ls :
  no_dup_series c s ->
  In g s -> In m g -> m_kind m <> KText -> In ls (m_lvs m) -> ls_repr ls = true ->
  let x := sample_of c (group_source g) m ls in
  In x (collect c s) /\
  forall y, In y (collect c s) -> s_name y = no_hyphens (m_name m) -> s_labels y = labels_of c m ls -> y = x.
Proof.
  intros N Hg Hm K Hl R x.
  assert (Hx : In x (collect c s)) by (apply in_collect; exists g, m, ls; unfold origin; auto 10).
  split; [exact Hx|]. intros y Hy En El.
  apply (NoDup_map_unique series_key _ y x N Hy Hx). unfold series_key. rewrite En, El. reflexivity.
Qed.

Theorem ts_iff_enabled c s x : In x (collect c s) -> (s_ts x <> None <-> emit_ts c = true).
Proof.
  intros H. apply in_collect in H as (g & m & ls & _ & _ & _ & _ & _ & ->).
  cbn [s_ts Prom.sample_of]. destruct (emit_ts c); split; congruence.
Qed.

(* ---- representability as a decidable predicate on the store ---- *)
Definition repr_consistent (c : cfg) (s : list (list metric)) : Prop :=
  forall g m ls, In g s -> In m g -> In ls (m_lvs m) -> ls_repr ls = representable c m ls.

Theorem in_collect_concrete c s x :
  repr_consistent c s ->
  (In x (collect c s) <->
   exists g m ls, In g s /\ In m g /\ m_kind m <> KText /\ In ls (m_lvs m) /\ representable c m ls = true /\
                  x = sample_of c (group_source g) m ls).
Proof.
  intros RC. rewrite in_collect. unfold origin. split; intros (g & m & ls & Hg & Hm & K & Hl & R & E);
    exists g, m, ls; repeat split; try assumption.
  - rewrite <- (RC g m ls Hg Hm Hl). exact R.
  - rewrite (RC g m ls Hg Hm Hl). exact R.
Qed.

Theorem one_sample_each_concrete c s g m ls :
  repr_consistent c s -> no_dup_series c s ->
  In g s -> In m g -> m_kind m <> KText -> In ls (m_lvs m) -> representable c m ls = true ->
  let x := sample_of c (group_source g) m ls in
  In x (collect c s) /\
  forall y, In y (collect c s) -> s_name y = no_hyphens (m_name m) -> s_labels y = labels_of c m ls -> y = x.
Proof.
  intros RC N Hg Hm K Hl R. apply one_sample_each; try assumption. rewrite (RC g m ls Hg Hm Hl). exact R.
Qed.

(* the store with its oracle bits recomputed from the concrete rules *)
Definition concretize_metric (c : cfg) (m : metric) : metric :=
  {| m_name := m_name m; m_prog := m_prog m; m_kind := m_kind m; m_keys := m_keys m; m_source := m_source m;
     m_lvs := map (fun ls => {| ls_vals := ls_vals ls; ls_val := ls_val ls; ls_time := ls_time ls;
                                ls_repr := representable c m ls |}) (m_lvs m) |}.
Definition concretize (c : cfg) (s : list (list metric)) : list (list metric) :=
  map (map (concretize_metric c)) s.

Theorem concretize_consistent c s : repr_consistent c (concretize c s).
Proof.
  intros g' m' ls' Hg Hm Hl. unfold concretize in Hg. apply in_map_iff in Hg as (g & <- & _).
  apply in_map_iff in Hm as (m & <- & _). cbn [concretize_metric m_lvs] in Hl.
  apply in_map_iff in Hl as (ls & <- & _). reflexivity.
Qed.

Lemma map_id_in {A} (f : A -> A) l : (forall x, In x l -> f x = x) -> map f l = l.
Proof.
  induction l as [|x l IH]; [reflexivity|]. intros H. cbn [map]. f_equal; [apply H; left; reflexivity|].
  apply IH. intros y Hy. apply H. right. exact Hy.
Qed.

Lemma concretize_metric_id c (m : metric) :
  (forall ls, In ls (m_lvs m) -> ls_repr ls = representable c m ls) -> concretize_metric c m = m.
Proof.
  intros H. destruct m as [n p k ks src lvs]. unfold concretize_metric.
  cbn [m_name m_prog m_kind m_keys m_source m_lvs] in *. f_equal.
  apply map_id_in. intros ls Hl. destruct ls as [v d t r]. cbn [ls_vals ls_val ls_time]. f_equal.
  symmetry. exact (H _ Hl).
Qed.

Theorem concretize_id c s : repr_consistent c s -> concretize c s = s.
Proof.
  intros RC. unfold concretize. apply map_id_in. intros g Hg. apply map_id_in. intros m Hm.
  apply concretize_metric_id. intros ls Hl. exact (RC g m ls Hg Hm Hl).
Qed.

(* ---- unrepresentable label sets ---- *)

Lemma collect_metric_drop c src (m : metric) :
  collect_metric c src (drop_unrepr_metric m) = collect_metric c src m.
Proof.
  unfold Prom.collect_metric, drop_unrepr_metric, exported; cbn [m_kind m_lvs].
  destruct (negb (kind_eqb (m_kind m) KText)); [|reflexivity].
  induction (m_lvs m) as [|ls l IH]; [reflexivity|]. cbn [filter flat_map].
  destruct (ls_repr ls) eqn:R.
  - cbn [flat_map]. rewrite R. cbn [app]. f_equal.
    rewrite <- IH. reflexivity.
  - cbn [app]. rewrite <- IH. reflexivity.
Qed.

Definition strip_help (x : sample) : sample :=
  {| s_name := s_name x; s_help := []; s_labels := s_labels x; s_typ := s_typ x;
     s_val := s_val x; s_ts := s_ts x |}.

Lemma collect_metric_strip c src src' (m : metric) :
  map strip_help (collect_metric c src m) = map strip_help (collect_metric c src' m).
Proof.
  unfold Prom.collect_metric. destruct (exported m); [|reflexivity].
  induction (m_lvs m) as [|ls l IH]; [reflexivity|]. cbn [flat_map].
  rewrite !map_app, IH. f_equal. destruct (ls_repr ls); reflexivity.
Qed.

Lemma flat_map_strip c (g g' : list metric) src src' :
  map (collect_metric c src') g' = map (collect_metric c src') g ->
  map strip_help (flat_map (collect_metric c src) g) = map strip_help (flat_map (collect_metric c src') g) .
Proof.
  intros _. induction g as [|m g IH]; [reflexivity|]. cbn [flat_map]. rewrite !map_app, IH.
  f_equal. apply collect_metric_strip.
Qed.

Theorem skip_is_local c s :
  map strip_help (collect c (map (map (@drop_unrepr_metric F)) s)) = map strip_help (collect c s).
Proof.
  unfold Prom.collect. induction s as [|g s IH]; [reflexivity|].
  cbn [map flat_map]. rewrite !map_app, IH. f_equal. clear IH.
  unfold Prom.collect_group.
  generalize (group_source (map (@drop_unrepr_metric F) g)) as src'. generalize (group_source g) as src.
  intros src src'. induction g as [|m g IH]; [reflexivity|].
  cbn [map flat_map]. rewrite !map_app, IH. f_equal.
  rewrite collect_metric_drop. apply collect_metric_strip.
Qed.

Theorem skip_is_local_exact c s :
  Forall (fun g => group_source (map (@drop_unrepr_metric F) g) = group_source g) s ->
  collect c (map (map (@drop_unrepr_metric F)) s) = collect c s.
Proof.
  unfold Prom.collect. induction 1 as [|g s E _ IH]; [reflexivity|].
  cbn [map flat_map]. rewrite IH. f_equal. unfold Prom.collect_group. rewrite E.
  generalize (group_source g) as src. intros src. clear.
  induction g as [|m g IH]; [reflexivity|]. cbn [map flat_map]. rewrite IH, collect_metric_drop. reflexivity.
Qed.

(* ---- histograms ---- *)

Lemma cum_from_snd_ge (acc : N) (bs : list (@range F * N)) i a :
  nth_error (map snd (cum_from acc bs)) i = Some a -> acc <= a.
Proof.
  revert acc i; induction bs as [|[r c] bs IH]; intros acc i H; [destruct i; discriminate|].
  cbn [cum_from map snd] in H. destruct i as [|i]; cbn [nth_error] in H.
  - injection H as <-. lia.
  - apply IH in H. lia.
Qed.

Lemma cum_from_monotone (acc : N) (bs : list (@range F * N)) i a b :
  nth_error (map snd (cum_from acc bs)) i = Some a ->
  nth_error (map snd (cum_from acc bs)) (S i) = Some b -> a <= b.
Proof.
  revert acc i; induction bs as [|[r c] bs IH]; intros acc i Ha Hb; [destruct i; discriminate|].
  cbn [cum_from map snd] in Ha, Hb. destruct i as [|i]; cbn [nth_error] in Ha, Hb.
  - injection Ha as <-. exact (cum_from_snd_ge (acc + c) bs 0%nat b Hb).
  - exact (IH (acc + c) i Ha Hb).
Qed.

Theorem cum_monotone (d : @bdatum F) i a b :
  nth_error (map snd (cum_by_max O d)) i = Some a ->
  nth_error (map snd (cum_by_max O d)) (S i) = Some b -> a <= b.
Proof. apply cum_from_monotone. Qed.

Lemma cum_from_fst acc (bs : list (@range F * N)) :
  map fst (cum_from acc bs) = map (fun rc => r_max (fst rc)) bs.
Proof.
  revert acc; induction bs as [|[r c] bs IH]; intros acc; [reflexivity|]. cbn. f_equal. apply IH.
Qed.

Lemma cum_from_last acc (bs : list (@range F * N)) dflt :
  bs <> [] -> snd (last (cum_from acc bs) dflt) = acc + sumN (map snd bs).
Proof.
  revert acc; induction bs as [|[r c] bs IH]; intros acc H; [congruence|].
  destruct bs as [|b bs'].
  - cbn. lia.
  - change (cum_from acc ((r, c) :: b :: bs')) with ((r_max r, acc + c) :: cum_from (acc + c) (b :: bs')).
    assert (E : forall (x : F * N) l, l <> [] -> last (x :: l) dflt = last l dflt)
      by (intros x [|y l] Hl; [congruence|reflexivity]).
    rewrite E.
    + rewrite IH by discriminate. cbn [map snd sumN]. lia.
    + destruct b. discriminate.
Qed.

(* sorting keeps the buckets (a permutation): same total, same members *)
Lemma sumN_insert x (l : list (@range F * N)) :
  sumN (map snd (insert_bucket O x l)) = snd x + sumN (map snd l).
Proof.
  induction l as [|y l IH]; [reflexivity|]. cbn [insert_bucket].
  destruct (f_leb O (r_max (fst x)) (r_max (fst y))); cbn [map sumN]; [reflexivity|]. rewrite IH. lia.
Qed.
Lemma sumN_sort (l : list (@range F * N)) : sumN (map snd (sort_buckets O l)) = sumN (map snd l).
Proof.
  induction l as [|x l IH]; [reflexivity|]. cbn [sort_buckets fold_right].
  fold (sort_buckets O l). rewrite sumN_insert, IH. reflexivity.
Qed.
Lemma insert_nonempty x (l : list (@range F * N)) : insert_bucket O x l <> [].
Proof. destruct l; cbn; [discriminate|]. destruct (f_leb O _ _); discriminate. Qed.
Lemma sort_nonempty (l : list (@range F * N)) : l <> [] -> sort_buckets O l <> [].
Proof. destruct l; [congruence|]. intros _. cbn [sort_buckets fold_right]. apply insert_nonempty. Qed.
Lemma in_insert_bucket x y (l : list (@range F * N)) : In y (insert_bucket O x l) <-> y = x \/ In y l.
Proof.
  induction l as [|z l IH]; cbn [insert_bucket]; [cbn; intuition congruence|].
  destruct (f_leb O _ _); cbn [In]; [intuition congruence|]. rewrite IH. cbn. intuition congruence.
Qed.
Theorem in_sort_buckets y (l : list (@range F * N)) : In y (sort_buckets O l) <-> In y l.
Proof.
  induction l as [|x l IH]; [reflexivity|]. cbn [sort_buckets fold_right]. fold (sort_buckets O l).
  rewrite in_insert_bucket, IH. cbn. intuition congruence.
Qed.

(* the result is ordered by upper bound: each bound is <= the next one,
   provided <= is total on the bounds present (no NaN bound) and transitive *)
Fixpoint adj_sorted (ms : list F) : Prop :=
  match ms with
  | x :: ((y :: _) as r) => f_leb O x y = true /\ adj_sorted r
  | _ => True
  end.

Lemma adj_sorted_cons x l : adj_sorted l -> (forall y, hd_error l = Some y -> f_leb O x y = true) -> adj_sorted (x :: l).
Proof. destruct l as [|y l]; [intros; exact I|]. intros S H. split; [apply H; reflexivity|exact S]. Qed.

Lemma insert_sorted x (l : list (@range F * N)) :
  (forall a b, f_leb O a b = false -> f_leb O b a = true) ->
  adj_sorted (map (fun rc => r_max (fst rc)) l) ->
  adj_sorted (map (fun rc => r_max (fst rc)) (insert_bucket O x l)).
Proof.
  intros Tot. induction l as [|y l IH]; intros S; [exact I|]. cbn [insert_bucket].
  destruct (f_leb O (r_max (fst x)) (r_max (fst y))) eqn:E.
  - cbn [map]. split; [exact E|exact S].
  - cbn [map]. apply adj_sorted_cons.
    + apply IH. destruct l as [|z l]; [exact I|]. exact (proj2 S).
    + intros z Hz. destruct l as [|w l]; cbn [insert_bucket map hd_error] in Hz.
      * injection Hz as <-. apply Tot. exact E.
      * destruct (f_leb O (r_max (fst x)) (r_max (fst w))); cbn [map hd_error] in Hz; injection Hz as <-.
        -- apply Tot. exact E.
        -- exact (proj1 S).
Qed.

Theorem cum_by_max_sorted (d : @bdatum F) :
  (forall a b, f_leb O a b = false -> f_leb O b a = true) ->
  adj_sorted (map fst (cum_by_max O d)).
Proof.
  intros Tot. unfold cum_by_max. rewrite cum_from_fst.
  induction (b_buckets d) as [|x l IH]; [exact I|]. cbn [sort_buckets fold_right]. fold (sort_buckets O l).
  apply insert_sorted; assumption.
Qed.

(* an ascending slice is left as it is: the sort changes nothing for the
   datums compiled programs create *)
Lemma sort_sorted_id (l : list (@range F * N)) :
  adj_sorted (map (fun rc => r_max (fst rc)) l) -> sort_buckets O l = l.
Proof.
  induction l as [|x l IH]; [reflexivity|]. intros S. cbn [sort_buckets fold_right]. fold (sort_buckets O l).
  destruct l as [|y l']; [reflexivity|]. rewrite IH by exact (proj2 S).
  cbn [insert_bucket]. cbn [map] in S. rewrite (proj1 S). reflexivity.
Qed.

Theorem cum_sorted_is_slice_order (d : @bdatum F) :
  adj_sorted (bounds d) -> cum_by_max O d = cum_in_slice_order d.
Proof. intros S. unfold cum_by_max, cum_in_slice_order. rewrite sort_sorted_id by exact S. reflexivity. Qed.

(* every exported bucket is a bucket of the datum and conversely *)
Theorem cum_bounds_perm (d : @bdatum F) x :
  In x (map fst (cum_by_max O d)) <-> In x (bounds d).
Proof.
  unfold cum_by_max, bounds. rewrite cum_from_fst, !in_map_iff.
  split; intros (rc & E & H); exists rc; (split; [exact E|]); apply in_sort_buckets; exact H.
Qed.

Theorem inf_bucket_is_count rs vs dflt :
  let d := observe_all O vs (make_buckets O rs) in
  snd (last (cum_by_max O d) dflt) = b_count d.
Proof.
  cbn zeta. destruct (counts_sum_to_count O rs vs) as (S & _).
  destruct (make_buckets_fresh O rs) as (Hne & _).
  destruct (observe_all_inv O vs _ Hne) as (Hne' & _).
  unfold cum_by_max. rewrite cum_from_last by (apply sort_nonempty; exact Hne').
  rewrite sumN_sort. rewrite <- S. reflexivity.
Qed.

Lemma last_map {A B} (f : A -> B) l d : last (map f l) (f d) = f (last l d).
Proof. induction l as [|x [|y l] IH]; try reflexivity. exact IH. Qed.

Theorem inf_bucket_bound bs rs vs dflt :
  f_is_pinf O (f_inf O) = true -> make_ranges O bs = Some rs -> adj_sorted (map r_max rs) ->
  let d := observe_all O vs (make_buckets O rs) in
  fst (last (cum_by_max O d) dflt) = f_inf O.
Proof.
  intros Hinf H Srt d.
  destruct (make_buckets_fresh O rs) as (Hne & _).
  assert (E : exists pre, map r_max rs = pre ++ [f_inf O]).
  { destruct bs as [|b0 rest]; [discriminate|].
    destruct (f_ltb O (f_zero O) b0) eqn:L.
    - exists (b0 :: rest). exact (bounds_positive_first O _ _ b0 H eq_refl L).
    - exists rest. exact (bounds_nonpositive_first O _ _ b0 H eq_refl L). }
  destruct E as (pre & E).
  assert (B : bounds d = map r_max rs).
  { unfold d. rewrite (observe_all_keeps_ranges O vs _ Hne).
    unfold make_buckets. destruct (scan_ranges O rs false (f_zero O)) as [seen h] eqn:S.
    assert (seen = true) as ->.
    { change seen with (fst (seen, h)). rewrite <- S. apply scan_ranges_inf; [exact Hinf|].
      rewrite E. apply in_or_app. right. left. reflexivity. }
    unfold bounds; cbn [b_buckets]. rewrite map_map. reflexivity. }
  rewrite cum_sorted_is_slice_order by (rewrite B; exact Srt).
  rewrite <- (last_map fst). unfold cum_in_slice_order. rewrite cum_from_fst.
  change (map (fun rc : range * N => r_max (fst rc)) (b_buckets d)) with (bounds d).
  rewrite B, E. apply last_last.
Qed.

End P.
