(* The per-constructor cases of the general expression simulation. *)
From V Require Import Lang.RefSem Lang.Codegen Lang.Vm Lang.Observe Lang.Wt Proofs.C01Sim Proofs.C01Expr.
From V Require Import Proofs.C01Store Proofs.C01Gen.
From Coq Require Import Lia.
Local Open Scope Z_scope.

Section Cases.
Variable E : env.
Variable decls : list mdecl.
Variable file line : bytes.
Variable o : object.
Hypothesis Hmets : o_metrics o = map mdesc_of decls.

Notation ll := (mklogline file line).
Notation step := (Vm.step E o ll).
Notation nsteps := (C01Sim.nsteps E o ll).
Notation eval := (RefSem.eval E decls file line).
Notation eval_keys := (RefSem.eval_keys E decls file line).
Notation cexpr := (Codegen.cexpr decls).
Notation cexprs := (Codegen.cexprs decls).
Notation rbind := RefSem.bind.
Notation etype := (Wt.etype decls (o_strs o) (o_nre o)).
Notation keys_ok := (Wt.keys_ok decls (o_strs o) (o_nre o)).
Notation sim_gen := (C01Gen.sim_gen E decls file line o).
Notation esim := (C01Gen.esim E decls file line o).
Notation rel := (C01Gen.rel E decls).

(* ---- leaves ---- *)
Lemma sim_leaf (v_of : rstate -> rval) i t :
  (forall rs, vty (v_of rs) = t) ->
  (forall pc' stk mt ms tm rs vs, rel rs ms tm vs ->
     exec E o ll i (mkthread pc' stk mt ms tm) vs = Ok (XNext (mkthread pc' (inj (v_of rs) :: stk) mt ms tm) vs)) ->
  sim_gen (fun rs => ROk (v_of rs) rs) (fun _ => [i]) (push1 isinj) (fun v => vty v = t).
Proof.
  intros Ht Hx pc stk mt ms tm rs vs Hat Hrel. split; [apply Ht|].
  exists (inj (v_of rs) :: stk), ms, vs, 1%nat. split; [eexists; split; reflexivity|]. split; [cbn; lia|].
  split; [|split; [exact Hrel | apply ext_refl]].
  cbn [C01Sim.nsteps length]. erewrite step_at; [| exact Hat | apply Hx; exact Hrel].
  rewrite Nat.add_1_r. reflexivity.
Qed.

Lemma case_int z : esim (EInt z) TInt.
Proof. apply from_inj. apply (sim_leaf (fun _ => RInt z)); [reflexivity | reflexivity]. Qed.
Lemma case_float b : esim (EFloat b) TFloat.
Proof. apply from_inj. apply (sim_leaf (fun _ => RFloat b)); [reflexivity | reflexivity]. Qed.
Lemma case_getfilename : esim EGetfilename TStr.
Proof. apply from_inj. apply (sim_leaf (fun _ => RStr file)); [reflexivity | reflexivity]. Qed.
Lemma case_timestamp : esim ETimestamp TInt.
Proof.
  apply from_inj.
  apply (sim_leaf (fun rs => RInt (if time_is_zero (time_reg rs) then now_sec E else time_unix (time_reg rs))));
    [reflexivity|].
  intros pc' stk mt ms tm rs vs [_ Ht _ _]. subst tm. cbn. destruct (time_is_zero (time_reg rs)); reflexivity.
Qed.

Lemma case_str sid s : str_ok (o_strs o) sid s = true -> esim (EStr sid s) TStr.
Proof.
  intros Hs. unfold str_ok in Hs. destruct (nth_error (o_strs o) (N.to_nat sid)) as [s'|] eqn:Hn; [|discriminate].
  apply bytes_eqb_spec in Hs. subst s'.
  apply from_inj. apply (sim_leaf (fun _ => RStr s)); [reflexivity|].
  intros pc' stk mt ms tm rs vs _. cbn. unfold index_in.
  assert (Hlt : (N.to_nat sid < length (o_strs o))%nat) by (apply nth_error_Some; congruence).
  replace ((0 <=? zn sid) && (zn sid <? Z.of_nat (length (o_strs o)))) with true
    by (symmetry; apply andb_true_iff; unfold zn; split; [apply Z.leb_le|apply Z.ltb_lt]; lia).
  cbn. rewrite to_nat_zn. rewrite (nth_error_nth _ _ _ Hn). reflexivity.
Qed.

(* ---- operations with one pure final instruction ---- *)
Lemma case_neg a : esim a TInt -> esim (ENeg a) TInt.
Proof. intros IH. apply from_inj. exact (sim_unop _ _ _ _ _ _ _ _ _ _ _ _ _ (esim_vrel _ _ _ _ _ _ _ IH) (spec_neg _ _ _ _)). Qed.

Lemma case_tolower a : esim a TStr -> esim (ETolower a) TStr.
Proof. intros IH. apply from_inj. exact (sim_unop _ _ _ _ _ _ _ _ _ _ _ _ _ (esim_vrel _ _ _ _ _ _ _ IH) (spec_tolower _ _ _ _)). Qed.

Lemma case_len a : esim a TStr -> esim (ELen a) TInt.
Proof.
  intros IH. eapply sim_weaken; [| exact (sim_unop _ _ _ _ _ _ _ _ _ _ _ _ _ (esim_vrel _ _ _ _ _ _ _ IH) (spec_len _ _ _ _))].
  apply push1_mono. intros v w H. split; [exact H | discriminate].
Qed.

Lemma case_arith op t a b : (t = TInt \/ t = TFloat) -> esim a t -> esim b t -> esim (EArith op t a b) t.
Proof.
  intros [-> | ->] IHa IHb; apply from_inj.
  - exact (sim_binop _ _ _ _ _ _ _ _ _ _ _ _ _ _ _ _ _ (esim_vrel _ _ _ _ _ _ _ IHa) (esim_vrel _ _ _ _ _ _ _ IHb) (spec_arith_int _ _ _ _ op)).
  - exact (sim_binop _ _ _ _ _ _ _ _ _ _ _ _ _ _ _ _ _ (esim_vrel _ _ _ _ _ _ _ IHa) (esim_vrel _ _ _ _ _ _ _ IHb) (spec_arith_float _ _ _ _ op)).
Qed.

Lemma case_bit op a b : esim a TInt -> esim b TInt -> esim (EBit op a b) TInt.
Proof.
  intros IHa IHb; apply from_inj.
  exact (sim_binop _ _ _ _ _ _ _ _ _ _ _ _ _ _ _ _ _ (esim_vrel _ _ _ _ _ _ _ IHa) (esim_vrel _ _ _ _ _ _ _ IHb) (spec_bit _ _ _ _ op)).
Qed.

Lemma case_strtol a b : esim a TStr -> esim b TInt -> esim (EStrtol a b) TInt.
Proof.
  intros IHa IHb; apply from_inj.
  exact (sim_binop _ _ _ _ _ _ _ _ _ _ _ _ _ _ _ _ _ (esim_vrel _ _ _ _ _ _ _ IHa) (esim_vrel _ _ _ _ _ _ _ IHb) (spec_strtol _ _ _ _)).
Qed.

(* ---- comparisons ---- *)
Lemma cmp_arg_ok op : fst (cmp_arg op) = -1 \/ fst (cmp_arg op) = 0 \/ fst (cmp_arg op) = 1.
Proof. destruct op; cbn; auto. Qed.
Lemma cmp_jop op : snd (cmp_arg op) = jop (jm_of op).
Proof. destruct op; reflexivity. Qed.

Lemma case_cmp op t typed a b :
  t <> TBool -> (t = TStr -> typed = true) -> esim a t -> esim b t -> esim (ECmp op t typed a b) TBool.
Proof.
  intros Hnb Hs IHa IHb. apply from_inj.
  eapply sim_code_ext;
    [| exact (sim_cmp _ _ _ _ _ _ _ _ _ _ _ _ _ (fun va vb s => do_cmp E op t va vb s) _ (jm_of op) isinj
               (esim_vrel _ _ _ _ _ _ _ IHa) (esim_vrel _ _ _ _ _ _ _ IHb)
               (spec_cmp _ _ _ _ t typed (fst (cmp_arg op)) (cmp_arg_ok op) Hnb Hs)
               (fun b => eq_refl) (fun va vb s Hva Hvb => do_cmp_raw _ op t va vb s Hnb Hva Hvb))].
  intros pc. cbn [Codegen.cexpr]. rewrite cmp_jop. reflexivity.
Qed.

(* ---- && and || ---- *)
Lemma case_and a b ta tb :
  etype a = Some ta -> is_cond a (Some ta) = true -> etype b = Some tb -> is_cond b (Some tb) = true ->
  esim a ta -> esim b tb -> esim (EAnd a b) TBool.
Proof.
  intros Ha Hca Hb Hcb IHa IHb. apply from_inj.
  eapply sim_gen_ext;
    [| exact (sim_logic _ _ _ _ _ _ _ _ _ _ _ _ _ false true false isinj IHa IHb
               (fun v w Hv Hw => cond_truth _ a ta v w Hca Hv Hw)
               (fun v w Hv Hw => cond_truth _ b tb v w Hcb Hv Hw) (fun b => eq_refl))].
  intros rs. cbn [RefSem.eval]. destruct (eval a rs) as [va s1|x s1]; cbn [RefSem.bind]; [|reflexivity].
  destruct (truthy E va); cbn [Bool.eqb]; [|reflexivity].
  destruct (eval b s1) as [vb s2|x s2]; cbn [RefSem.bind]; [|reflexivity].
  destruct (truthy E vb); reflexivity.
Qed.

Lemma case_or a b ta tb :
  etype a = Some ta -> is_cond a (Some ta) = true -> etype b = Some tb -> is_cond b (Some tb) = true ->
  esim a ta -> esim b tb -> esim (EOr a b) TBool.
Proof.
  intros Ha Hca Hb Hcb IHa IHb. apply from_inj.
  eapply sim_gen_ext;
    [| exact (sim_logic _ _ _ _ _ _ _ _ _ _ _ _ _ true false true isinj IHa IHb
               (fun v w Hv Hw => cond_truth _ a ta v w Hca Hv Hw)
               (fun v w Hv Hw => cond_truth _ b tb v w Hcb Hv Hw) (fun b => eq_refl))].
  intros rs. cbn [RefSem.eval]. destruct (eval a rs) as [va s1|x s1]; cbn [RefSem.bind]; [|reflexivity].
  destruct (truthy E va); cbn [Bool.eqb]; [reflexivity|].
  destruct (eval b s1) as [vb s2|x s2]; cbn [RefSem.bind]; [|reflexivity].
  destruct (truthy E vb); reflexivity.
Qed.

(* ---- conversions ---- *)
Lemma sim_weaken_P {A} (r : rstate -> RefSem.res A) code (W1 W2 : A -> list val -> list val -> Prop) (P : A -> Prop) :
  (forall v s s', P v -> W1 v s s' -> W2 v s s') -> sim_gen r code W1 P -> sim_gen r code W2 P.
Proof.
  intros HW H pc stk mt ms tm rs vs Hat Hrel. specialize (H pc stk mt ms tm rs vs Hat Hrel).
  destruct (r rs) as [v rs'|[|x] rs']; auto.
  destruct H as (HP & stk' & ms' & vs' & n & Hw & Hrest). split; [exact HP|].
  exists stk', ms', vs', n. split; [apply HW; auto | exact Hrest].
Qed.

Lemma sim_conv_id (r : rstate -> RefSem.res rval) code W t : t <> TBool ->
  sim_gen r code W (fun v => vty v = t) ->
  sim_gen (fun rs => rbind (r rs) (fun v s1 => RefSem.conv E t t v s1)) (fun pc => code pc ++ []) W (fun v => vty v = t).
Proof.
  intros Hnb H pc stk mt ms tm rs vs Hat Hrel. rewrite app_nil_r in *.
  specialize (H pc stk mt ms tm rs vs Hat Hrel).
  destruct (r rs) as [v rs'|[|x] rs']; cbn [RefSem.bind]; auto.
  destruct H as (Hv & Hrest).
  assert (Hc : RefSem.conv E t t v rs' = ROk v rs') by (destruct t, v; cbn in *; congruence).
  rewrite Hc. split; [exact Hv | exact Hrest].
Qed.

Lemma case_conv f t a : conv_ok f t = true -> esim a f -> esim (EConv f t a) t.
Proof.
  intros Hok IH.
  destruct f, t; try discriminate.
  - (* Int -> Int: the representation of a is kept *)
    exact (sim_conv_id _ _ _ TInt ltac:(discriminate) IH).
  - apply from_inj. exact (sim_unop _ _ _ _ _ _ _ _ _ _ _ _ _ (esim_vrel _ _ _ _ _ _ _ IH) (spec_conv _ _ _ _ TInt TFloat _ eq_refl eq_refl)).
  - apply from_inj. exact (sim_unop _ _ _ _ _ _ _ _ _ _ _ _ _ (esim_vrel _ _ _ _ _ _ _ IH) (spec_conv _ _ _ _ TInt TStr _ eq_refl eq_refl)).
  - eapply sim_weaken_P; [| exact (sim_conv_id _ _ _ TFloat ltac:(discriminate) (esim_vrel _ _ _ _ _ _ _ IH))].
    intros v s0 s' Hv (w & Hw & ->). exists w. split; [|reflexivity].
    split; [exact Hw|]. intros _. apply vrel_not_int; [rewrite Hv; discriminate | exact Hw].
  - apply from_inj. exact (sim_unop _ _ _ _ _ _ _ _ _ _ _ _ _ (esim_vrel _ _ _ _ _ _ _ IH) (spec_conv _ _ _ _ TFloat TStr _ eq_refl eq_refl)).
  - apply from_inj. exact (sim_unop _ _ _ _ _ _ _ _ _ _ _ _ _ (esim_vrel _ _ _ _ _ _ _ IH) (spec_conv _ _ _ _ TStr TInt _ eq_refl eq_refl)).
  - apply from_inj. exact (sim_unop _ _ _ _ _ _ _ _ _ _ _ _ _ (esim_vrel _ _ _ _ _ _ _ IH) (spec_conv _ _ _ _ TStr TFloat _ eq_refl eq_refl)).
  - eapply sim_weaken_P; [| exact (sim_conv_id _ _ _ TStr ltac:(discriminate) (esim_vrel _ _ _ _ _ _ _ IH))].
    intros v s0 s' Hv (w & Hw & ->). exists w. split; [|reflexivity].
    split; [exact Hw|]. intros _. apply vrel_not_int; [rewrite Hv; discriminate | exact Hw].
Qed.

(* ---- capture groups ---- *)
Definition cap_raw (pid grp : N) (rs : rstate) : RefSem.res rval :=
  match lookup_match pid (rs_matches rs) with
  | Some gs => match nth_error gs (N.to_nat grp) with
               | Some x => ROk (RStr x) rs
               | None => RefSem.fail RECapture rs
               end
  | None => RefSem.fail RECapture rs
  end.

Lemma sim_cap_raw pid grp :
  sim_gen (cap_raw pid grp) (fun _ => [ins Push (OInt (zn pid)); ins Capref (OInt (zn grp))])
          (push1 isinj) (fun v => vty v = TStr).
Proof.
  intros pc stk mt ms tm rs vs Hat Hrel. unfold cap_raw.
  pose proof (r_m _ _ _ _ _ _ Hrel pid) as Hp. change (Z.of_N pid) with (zn pid) in Hp.
  pose proof (at_pc_head _ _ _ _ Hat) as H0.
  pose proof (fetch_off _ _ 1 _ _ Hat eq_refl) as H1.
  assert (Hst1 : nsteps 1 (mkthread pc stk mt ms tm) vs = Some (mkthread (pc + 1) (VInt (zn pid) :: stk) mt ms tm, vs)).
  { cbn [C01Sim.nsteps]. erewrite step_push; [| exact H0]. rewrite Nat.add_1_r. reflexivity. }
  cbn [length].
  destruct (lookup_match pid (rs_matches rs)) as [gs|] eqn:Hl.
  2:{ exists 1%nat, (mkthread (pc + 1) (VInt (zn pid) :: stk) mt ms tm), ECapture, vs.
      split; [lia|]. split; [exact Hst1|]. split; [|destruct Hrel; auto].
      eapply step_err; [exact H1|]. cbn. rewrite Hp.
      replace (Z.of_nat (length (@nil bytes)) <=? zn grp) with true; [reflexivity|].
      symmetry. apply Z.leb_le. unfold zn. cbn. lia. }
  destruct (nth_error gs (N.to_nat grp)) as [x|] eqn:Hg.
  2:{ exists 1%nat, (mkthread (pc + 1) (VInt (zn pid) :: stk) mt ms tm), ECapture, vs.
      split; [lia|]. split; [exact Hst1|]. split; [|destruct Hrel; auto].
      eapply step_err; [exact H1|]. cbn. rewrite Hp. apply nth_error_None in Hg.
      replace (Z.of_nat (length gs) <=? zn grp) with true; [reflexivity|].
      symmetry. apply Z.leb_le. unfold zn. lia. }
  assert (Hlt : (N.to_nat grp < length gs)%nat) by (apply nth_error_Some; congruence).
  split; [reflexivity|]. exists (VStr x :: stk), ms, vs, 2%nat.
  split; [eexists; split; reflexivity|]. split; [lia|]. split; [|split; [exact Hrel | apply ext_refl]].
  change 2%nat with (1 + 1)%nat at 1. eapply nsteps_snoc; [exact Hst1|].
  replace (pc + 2)%nat with (S (pc + 1)) by lia.
  eapply step_next; [exact H1|]. cbn. rewrite Hp.
  replace (Z.of_nat (length gs) <=? zn grp) with false by (symmetry; apply Z.leb_gt; unfold zn; lia).
  replace (zn grp <? 0) with false by (symmetry; apply Z.ltb_ge; unfold zn; lia).
  rewrite to_nat_zn. rewrite (nth_error_nth _ _ _ Hg). reflexivity.
Qed.

Lemma eval_cap pid grp t rs :
  eval (ECap pid grp t) rs = rbind (cap_raw pid grp rs) (fun v s1 => RefSem.conv E TStr t v s1).
Proof.
  cbn [RefSem.eval]. unfold cap_raw.
  destruct (lookup_match pid (rs_matches rs)) as [gs|]; [|reflexivity].
  destruct (nth_error gs (N.to_nat grp)); reflexivity.
Qed.

Lemma case_cap pid grp t : t <> TBool -> esim (ECap pid grp t) t.
Proof.
  intros Hnb. apply from_inj. eapply sim_gen_ext; [intros rs; apply eval_cap|].
  assert (Hv : sim_gen (cap_raw pid grp) (fun _ => [ins Push (OInt (zn pid)); ins Capref (OInt (zn grp))])
                       (push1 vrel) (fun v => vty v = TStr)).
  { eapply sim_weaken; [| apply sim_cap_raw]. apply push1_mono. intros v w ->. apply vrel_inj. }
  destruct t; try congruence.
  - exact (sim_unop _ _ _ _ _ _ _ _ _ _ _ _ _ Hv (spec_conv _ _ _ _ TStr TInt _ eq_refl eq_refl)).
  - exact (sim_unop _ _ _ _ _ _ _ _ _ _ _ _ _ Hv (spec_conv _ _ _ _ TStr TFloat _ eq_refl eq_refl)).
  - exact (sim_conv_id _ _ _ TStr ltac:(discriminate) (sim_cap_raw pid grp)).
Qed.

(* ---- pattern matches ---- *)
Lemma match_get_del k k' l : k <> k' -> match_get k (match_del k' l) = match_get k l.
Proof.
  intros Hn. induction l as [|[k0 v] l IH]; [reflexivity|]. cbn.
  destruct (Z.eqb k' k0) eqn:H1.
  - apply Z.eqb_eq in H1. subst k0. rewrite IH. destruct (Z.eqb k k') eqn:H2; [apply Z.eqb_eq in H2; congruence | reflexivity].
  - cbn. rewrite IH. reflexivity.
Qed.

Definition groups_of (r : option (list bytes)) : list bytes := match r with Some g => g | None => [] end.

Lemma mrel_set rs ms pid r :
  mrel rs ms -> mrel (set_match pid r rs) ((zn pid, groups_of r) :: match_del (zn pid) ms).
Proof.
  intros H pid'. cbn [set_match rs_matches lookup_match match_get].
  destruct (N.eqb pid pid') eqn:Hp.
  - apply N.eqb_eq in Hp. subst pid'. unfold zn. rewrite Z.eqb_refl. destruct r; reflexivity.
  - assert (Hne : Z.of_N pid' <> zn pid) by (unfold zn; apply N.eqb_neq in Hp; lia).
    replace (Z.of_N pid' =? zn pid) with false by (symmetry; apply Z.eqb_neq; exact Hne).
    rewrite match_get_del by exact Hne. apply H.
Qed.

Lemma re_ok_index pid : re_ok (o_nre o) pid = true -> index_in (zn pid) (o_nre o) = Ok (N.to_nat pid).
Proof.
  unfold re_ok, index_in. intros H. apply Nat.ltb_lt in H.
  replace ((0 <=? zn pid) && (zn pid <? Z.of_nat (o_nre o))) with true
    by (symmetry; apply andb_true_iff; unfold zn; split; [apply Z.leb_le|apply Z.ltb_lt]; lia).
  rewrite to_nat_zn. reflexivity.
Qed.

Lemma zn_to_N pid : Z.to_N (zn pid) = pid. Proof. unfold zn. apply N2Z.id. Qed.

Lemma case_match pid : re_ok (o_nre o) pid = true -> esim (EMatch pid) TBool.
Proof.
  intros Hre. apply from_inj. intros pc stk mt ms tm rs vs Hat Hrel. cbn [RefSem.eval Codegen.cexpr length].
  set (r := re_match E pid line).
  split; [reflexivity|].
  exists (VBool (match r with Some _ => true | None => false end) :: stk),
         ((zn pid, groups_of r) :: match_del (zn pid) ms), vs, 1%nat.
  split; [eexists; split; reflexivity|]. split; [lia|]. split.
  - cbn [C01Sim.nsteps]. erewrite step_at; [| exact Hat |].
    + rewrite Nat.add_1_r. reflexivity.
    + cbn. rewrite (re_ok_index _ Hre). cbn. rewrite zn_to_N. fold r. unfold with_match. cbn. destruct r; reflexivity.
  - split; [|apply ext_refl]. destruct Hrel as [Hm Ht Hs Hmm]. constructor; cbn; auto. apply mrel_set. exact Hm.
Qed.

Lemma case_smatch neg a pid : re_ok (o_nre o) pid = true -> esim a TStr -> esim (ESMatch neg a pid) TBool.
Proof.
  intros Hre IH. apply from_inj. intros pc stk mt ms tm rs vs Hat Hrel.
  cbn [RefSem.eval Codegen.cexpr] in *.
  apply at_pc_app in Hat as [Hat1 Hat2]. apply at_pc_app in Hat2 as [Hat2 Hat3]. cbn [length] in Hat3.
  specialize (IH pc stk mt ms tm rs vs Hat1 Hrel).
  rewrite !app_length. cbn [length].
  destruct (eval a rs) as [va rs1|[|x] rs1]; cbn [RefSem.bind]; [| contradiction | ].
  2:{ destruct IH as (n & t1 & e' & vs' & Hn & Hst & Hs & Hr). exists n, t1, e', vs'. split; [lia|]. auto. }
  destruct IH as (Hva & stk' & ms1 & vs1 & n1 & (wa & [Hwa _] & ->) & Hn1 & Hst1 & Hrel1 & Hext1).
  apply vty_str in Hva as [x ->]. inversion Hwa; subst. cbn [RefSem.as_str RefSem.bind].
  set (r := re_match E pid x).
  set (ms2 := (zn pid, groups_of r) :: match_del (zn pid) ms1).
  set (hit := match r with Some _ => true | None => false end).
  assert (Hst2 : nsteps (n1 + 1) (mkthread pc stk mt ms tm) vs =
                 Some (mkthread (S (pc + length (cexpr pc a))) (VBool hit :: stk) mt ms2 tm, vs1)).
  { eapply nsteps_snoc; [exact Hst1|]. eapply step_at; [exact Hat2|].
    cbn. rewrite (re_ok_index _ Hre). cbn. rewrite zn_to_N. fold r. unfold with_match. cbn. destruct r; reflexivity. }
  assert (Hrel2 : rel (set_match pid r rs1) ms2 tm vs1).
  { destruct Hrel1 as [Hm Ht Hs Hmm]. constructor; cbn; auto. apply mrel_set. exact Hm. }
  split; [reflexivity|].
  destruct neg; cbn [length].
  - exists (VBool (negb hit) :: stk), ms2, vs1, (n1 + 1 + 1)%nat.
    split; [eexists; split; [|reflexivity]; unfold isinj; cbn; destruct hit; reflexivity|].
    split; [lia|]. split; [|auto].
    replace (pc + (length (cexpr pc a) + (1 + 1)))%nat with (S (S (pc + length (cexpr pc a)))) by lia.
    eapply nsteps_snoc; [exact Hst2|].
    replace (pc + length (cexpr pc a) + 1)%nat with (S (pc + length (cexpr pc a))) in Hat3 by lia.
    eapply step_at; [exact Hat3 | reflexivity].
  - exists (VBool hit :: stk), ms2, vs1, (n1 + 1)%nat.
    split; [eexists; split; [|reflexivity]; unfold isinj; cbn; destruct hit; reflexivity|].
    split; [lia|]. split; [|auto].
    replace (pc + (length (cexpr pc a) + (1 + 0)))%nat with (S (pc + length (cexpr pc a))) by lia. exact Hst2.
Qed.

(* ---- subst ---- *)
Lemma case_subst a b c : esim a TStr -> esim b TStr -> esim c TStr -> esim (ESubst a b c) TStr.
Proof.
  intros IHa IHb IHc. apply from_inj.
  pose proof (sim_seq _ _ _ _ _ _ _ _ _ _ _ _ _ (sim_seq _ _ _ _ _ _ _ _ _ _ _ _ _ (esim_vrel _ _ _ _ _ _ _ IHa) (esim_vrel _ _ _ _ _ _ _ IHb)) (esim_vrel _ _ _ _ _ _ _ IHc)) as Hseq.
  pose proof (sim_fin _ _ _ _ _ _ _ _ _
                (fun p s => do_subst E (fst (fst p)) (snd (fst p)) (snd p) s) (ins Subst (OInt 3)) isinj TStr Hseq) as H.
  eapply sim_code_ext; [| eapply sim_gen_ext; [| apply H]].
  - intros pc. cbn [Codegen.cexpr]. rewrite !app_assoc. rewrite app_length, Nat.add_assoc. reflexivity.
  - intros rs. cbn [RefSem.eval].
    destruct (eval a rs) as [va s1|x s1]; cbn [RefSem.bind]; [|reflexivity].
    destruct (eval b s1) as [vb s2|x s2]; cbn [RefSem.bind]; [|reflexivity].
    destruct (eval c s2) as [vc s3|x s3]; cbn [RefSem.bind]; reflexivity.
  - intros [[va vb] vc] stk stk1 rs pc' mt ms tm vs [[Hva Hvb] Hvc] (stk0 & (stk00 & (wa & Hwa & ->) & (wb & Hwb & ->)) & (wc & Hwc & ->)).
    cbn [fst snd] in *.
    apply vty_str in Hva as [x ->]. apply vty_str in Hvb as [y ->]. apply vty_str in Hvc as [z ->].
    inversion Hwa; subst; inversion Hwb; subst; inversion Hwc; subst. cbn [do_subst].
    repeat split. eexists. split; reflexivity.
Qed.

Lemma case_rsubst pid b c : re_ok (o_nre o) pid = true -> esim b TStr -> esim c TStr -> esim (ERsubst pid b c) TStr.
Proof.
  intros Hre IHb IHc. apply from_inj.
  pose proof (sim_seq _ _ _ _ _ _ _ _ _ _ _ _ _ (sim_seq _ _ _ _ _ _ _ _ _ _ _ _ _ (esim_vrel _ _ _ _ _ _ _ IHb) (esim_vrel _ _ _ _ _ _ _ IHc)) (sim_push _ _ _ _ _ (OInt (zn pid)))) as Hseq.
  pose proof (sim_fin _ _ _ _ _ _ _ _ _
                (fun p s => do_rsubst E pid (fst (fst p)) (snd (fst p)) s) (ins Rsubst (OInt 3)) isinj TStr Hseq) as H.
  eapply sim_code_ext; [| eapply sim_gen_ext; [| apply H]].
  - intros pc. cbn [Codegen.cexpr]. cbn beta. rewrite <- (app_assoc _ [ins Push (OInt (zn pid))] [ins Rsubst (OInt 3)]).
    cbn [app]. rewrite app_assoc. reflexivity.
  - intros rs. cbn [RefSem.eval].
    destruct (eval b rs) as [vb s1|x s1]; cbn [RefSem.bind]; [|reflexivity].
    destruct (eval c s1) as [vc s2|x s2]; cbn [RefSem.bind]; reflexivity.
  - intros [[vb vc] u] stk stk1 rs pc' mt ms tm vs HP HW. cbn beta in HP, HW. cbn [fst snd] in HP, HW.
    destruct HP as [[Hvb Hvc] _]. destruct HW as (stk0 & (stk00 & (wb & Hwb & ->) & (wc & Hwc & ->)) & ->).
    cbn [fst snd] in *.
    apply vty_str in Hvb as [y ->]. apply vty_str in Hvc as [z ->].
    inversion Hwb; subst; inversion Hwc; subst. cbn [do_rsubst].
    repeat split. eexists. split; [reflexivity|].
    cbn. rewrite (re_ok_index _ Hre). cbn. rewrite zn_to_N. reflexivity.
Qed.

(* ---- index keys ---- *)
Definition ksim (ks : exprs) : Prop :=
  sim_gen (eval_keys ks) (fun pc => cexprs pc ks)
          (fun keys stk stk' => stk' = map VStr (rev keys) ++ stk)
          (fun keys => length keys = exprs_len ks).

Lemma case_knil : ksim XNil.
Proof.
  intros pc stk mt ms tm rs vs Hat Hrel. cbn. split; [reflexivity|].
  exists stk, ms, vs, 0%nat. split; [reflexivity|]. split; [lia|]. split; [|split; [exact Hrel | apply ext_refl]].
  cbn. rewrite Nat.add_0_r. reflexivity.
Qed.

Lemma eval_keys_cons e r s :
  eval_keys (XCons e r) s =
  rbind (eval e s) (fun v s1 => rbind (RefSem.as_str v s1) (fun x s2 =>
    rbind (eval_keys r s2) (fun xs s3 => ROk (x :: xs) s3))).
Proof. reflexivity. Qed.
Lemma cexprs_cons pc e r : cexprs pc (XCons e r) = cexpr pc e ++ cexprs (pc + length (cexpr pc e)) r.
Proof. reflexivity. Qed.

Lemma case_kcons e r : esim e TStr -> ksim r -> ksim (XCons e r).
Proof.
  intros IHe IHr pc stk mt ms tm rs vs Hat Hrel. rewrite eval_keys_cons. rewrite cexprs_cons in *.
  apply at_pc_app in Hat as [Hat1 Hat2].
  specialize (IHe pc stk mt ms tm rs vs Hat1 Hrel). rewrite app_length.
  destruct (eval e rs) as [v rs1|[|x] rs1]; cbn [RefSem.bind]; [| contradiction | ].
  2:{ destruct IHe as (n & t1 & e' & vs' & Hn & Hst & Hs & Hr). exists n, t1, e', vs'. split; [lia|]. auto. }
  destruct IHe as (Hv & stk' & ms1 & vs1 & n1 & (w & Hw & ->) & Hn1 & Hst1 & Hrel1 & Hext1).
  destruct Hw as [Hw _]. apply vty_str in Hv as [x ->]. inversion Hw; subst. cbn [RefSem.as_str RefSem.bind].
  specialize (IHr (pc + length (cexpr pc e))%nat (VStr x :: stk) mt ms1 tm rs1 vs1 Hat2 Hrel1).
  destruct (eval_keys r rs1) as [xs rs2|[|y] rs2]; cbn [RefSem.bind]; [| contradiction | ].
  - destruct IHr as (Hl & stk2 & ms2 & vs2 & n2 & -> & Hn2 & Hst2 & Hrel2 & Hext2).
    split; [cbn; congruence|].
    exists (map VStr (rev (x :: xs)) ++ stk), ms2, vs2, (n1 + n2)%nat.
    split; [reflexivity|]. split; [lia|]. split; [|split; [exact Hrel2 | eapply ext_trans; eauto]].
    rewrite (nsteps_app _ _ _ _ _ _ _ _ _ Hst1), Nat.add_assoc.
    cbn [rev]. rewrite map_app, <- app_assoc. exact Hst2.
  - destruct IHr as (n2 & t1 & e' & vs2 & Hn2 & Hst2 & Hs & Hr).
    exists (n1 + n2)%nat, t1, e', vs2. split; [lia|]. split; [|auto].
    rewrite (nsteps_app _ _ _ _ _ _ _ _ _ Hst1). exact Hst2.
Qed.

Lemma pop_strs_rev h l stk acc :
  pop_strs E h (length l) (map VStr l ++ stk) acc = Ok (rev l ++ acc, stk).
Proof.
  revert acc. induction l as [|x l IH]; intros acc; [reflexivity|].
  cbn [length map app pop_strs]. cbn. rewrite IH. cbn [rev]. rewrite <- app_assoc. reflexivity.
Qed.

(* ---- metric reads ---- *)
Lemma eval_get m ks s :
  eval (EGet m ks) s =
  rbind (eval_keys ks s) (fun keys s1 =>
    let (v, st) := obtain decls m keys (rs_store s1) in ROk v (RefSem.with_store s1 st)).
Proof. reflexivity. Qed.
Lemma cexpr_get pc m ks :
  cexpr pc (EGet m ks) =
  cexprs pc ks ++ [ins Mload (OInt (zn m)); ins Dload (OInt (zl (exprs_len ks))); ins (get_op (Codegen.mty decls m)) ONil].
Proof. reflexivity. Qed.

Lemma metric_index m n : metric_ok decls m n = true ->
  index_in (zn m) (length (o_metrics o)) = Ok (N.to_nat m).
Proof.
  unfold metric_ok, index_in. intros H. rewrite Hmets, map_length.
  destruct (nth_error decls (N.to_nat m)) eqn:Hn; [|discriminate].
  assert (N.to_nat m < length decls)%nat by (apply nth_error_Some; congruence).
  replace ((0 <=? zn m) && (zn m <? Z.of_nat (length decls))) with true
    by (symmetry; apply andb_true_iff; unfold zn; split; [apply Z.leb_le|apply Z.ltb_lt]; lia).
  rewrite to_nat_zn. reflexivity.
Qed.

(* keys; mload; dload: the datum of m[ks] is on the stack *)
Definition lval_post (m : N) (keys : tuple) (v : rval) (p : nat) (rs' : rstate) (vs' : vmstate) : Prop :=
  points (vs_store vs') (N.to_nat m) keys p /\
  exists c, nth_error (s_heap (vs_store vs')) p = Some c /\ d_val c = dval_of v /\ vty v = RefSem.mty decls m.

Lemma sim_lval m ks :
  metric_ok decls m (exprs_len ks) = true -> ksim ks ->
  forall pc stk mt ms tm rs vs, at_pc o pc (clval decls pc m ks) -> rel rs ms tm vs ->
  match target E decls file line m ks rs with
  | ROk kv rs' =>
      exists p ms' vs' n, (n <= length (clval decls pc m ks))%nat /\
        nsteps n (mkthread pc stk mt ms tm) vs =
          Some (mkthread (pc + length (clval decls pc m ks)) (VDatum p :: stk) mt ms' tm, vs') /\
        rel rs' ms' tm vs' /\ ext (vs_store vs) (vs_store vs') /\ lval_post m (fst kv) (snd kv) p rs' vs'
  | RAbort (AErr _) rs' =>
      exists n t1 e' vs', (n < length (clval decls pc m ks))%nat /\
        nsteps n (mkthread pc stk mt ms tm) vs = Some (t1, vs') /\
        step t1 vs' = SEnd (Err e') vs' /\
        srel decls (rs_store rs') (vs_store vs') /\ memo_ok E (vs_memo vs')
  | RAbort AStop _ => False
  end.
Proof.
  intros Hmok IHk pc stk mt ms tm rs vs Hat Hrel. unfold target, clval in *.
  apply at_pc_app in Hat as [Hat1 Hat2].
  specialize (IHk pc stk mt ms tm rs vs Hat1 Hrel). rewrite app_length. cbn [length].
  destruct (eval_keys ks rs) as [keys rs1|[|x] rs1]; cbn [RefSem.bind]; [| contradiction | ].
  2:{ destruct IHk as (n & t1 & e' & vs' & Hn & Hst & Hs & Hr). exists n, t1, e', vs'. split; [lia|]. auto. }
  destruct IHk as (Hlen & stk' & ms1 & vs1 & n1 & -> & Hn1 & Hst1 & Hrel1 & Hext1).
  assert (Hmok' : metric_ok decls m (length keys) = true) by (rewrite Hlen; exact Hmok).
  destruct (get_datum_sim decls o Hmets (rs_store rs1) (vs_store vs1) m keys (r_s _ _ _ _ _ _ Hrel1) Hmok')
    as (p & st' & Hgd & Hsrel & Hext2 & Hpts & c & Hc & Hcv & Hvt).
  destruct (obtain decls m keys (rs_store rs1)) as [v rst'] eqn:Hob. cbn [fst snd] in *.
  set (L := length (cexprs pc ks)) in *.
  pose proof (at_pc_head _ _ _ _ Hat2) as H0.
  pose proof (fetch_off _ _ 1 _ _ Hat2 eq_refl) as H1.
  exists p, ms1, (Vm.with_store vs1 st'), (n1 + 2)%nat.
  split; [lia|]. split.
  - assert (Hst2 : nsteps (n1 + 1) (mkthread pc stk mt ms tm) vs =
        Some (mkthread (S (pc + L)) (VMetric (N.to_nat m) :: map VStr (rev keys) ++ stk) mt ms1 tm, vs1)).
    { eapply nsteps_snoc; [exact Hst1|]. eapply step_next; [exact H0|].
      cbn. rewrite (metric_index _ _ Hmok). reflexivity. }
    replace (n1 + 2)%nat with (n1 + 1 + 1)%nat by lia.
    replace (pc + (L + 2))%nat with (S (S (pc + L))) by lia.
    eapply nsteps_snoc; [exact Hst2|]. eapply step_next; [replace (S (pc + L)) with (pc + L + 1)%nat by lia; exact H1|].
    cbn -[zl]. rewrite zl_nonneg, zl_to_nat. rewrite <- Hlen, <- (rev_length keys).
    rewrite pop_strs_rev, rev_involutive, app_nil_r. cbn. rewrite Hgd. reflexivity.
  - split; [apply rel_store; auto|]. split; [eapply ext_trans; eauto|].
    split; [exact Hpts|]. exists c. auto.
Qed.

Lemma case_get m ks :
  metric_ok decls m (exprs_len ks) = true -> ksim ks -> esim (EGet m ks) (wmty decls m).
Proof.
  intros Hmok IHk. apply from_inj. intros pc stk mt ms tm rs vs Hat Hrel.
  rewrite cexpr_get in *. rewrite eval_get.
  change (cexprs pc ks ++ [ins Mload (OInt (zn m)); ins Dload (OInt (zl (exprs_len ks))); ins (get_op (Codegen.mty decls m)) ONil])
    with (cexprs pc ks ++ [ins Mload (OInt (zn m)); ins Dload (OInt (zl (exprs_len ks)))] ++ [ins (get_op (Codegen.mty decls m)) ONil]) in *.
  rewrite app_assoc in *. apply at_pc_app in Hat as [Hat1 Hat2].
  pose proof (sim_lval m ks Hmok IHk pc stk mt ms tm rs vs Hat1 Hrel) as H. unfold target, clval in H.
  rewrite app_length. cbn [length].
  destruct (eval_keys ks rs) as [keys rs1|[|x] rs1]; cbn [RefSem.bind] in *; [| contradiction | ].
  2:{ destruct H as (n & t1 & e' & vs' & Hn & Hst & Hs & Hr). exists n, t1, e', vs'. split; [lia|]. auto. }
  destruct (obtain decls m keys (rs_store rs1)) as [v rst'] eqn:Hob.
  destruct H as (p & ms' & vs' & n & Hn & Hst & Hrel' & Hext & Hpts & c & Hc & Hcv & Hvt). cbn [fst snd] in *.
  split; [exact Hvt|].
  exists (inj v :: stk), ms', vs', (n + 1)%nat. split; [eexists; split; reflexivity|]. split; [lia|].
  split; [|auto].
  set (L := length (cexprs pc ks ++ [ins Mload (OInt (zn m)); ins Dload (OInt (zl (exprs_len ks)))])) in *.
  replace (pc + (L + 1))%nat with (S (pc + L)) by lia.
  eapply nsteps_snoc; [exact Hst|]. eapply step_at; [exact Hat2|].
  assert (Hnb : RefSem.mty decls m <> TBool).
  { unfold metric_ok in Hmok. unfold RefSem.mty. destruct (nth_error decls (N.to_nat m)); [|discriminate].
    apply andb_prop in Hmok as [_ H]. destruct (md_ty m0); cbn in H; congruence. }
  change (Codegen.mty decls m) with (RefSem.mty decls m).
  destruct (RefSem.mty decls m) eqn:Hm; try congruence.
  - apply vty_int in Hvt as [z ->]. cbn. unfold datum_int. rewrite Hc, Hcv. reflexivity.
  - apply vty_float in Hvt as [z ->]. cbn. unfold datum_float. rewrite Hc, Hcv. reflexivity.
  - apply vty_str in Hvt as [z ->]. cbn. unfold datum_str. rewrite Hc, Hcv. reflexivity.
Qed.


(* ---- x++ / x-- as a value ---- *)
Lemma stamp_eq rs tm : tm = time_reg rs -> Vm.stamp tm = dtime_of (RefSem.stamp rs).
Proof. intros ->. unfold Vm.stamp, RefSem.stamp. destruct (time_is_zero (time_reg rs)); reflexivity. Qed.

Lemma rel_write rs ms tm vs m keys p v :
  rel rs ms tm vs -> points (vs_store vs) (N.to_nat m) keys p -> vty v = RefSem.mty decls m ->
  rel (RefSem.write m keys v rs) ms tm
      (Vm.with_store vs (mkstore (list_set (s_heap (vs_store vs)) p (mkdcell (dval_of v) (Vm.stamp tm)))
                                 (s_mets (vs_store vs)))).
Proof.
  intros [Hm Ht Hs Hmm] Hp Hv. constructor; cbn; auto.
  rewrite (stamp_eq rs tm Ht). apply write_sim; auto.
Qed.

Lemma heap_upd_ok st p c c' (f : dcell -> Vm.res dcell) :
  nth_error (s_heap st) p = Some c -> f c = Ok c' ->
  heap_upd st p f = Ok (mkstore (list_set (s_heap st) p c') (s_mets st)).
Proof. intros H1 H2. unfold heap_upd. rewrite H1, H2. reflexivity. Qed.


Lemma eval_incr dec m ks s :
  eval (EIncr dec m ks) s =
  rbind (eval_keys ks s) (fun keys s1 =>
    let (v, st) := obtain decls m keys (rs_store s1) in
    match v with
    | RInt z => let z' := if dec then i_sub z 1 else i_add z 1 in
                ROk (RInt z') (RefSem.write m keys (RInt z') (RefSem.with_store s1 st))
    | _ => RefSem.fail REType (RefSem.with_store s1 st)
    end).
Proof. reflexivity. Qed.
Lemma cexpr_incr pc dec m ks :
  cexpr pc (EIncr dec m ks) =
  clval decls pc m ks ++ [ins (if dec then Dec else Inc) ONil].
Proof. unfold clval. cbn [Codegen.cexpr]. rewrite <- app_assoc. reflexivity. Qed.

Lemma case_incr dec m ks :
  metric_ok decls m (exprs_len ks) = true -> ksim ks -> ty_eqb (wmty decls m) TInt = true ->
  esim (EIncr dec m ks) TInt.
Proof.
  intros Hmok IHk Hty. apply from_inj.
  assert (Hmt : RefSem.mty decls m = TInt)
    by (change (RefSem.mty decls m) with (wmty decls m); destruct (wmty decls m); cbn in Hty; congruence).
  intros pc stk g ms tm rs vs Hat Hrel. rewrite cexpr_incr in *. rewrite eval_incr.
  apply at_pc_app in Hat as [Hat1 Hat2]. rewrite app_length. cbn [length].
  pose proof (sim_lval m ks Hmok IHk pc stk g ms tm rs vs Hat1 Hrel) as H. unfold target in H.
  destruct (eval_keys ks rs) as [keys rs0|[|x] rs0]; cbn [RefSem.bind] in *; [| contradiction | ].
  2:{ destruct H as (n & t1 & e' & vs' & Hn & Hst & Hx). exists n, t1, e', vs'. split; [lia|]. auto. }
  destruct (obtain decls m keys (rs_store rs0)) as [v rst'] eqn:Hob.
  destruct H as (p & ms1 & vs1 & n & Hn & Hst & Hrel1 & Hext & Hpts & c & Hcp & Hcv & Hvt). cbn [fst snd] in *.
  rewrite Hmt in Hvt. apply vty_int in Hvt as [z ->].
  set (z' := if dec then i_sub z 1 else i_add z 1).
  set (c' := mkdcell (DInt z') (Vm.stamp tm)).
  set (vs2 := Vm.with_store vs1 (mkstore (list_set (s_heap (vs_store vs1)) p c') (s_mets (vs_store vs1)))).
  split; [reflexivity|].
  exists (VI64 z' :: stk), ms1, vs2, (n + 1)%nat.
  split; [eexists; split; reflexivity|]. split; [lia|]. split; [|split].
  - eapply nsteps_snoc; [exact Hst|].
    replace (pc + (length (clval decls pc m ks) + 1))%nat with (S (pc + length (clval decls pc m ks))) by lia.
    eapply step_next; [exact (at_pc_head _ _ _ _ Hat2)|].
    assert (Hup : forall d, (d = 1 /\ dec = false) \/ (d = wrap64 (-1) /\ dec = true) ->
              heap_upd (vs_store vs1) p (cell_inc d tm) =
              Ok (mkstore (list_set (s_heap (vs_store vs1)) p c') (s_mets (vs_store vs1)))).
    { intros d Hd. eapply heap_upd_ok; [exact Hcp|]. unfold cell_inc. rewrite Hcv. cbn [dval_of]. unfold c', z'.
      destruct Hd as [[-> ->] | [-> ->]]; [reflexivity|].
      unfold i_sub. replace (wrap64 (-1)) with (-1) by reflexivity. replace (z + -1) with (z - 1) by lia. reflexivity. }
    unfold vs2. destruct dec; cbn -[wrap64].
    + rewrite (Hup (wrap64 (-1))) by auto. cbn. unfold datum_int. cbn [s_heap].
      rewrite nth_error_list_set_same by (apply nth_error_Some; congruence). reflexivity.
    + rewrite (Hup 1) by auto. cbn. unfold datum_int. cbn [s_heap].
      rewrite nth_error_list_set_same by (apply nth_error_Some; congruence). reflexivity.
  - apply (rel_write (RefSem.with_store rs0 rst') ms1 tm vs1 m keys p (RInt z')); [exact Hrel1 | exact Hpts | rewrite Hmt; reflexivity].
  - eapply ext_trans; [exact Hext|]. intros m' ks' p' Hp. exact Hp.
Qed.

(* ---- every well-typed expression ---- *)
Scheme expr_mind := Induction for expr Sort Prop
  with exprs_mind := Induction for exprs Sort Prop.
Combined Scheme expr_exprs_ind from expr_mind, exprs_mind.

Lemma opt_is o' t : Wt.opt_ty_is o' t = true -> o' = Some t.
Proof. destruct o' as [t'|]; cbn; [|discriminate]. destruct t, t'; cbn; congruence. Qed.

Ltac split_and H :=
  repeat match type of H with
  | (_ && _) = true => let H1 := fresh "Hc" in apply andb_prop in H as [H H1]
  end.

Theorem esim_all :
  (forall e t, etype e = Some t -> esim e t) /\ (forall ks, keys_ok ks = true -> ksim ks).
Proof.
  apply expr_exprs_ind.
  - intros z t H. inversion H; subst. apply case_int.
  - intros b t H. inversion H; subst. apply case_float.
  - intros sid s t H. cbn [Wt.etype Wt.keys_ok] in H. destruct (str_ok (o_strs o) sid s) eqn:Hs; inversion H; subst. apply case_str; exact Hs.
  - intros pid grp t t' H. cbn [Wt.etype Wt.keys_ok] in H. destruct t; inversion H; subst; apply case_cap; discriminate.
  - intros f t a IH t' H. cbn [Wt.etype Wt.keys_ok] in H.
    destruct (Wt.opt_ty_is (etype a) f && Wt.conv_ok f t) eqn:Hc; inversion H; subst.
    apply andb_prop in Hc as [Hx1 Hx2]. apply case_conv; [exact Hx2 | apply IH, opt_is, Hx1].
  - intros op t a IHa b IHb t' H. cbn [Wt.etype Wt.keys_ok] in H.
    assert (Hx : (t = TInt \/ t = TFloat) /\ Wt.opt_ty_is (etype a) t = true /\ Wt.opt_ty_is (etype b) t = true /\ t' = t).
    { destruct t; try discriminate;
        destruct (Wt.opt_ty_is (etype a) _) eqn:Hx1; try discriminate;
        destruct (Wt.opt_ty_is (etype b) _) eqn:Hx2; try discriminate; inversion H; auto. }
    destruct Hx as (Ht & Hx1 & Hx2 & ->). apply case_arith; [exact Ht | apply IHa, opt_is, Hx1 | apply IHb, opt_is, Hx2].
  - intros op a IHa b IHb t H. cbn [Wt.etype Wt.keys_ok] in H.
    destruct (Wt.opt_ty_is (etype a) TInt && Wt.opt_ty_is (etype b) TInt) eqn:Hc; inversion H; subst.
    apply andb_prop in Hc as [Hx1 Hx2]. apply case_bit; [apply IHa, opt_is, Hx1 | apply IHb, opt_is, Hx2].
  - intros a IH t H. cbn [Wt.etype Wt.keys_ok] in H. destruct (Wt.opt_ty_is (etype a) TInt) eqn:Hx1; inversion H; subst.
    apply case_neg, IH, opt_is, Hx1.
  - intros op t typed a IHa b IHb t' H. cbn [Wt.etype Wt.keys_ok] in H.
    assert (Hx : t <> TBool /\ (t = TStr -> typed = true) /\ Wt.opt_ty_is (etype a) t = true /\ Wt.opt_ty_is (etype b) t = true /\ t' = TBool).
    { destruct t; try discriminate;
        destruct (Wt.opt_ty_is (etype a) _) eqn:Hx1; try discriminate;
        destruct (Wt.opt_ty_is (etype b) _) eqn:Hx2; try discriminate; cbn in H;
        try (destruct typed; try discriminate); inversion H; repeat split; auto; try discriminate; congruence. }
    destruct Hx as (Hnb & Hs & Hx1 & Hx2 & ->).
    apply case_cmp; [exact Hnb | exact Hs | apply IHa, opt_is, Hx1 | apply IHb, opt_is, Hx2].
  - intros a IHa b IHb t H. cbn [Wt.etype Wt.keys_ok] in H.
    destruct (is_cond a (etype a) && is_cond b (etype b)) eqn:Hc; inversion H; subst.
    apply andb_prop in Hc as [Hx1 Hx2].
    destruct (etype a) as [ta|] eqn:Ha; [|discriminate]. destruct (etype b) as [tb|] eqn:Hb; [|discriminate].
    eapply case_and; eauto.
  - intros a IHa b IHb t H. cbn [Wt.etype Wt.keys_ok] in H.
    destruct (is_cond a (etype a) && is_cond b (etype b)) eqn:Hc; inversion H; subst.
    apply andb_prop in Hc as [Hx1 Hx2].
    destruct (etype a) as [ta|] eqn:Ha; [|discriminate]. destruct (etype b) as [tb|] eqn:Hb; [|discriminate].
    eapply case_or; eauto.
  - intros pid t H. cbn [Wt.etype Wt.keys_ok] in H. destruct (re_ok (o_nre o) pid) eqn:Hr; inversion H; subst. exact (case_match pid Hr).
  - intros neg a IH pid t H. cbn [Wt.etype Wt.keys_ok] in H.
    destruct (Wt.opt_ty_is (etype a) TStr && re_ok (o_nre o) pid) eqn:Hc; inversion H; subst.
    apply andb_prop in Hc as [Hx1 Hx2]. apply case_smatch; [exact Hx2 | apply IH, opt_is, Hx1].
  - intros m ks IHk t H.
    change (etype (EGet m ks)) with
      (if metric_ok decls m (exprs_len ks) && keys_ok ks then Some (wmty decls m) else None) in H.
    destruct (metric_ok decls m (exprs_len ks) && keys_ok ks) eqn:Hc; inversion H; subst.
    apply andb_prop in Hc as [Hx1 Hx2]. exact (case_get m ks Hx1 (IHk Hx2)).
  - intros a IH t H. cbn [Wt.etype Wt.keys_ok] in H. destruct (Wt.opt_ty_is (etype a) TStr) eqn:Hx1; inversion H; subst.
    apply case_len, IH, opt_is, Hx1.
  - intros a IH t H. cbn [Wt.etype Wt.keys_ok] in H. destruct (Wt.opt_ty_is (etype a) TStr) eqn:Hx1; inversion H; subst.
    apply case_tolower, IH, opt_is, Hx1.
  - intros a IHa b IHb t H. cbn [Wt.etype Wt.keys_ok] in H.
    destruct (Wt.opt_ty_is (etype a) TStr && Wt.opt_ty_is (etype b) TInt) eqn:Hc; inversion H; subst.
    apply andb_prop in Hc as [Hx1 Hx2]. apply case_strtol; [apply IHa, opt_is, Hx1 | apply IHb, opt_is, Hx2].
  - intros a IHa b IHb c IHc t H. cbn [Wt.etype Wt.keys_ok] in H.
    destruct (Wt.opt_ty_is (etype a) TStr && Wt.opt_ty_is (etype b) TStr && Wt.opt_ty_is (etype c) TStr) eqn:Hc; inversion H; subst.
    apply andb_prop in Hc as [Hc Hx3]. apply andb_prop in Hc as [Hx1 Hx2].
    apply case_subst; [apply IHa, opt_is, Hx1 | apply IHb, opt_is, Hx2 | apply IHc, opt_is, Hx3].
  - intros pid b IHb c IHc t H. cbn [Wt.etype Wt.keys_ok] in H.
    destruct (re_ok (o_nre o) pid && Wt.opt_ty_is (etype b) TStr && Wt.opt_ty_is (etype c) TStr) eqn:Hc; inversion H; subst.
    apply andb_prop in Hc as [Hc Hx3]. apply andb_prop in Hc as [Hx1 Hx2].
    apply case_rsubst; [exact Hx1 | apply IHb, opt_is, Hx2 | apply IHc, opt_is, Hx3].
  - intros t H. inversion H; subst. apply case_timestamp.
  - intros t H. inversion H; subst. apply case_getfilename.
  - intros dec m ks IHk t H.
    change (etype (EIncr dec m ks)) with
      (if metric_ok decls m (exprs_len ks) && keys_ok ks && ty_eqb (wmty decls m) TInt then Some TInt else None) in H.
    destruct (metric_ok decls m (exprs_len ks) && keys_ok ks && ty_eqb (wmty decls m) TInt) eqn:Hc; inversion H; subst.
    apply andb_prop in Hc as [Hc Hx3]. apply andb_prop in Hc as [Hx1 Hx2].
    exact (case_incr dec m ks Hx1 (IHk Hx2) Hx3).
  - intros _. apply case_knil.
  - intros e IHe r IHr H.
    change (keys_ok (XCons e r)) with (Wt.opt_ty_is (etype e) TStr && keys_ok r) in H.
    apply andb_prop in H as [Hx1 Hx2].
    apply case_kcons; [apply IHe, opt_is, Hx1 | apply IHr, Hx2].
Qed.

End Cases.
