(* C06: the fan-out of lines to the running programs as blocking hand-overs
   under an arbitrary schedule (Run/Fanout.v).

   - at every moment of every schedule each program has been handed a prefix
     of the line stream, each line once, in order, and its record is the one
     its own sequential run over the finished lines produces (invariant [finv]);
   - when a schedule has settled, every running program has been handed the
     whole stream and the state is, observationally, the one Run/Loader.v's
     sequential [line] steps produce;
   - a schedule can always be continued to a settled one (the hand-overs never
     block for good as long as every vm finishes its line);
   - hence the isolation theorem of Proofs/LoaderIsolation.v holds for
     histories whose lines arrive in bursts under any schedules. *)
From Coq Require Import Lia.
From V Require Import Metrics.StoreAdd Run.Loader Run.Fanout Proofs.StoreAddProofs Proofs.LoaderIsolation.
Local Open Scope N_scope.

(* two states that no lookup can tell apart *)
Definition st_equiv (a b : state) : Prop :=
  st_index a = st_index b /\ st_lines a = st_lines b /\ forall p, getp p a = getp p b.

Lemma st_equiv_refl a : st_equiv a a.
Proof. repeat split. Qed.
Lemma st_equiv_sym a b : st_equiv a b -> st_equiv b a.
Proof. intros (A & B & C). repeat split; auto. Qed.
Lemma st_equiv_trans a b c : st_equiv a b -> st_equiv b c -> st_equiv a c.
Proof.
  intros (A & B & C) (A' & B' & C'). split; [congruence|]. split; [congruence|].
  intros p. rewrite C. apply C'.
Qed.

(* ---- membership ---- *)
Lemma memb_In p l : memb p l = true <-> In p l.
Proof.
  unfold memb. rewrite existsb_exists. split.
  - intros (q & I & E). apply bytes_eqb_spec in E. subst. exact I.
  - intros I. exists p. split; [exact I|apply bytes_eqb_refl].
Qed.

Lemma memb_cons_other q p r : q <> p -> memb q (p :: r) = memb q r.
Proof. intros N. unfold memb. cbn [existsb]. apply bytes_eqb_false in N. rewrite N. reflexivity. Qed.

Lemma memb_cons_same p r : memb p (p :: r) = true.
Proof. unfold memb. cbn [existsb]. rewrite bytes_eqb_refl. reflexivity. Qed.

Lemma In_dedup p l : In p (dedup l) <-> In p l.
Proof.
  induction l as [|q r IH]; cbn [dedup]; [tauto|].
  destruct (memb q r) eqn:M.
  - rewrite IH. split; [intros I; right; exact I|].
    intros [E|I]; [subst; apply memb_In; exact M|exact I].
  - cbn [In]. rewrite IH. tauto.
Qed.

Lemma nodupb_dedup l : nodupb (dedup l) = true.
Proof.
  induction l as [|q r IH]; cbn [dedup]; [reflexivity|].
  destruct (memb q r) eqn:M; [exact IH|].
  cbn [nodupb]. rewrite IH, Bool.andb_true_r. apply Bool.negb_true_iff.
  destruct (memb q (dedup r)) eqn:M2; [|reflexivity].
  apply (proj1 (memb_In _ _)) in M2. apply (proj1 (In_dedup _ _)) in M2. apply (proj2 (memb_In _ _)) in M2. congruence.
Qed.

(* ---- getp / setp ---- *)
Lemma getp_setp_same p x st : getp p (setp p x st) = x.
Proof. unfold setp. apply getp_bupdate_same. Qed.
Lemma getp_setp_other p q x st : p <> q -> getp p (setp q x st) = getp p st.
Proof. intros N. unfold setp. apply getp_bupdate_other. exact N. Qed.

Lemma running_In p st : is_running p st = true -> In p (map fst (st_progs st)).
Proof.
  unfold is_running, getp. destruct (blookup p (st_progs st)) as [x|] eqn:B.
  - intros _. apply blookup_In in B. change p with (fst (p, x)). apply in_map. exact B.
  - cbn. discriminate.
Qed.

Section Fan.
Variable vmstep : bytes -> N -> N -> list effect.

Notation line_prog := (line_prog vmstep).
Notation fstep := (fstep vmstep).
Notation frun := (frun vmstep).

(* a program's own sequential run over a list of lines *)
Definition runp (p : bytes) (dn : list lstamp) (x : pstate) : pstate :=
  fold_left (fun y (l : lstamp) => line_prog p y (fst l) (snd l)) dn x.

Lemma line_prog_handle p x l now : ps_handle (line_prog p x l now) = ps_handle x.
Proof.
  unfold Loader.line_prog. destruct (ps_handle x) eqn:E; [|exact E].
  destruct (exec_effects _ _ _ _). reflexivity.
Qed.

Lemma line_prog_idle p x l now : ps_handle x = None -> line_prog p x l now = x.
Proof. intros E. unfold Loader.line_prog. rewrite E. reflexivity. Qed.

Lemma runp_handle p dn : forall x, ps_handle (runp p dn x) = ps_handle x.
Proof.
  induction dn as [|l r IH]; intros x; cbn [runp fold_left]; [reflexivity|].
  fold (runp p r (line_prog p x (fst l) (snd l))). rewrite IH. apply line_prog_handle.
Qed.

Lemma runp_idle p dn : forall x, ps_handle x = None -> runp p dn x = x.
Proof.
  induction dn as [|l r IH]; intros x E; cbn [runp fold_left]; [reflexivity|].
  rewrite (line_prog_idle p x _ _ E). apply IH. exact E.
Qed.

Lemma runp_snoc p dn l x : runp p (dn ++ [l]) x = line_prog p (runp p dn x) (fst l) (snd l).
Proof. unfold runp. rewrite fold_left_app. reflexivity. Qed.

Section Seq.
Variable c1 c2 omit : bool.
Variable compile : bytes -> N -> option (list decl).
Notation step := (step c1 c2 omit compile vmstep).
Notation run_from := (run_from c1 c2 omit compile vmstep).

Lemma run_lines_facts ls : forall st,
  st_index (run_from st (lines_ops ls)) = st_index st /\
  st_lines (run_from st (lines_ops ls)) = st_lines st + N.of_nat (length ls) /\
  forall p, getp p (run_from st (lines_ops ls)) = runp p ls (getp p st).
Proof.
  unfold Loader.run_from.
  induction ls as [|l r IH]; intros st; cbn [lines_ops map fold_left length runp].
  - repeat split. rewrite N.add_0_r. reflexivity.
  - destruct (IH (step st (OLine (fst l) (snd l)))) as (A & B & C).
    fold (lines_ops r). rewrite A, B. cbn [Loader.step Loader.line st_index st_lines].
    repeat split; [lia|].
    intros p. rewrite C. cbn [Loader.step]. rewrite getp_line. reflexivity.
Qed.

(* ---- every step of Run/Loader.v respects [st_equiv] ---- *)
Lemma getp_mk_equiv a b p x i n :
  (forall q, getp q a = getp q b) ->
  forall q, getp q (mkst i (bupdate p x (st_progs a)) n) = getp q (mkst i (bupdate p x (st_progs b)) n).
Proof.
  intros H q. destruct (bytes_eqb q p) eqn:E.
  - apply bytes_eqb_spec in E. subst q. rewrite !getp_bupdate_same. reflexivity.
  - apply bytes_eqb_false in E. rewrite !getp_bupdate_other by exact E. apply H.
Qed.

Lemma setp_equiv a b p x : st_equiv a b -> st_equiv (setp p x a) (setp p x b).
Proof.
  intros (A & B & C). unfold setp. repeat split; cbn [st_index st_lines]; auto.
  rewrite A, B. apply getp_mk_equiv. exact C.
Qed.

Lemma step_equiv a b o : st_equiv a b -> st_equiv (step a o) (step b o).
Proof.
  intros E. pose proof E as (A & B & C).
  destruct o as [p src|p|l now|el|p m ls e]; cbn [Loader.step].
  - unfold Loader.load, Loader.load_r. rewrite (C p).
    destruct (match ps_handle (getp p b) with Some hd => N.eqb (h_src hd) src | None => false end); [exact E|].
    destruct (compile p src) as [ds|]; [|cbn [fst]; apply setp_equiv; exact E].
    destruct (alloc_objs (ps_heap (getp p b)) ds) as [h1 objs0]. rewrite A.
    destruct (register c1 (st_index b) h1 p _) as [[idx h2] []]; cbn [fst]; rewrite B;
      (repeat split; cbn [st_index st_lines]; auto; apply getp_mk_equiv; exact C).
  - unfold Loader.unload. rewrite (C p). destruct (ps_handle (getp p b)); [|exact E].
    apply setp_equiv. exact E.
  - repeat split; cbn [Loader.line st_index st_lines]; try congruence.
    intros p. rewrite !getp_line, C. reflexivity.
  - repeat split; cbn [Loader.gc st_index st_lines]; try congruence.
    intros p. rewrite !getp_gc, C, A. reflexivity.
  - unfold Loader.mark. rewrite (C p). destruct (ps_handle (getp p b)); [|exact E].
    destruct (exec_effect _ _ _ _); [|exact E]. apply setp_equiv. exact E.
Qed.

Lemma run_equiv ops : forall a b, st_equiv a b -> st_equiv (run_from a ops) (run_from b ops).
Proof.
  unfold Loader.run_from. induction ops as [|o r IH]; intros a b E; cbn [fold_left]; [exact E|].
  apply IH. apply step_equiv. exact E.
Qed.
End Seq.

(* ================================================================== *)
(* the invariant of the concurrent system, relative to the state [st0] and
   the input [ls0] the burst started with *)
Definition opt_list (o : option lstamp) : list lstamp :=
  match o with Some x => [x] | None => [] end.

Definition pinv (st0 : state) (taken : list lstamp) (fs : fstate) (p : bytes) : Prop :=
  exists dn,
    recv_of p fs = dn ++ opt_list (busy_of p fs) /\
    getp p (fs_st fs) = runp p dn (getp p st0) /\
    (is_running p st0 = true ->
       if memb p (fs_todo fs) then recv_of p fs ++ [fs_cur fs] = taken else recv_of p fs = taken) /\
    (is_running p st0 = false ->
       recv_of p fs = [] /\ memb p (fs_todo fs) = false /\ busy_of p fs = None).

Definition finv (st0 : state) (ls0 : list lstamp) (fs : fstate) : Prop :=
  exists taken,
    ls0 = taken ++ fs_in fs /\
    st_index (fs_st fs) = st_index st0 /\
    st_lines (fs_st fs) = st_lines st0 + N.of_nat (length taken) /\
    nodupb (fs_todo fs) = true /\
    forall p, pinv st0 taken fs p.

Lemma finv_init st0 ls0 : finv st0 ls0 (finit st0 ls0).
Proof.
  exists []. cbn [finit fs_in fs_st fs_todo app length nodupb]. repeat split; try (rewrite N.add_0_r; reflexivity).
  intros p. exists []. unfold recv_of, busy_of, memb. cbn. repeat split.
Qed.

Lemma pinv_running st0 taken fs p :
  pinv st0 taken fs p -> is_running p (fs_st fs) = is_running p st0.
Proof. intros (dn & _ & G & _). unfold is_running. rewrite G, runp_handle. reflexivity. Qed.

Lemma busy_of_upd_same p o fs st i t c r :
  busy_of p (mkfs st i t c (bupdate p o (fs_busy fs)) r) = o.
Proof. unfold busy_of. cbn [fs_busy]. rewrite blookup_bupdate_same. destruct o; reflexivity. Qed.

Lemma busy_of_upd_other p q o fs st i t c r :
  q <> p -> busy_of q (mkfs st i t c (bupdate p o (fs_busy fs)) r) = busy_of q fs.
Proof. intros N. unfold busy_of. cbn [fs_busy]. rewrite blookup_bupdate_other by exact N. reflexivity. Qed.

Lemma finv_step st0 ls0 fs e : finv st0 ls0 fs -> finv st0 ls0 (fstep fs e).
Proof.
  intros (taken & HL & HI & HN & HD & HP). destruct e as [order| |p]; cbn [Fanout.fstep].
  - (* ENext *)
    destruct (fs_todo fs) as [|t0 tr] eqn:T; [|exists taken; rewrite T; auto].
    destruct (fs_in fs) as [|x r] eqn:I; [exists taken; rewrite T, I; auto|].
    destruct (order_ok order (fs_st fs)) eqn:OK; [|exists taken; rewrite T, I; auto].
    unfold order_ok in OK. apply Bool.andb_true_iff in OK. destruct OK as [OK O3].
    apply Bool.andb_true_iff in OK. destruct OK as [O1 O2].
    exists (taken ++ [x]). cbn [fs_in fs_st fs_todo fs_cur count_line st_index st_lines].
    split; [rewrite <- app_assoc; exact HL|]. split; [exact HI|].
    split; [rewrite app_length; cbn [length]; lia|]. split; [exact O1|].
    intros p. pose proof (pinv_running _ _ _ _ (HP p)) as RUN.
    destruct (HP p) as (dn & R & G & HR & HNR). rewrite T in HR, HNR.
    exists dn. unfold recv_of, busy_of in *. cbn [fs_recv fs_busy fs_st fs_todo fs_cur] in *.
    split; [exact R|]. split; [exact G|]. split.
    + intros Rp. specialize (HR Rp). cbn in HR.
      destruct (memb p order) eqn:M; [rewrite HR; reflexivity|]. exfalso.
      rewrite <- RUN in Rp. pose proof (running_In _ _ Rp) as IP.
      apply in_map_iff in IP. destruct IP as (px & EP & IP).
      rewrite forallb_forall in O3. specialize (O3 _ IP). rewrite EP, Rp, M in O3. discriminate.
    + intros Rp. destruct (HNR Rp) as (R0 & _ & B0). split; [exact R0|]. split; [|exact B0].
      destruct (memb p order) eqn:M; [|reflexivity]. exfalso.
      apply memb_In in M. rewrite forallb_forall in O2. specialize (O2 _ M). congruence.
  - (* EHand *)
    destruct (fs_todo fs) as [|p r] eqn:T; [exists taken; rewrite T; auto|].
    destruct (busy_of p fs) as [b|] eqn:B; [exists taken; rewrite T; auto|].
    cbn [nodupb] in HD. apply Bool.andb_true_iff in HD. destruct HD as [D1 D2].
    apply Bool.negb_true_iff in D1.
    exists taken. cbn [fs_in fs_st fs_todo fs_cur]. repeat split; auto.
    intros q. destruct (HP q) as (dn & R & G & HR & HNR). rewrite T in HR, HNR.
    destruct (bytes_eqb q p) eqn:E.
    + apply bytes_eqb_spec in E. subst q. exists dn.
      rewrite busy_of_upd_same. rewrite B in R. cbn [opt_list] in R. rewrite app_nil_r in R.
      assert (RN : forall st i t c bz, recv_of p (mkfs st i t c bz (bupdate p (recv_of p fs ++ [fs_cur fs]) (fs_recv fs)))
                     = recv_of p fs ++ [fs_cur fs]).
      { intros. unfold recv_of at 1. cbn [fs_recv]. rewrite blookup_bupdate_same. reflexivity. }
      rewrite RN. cbn [fs_st fs_todo fs_cur opt_list]. split; [rewrite R; reflexivity|]. split; [exact G|]. split.
      * intros Rp. specialize (HR Rp). rewrite memb_cons_same in HR. rewrite D1. exact HR.
      * intros Rp. destruct (HNR Rp) as (_ & M & _). rewrite memb_cons_same in M. discriminate.
    + apply bytes_eqb_false in E. exists dn.
      rewrite busy_of_upd_other by exact E.
      assert (RN : forall st i t c bz, recv_of q (mkfs st i t c bz (bupdate p (recv_of p fs ++ [fs_cur fs]) (fs_recv fs)))
                     = recv_of q fs).
      { intros. unfold recv_of at 1. cbn [fs_recv]. rewrite blookup_bupdate_other by exact E. reflexivity. }
      rewrite RN. cbn [fs_st fs_todo fs_cur]. rewrite (memb_cons_other q p r E) in HR, HNR. auto.
  - (* EDone *)
    destruct (busy_of p fs) as [[l now]|] eqn:B; [|exists taken; auto].
    exists taken. cbn [fs_in fs_st fs_todo fs_cur]. unfold setp at 1 2. cbn [st_index st_lines].
    repeat split; auto.
    intros q. destruct (HP q) as (dn & R & G & HR & HNR).
    assert (RN : forall st i t c bz, recv_of q (mkfs st i t c bz (fs_recv fs)) = recv_of q fs) by reflexivity.
    destruct (bytes_eqb q p) eqn:E.
    + apply bytes_eqb_spec in E. subst q. exists (dn ++ [(l, now)]).
      rewrite busy_of_upd_same, RN. cbn [fs_st fs_todo fs_cur opt_list].
      rewrite B in R. cbn [opt_list] in R. rewrite app_nil_r.
      split; [exact R|]. split; [rewrite getp_setp_same, runp_snoc, G; reflexivity|]. split; [exact HR|].
      intros Rp. destruct (HNR Rp) as (_ & _ & B0). congruence.
    + apply bytes_eqb_false in E. exists dn.
      rewrite busy_of_upd_other by exact E. rewrite RN. cbn [fs_st fs_todo fs_cur].
      rewrite getp_setp_other by exact E. auto.
Qed.

Lemma finv_run st0 ls0 sch : forall fs, finv st0 ls0 fs -> finv st0 ls0 (frun sch fs).
Proof.
  unfold Fanout.frun. induction sch as [|e r IH]; intros fs H; cbn [fold_left]; [exact H|].
  apply IH. apply finv_step. exact H.
Qed.

Lemma settled_facts fs : settled fs = true ->
  fs_in fs = [] /\ fs_todo fs = [] /\ forall p, busy_of p fs = None.
Proof.
  unfold settled. destruct (fs_in fs); [|discriminate]. destruct (fs_todo fs); [|discriminate].
  intros F. repeat split. intros p. destruct (busy_of p fs) as [x|] eqn:B; [|reflexivity]. exfalso.
  pose proof B as B'. unfold busy_of in B'. destruct (blookup p (fs_busy fs)) as [[y|]|] eqn:L; try discriminate.
  apply blookup_In in L. rewrite forallb_forall in F. specialize (F _ L). cbn [fst] in F.
  unfold idle in F. rewrite B in F. discriminate.
Qed.

Section Seq2.
Variable c1 c2 omit : bool.
Variable compile : bytes -> N -> option (list decl).
Notation run_from := (run_from c1 c2 omit compile vmstep).

(* at every moment of every schedule *)
Theorem fanout_prefix st ls sch p :
  let fs := frun sch (finit st ls) in
  exists dn pend rest,
    recv_of p fs = dn ++ pend /\ (length pend <= 1)%nat /\
    (is_running p st = true -> recv_of p fs ++ rest = ls) /\
    (is_running p st = false -> recv_of p fs = []) /\
    getp p (fs_st fs) = getp p (run_from st (lines_ops dn)).
Proof.
  intros fs. destruct (finv_run st ls sch _ (finv_init st ls)) as (taken & HL & _ & _ & _ & HP).
  fold fs in HL, HP. destruct (HP p) as (dn & R & G & HR & HNR).
  exists dn, (opt_list (busy_of p fs)), (if memb p (fs_todo fs) then fs_cur fs :: fs_in fs else fs_in fs).
  split; [exact R|]. split; [destruct (busy_of p fs); cbn; lia|]. split; [|split].
  - intros Rp. specialize (HR Rp). destruct (memb p (fs_todo fs)).
    + rewrite HL, <- HR, <- app_assoc. reflexivity.
    + rewrite HL, HR. reflexivity.
  - intros Rp. apply (HNR Rp).
  - rewrite G. destruct (run_lines_facts c1 c2 omit compile dn st) as (_ & _ & C). rewrite C. reflexivity.
Qed.

(* when everything has settled *)
Theorem fanout_exactly_once st ls sch :
  let fs := frun sch (finit st ls) in
  settled fs = true ->
  (forall p, is_running p st = true -> recv_of p fs = ls) /\
  (forall p, is_running p st = false -> recv_of p fs = []) /\
  st_equiv (fs_st fs) (run_from st (lines_ops ls)).
Proof.
  intros fs S. destruct (finv_run st ls sch _ (finv_init st ls)) as (taken & HL & HI & HN & _ & HP).
  fold fs in HL, HI, HN, HP. destruct (settled_facts _ S) as (I0 & T0 & B0).
  rewrite I0, app_nil_r in HL. subst taken.
  destruct (run_lines_facts c1 c2 omit compile ls st) as (A & B & C).
  split; [|split].
  - intros p Rp. destruct (HP p) as (dn & _ & _ & HR & _). specialize (HR Rp). rewrite T0 in HR. exact HR.
  - intros p Rp. destruct (HP p) as (dn & _ & _ & _ & HNR). apply (HNR Rp).
  - split; [congruence|]. split; [congruence|]. intros p. rewrite C.
    destruct (HP p) as (dn & R & G & HR & HNR). rewrite B0 in R. cbn [opt_list] in R. rewrite app_nil_r in R.
    rewrite G. destruct (is_running p st) eqn:Rp.
    + specialize (HR eq_refl). rewrite T0 in HR. cbn in HR. congruence.
    + unfold is_running in Rp. destruct (ps_handle (getp p st)) eqn:HH; [discriminate|].
      rewrite !runp_idle by exact HH. reflexivity.
Qed.
End Seq2.

(* ================================================================== *)
(* the hand-overs never block for good: from whatever a schedule has reached,
   [drain] leads to a settled state *)
Lemma frun_app a b fs : frun (a ++ b) fs = frun b (frun a fs).
Proof. unfold Fanout.frun. apply fold_left_app. Qed.

Definition all_idle (fs : fstate) : Prop := forall p, busy_of p fs = None.
Definition same_running (st : state) (fs : fstate) : Prop :=
  forall p, is_running p (fs_st fs) = is_running p st.

Lemma fstep_running fs e p : is_running p (fs_st (fstep fs e)) = is_running p (fs_st fs).
Proof.
  destruct e as [order| |q]; cbn [Fanout.fstep].
  - destruct (fs_todo fs); [|reflexivity]. destruct (fs_in fs); [reflexivity|].
    destruct (order_ok _ _); reflexivity.
  - destruct (fs_todo fs); [reflexivity|]. destruct (busy_of _ _); reflexivity.
  - destruct (busy_of q fs) as [[l now]|]; [|reflexivity]. cbn [fs_st]. unfold is_running.
    destruct (bytes_eqb p q) eqn:E.
    + apply bytes_eqb_spec in E. subst. rewrite getp_setp_same, line_prog_handle. reflexivity.
    + apply bytes_eqb_false in E. rewrite getp_setp_other by exact E. reflexivity.
Qed.

Lemma frun_running sch : forall fs p, is_running p (fs_st (frun sch fs)) = is_running p (fs_st fs).
Proof.
  unfold Fanout.frun. induction sch as [|e r IH]; intros fs p; cbn [fold_left]; [reflexivity|].
  rewrite IH. apply fstep_running.
Qed.

Lemma done_step fs k :
  fs_in (fstep fs (EDone k)) = fs_in fs /\ fs_todo (fstep fs (EDone k)) = fs_todo fs /\
  busy_of k (fstep fs (EDone k)) = None /\
  forall p, busy_of p fs = None -> busy_of p (fstep fs (EDone k)) = None.
Proof.
  cbn [Fanout.fstep]. destruct (busy_of k fs) as [[l now]|] eqn:B; [|auto].
  cbn [fs_in fs_todo]. repeat split.
  - apply busy_of_upd_same.
  - intros p Hp. destruct (bytes_eqb p k) eqn:E.
    + apply bytes_eqb_spec in E. subst. apply busy_of_upd_same.
    + apply bytes_eqb_false in E. rewrite busy_of_upd_other by exact E. exact Hp.
Qed.

Lemma done_all keys : forall fs,
  fs_in (frun (map EDone keys) fs) = fs_in fs /\ fs_todo (frun (map EDone keys) fs) = fs_todo fs /\
  forall p, In p keys \/ busy_of p fs = None -> busy_of p (frun (map EDone keys) fs) = None.
Proof.
  unfold Fanout.frun. induction keys as [|k r IH]; intros fs; cbn [map fold_left].
  - repeat split. intros p [[]|H]. exact H.
  - destruct (done_step fs k) as (A & B & C & D). destruct (IH (fstep fs (EDone k))) as (A' & B' & C').
    split; [congruence|]. split; [congruence|].
    intros p [[E|I]|H].
    + subst. apply C'. right. exact C.
    + apply C'. left. exact I.
    + apply C'. right. apply D. exact H.
Qed.

Lemma hand_round_ok ps : forall fs,
  fs_todo fs = ps -> all_idle fs ->
  fs_todo (frun (hand_round ps) fs) = [] /\ all_idle (frun (hand_round ps) fs) /\
  fs_in (frun (hand_round ps) fs) = fs_in fs.
Proof.
  unfold Fanout.frun. induction ps as [|p r IH]; intros fs T AI; cbn [hand_round flat_map app fold_left].
  - auto.
  - fold (hand_round r).
    set (fs1 := fstep fs EHand).
    assert (F1 : fs_todo fs1 = r /\ busy_of p fs1 = Some (fs_cur fs) /\ fs_in fs1 = fs_in fs /\
                 forall q, q <> p -> busy_of q fs1 = None).
    { subst fs1. cbn [Fanout.fstep]. rewrite T, (AI p). cbn [fs_todo fs_in]. repeat split.
      - apply busy_of_upd_same.
      - intros q N. rewrite busy_of_upd_other by exact N. apply AI. }
    destruct F1 as (T1 & B1 & I1 & O1).
    destruct (done_step fs1 p) as (A & B & C & D).
    destruct (IH (fstep fs1 (EDone p))) as (X & Y & Z).
    + congruence.
    + intros q. destruct (bytes_eqb q p) eqn:E.
      * apply bytes_eqb_spec in E. subst. exact C.
      * apply bytes_eqb_false in E. apply D. apply O1. exact E.
    + split; [exact X|]. split; [exact Y|]. congruence.
Qed.

Lemma order_ok_running_names st st' :
  (forall p, is_running p st' = is_running p st) -> order_ok (running_names st) st' = true.
Proof.
  intros SR. unfold order_ok, running_names. rewrite nodupb_dedup. cbn [andb].
  apply Bool.andb_true_iff. split.
  - apply forallb_forall. intros p I. apply (proj1 (In_dedup _ _)) in I. apply filter_In in I. rewrite SR. apply I.
  - apply forallb_forall. intros px I. destruct (is_running (fst px) st') eqn:R; [|reflexivity].
    cbn [negb orb]. apply (proj2 (memb_In _ _)). apply (proj2 (In_dedup _ _)). apply filter_In. rewrite SR in R.
    split; [apply running_In; exact R|exact R].
Qed.

Lemma rounds_ok st ins : forall fs,
  fs_in fs = ins -> fs_todo fs = [] -> all_idle fs -> same_running st fs ->
  let fs' := frun (flat_map (fun _ : lstamp => ENext (running_names st) :: hand_round (running_names st)) ins) fs in
  fs_in fs' = [] /\ fs_todo fs' = [] /\ all_idle fs'.
Proof.
  induction ins as [|x r IH]; intros fs I T AI SR; cbn [flat_map].
  - cbn. auto.
  - change (ENext (running_names st) :: hand_round (running_names st) ++ ?z)
      with ([ENext (running_names st)] ++ (hand_round (running_names st) ++ z)).
    rewrite !frun_app.
    set (fs1 := frun [ENext (running_names st)] fs).
    assert (F1 : fs_in fs1 = r /\ fs_todo fs1 = running_names st /\ all_idle fs1).
    { subst fs1. unfold Fanout.frun. cbn [fold_left Fanout.fstep]. rewrite T, I.
      rewrite (order_ok_running_names st (fs_st fs) SR). cbn [fs_in fs_todo]. repeat split.
      intros p. exact (AI p). }
    destruct F1 as (I1 & T1 & A1).
    destruct (hand_round_ok _ fs1 T1 A1) as (X & Y & Z).
    apply IH; try assumption;
      change (frun (ENext (running_names st) :: hand_round (running_names st)) fs)
        with (frun (hand_round (running_names st)) fs1); try assumption; try congruence.
    intros p. rewrite frun_running. subst fs1. rewrite frun_running. apply SR.
Qed.

Theorem fanout_never_stuck st ls sch :
  settled (frun (sch ++ drain (frun sch (finit st ls))) (finit st ls)) = true.
Proof.
  rewrite frun_app. set (fs := frun sch (finit st ls)). unfold drain.
  rewrite <- (map_map fst EDone). rewrite !frun_app.
  destruct (done_all (map fst (fs_busy fs)) fs) as (I1 & T1 & B1).
  set (fs1 := frun (map EDone (map fst (fs_busy fs))) fs) in *.
  assert (A1 : all_idle fs1).
  { intros p. apply B1. destruct (busy_of p fs) as [x|] eqn:B; [left|right; reflexivity].
    unfold busy_of in B. destruct (blookup p (fs_busy fs)) as [y|] eqn:L; [|discriminate].
    apply blookup_In in L. change p with (fst (p, y)). apply in_map. exact L. }
  destruct (hand_round_ok (fs_todo fs) fs1 T1 A1) as (T2 & A2 & I2).
  set (fs2 := frun (hand_round (fs_todo fs)) fs1) in *.
  destruct (rounds_ok (fs_st fs) (fs_in fs) fs2) as (I3 & T3 & A3); try assumption; try congruence.
  { intros p. subst fs2 fs1. rewrite !frun_running. reflexivity. }
  cbn zeta in I3, T3, A3. unfold settled. rewrite I3, T3.
  apply forallb_forall. intros x _. unfold idle. rewrite A3. reflexivity.
Qed.

(* ================================================================== *)
(* histories whose lines arrive in bursts *)
Section Hist.
Variable c1 c2 omit : bool.
Variable compile : bytes -> N -> option (list decl).
Notation run_from := (run_from c1 c2 omit compile vmstep).
Notation hstep := (hstep vmstep c1 c2 omit compile).
Notation hrun := (hrun vmstep c1 c2 omit compile).
Notation settle_all := (settle_all vmstep c1 c2 omit compile).

Lemma run_from_app a b st : run_from st (a ++ b) = run_from (run_from st a) b.
Proof. unfold Loader.run_from. apply fold_left_app. Qed.

Lemma hstep_flat a b h :
  st_equiv a b ->
  match h with HOp _ => True | HBurst ls sch => settled (frun sch (finit a ls)) = true end ->
  st_equiv (hstep a h) (run_from b (match h with HOp o => [o] | HBurst ls _ => lines_ops ls end)).
Proof.
  intros E S. destruct h as [o|ls sch]; cbn [Fanout.hstep].
  - unfold Loader.run_from. cbn [fold_left]. apply step_equiv. exact E.
  - destruct (fanout_exactly_once c1 c2 omit compile a ls sch S) as (_ & _ & Q).
    apply (st_equiv_trans _ _ _ Q). apply run_equiv. exact E.
Qed.

Lemma hrun_flatten hs : forall a b,
  st_equiv a b -> settle_all a hs = true -> st_equiv (hrun a hs) (run_from b (flatten hs)).
Proof.
  unfold Fanout.hrun. induction hs as [|h r IH]; intros a b E S; cbn [fold_left flatten flat_map].
  - exact E.
  - cbn [Fanout.settle_all] in S. apply Bool.andb_true_iff in S. destruct S as [S1 S2].
    fold (flatten r). rewrite run_from_app. apply IH; [|exact S2].
    apply hstep_flat; [exact E|]. destruct h; [exact I|exact S1].
Qed.

Theorem isolation_slow (P : bytes) (hs : list hop) :
  settle_all st_empty hs = true ->
  never_clashes c1 c2 omit compile vmstep P st_empty (flatten hs) ->
  fst (proj P (hrun st_empty hs)) = fst (proj P (run_from st_empty (restrict P (flatten hs)))) /\
  forall name,
    snd (proj P (hrun st_empty hs)) name =
    snd (proj P (run_from st_empty (restrict P (flatten hs)))) name.
Proof.
  intros S NC.
  destruct (hrun_flatten hs st_empty st_empty (st_equiv_refl _) S) as (A & _ & C).
  destruct (isolation c1 c2 omit compile vmstep P (flatten hs) NC) as (X & Y).
  unfold proj in *. cbn [fst snd] in *. rewrite A, C. split; [exact X|exact Y].
Qed.

(* how slow anybody was does not matter *)
Theorem schedule_irrelevant (hs hs' : list hop) :
  flatten hs = flatten hs' -> settle_all st_empty hs = true -> settle_all st_empty hs' = true ->
  st_equiv (hrun st_empty hs) (hrun st_empty hs').
Proof.
  intros F S S'.
  pose proof (hrun_flatten hs st_empty st_empty (st_equiv_refl _) S) as A.
  pose proof (hrun_flatten hs' st_empty st_empty (st_equiv_refl _) S') as B.
  rewrite F in A. exact (st_equiv_trans _ _ _ A (st_equiv_sym _ _ B)).
Qed.
End Hist.
End Fan.
