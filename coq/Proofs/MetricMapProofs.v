(* The concrete metric (slice + index keyed by encoded labels) refines the
   abstract insertion-ordered map, for any injective key encoding. *)
From V Require Import Metrics.MetricMap.
Local Open Scope N_scope.

Notation g := lv_item.
Definition ptrs (s : list lvrec) := map lv_ptr s.
Definition labs (s : list lvrec) := map lv_labels s.

Lemma tuple_eqb_false a b : a <> b -> tuple_eqb a b = false.
Proof.
  intros H. destruct (tuple_eqb a b) eqn:E; [|reflexivity].
  apply tuple_eqb_spec in E. contradiction.
Qed.
Lemma tuple_eqb_refl a : tuple_eqb a a = true.
Proof. apply tuple_eqb_spec. reflexivity. Qed.
Lemma bytes_eqb_false a b : a <> b -> bytes_eqb a b = false.
Proof.
  intros H. destruct (bytes_eqb a b) eqn:E; [|reflexivity].
  apply bytes_eqb_spec in E. contradiction.
Qed.

Lemma a_find_in ls s p c :
  a_find ls (map g s) = Some (p, c) -> In p (ptrs s) /\ In ls (labs s).
Proof.
  induction s as [|lv r IH]; cbn [map a_find ptrs labs]; [discriminate|].
  unfold lv_item at 1. destruct (tuple_eqb ls (lv_labels lv)) eqn:E.
  - intros H. injection H as <- <-. apply tuple_eqb_spec in E. subst. cbn. auto.
  - intros H. apply IH in H as [H1 H2]. cbn. auto.
Qed.

Lemma a_find_none ls s : a_find ls (map g s) = None -> ~ In ls (labs s).
Proof.
  induction s as [|lv r IH]; cbn [map a_find labs]; [auto|].
  unfold lv_item at 1. destruct (tuple_eqb ls (lv_labels lv)) eqn:E; [discriminate|].
  intros H [H1|H1].
  - subst. rewrite tuple_eqb_refl in E. discriminate.
  - apply IH in H. contradiction.
Qed.

Lemma not_in_a_find ls s : ~ In ls (labs s) -> a_find ls (map g s) = None.
Proof.
  induction s as [|lv r IH]; cbn [map a_find labs]; [auto|].
  intros H. unfold lv_item at 1. rewrite tuple_eqb_false; [apply IH|]; intros X; apply H; cbn; auto.
Qed.

Lemma map_g_cons lv r :
  map g (lv :: r) = (lv_labels lv, (lv_ptr lv, lv_cell lv)) :: map g r.
Proof. reflexivity. Qed.

Lemma find_upd f ls s p c :
  NoDup (ptrs s) -> a_find ls (map g s) = Some (p, c) ->
  map g (slice_upd p f s) = a_upd ls f (map g s).
Proof.
  induction s as [|lv r IH]; [discriminate|].
  intros ND. inversion ND as [|x l Hx ND']; subst.
  rewrite map_g_cons. cbn [a_find a_upd slice_upd].
  destruct (tuple_eqb ls (lv_labels lv)) eqn:E.
  - intros H. injection H as <- <-. rewrite N.eqb_refl. reflexivity.
  - intros H. pose proof (a_find_in _ _ _ _ H) as [Hin _].
    destruct (N.eqb (lv_ptr lv) p) eqn:Ep.
    + apply N.eqb_eq in Ep. subst. contradiction.
    + rewrite map_g_cons. f_equal. apply IH; assumption.
Qed.

Lemma find_del ls s p c :
  NoDup (ptrs s) -> a_find ls (map g s) = Some (p, c) ->
  slice_has p s = true /\ map g (slice_del p s) = a_del ls (map g s).
Proof.
  induction s as [|lv r IH]; [discriminate|].
  intros ND. inversion ND as [|x l Hx ND']; subst.
  rewrite map_g_cons. cbn [a_find a_del slice_del slice_has].
  destruct (tuple_eqb ls (lv_labels lv)) eqn:E.
  - intros H. injection H as <- <-. rewrite N.eqb_refl. split; reflexivity.
  - intros H. pose proof (a_find_in _ _ _ _ H) as [Hin _].
    destruct (N.eqb (lv_ptr lv) p) eqn:Ep.
    + apply N.eqb_eq in Ep. subst. contradiction.
    + destruct (IH ND' H) as [H1 H2]. split; [exact H1|]. rewrite map_g_cons. f_equal. exact H2.
Qed.

Lemma ptrs_upd p f s : ptrs (slice_upd p f s) = ptrs s.
Proof.
  induction s as [|lv r IH]; [reflexivity|]. cbn [slice_upd].
  destruct (N.eqb (lv_ptr lv) p); cbn; [reflexivity|]. unfold ptrs in IH. rewrite IH. reflexivity.
Qed.
Lemma labs_upd p f s : labs (slice_upd p f s) = labs s.
Proof.
  induction s as [|lv r IH]; [reflexivity|]. cbn [slice_upd].
  destruct (N.eqb (lv_ptr lv) p); cbn; [reflexivity|]. unfold labs in IH. rewrite IH. reflexivity.
Qed.

Lemma in_slice_del p s lv : In lv (slice_del p s) -> In lv s.
Proof.
  induction s as [|x r IH]; cbn [slice_del]; [auto|].
  destruct (N.eqb (lv_ptr x) p); cbn; intuition.
Qed.

Lemma NoDup_map_del {B} (h : lvrec -> B) p s :
  NoDup (map h s) -> NoDup (map h (slice_del p s)).
Proof.
  induction s as [|x r IH]; cbn [slice_del map]; [auto|].
  intros ND. inversion ND as [|y l Hy ND']; subst.
  destruct (N.eqb (lv_ptr x) p); [exact ND'|]. cbn [map]. constructor; [|auto].
  intros Hin. apply Hy. apply in_map_iff in Hin as [lv [E Hin]]. apply in_map_iff.
  exists lv. split; [exact E|]. eapply in_slice_del; eauto.
Qed.

Lemma a_find_upd_fst ls' ls f l :
  option_map fst (a_find ls' (a_upd ls f l)) = option_map fst (a_find ls' l).
Proof.
  induction l as [|[k [p c]] r IH]; [reflexivity|]. cbn [a_upd a_find].
  destruct (tuple_eqb ls k) eqn:E; cbn [a_find]; destruct (tuple_eqb ls' k); cbn; auto.
Qed.

Lemma a_find_del_same ls s :
  NoDup (labs s) -> a_find ls (a_del ls (map g s)) = None.
Proof.
  induction s as [|lv r IH]; cbn [map a_del labs]; [reflexivity|].
  intros ND. inversion ND as [|y l Hy ND']; subst.
  unfold lv_item at 1. destruct (tuple_eqb ls (lv_labels lv)) eqn:E.
  - apply tuple_eqb_spec in E. subst. apply not_in_a_find. exact Hy.
  - cbn [a_find]. rewrite E. apply IH. exact ND'.
Qed.

Lemma a_find_del_other ls' ls l :
  ls' <> ls -> a_find ls' (a_del ls l) = a_find ls' l.
Proof.
  intros Hne. induction l as [|[k x] r IH]; [reflexivity|]. cbn [a_del a_find].
  destruct (tuple_eqb ls k) eqn:E.
  - apply tuple_eqb_spec in E. subst. rewrite tuple_eqb_false by exact Hne. reflexivity.
  - cbn [a_find]. destruct (tuple_eqb ls' k); auto.
Qed.

Lemma a_find_app_none ls l x :
  a_find ls l = None -> a_find ls (l ++ [x]) = a_find ls [x].
Proof.
  induction l as [|[k y] r IH]; [reflexivity|]. cbn [app a_find].
  destruct (tuple_eqb ls k); [discriminate|]. exact IH.
Qed.
Lemma a_find_app_some ls l x y :
  a_find ls l = Some y -> a_find ls (l ++ [x]) = Some y.
Proof.
  induction l as [|[k z] r IH]; [discriminate|]. cbn [app a_find].
  destruct (tuple_eqb ls k); auto.
Qed.

Lemma a_find_slice_upd_fst ls p f s :
  option_map fst (a_find ls (map g (slice_upd p f s))) = option_map fst (a_find ls (map g s)).
Proof.
  induction s as [|lv r IH]; [reflexivity|]. cbn [slice_upd].
  destruct (N.eqb (lv_ptr lv) p); rewrite !map_g_cons; cbn [a_find lv_labels];
    destruct (tuple_eqb ls (lv_labels lv)); cbn; auto.
Qed.

Lemma a_del_absent ls l : a_find ls l = None -> a_del ls l = l.
Proof.
  induction l as [|[k x] r IH]; [reflexivity|]. cbn [a_find a_del].
  destruct (tuple_eqb ls k); [discriminate|]. intros H. f_equal. auto.
Qed.

Lemma NoDup_snoc {A} (l : list A) x : NoDup l -> ~ In x l -> NoDup (l ++ [x]).
Proof.
  induction l as [|y r IH]; cbn; intros ND Hx.
  - constructor; [auto|constructor].
  - inversion ND as [|z l Hy ND']; subst. constructor.
    + intros Hin. apply in_app_iff in Hin as [Hin|[->|[]]]; [contradiction|]. apply Hx. auto.
    + apply IH; [exact ND'|]. intros X. apply Hx. auto.
Qed.

Section Refine.
Variable enc : tuple -> bytes.
Hypothesis enc_inj : forall a b, enc a = enc b -> a = b.

Lemma idx_find_del_same k idx : idx_find k (idx_del k idx) = None.
Proof.
  induction idx as [|[k' p] r IH]; [reflexivity|]. cbn [idx_del].
  destruct (bytes_eqb k k') eqn:E; [exact IH|]. cbn [idx_find]. rewrite E. exact IH.
Qed.
Lemma idx_find_del_other k' k idx : k' <> k -> idx_find k' (idx_del k idx) = idx_find k' idx.
Proof.
  intros Hne. induction idx as [|[k0 p] r IH]; [reflexivity|]. cbn [idx_del idx_find].
  destruct (bytes_eqb k k0) eqn:E.
  - apply bytes_eqb_spec in E. subst. rewrite bytes_eqb_false by exact Hne. exact IH.
  - cbn [idx_find]. destruct (bytes_eqb k' k0); auto.
Qed.

Record Inv (m : cmetric) : Prop := {
  inv_idx : forall ls, idx_find (enc ls) (m_idx m) = option_map fst (a_find ls (map g (m_slice m)));
  inv_ptrs : NoDup (ptrs (m_slice m));
  inv_labs : NoDup (labs (m_slice m));
  inv_next : forall p, In p (ptrs (m_slice m)) -> p < m_next m }.

Lemma abs_items m : a_items (abs m) = map g (m_slice m).
Proof. reflexivity. Qed.

Lemma Inv_init n t : Inv (c_init n t).
Proof. split; cbn; try constructor; intros; try reflexivity; contradiction. Qed.

Lemma get_refines m ls now m' r :
  Inv m -> c_get enc m ls now = (m', r) ->
  a_get (abs m) ls now = (abs m', r) /\ Inv m' /\
  (forall p, r = Some p -> exists c, a_find ls (map g (m_slice m')) = Some (p, c)).
Proof.
  intros I. unfold c_get, a_get. cbn [a_arity a_type a_items a_next abs].
  destruct (negb (Nat.eqb (length ls) (m_arity m))) eqn:Ha.
  { intros H. injection H as <- <-. repeat split; try apply I. discriminate. }
  rewrite (inv_idx _ I ls).
  destruct (a_find ls (map g (m_slice m))) as [[p c]|] eqn:F; cbn [option_map fst].
  { intros H. injection H as <- <-. split; [reflexivity|]. split; [exact I|].
    intros p' E. injection E as <-. eauto. }
  intros H. injection H as <- <-. cbn [abs m_arity m_type m_slice m_next].
  split.
  { unfold abs. cbn [m_arity m_type m_slice m_next]. rewrite map_app. reflexivity. }
  assert (Hnl : ~ In ls (labs (m_slice m))) by (apply a_find_none; exact F).
  split.
  - split; cbn [m_idx m_slice m_next].
    + intros ls'. rewrite map_app. cbn [map]. unfold idx_put. cbn [idx_find].
      destruct (bytes_eqb (enc ls') (enc ls)) eqn:E.
      * apply bytes_eqb_spec in E. apply enc_inj in E. subst ls'.
        rewrite a_find_app_none by exact F. unfold lv_item. cbn [a_find lv_labels].
        rewrite tuple_eqb_refl. reflexivity.
      * assert (Hne : ls' <> ls) by (intros ->; rewrite bytes_eqb_refl in E; discriminate).
        rewrite idx_find_del_other by (intros X; rewrite X, bytes_eqb_refl in E; discriminate).
        rewrite (inv_idx _ I ls').
        destruct (a_find ls' (map g (m_slice m))) eqn:F'.
        -- erewrite a_find_app_some by exact F'. reflexivity.
        -- rewrite a_find_app_none by exact F'. unfold lv_item. cbn [a_find lv_labels].
           rewrite tuple_eqb_false by exact Hne. reflexivity.
    + unfold ptrs. rewrite map_app. cbn [map lv_ptr]. apply NoDup_snoc; [exact (inv_ptrs _ I)|].
      intros Hin. apply (inv_next _ I) in Hin. lia.
    + unfold labs. rewrite map_app. cbn [map lv_labels]. apply NoDup_snoc; [exact (inv_labs _ I)|exact Hnl].
    + intros p. unfold ptrs. rewrite map_app. cbn [map lv_ptr]. intros Hin.
      apply in_app_iff in Hin as [Hin|[<-|[]]]; [apply (inv_next _ I) in Hin|]; lia.
  - intros p E. injection E as <-. cbn [m_slice]. rewrite map_app. cbn [map].
    rewrite a_find_app_none by exact F. unfold lv_item. cbn [a_find lv_labels lv_ptr lv_cell].
    rewrite tuple_eqb_refl. eauto.
Qed.

Lemma upd_keeps_inv m p f :
  Inv m -> Inv (with_slice m (slice_upd p f (m_slice m))).
Proof.
  intros I. split; unfold with_slice; cbn [m_idx m_slice m_next].
  - intros ls. rewrite (inv_idx _ I ls). symmetry. apply a_find_slice_upd_fst.
  - rewrite ptrs_upd. apply I.
  - rewrite labs_upd. apply I.
  - rewrite ptrs_upd. apply I.
Qed.

Lemma abs_with_slice m s :
  abs (with_slice m s) = with_items (abs m) (map g s).
Proof. reflexivity. Qed.

Lemma getupd_refines m ls t f m1 p :
  Inv m -> c_get enc m ls t = (m1, Some p) ->
  a_get (abs m) ls t = (abs m1, Some p) /\
  abs (with_slice m1 (slice_upd p f (m_slice m1))) = with_items (abs m1) (a_upd ls f (a_items (abs m1))) /\
  Inv (with_slice m1 (slice_upd p f (m_slice m1))).
Proof.
  intros I G. destruct (get_refines _ _ _ _ _ I G) as [H1 [I1 H3]].
  split; [exact H1|]. destruct (H3 p eq_refl) as [c F]. split.
  - rewrite abs_with_slice. f_equal. rewrite abs_items. apply find_upd with (c := c); [apply I1|exact F].
  - apply upd_keeps_inv. exact I1.
Qed.

Theorem step_refines m o m' x :
  Inv m -> c_step enc m o = (m', x) ->
  a_step (abs m) o = (abs m', x) /\ Inv m'.
Proof.
  intros I. destruct o as [ls now|ls v t|ls d t|ls|ls e|]; cbn [c_step a_step].
  - destruct (c_get enc m ls now) as [m1 [p|]] eqn:G; intros H; injection H as <- <-;
      destruct (get_refines _ _ _ _ _ I G) as [H1 [I1 _]]; rewrite H1; auto.
  - destruct (c_get enc m ls t) as [m1 [p|]] eqn:G; intros H; injection H as <- <-.
    + destruct (getupd_refines _ _ _ (upd_set v t) _ _ I G) as [H1 [H2 I2]].
      rewrite H1, H2. auto.
    + destruct (get_refines _ _ _ _ _ I G) as [H1 [I1 _]]; rewrite H1; auto.
  - destruct (c_get enc m ls t) as [m1 [p|]] eqn:G; intros H; injection H as <- <-.
    + destruct (getupd_refines _ _ _ (upd_inc d t) _ _ I G) as [H1 [H2 I2]].
      rewrite H1, H2. auto.
    + destruct (get_refines _ _ _ _ _ I G) as [H1 [I1 _]]; rewrite H1; auto.
  - cbn [abs a_arity]. destruct (negb (Nat.eqb (length ls) (m_arity m))).
    { intros H; injection H as <- <-. auto. }
    rewrite (inv_idx _ I ls).
    destruct (a_find ls (map g (m_slice m))) as [[p c]|] eqn:F; cbn [option_map fst].
    + destruct (find_del _ _ _ _ (inv_ptrs _ I) F) as [Hh Hd]. rewrite Hh.
      intros H; injection H as <- <-. split.
      * unfold abs, with_items. cbn [m_arity m_type m_slice m_next a_arity a_type a_items a_next].
        rewrite Hd. reflexivity.
      * split; cbn [m_idx m_slice m_next].
        -- intros ls'. rewrite Hd. destruct (bytes_eqb (enc ls') (enc ls)) eqn:E.
           ++ apply bytes_eqb_spec in E. apply enc_inj in E. subst ls'.
              rewrite idx_find_del_same. rewrite a_find_del_same by apply I. reflexivity.
           ++ assert (Hne : ls' <> ls) by (intros ->; rewrite bytes_eqb_refl in E; discriminate).
              rewrite idx_find_del_other by (intros X; rewrite X, bytes_eqb_refl in E; discriminate).
              rewrite a_find_del_other by exact Hne. apply I.
        -- apply NoDup_map_del. apply I.
        -- apply NoDup_map_del. apply I.
        -- intros q Hin. apply (inv_next _ I). unfold ptrs in *.
           apply in_map_iff in Hin as [lv [E Hin]]. apply in_map_iff. exists lv.
           split; [exact E|]. eapply in_slice_del; eauto.
    + intros H; injection H as <- <-. split; [|exact I].
      unfold abs, with_items. cbn [m_arity m_type m_slice m_next a_arity a_type a_items a_next].
      rewrite a_del_absent by exact F. reflexivity.
  - cbn [abs a_arity]. destruct (negb (Nat.eqb (length ls) (m_arity m))).
    { intros H; injection H as <- <-. auto. }
    rewrite (inv_idx _ I ls). rewrite abs_items.
    destruct (a_find ls (map g (m_slice m))) as [[p c]|] eqn:F; cbn [option_map fst].
    + intros H; injection H as <- <-. split; [|apply upd_keeps_inv; exact I].
      rewrite abs_with_slice. f_equal. f_equal. symmetry. apply find_upd with (c := c); [apply I|exact F].
    + intros H; injection H as <- <-. auto.
  - intros H; injection H as <- <-. split; [|exact I].
    f_equal. f_equal. unfold abs. cbn [a_items]. rewrite map_map. apply map_ext. intros lv. reflexivity.
Qed.

Theorem run_refines ops : forall m m' xs,
  Inv m -> c_run enc m ops = (m', xs) ->
  a_run (abs m) ops = (abs m', xs) /\ Inv m'.
Proof.
  induction ops as [|o r IH]; cbn [c_run a_run]; intros m m' xs I.
  - intros H; injection H as <- <-. auto.
  - destruct (c_step enc m o) as [m1 x] eqn:S. destruct (c_run enc m1 r) as [m2 ys] eqn:R.
    intros H; injection H as <- <-.
    destruct (step_refines _ _ _ _ I S) as [H1 I1]. rewrite H1.
    destruct (IH _ _ _ I1 R) as [H2 I2]. rewrite H2. auto.
Qed.
End Refine.
