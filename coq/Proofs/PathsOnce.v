(* C18, forwarded lines across the whole history: in a history without Rename
   no line of a file is ever forwarded twice under a path - however often the
   patterns are polled, however many patterns match the path, and across
   deletion and re-creation of the path. *)
From V Require Import Base.Bytes Tail.Paths Proofs.PathsProofs.
Local Open Scope N_scope.

Definition ino_of (n : node) : N := match n with File _ i => i | Other _ i => i end.

Lemma recs_range p sid ino from n f :
  In f (recs p sid ino from n) ->
  f_path f = p /\ f_ino f = ino /\ from <= f_idx f /\ f_idx f < from + N.of_nat n.
Proof.
  revert from. induction n as [|n IH]; intros from H; cbn [recs] in H; [destruct H|].
  destruct H as [<-|H]; [cbn; repeat split; lia|].
  apply IH in H as [A [B [C D]]]. repeat split; auto; lia.
Qed.

Ltac stc := cbn [tree len streams reg count tick nsid out].

Section Once.
Variable U : list path.
Variable pats : list N.
Variable glob_match : N -> path -> bool.
Variable ignore_match : path -> bool.

Notation step := (step U pats glob_match ignore_match).
Notation start := (start U pats glob_match ignore_match).
Notation Inv := (Inv U pats glob_match ignore_match).

Definition nr (o : op) : Prop := match o with Rename _ _ => False | _ => True end.

Record J (b : N) (s : state) : Prop := {
  j_nodup : NoDup (map key (out s));
  j_exists : forall r, In r (out s) -> f_idx r < len s (f_ino r);
  j_cur : forall r rd, In r (out s) -> tree s (f_path r) = Some (File rd (f_ino r)) ->
      exists st, In st (streams s) /\ s_path st = f_path r /\ s_ino st = f_ino r;
  j_below : forall r st, In r (out s) -> In st (streams s) ->
      f_path r = s_path st -> f_ino r = s_ino st -> f_idx r < s_off st;
  j_fr_out : forall r, In r (out s) -> f_ino r < b;
  j_fr_tree : forall p n, tree s p = Some n -> ino_of n < b;
  j_fr_str : forall st, In st (streams s) -> s_ino st < b;
  j_off : forall st, In st (streams s) -> s_off st <= len s (s_ino st)
}.

Lemma J_weaken b b' s : b <= b' -> J b s -> J b' s.
Proof.
  intros H [A B C D E F G I]. constructor; auto.
  - intros r Hr. specialize (E r Hr). lia.
  - intros p n Hn. specialize (F p n Hn). lia.
  - intros st Hs. specialize (G st Hs). lia.
Qed.

(* ---- file-system operations other than Rename ---- *)

Lemma fs_step_J s o : nr o -> J (10 + tick s) s -> J (10 + tick s + 1) (fs_step U s o).
Proof.
  intros Hnr [A B C D E F G I]. destruct o as [p|p|p|p|p q|p rd0|p| |]; unfold Paths.fs_step, set_tree; cbv beta iota zeta; try destruct Hnr.
  - (* Create *)
    destruct (in_U U p && negb (is_some (tree s p))) eqn:Gd; [|apply (J_weaken (10 + tick s)); [lia|constructor; auto]].
    constructor; stc; auto.
    + intros r Hr. specialize (E r Hr). rewrite upd_other by lia. auto.
    + intros r rd Hr. unfold upd at 1. destruct (N.eqb (f_path r) p) eqn:Q.
      * intros X. assert (f_ino r = 10 + tick s) by congruence. specialize (E r Hr). lia.
      * intros X. eapply C; eauto.
    + intros r Hr. specialize (E r Hr). lia.
    + intros q n. unfold upd. destruct (N.eqb q p); [intros X; assert (n = File true (10 + tick s)) by congruence; subst n; cbn [ino_of]; lia|].
      intros X. specialize (F q n X). lia.
    + intros st Hs. specialize (G st Hs). lia.
    + intros st Hs. specialize (G st Hs). rewrite upd_other by lia. auto.
  - (* Mkdir *)
    destruct (in_U U p && negb (is_some (tree s p))) eqn:Gd; [|apply (J_weaken (10 + tick s)); [lia|constructor; auto]].
    constructor; stc; auto.
    + intros r rd Hr. unfold upd. destruct (N.eqb (f_path r) p); [intros X; discriminate X|]. intros X. eapply C; eauto.
    + intros r Hr. specialize (E r Hr). lia.
    + intros q n. unfold upd. destruct (N.eqb q p); [intros X; assert (n = Dir (10 + tick s)) by congruence; subst n; cbn [ino_of]; lia|].
      intros X. specialize (F q n X). lia.
    + intros st Hs. specialize (G st Hs). lia.
  - (* Mksock *)
    destruct (in_U U p && negb (is_some (tree s p))) eqn:Gd; [|apply (J_weaken (10 + tick s)); [lia|constructor; auto]].
    constructor; stc; auto.
    + intros r rd Hr. unfold upd. destruct (N.eqb (f_path r) p); [intros X; discriminate X|]. intros X. eapply C; eauto.
    + intros r Hr. specialize (E r Hr). lia.
    + intros q n. unfold upd. destruct (N.eqb q p); [intros X; assert (n = Sock (10 + tick s)) by congruence; subst n; cbn [ino_of]; lia|].
      intros X. specialize (F q n X). lia.
    + intros st Hs. specialize (G st Hs). lia.
  - (* Delete *)
    constructor; stc; auto.
    + intros r rd Hr. unfold upd. destruct (N.eqb (f_path r) p); [intros X; discriminate X|]. intros X. eapply C; eauto.
    + intros r Hr. specialize (E r Hr). lia.
    + intros q n. unfold upd. destruct (N.eqb q p); [intros X; discriminate X|]. intros X. specialize (F q n X). lia.
    + intros st Hs. specialize (G st Hs). lia.
  - (* Chmod *)
    destruct (tree s p) as [[rd1 i|? i]|] eqn:T; [|apply (J_weaken (10 + tick s)); [lia|constructor; auto]|apply (J_weaken (10 + tick s)); [lia|constructor; auto]].
    constructor; stc; auto.
    + intros r rd Hr. unfold upd. destruct (N.eqb (f_path r) p) eqn:Q.
      * apply N.eqb_eq in Q. intros X. injection X as _ X. eapply (C r rd1); eauto. rewrite Q, T, X. reflexivity.
      * intros X. eapply C; eauto.
    + intros r Hr. specialize (E r Hr). lia.
    + intros q n. unfold upd. destruct (N.eqb q p); [intros X; assert (n = File rd0 i) by congruence; subst n; specialize (F p _ T); cbn [ino_of] in *; lia|].
      intros X. specialize (F q n X). lia.
    + intros st Hs. specialize (G st Hs). lia.
  - (* Append *)
    destruct (tree s p) as [[rd1 i|? i]|] eqn:T; [|apply (J_weaken (10 + tick s)); [lia|constructor; auto]|apply (J_weaken (10 + tick s)); [lia|constructor; auto]].
    constructor; stc; auto.
    + intros r Hr. specialize (B r Hr). unfold upd. destruct (N.eqb (f_ino r) i) eqn:Q; [apply N.eqb_eq in Q; rewrite <- Q; lia|exact B].
    + intros r Hr. specialize (E r Hr). lia.
    + intros q n X. specialize (F q n X). lia.
    + intros st Hs. specialize (G st Hs). lia.
    + intros st Hs. specialize (I st Hs). unfold upd. destruct (N.eqb (s_ino st) i) eqn:Q; [apply N.eqb_eq in Q; rewrite <- Q; lia|exact I].
  - apply (J_weaken (10 + tick s)); [lia|constructor; auto].
  - apply (J_weaken (10 + tick s)); [lia|constructor; auto].
Qed.

(* ---- TailPath and the pattern poll ---- *)

Lemma tail_path_J b s p : J b s -> J b (tail_path true s p).
Proof.
  intros [A B C D E F G I]. unfold tail_path. cbn [andb].
  destruct (is_some (reg s p)); [constructor; auto|].
  destruct (tree s p) as [[[] i|? i]|] eqn:T; try (constructor; auto; fail).
  constructor; stc; auto.
  - intros r rd Hr X. destruct (C r rd Hr X) as [st [H1 H2]]. exists st. split; [apply in_or_app; left; exact H1|exact H2].
  - intros r st Hr Hs. apply in_app_or in Hs as [Hs|[<-|[]]]; [apply D; auto|]. cbn. intros _ Q. rewrite <- Q. apply B. exact Hr.
  - intros st Hs. apply in_app_or in Hs as [Hs|[<-|[]]]; [auto|]. cbn. apply (F p _ T).
  - intros st Hs. apply in_app_or in Hs as [Hs|[<-|[]]]; [auto|]. cbn. lia.
Qed.

Lemma poll_J b s : J b s -> J b (poll U pats glob_match ignore_match true s).
Proof.
  unfold poll. generalize pats. intros l. revert s. induction l as [|pat l IH]; intros s Hj; cbn; [exact Hj|].
  apply IH. unfold glob_one. generalize U. intros u. revert s Hj. induction u as [|q u IHu]; intros s Hj; cbn; [exact Hj|].
  apply IHu. destruct (is_some (tree s q) && glob_match pat q && negb (ignored ignore_match s q)); [apply tail_path_J; exact Hj|exact Hj].
Qed.

(* ---- the stream poll ---- *)

Lemma round_elems s st f :
  s_off st <= len s (s_ino st) ->
  In f (snd (round true s st)) ->
  f_path f = s_path st /\
  ((f_ino f = s_ino st /\ s_off st <= f_idx f /\ f_idx f < len s (s_ino st)) \/
   (exists j, tree s (s_path st) = Some (File true j) /\ j <> s_ino st /\ f_ino f = j /\ f_idx f < len s j)).
Proof.
  intros Hoff. unfold round. set (got := recs _ _ _ _ _).
  assert (G : In f got -> f_path f = s_path st /\ f_ino f = s_ino st /\ s_off st <= f_idx f /\ f_idx f < len s (s_ino st)).
  { intros H. apply recs_range in H as [A [B [C D]]]. repeat split; auto. rewrite N2Nat.id in D. lia. }
  destruct (tree s (s_path st)) as [[rd j|? ?]|]; cbn [snd]; try (intros H; destruct (G H) as [A B]; auto; fail).
  destruct (N.eqb j (s_ino st)) eqn:E; cbn [snd]; [intros H; destruct (G H) as [A B]; auto|].
  destruct rd; cbn [snd]; [|intros H; destruct (G H) as [A B]; auto].
  intros H. apply in_app_or in H as [H|H]; [destruct (G H) as [A B]; auto|].
  apply recs_range in H as [A [B [C D]]]. split; [exact A|]. right. exists j. apply N.eqb_neq in E.
  repeat split; auto. rewrite N2Nat.id in D. lia.
Qed.

Lemma kept_shape s sts st' :
  In st' (kept true s sts) ->
  exists st, In st sts /\ s_path st' = s_path st /\ s_off st' = len s (s_ino st') /\
    ((s_ino st' = s_ino st /\ exists rd, tree s (s_path st) = Some (File rd (s_ino st))) \/
     (tree s (s_path st) = Some (File true (s_ino st')) /\ s_ino st' <> s_ino st)).
Proof.
  unfold kept. intros H. apply in_flat_map in H as [st [Hin H]]. exists st. split; [exact Hin|].
  unfold round in H. destruct (tree s (s_path st)) as [[rd j|? ?]|] eqn:T; cbn in H; try contradiction.
  destruct (N.eqb j (s_ino st)) eqn:E; cbn in H.
  - destruct H as [<-|[]]. cbn. apply N.eqb_eq in E. subst j. repeat split; auto. left. eauto.
  - destruct rd; cbn in H; [|contradiction]. destruct H as [<-|[]]. cbn. apply N.eqb_neq in E.
    repeat split; auto.
Qed.

Lemma stay_same_kept s sts st rd :
  In st sts -> tree s (s_path st) = Some (File rd (s_ino st)) ->
  In (mkStream (s_id st) (s_path st) (s_ino st) (len s (s_ino st))) (kept true s sts).
Proof.
  intros Hin T. unfold kept. apply in_flat_map. exists st. split; [exact Hin|].
  unfold round. rewrite T, N.eqb_refl. cbn. auto.
Qed.

Lemma stream_poll_J b s : Inv s -> J b s -> J b (stream_poll true s).
Proof.
  intros Iv [A B C D E F G I]. pose proof (inv_nodup _ _ _ _ _ Iv) as Nd.
  assert (BE : forall f, In f (batch true s) -> f_idx f < len s (f_ino f)).
  { intros f H. unfold batch in H. apply in_flat_map in H as [st [Hs H]].
    apply round_elems in H as [_ [[X [_ Y]]|[j [_ [_ [X Y]]]]]]; [rewrite X; exact Y|rewrite X; exact Y|apply I; exact Hs]. }
  assert (EX : forall r, In r (out s ++ batch true s) -> f_idx r < len s (f_ino r)).
  { intros r H. apply in_app_or in H as [H|H]; auto. }
  constructor; cbn [out tree len streams stream_poll].
  - rewrite map_app. apply NoDup_app_intro; [exact A|apply batch_nodup_gen; exact Nd|].
    intros k H1 H2. apply in_map_iff in H1 as [r [K1 Hr]]. apply in_map_iff in H2 as [f [K2 Hf]].
    unfold batch in Hf. apply in_flat_map in Hf as [st [Hs Hf]].
    apply round_elems in Hf as [P Hc]; [|apply I; exact Hs].
    unfold key in *. subst k. injection K2 as K2a K2b K2c.
    destruct Hc as [[X [Y _]]|[j [T [Hne [X _]]]]].
    + assert (f_idx r < s_off st) by (apply D; auto; congruence). lia.
    + destruct (C r true Hr) as [st2 [Hs2 [P2 I2]]]; [rewrite <- K2a, <- K2b, P, X; exact T|].
      assert (st2 = st) by (eapply NoDup_map_eq; eauto; congruence). subst st2. congruence.
  - exact EX.
  - intros r rd Hr T. apply in_app_or in Hr as [Hr|Hr].
    + destruct (C r rd Hr T) as [st [Hs [P Q]]].
      exists (mkStream (s_id st) (s_path st) (s_ino st) (len s (s_ino st))). split; [|cbn; auto].
      eapply stay_same_kept; eauto. rewrite P, Q. exact T.
    + unfold batch in Hr. apply in_flat_map in Hr as [st [Hs Hf]].
      apply round_elems in Hf as [P Hc]; [|apply I; exact Hs].
      destruct Hc as [[X _]|[j [Tj [Hne [X _]]]]].
      * exists (mkStream (s_id st) (s_path st) (s_ino st) (len s (s_ino st))). split; [|cbn; auto].
        eapply stay_same_kept; eauto. rewrite <- P, <- X. exact T.
      * exists (mkStream (s_id st) (s_path st) j (len s j)). split; [|cbn; auto].
        unfold kept. apply in_flat_map. exists st. split; [exact Hs|].
        unfold round. rewrite Tj. apply N.eqb_neq in Hne. rewrite Hne. cbn. auto.
  - intros r st' Hr Hs' P Q. apply kept_shape in Hs' as [st [_ [_ [Off _]]]]. rewrite Off, <- Q. apply EX. exact Hr.
  - intros r Hr. apply in_app_or in Hr as [Hr|Hr]; [auto|].
    unfold batch in Hr. apply in_flat_map in Hr as [st [Hs Hf]].
    apply round_elems in Hf as [P Hc]; [|apply I; exact Hs].
    destruct Hc as [[X _]|[j [Tj [_ [X _]]]]]; [rewrite X; auto|]. rewrite X. apply (F _ _ Tj).
  - exact F.
  - intros st' Hs'. apply kept_shape in Hs' as [st [Hs [_ [_ [[X _]|[T _]]]]]]; [rewrite X; auto|apply (F _ _ T)].
  - intros st' Hs'. apply kept_shape in Hs' as [st [_ [_ [Off _]]]]. rewrite Off. lia.
Qed.

(* ---- all together ---- *)

Lemma bump_J b s : J b s -> J b (bump s).
Proof. intros [A B C D E F G I]. constructor; auto. Qed.

Lemma fs_step_tick s o : tick (fs_step U s o) = tick s.
Proof.
  destruct o; unfold Paths.fs_step, set_tree; cbv beta iota zeta; repeat match goal with
  | |- context [if ?c then _ else _] => destruct c
  | |- context [match tree s ?p with _ => _ end] => destruct (tree s p) as [[? ?|? ?]|]
  end; reflexivity.
Qed.

Lemma poll_tick x : tick (poll U pats glob_match ignore_match true x) = tick x.
Proof.
  unfold poll. generalize pats. intros pl. revert x. induction pl as [|pat pl IHp]; intros x; cbn [fold_left]; [reflexivity|].
  rewrite IHp. unfold glob_one. generalize U. intros u. revert x. induction u as [|q u IHu]; intros x; cbn [fold_left]; [reflexivity|].
  rewrite IHu. destruct (_ && _ && _); [|reflexivity]. unfold tail_path. cbn [andb]. destruct (is_some (reg x q)); [reflexivity|].
  destruct (tree x q) as [[[] ?|? ?]|]; reflexivity.
Qed.

Lemma step_J s o : nr o -> Inv s -> J (10 + tick s) s -> J (10 + tick (step s o)) (step s o).
Proof.
  intros Hnr Iv Hj. unfold Paths.step, step_gen.
  assert (TT : forall x, tick (bump x) = tick x + 1) by reflexivity. rewrite TT. apply bump_J.
  assert (FS : J (10 + (tick (fs_step U s o) + 1)) (fs_step U s o)).
  { rewrite fs_step_tick. replace (10 + (tick s + 1)) with (10 + tick s + 1) by lia. apply fs_step_J; assumption. }
  destruct o; try exact FS.
  - rewrite poll_tick. apply (J_weaken (10 + tick s)); [lia|apply poll_J; exact Hj].
  - apply (J_weaken (10 + tick s)); [cbn [tick stream_poll]; lia|apply stream_poll_J; assumption].
Qed.

Inductive reachable_nr : state -> Prop :=
| rn_start t l : wf_tree U t -> (forall p n, t p = Some n -> ino_of n < 10) -> reachable_nr (start t l)
| rn_step s o : reachable_nr s -> nr o -> reachable_nr (step s o).

Lemma reachable_nr_reachable s : reachable_nr s -> reachable U pats glob_match ignore_match s.
Proof. induction 1; [apply r_start; assumption|apply r_step; assumption]. Qed.

Lemma reachable_nr_J s : reachable_nr s -> J (10 + tick s) s.
Proof.
  induction 1 as [t l W B|s o R IH Hnr].
  - unfold Paths.start, start_gen.
    rewrite poll_tick. cbn [tick]. apply poll_J.
    constructor; cbn [out streams tree len tick]; try (intros; contradiction); try (constructor; fail); auto.
    all: try (intros p n X; specialize (B p n X); lia).
  - apply step_J; auto. apply reachable_inv. apply reachable_nr_reachable. exact R.
Qed.

Lemma run_reachable_nr t l h :
  wf_tree U t -> (forall p n, t p = Some n -> ino_of n < 10) -> Forall nr h ->
  reachable_nr (run U pats glob_match ignore_match (start t l) h).
Proof.
  intros W B. unfold Paths.run, run_gen. generalize (rn_start t l W B). generalize (start t l).
  induction h as [|o h IH]; intros s R F; cbn; [exact R|]. inversion F; subst. apply IH; [apply rn_step; assumption|assumption].
Qed.

Theorem no_redelivery s : reachable_nr s -> NoDup (map key (out s)).
Proof. intros R. apply (j_nodup _ _ (reachable_nr_J s R)). Qed.

End Once.
