(* Properties of the abstract GC (limit phase + sweep) over an
   insertion-ordered map with unique keys. *)
From V Require Import Metrics.MetricMap Metrics.Gc Proofs.MetricMapProofs.
Local Open Scope Z_scope.

Definition keys (l : list entry) := map fst l.

Inductive subseq {A} : list A -> list A -> Prop :=
| sub_nil : subseq [] []
| sub_skip x l1 l2 : subseq l1 l2 -> subseq l1 (x :: l2)
| sub_keep x l1 l2 : subseq l1 l2 -> subseq (x :: l1) (x :: l2).

Lemma subseq_refl {A} (l : list A) : subseq l l.
Proof. induction l; [constructor|apply sub_keep; auto]. Qed.
Lemma subseq_trans {A} (a b c : list A) : subseq a b -> subseq b c -> subseq a c.
Proof.
  intros H1 H2. revert a H1. induction H2; intros a H1.
  - exact H1.
  - apply sub_skip. auto.
  - inversion H1; subst; [apply sub_skip|apply sub_keep]; auto.
Qed.
Lemma subseq_in {A} (a b : list A) x : subseq a b -> In x a -> In x b.
Proof. induction 1; cbn; intuition. Qed.
Lemma subseq_filter {A} (f : A -> bool) l : subseq (filter f l) l.
Proof. induction l as [|x r IH]; cbn; [constructor|]. destruct (f x); [apply sub_keep|apply sub_skip]; auto. Qed.
Lemma subseq_length {A} (a b : list A) : subseq a b -> (length a <= length b)%nat.
Proof. induction 1; cbn; lia. Qed.

Lemma a_del_subseq k (l : list entry) : subseq (a_del k l) l.
Proof.
  induction l as [|[k' x] r IH]; cbn [a_del]; [constructor|].
  destruct (tuple_eqb k k'); [apply sub_skip; apply subseq_refl|apply sub_keep; auto].
Qed.

Lemma in_a_del k (l : list entry) x :
  NoDup (keys l) -> (In x (a_del k l) <-> In x l /\ fst x <> k).
Proof.
  induction l as [|[k' y] r IH]; cbn [a_del keys map]; intros ND.
  - cbn. tauto.
  - inversion ND as [|z zs Hz ND']; subst. destruct (tuple_eqb k k') eqn:E.
    + apply tuple_eqb_spec in E. subst k'. split.
      * intros Hin. split; [right; exact Hin|]. intros Hk. apply Hz. cbn [fst]. rewrite <- Hk.
        apply in_map. exact Hin.
      * intros [[H|H] Hne]; [subst x; cbn in Hne; contradiction|exact H].
    + cbn [In]. rewrite (IH ND'). split.
      * intros [H|[H1 H2]]; [subst x; split; [auto|]|tauto].
        cbn. intros ->. rewrite tuple_eqb_refl in E. discriminate.
      * intros [[H|H] Hne]; [auto|right; auto].
Qed.

Lemma keys_a_del_nodup k (l : list entry) : NoDup (keys l) -> NoDup (keys (a_del k l)).
Proof.
  induction l as [|[k' y] r IH]; cbn [a_del keys map]; intros ND; [exact ND|].
  inversion ND as [|z zs Hz ND']; subst. destruct (tuple_eqb k k'); [exact ND'|].
  cbn [map fst]. constructor; [|apply IH; exact ND'].
  intros Hin. apply Hz. apply in_map_iff in Hin as [x [E Hin]].
  apply in_map_iff. exists x. split; [exact E|]. eapply subseq_in; [apply a_del_subseq|exact Hin].
Qed.

Lemma length_a_del k (l : list entry) :
  In k (keys l) -> S (length (a_del k l)) = length l.
Proof.
  induction l as [|[k' y] r IH]; cbn [a_del keys map length]; [contradiction|].
  destruct (tuple_eqb k k') eqn:E; [reflexivity|].
  intros [H|H]; [cbn in H; subst; rewrite tuple_eqb_refl in E; discriminate|].
  cbn [length]. rewrite IH by exact H. reflexivity.
Qed.

Lemma oldest_from_in b l : In (oldest_from b l) (b :: l).
Proof.
  revert b. induction l as [|e r IH]; intros b; cbn [oldest_from]; [left; reflexivity|].
  destruct (e_time e <? e_time b); specialize (IH e) as IH1; specialize (IH b) as IH2; cbn in *; intuition.
Qed.
Lemma oldest_from_le b l : e_time (oldest_from b l) <= e_time b.
Proof.
  revert b. induction l as [|e r IH]; intros b; cbn [oldest_from]; [lia|].
  destruct (e_time e <? e_time b) eqn:E; [|apply IH].
  apply Z.ltb_lt in E. specialize (IH e). lia.
Qed.
Lemma oldest_from_min l : forall b x, In x (b :: l) -> e_time (oldest_from b l) <= e_time x.
Proof.
  induction l as [|e r IH]; intros b x; cbn [oldest_from].
  - intros [<-|[]]. lia.
  - destruct (e_time e <? e_time b) eqn:E; intros [<-|[<-|H]].
    + apply Z.ltb_lt in E. pose proof (oldest_from_le e r). lia.
    + apply oldest_from_le.
    + apply IH. right. exact H.
    + apply oldest_from_le.
    + apply Z.ltb_ge in E. pose proof (oldest_from_le b r). lia.
    + apply IH. right. exact H.
Qed.

(* one RemoveOldestDatum *)
Lemma remove_oldest_spec l :
  NoDup (keys l) -> l <> [] ->
  exists e, In e l /\ (forall x, In x l -> e_time e <= e_time x) /\
            remove_oldest l = a_del (fst e) l /\
            S (length (remove_oldest l)) = length l /\
            (forall x, In x (remove_oldest l) <-> In x l /\ x <> e).
Proof.
  intros ND Hne. destruct l as [|b r]; [contradiction|].
  unfold remove_oldest, oldest. set (e := oldest_from b r).
  exists e. pose proof (oldest_from_in b r) as Hin. fold e in Hin.
  split; [exact Hin|]. split; [intros x; apply (oldest_from_min r b x)|]. split; [reflexivity|].
  split; [apply length_a_del; apply in_map; exact Hin|].
  intros x. rewrite (in_a_del _ _ _ ND). split.
  - intros [H1 H2]. split; [exact H1|]. intros ->. contradiction.
  - intros [H1 H2]. split; [exact H1|]. intros Hk. apply H2.
    (* unique keys: same key, both in l => same entry *)
    clear -ND H1 Hin Hk. induction (b :: r) as [|y ys IH]; [contradiction|].
    cbn [keys map] in ND. inversion ND as [|z zs Hz ND']; subst.
    destruct H1 as [->|H1], Hin as [->|Hin]; auto.
    + exfalso. apply Hz. rewrite Hk. apply in_map. exact Hin.
    + exfalso. apply Hz. rewrite <- Hk. apply in_map. exact H1.
Qed.

Lemma remove_oldest_nodup l : NoDup (keys l) -> NoDup (keys (remove_oldest l)).
Proof.
  intros ND. unfold remove_oldest. destruct (oldest l); [apply keys_a_del_nodup|]; exact ND.
Qed.
Lemma remove_oldest_subseq l : subseq (remove_oldest l) l.
Proof. unfold remove_oldest. destruct (oldest l); [apply a_del_subseq|apply subseq_refl]. Qed.

Lemma iter_remove_subseq n l : subseq (iter n remove_oldest l) l.
Proof.
  revert l. induction n as [|n IH]; intros l; cbn [iter]; [apply subseq_refl|].
  eapply subseq_trans; [apply IH|apply remove_oldest_subseq].
Qed.
Lemma iter_remove_nodup n l : NoDup (keys l) -> NoDup (keys (iter n remove_oldest l)).
Proof.
  revert l. induction n as [|n IH]; intros l ND; cbn [iter]; [exact ND|].
  apply IH. apply remove_oldest_nodup. exact ND.
Qed.
Lemma iter_remove_length n l :
  NoDup (keys l) -> (n <= length l)%nat -> (length (iter n remove_oldest l) = length l - n)%nat.
Proof.
  revert l. induction n as [|n IH]; intros l ND Hn; cbn [iter]; [lia|].
  destruct l as [|b r] eqn:El; [cbn in Hn; lia|]. rewrite <- El in *.
  destruct (remove_oldest_spec l ND) as [e [_ [_ [_ [Hlen _]]]]]; [subst; discriminate|].
  rewrite IH; [lia|apply remove_oldest_nodup; exact ND|lia].
Qed.

Lemma nodup_keys_eq (l : list entry) x y :
  NoDup (keys l) -> In x l -> In y l -> fst x = fst y -> x = y.
Proof.
  induction l as [|z zs IH]; [contradiction|].
  cbn [keys map]. intros ND Hx Hy Hk. inversion ND as [|a b Hz ND']; subst.
  destruct Hx as [->|Hx], Hy as [->|Hy]; auto.
  - exfalso. apply Hz. rewrite Hk. apply in_map. exact Hy.
  - exfalso. apply Hz. rewrite <- Hk. apply in_map. exact Hx.
Qed.

Lemma iter_removed_older n l r k :
  NoDup (keys l) -> In r l -> ~ In r (iter n remove_oldest l) -> In k (iter n remove_oldest l) ->
  e_time r <= e_time k.
Proof.
  revert l. induction n as [|n IH]; intros l ND Hr Hnr Hk; cbn [iter] in *; [contradiction|].
  destruct l as [|b t] eqn:El; [contradiction|]. rewrite <- El in *.
  destruct (remove_oldest_spec l ND) as [e [He [Hmin [Hdel _]]]]; [subst; discriminate|].
  assert (Hkl : In k l).
  { eapply subseq_in; [apply remove_oldest_subseq|]. eapply subseq_in; [apply iter_remove_subseq|exact Hk]. }
  destruct (tuple_eqb (fst r) (fst e)) eqn:E.
  - apply tuple_eqb_spec in E. assert (r = e) by (eapply nodup_keys_eq; eauto). subst r. apply Hmin. exact Hkl.
  - apply (IH (remove_oldest l)); [apply remove_oldest_nodup; exact ND| |exact Hnr|exact Hk].
    rewrite Hdel. apply in_a_del; [exact ND|]. split; [exact Hr|].
    intros X. rewrite X, tuple_eqb_refl in E. discriminate.
Qed.

(* ---- the clauses of the property, on the abstract map ---- *)

Lemma limit_bound limit l :
  NoDup (keys l) -> (0 < limit)%nat -> (limit < length l)%nat ->
  length (limit_phase limit l) = limit.
Proof.
  intros ND H0 H1. unfold limit_phase.
  destruct (Nat.ltb_spec 0 limit); [|lia]. destruct (Nat.leb_spec limit (length l)); [|lia].
  cbn [andb]. rewrite iter_remove_length; [lia|exact ND|lia].
Qed.

Lemma limit_unchanged limit l :
  (limit = 0 \/ length l <= limit)%nat -> limit_phase limit l = l.
Proof.
  intros H. unfold limit_phase.
  destruct (Nat.ltb_spec 0 limit); cbn [andb]; [|reflexivity].
  destruct (Nat.leb_spec limit (length l)); [|reflexivity].
  assert (length l = limit) by lia. replace (length l - limit)%nat with O by lia. reflexivity.
Qed.

Lemma limit_removes_oldest limit l r k :
  NoDup (keys l) -> In r l -> ~ In r (limit_phase limit l) -> In k (limit_phase limit l) ->
  e_time r <= e_time k.
Proof.
  intros ND Hr Hnr Hk. unfold limit_phase in *.
  destruct ((Nat.ltb 0 limit) && (Nat.leb limit (length l)))%bool; [|contradiction].
  eapply iter_removed_older; eauto.
Qed.

Lemma limit_phase_subseq limit l : subseq (limit_phase limit l) l.
Proof. unfold limit_phase. destruct (_ && _)%bool; [apply iter_remove_subseq|apply subseq_refl]. Qed.

Lemma limit_phase_nodup limit l : NoDup (keys l) -> NoDup (keys (limit_phase limit l)).
Proof. intros ND. unfold limit_phase. destruct (_ && _)%bool; [apply iter_remove_nodup|]; exact ND. Qed.

Lemma expired_exact now c :
  - two63 < now - c_time c < two63 ->
  expired now c = true <-> (0 < c_expiry c /\ c_expiry c < now - c_time c).
Proof.
  intros G. unfold expired, sat64, min_int64, max_int64 in *.
  destruct (now - c_time c <? - two63) eqn:E1; [apply Z.ltb_lt in E1; lia|].
  destruct (two63 - 1 <? now - c_time c) eqn:E2; [apply Z.ltb_lt in E2; lia|].
  rewrite andb_true_iff, !Z.ltb_lt. tauto.
Qed.

Lemma gc_expiry_exact limit now l d :
  In d (gc limit now l) <->
  In d (limit_phase limit l) /\ expired now (snd (snd d)) = false.
Proof.
  unfold gc, sweep. rewrite filter_In. rewrite negb_true_iff. tauto.
Qed.

Lemma gc_subseq limit now l : subseq (gc limit now l) l.
Proof.
  unfold gc, sweep. eapply subseq_trans; [apply subseq_filter|apply limit_phase_subseq].
Qed.
