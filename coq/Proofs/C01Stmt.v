(* Stage (d) of C01 at bytecode level: the control-flow skeleton.  Conditionals
   with else, `otherwise` and statement sequencing are compiled correctly with
   respect to the single-flag interpreter [gexec_block] (which equals the
   reference's block-local flag under the guard: Proofs/C01Flags.v), GIVEN the
   simulation of the block-free statements they contain. *)
From V Require Import Lang.RefSem Lang.Codegen Lang.Vm Lang.Observe Lang.Wt Proofs.C01Sim Proofs.C01Expr Proofs.C01Flags.
From V Require Import Proofs.C01Store Proofs.C01Gen Proofs.C01Cases.
From Coq Require Import Lia.
Local Open Scope Z_scope.

Section Stmt.
Variable E : env.
Variable decls : list mdecl.
Variable file line : bytes.
Variable o : object.
Hypothesis Hmets : o_metrics o = map mdesc_of decls.

Notation ll := (mklogline file line).
Notation step := (Vm.step E o ll).
Notation nsteps := (C01Sim.nsteps E o ll).
Notation eval := (RefSem.eval E decls file line).
Notation cexpr := (Codegen.cexpr decls).
Notation cstmt := (Codegen.cstmt decls).
Notation cblock := (Codegen.cblock decls).
Notation gexec_stmt := (RefSem.gexec_stmt E decls file line).
Notation gexec_block := (RefSem.gexec_block E decls file line).
Notation rbind := RefSem.bind.
Notation etype := (Wt.etype decls (o_strs o) (o_nre o)).
Notation rel := (C01Gen.rel E decls).

Definition run_post (len pc : nat) (stk : list val) (g : bool) (ms : list (Z * list bytes)) (tm : timeval)
    (vs : vmstate) (r : RefSem.res bool) : Prop :=
  match r with
  | ROk g' rs' =>
      exists stk' ms' tm' vs' n, (n <= len)%nat /\
        nsteps n (mkthread pc stk g ms tm) vs = Some (mkthread (pc + len) stk' g' ms' tm', vs') /\
        rel rs' ms' tm' vs'
  | RAbort (AErr _) rs' =>
      exists n t1 e' vs', (n < len)%nat /\
        nsteps n (mkthread pc stk g ms tm) vs = Some (t1, vs') /\
        step t1 vs' = SEnd (Err e') vs' /\
        srel decls (rs_store rs') (vs_store vs') /\ memo_ok E (vs_memo vs')
  | RAbort AStop rs' =>
      exists n t1 vs', (n < len)%nat /\
        nsteps n (mkthread pc stk g ms tm) vs = Some (t1, vs') /\
        step t1 vs' = SEnd Stopped vs' /\
        srel decls (rs_store rs') (vs_store vs') /\ memo_ok E (vs_memo vs')
  end.

Definition ssim (s : stmt) : Prop :=
  forall pc stk g ms tm rs vs, at_pc o pc (cstmt pc s) -> rel rs ms tm vs ->
    run_post (length (cstmt pc s)) pc stk g ms tm vs (gexec_stmt s g rs).
Definition bsim (b : block) : Prop :=
  forall pc stk g ms tm rs vs, at_pc o pc (cblock pc b) -> rel rs ms tm vs ->
    run_post (length (cblock pc b)) pc stk g ms tm vs (gexec_block b g rs).

(* shifting a result by a prefix of [k] steps that ends at [pc1] *)
Lemma run_post_shift len1 len k pc pc1 stk g ms tm vs stk1 g1 ms1 tm1 vs1 r :
  nsteps k (mkthread pc stk g ms tm) vs = Some (mkthread pc1 stk1 g1 ms1 tm1, vs1) ->
  (k + len1 <= len)%nat -> (pc1 + len1 = pc + len)%nat ->
  run_post len1 pc1 stk1 g1 ms1 tm1 vs1 r -> run_post len pc stk g ms tm vs r.
Proof.
  intros Hk Hl Hp H. destruct r as [g' rs'|[|x] rs']; cbn [run_post] in *.
  - destruct H as (stk' & ms' & tm' & vs' & n & Hn & Hst & Hr).
    exists stk', ms', tm', vs', (k + n)%nat. split; [lia|]. split; [|exact Hr].
    rewrite (nsteps_app _ _ _ _ _ _ _ _ _ Hk). rewrite <- Hp. exact Hst.
  - destruct H as (n & t1 & vs' & Hn & Hst & Hr).
    exists (k + n)%nat, t1, vs'. split; [lia|]. split; [|exact Hr].
    rewrite (nsteps_app _ _ _ _ _ _ _ _ _ Hk). exact Hst.
  - destruct H as (n & t1 & e' & vs' & Hn & Hst & Hr).
    exists (k + n)%nat, t1, e', vs'. split; [lia|]. split; [|exact Hr].
    rewrite (nsteps_app _ _ _ _ _ _ _ _ _ Hk). exact Hst.
Qed.

Lemma bsim_nil : bsim BNil.
Proof.
  intros pc stk g ms tm rs vs Hat Hrel. cbn. exists stk, ms, tm, vs, 0%nat.
  split; [lia|]. split; [cbn; rewrite Nat.add_0_r; reflexivity | exact Hrel].
Qed.

Lemma gexec_block_cons' s r g rs :
  gexec_block (BCons s r) g rs = rbind (gexec_stmt s g rs) (fun f s1 => gexec_block r f s1).
Proof. reflexivity. Qed.
Lemma cblock_cons pc s r : cblock pc (BCons s r) = cstmt pc s ++ cblock (pc + length (cstmt pc s)) r.
Proof. reflexivity. Qed.

Lemma bsim_cons s r : ssim s -> bsim r -> bsim (BCons s r).
Proof.
  intros Hs Hr pc stk g ms tm rs vs Hat Hrel. rewrite gexec_block_cons'. rewrite cblock_cons in *.
  apply at_pc_app in Hat as [Hat1 Hat2]. rewrite app_length.
  specialize (Hs pc stk g ms tm rs vs Hat1 Hrel).
  destruct (gexec_stmt s g rs) as [g1 rs1|[|x] rs1]; cbn [RefSem.bind run_post] in *.
  - destruct Hs as (stk1 & ms1 & tm1 & vs1 & n & Hn & Hst & Hrel1).
    specialize (Hr (pc + length (cstmt pc s))%nat stk1 g1 ms1 tm1 rs1 vs1 Hat2 Hrel1).
    eapply run_post_shift; [exact Hst | | | exact Hr]; lia.
  - destruct Hs as (n & t1 & vs' & Hn & Hst & Hx). exists n, t1, vs'. split; [lia|]. auto.
  - destruct Hs as (n & t1 & e' & vs' & Hn & Hst & Hx). exists n, t1, e', vs'. split; [lia|]. auto.
Qed.

Lemma cond_sim c : cond_ok decls (o_strs o) (o_nre o) c = true ->
  forall pc stk g ms tm rs vs, at_pc o pc (cexpr pc c) -> rel rs ms tm vs ->
  match eval c rs with
  | ROk v rs1 =>
      exists w ms1 vs1 n, truth w = Some (truthy E v) /\ (n <= length (cexpr pc c))%nat /\
        nsteps n (mkthread pc stk g ms tm) vs =
          Some (mkthread (pc + length (cexpr pc c)) (w :: stk) g ms1 tm, vs1) /\
        rel rs1 ms1 tm vs1
  | RAbort (AErr _) rs' =>
      exists n t1 e' vs', (n < length (cexpr pc c))%nat /\
        nsteps n (mkthread pc stk g ms tm) vs = Some (t1, vs') /\
        step t1 vs' = SEnd (Err e') vs' /\
        srel decls (rs_store rs') (vs_store vs') /\ memo_ok E (vs_memo vs')
  | RAbort AStop _ => False
  end.
Proof.
  unfold cond_ok. intros Hc pc stk g ms tm rs vs Hat Hrel.
  destruct (etype c) as [t|] eqn:Ht; [|discriminate].
  pose proof (proj1 (esim_all E decls file line o Hmets) c t Ht pc stk g ms tm rs vs Hat Hrel) as H.
  destruct (eval c rs) as [v rs1|[|x] rs1]; auto.
  destruct H as (Hv & stk' & ms1 & vs1 & n & (w & Hw & ->) & Hn & Hst & Hrel1 & _).
  exists w, ms1, vs1, n. split; [eapply cond_truth; eauto|]. auto.
Qed.

Lemma step_setm pc stk g ms tm vs b :
  nth_error (o_prog o) pc = Some (ins Setmatched (OBool b)) ->
  step (mkthread pc stk g ms tm) vs = SNext (mkthread (S pc) stk b ms tm) vs.
Proof. intros Hf. eapply step_next; [exact Hf | reflexivity]. Qed.

Lemma gexec_cond' c th g rs :
  gexec_stmt (SCond c th) g rs =
  rbind (eval c rs) (fun v s1 =>
    if truthy E v then rbind (gexec_block th false s1) (fun _ s2 => ROk true s2) else ROk g s1).
Proof. reflexivity. Qed.
Lemma cstmt_cond pc c th :
  cstmt pc (SCond c th) =
  cexpr pc c ++ [ins Jnm (OInt (zl (pc + length (cexpr pc c) + 2 + length (cblock (pc + length (cexpr pc c) + 2) th) + 1)));
                 ins Setmatched (OBool false)] ++
  cblock (pc + length (cexpr pc c) + 2) th ++ [ins Setmatched (OBool true)].
Proof. reflexivity. Qed.

(* a then-block entered at [p0] (flag reset) and left through setmatched true *)
Lemma then_block th p0 stk g ms tm rs vs :
  bsim th -> at_pc o p0 (ins Setmatched (OBool false) :: cblock (p0 + 1) th ++ [ins Setmatched (OBool true)]) ->
  rel rs ms tm vs ->
  run_post (length (cblock (p0 + 1) th) + 2) p0 stk g ms tm vs
           (rbind (gexec_block th false rs) (fun _ s2 => ROk true s2)).
Proof.
  intros IH Hat Hrel.
  pose proof (at_pc_head _ _ _ _ Hat) as H0. apply at_pc_S in Hat. apply at_pc_app in Hat as [Hat1 Hat2].
  assert (Hst0 : nsteps 1 (mkthread p0 stk g ms tm) vs = Some (mkthread (p0 + 1) stk false ms tm, vs)).
  { cbn [C01Sim.nsteps]. rewrite (step_setm _ _ _ _ _ _ _ H0). rewrite Nat.add_1_r. reflexivity. }
  specialize (IH (p0 + 1)%nat stk false ms tm rs vs Hat1 Hrel).
  set (lt := length (cblock (p0 + 1) th)) in *.
  destruct (gexec_block th false rs) as [g1 rs1|[|x] rs1]; cbn [RefSem.bind run_post] in *.
  - destruct IH as (stk1 & ms1 & tm1 & vs1 & n & Hn & Hst & Hrel1).
    exists stk1, ms1, tm1, vs1, (1 + n + 1)%nat. split; [lia|]. split; [|exact Hrel1].
    rewrite <- Nat.add_assoc, (nsteps_app _ _ _ _ _ _ _ _ _ Hst0).
    eapply nsteps_snoc; [exact Hst|].
    replace (p0 + (lt + 2))%nat with (S (p0 + 1 + lt)) by lia.
    apply step_setm. exact (at_pc_head _ _ _ _ Hat2).
  - destruct IH as (n & t1 & vs' & Hn & Hst & Hx). exists (1 + n)%nat, t1, vs'. split; [lia|]. split; [|exact Hx].
    rewrite (nsteps_app _ _ _ _ _ _ _ _ _ Hst0). exact Hst.
  - destruct IH as (n & t1 & e' & vs' & Hn & Hst & Hx). exists (1 + n)%nat, t1, e', vs'. split; [lia|]. split; [|exact Hx].
    rewrite (nsteps_app _ _ _ _ _ _ _ _ _ Hst0). exact Hst.
Qed.

Lemma ssim_cond c th : cond_ok decls (o_strs o) (o_nre o) c = true -> bsim th -> ssim (SCond c th).
Proof.
  intros Hc IH pc stk g ms tm rs vs Hat Hrel. rewrite gexec_cond'. rewrite cstmt_cond in *.
  set (lc := length (cexpr pc c)) in *. set (ct := cblock (pc + lc + 2) th) in *.
  apply at_pc_app in Hat as [Hat1 Hat2]. fold lc in Hat2.
  assert (Hlen : length (cexpr pc c ++ [ins Jnm (OInt (zl (pc + lc + 2 + length ct + 1))); ins Setmatched (OBool false)] ++ ct ++ [ins Setmatched (OBool true)]) = (lc + (length ct + 3))%nat).
  { rewrite !app_length. cbn [length]. fold lc. lia. }
  rewrite Hlen.
  pose proof (cond_sim c Hc pc stk g ms tm rs vs Hat1 Hrel) as Hcs. fold lc in Hcs.
  destruct (eval c rs) as [v rs1|[|x] rs1]; cbn [RefSem.bind]; [| contradiction | ].
  2:{ destruct Hcs as (n & t1 & e' & vs' & Hn & Hst & Hx). exists n, t1, e', vs'. split; [lia|]. auto. }
  destruct Hcs as (w & ms1 & vs1 & n & Htw & Hn & Hst & Hrel1).
  pose proof (at_pc_head _ _ _ _ Hat2) as HJ. apply at_pc_S in Hat2.
  destruct (truthy E v) eqn:Htr.
  - (* taken *)
    assert (Hst1 : nsteps (n + 1) (mkthread pc stk g ms tm) vs = Some (mkthread (pc + lc + 1) stk g ms1 tm, vs1)).
    { eapply nsteps_snoc; [exact Hst|]. rewrite Nat.add_1_r.
      eapply jump_not_taken with (jm := false); [exact Htw | reflexivity | exact HJ]. }
    eapply run_post_shift; [exact Hst1 | | | ].
    3:{ apply then_block; [exact IH | | exact Hrel1].
        replace (pc + lc + 1 + 1)%nat with (pc + lc + 2)%nat by lia. exact Hat2. }
    + replace (pc + lc + 1 + 1)%nat with (pc + lc + 2)%nat by lia. fold ct. lia.
    + replace (pc + lc + 1 + 1)%nat with (pc + lc + 2)%nat by lia. fold ct. lia.
  - (* skipped *)
    cbn [run_post]. exists stk, ms1, tm, vs1, (n + 1)%nat. split; [lia|]. split; [|exact Hrel1].
    eapply nsteps_snoc; [exact Hst|].
    replace (pc + (lc + (length ct + 3)))%nat with (pc + lc + 2 + length ct + 1)%nat by lia.
    eapply jump_taken with (jm := false); [exact Htw | reflexivity | exact HJ].
Qed.

Lemma gexec_oth' th g rs :
  gexec_stmt (SOtherwise th) g rs =
  if g then ROk g rs else rbind (gexec_block th false rs) (fun _ s1 => ROk true s1).
Proof. reflexivity. Qed.
Lemma cstmt_oth pc th :
  cstmt pc (SOtherwise th) =
  [ins Otherwise ONil; ins Jnm (OInt (zl (pc + 3 + length (cblock (pc + 3) th) + 1))); ins Setmatched (OBool false)] ++
  cblock (pc + 3) th ++ [ins Setmatched (OBool true)].
Proof. reflexivity. Qed.

Lemma ssim_oth th : bsim th -> ssim (SOtherwise th).
Proof.
  intros IH pc stk g ms tm rs vs Hat Hrel. rewrite gexec_oth'. rewrite cstmt_oth in *.
  set (ct := cblock (pc + 3) th) in *.
  assert (Hlen : length ([ins Otherwise ONil; ins Jnm (OInt (zl (pc + 3 + length ct + 1))); ins Setmatched (OBool false)] ++ ct ++ [ins Setmatched (OBool true)]) = (length ct + 4)%nat).
  { rewrite !app_length. cbn [length]. lia. }
  rewrite Hlen.
  pose proof (at_pc_head _ _ _ _ Hat) as H0. apply at_pc_S in Hat.
  pose proof (at_pc_head _ _ _ _ Hat) as H1. apply at_pc_S in Hat.
  assert (Hst0 : nsteps 1 (mkthread pc stk g ms tm) vs = Some (mkthread (pc + 1) (VBool (negb g) :: stk) g ms tm, vs)).
  { cbn [C01Sim.nsteps]. erewrite step_next; [| exact H0 | reflexivity]. rewrite Nat.add_1_r. reflexivity. }
  destruct g.
  - cbn [run_post]. exists stk, ms, tm, vs, (1 + 1)%nat. split; [lia|]. split; [|exact Hrel].
    eapply nsteps_snoc; [exact Hst0|].
    replace (pc + (length ct + 4))%nat with (pc + 3 + length ct + 1)%nat by lia.
    eapply jump_taken with (jm := false) (r := false); [reflexivity | reflexivity | exact H1].
  - assert (Hst1 : nsteps (1 + 1) (mkthread pc stk false ms tm) vs = Some (mkthread (pc + 1 + 1) stk false ms tm, vs)).
    { eapply nsteps_snoc; [exact Hst0|]. rewrite (Nat.add_1_r (pc + 1)).
      eapply jump_not_taken with (jm := false) (r := true); [reflexivity | reflexivity | exact H1]. }
    eapply run_post_shift; [exact Hst1 | | | ].
    3:{ apply then_block; [exact IH | | exact Hrel].
        replace (pc + 1 + 1 + 1)%nat with (pc + 3)%nat by lia. exact Hat. }
    + replace (pc + 1 + 1 + 1)%nat with (pc + 3)%nat by lia. fold ct. lia.
    + replace (pc + 1 + 1 + 1)%nat with (pc + 3)%nat by lia. fold ct. lia.
Qed.


(* ---- conditional with else ---- *)
Lemma run_post_jmp L L' p0 stk g ms tm vs r :
  run_post L p0 stk g ms tm vs r ->
  nth_error (o_prog o) (p0 + L) = Some (ins Jmp (OInt (zl (p0 + L')))) -> (L + 1 <= L')%nat ->
  run_post L' p0 stk g ms tm vs r.
Proof.
  intros H Hj Hl. destruct r as [g' rs'|[|x] rs']; cbn [run_post] in *.
  - destruct H as (stk' & ms' & tm' & vs' & n & Hn & Hst & Hr).
    exists stk', ms', tm', vs', (n + 1)%nat. split; [lia|]. split; [|exact Hr].
    eapply nsteps_snoc; [exact Hst|]. apply step_jmp. exact Hj.
  - destruct H as (n & t1 & vs' & Hn & Hx). exists n, t1, vs'. split; [lia|]. exact Hx.
  - destruct H as (n & t1 & e' & vs' & Hn & Hx). exists n, t1, e', vs'. split; [lia|]. exact Hx.
Qed.

Lemma gexec_condelse' c th el g rs :
  gexec_stmt (SCondElse c th el) g rs =
  rbind (eval c rs) (fun v s1 =>
    if truthy E v then rbind (gexec_block th false s1) (fun _ s2 => ROk true s2) else gexec_block el g s1).
Proof. reflexivity. Qed.

Lemma cstmt_condelse pc c th el :
  cstmt pc (SCondElse c th el) =
  let lc := length (cexpr pc c) in
  let ct := cblock (pc + lc + 2) th in
  let lelse := (pc + lc + 2 + length ct + 2)%nat in
  let ce := cblock lelse el in
  cexpr pc c ++ [ins Jnm (OInt (zl lelse)); ins Setmatched (OBool false)] ++ ct ++
  [ins Setmatched (OBool true); ins Jmp (OInt (zl (lelse + length ce)))] ++ ce.
Proof. reflexivity. Qed.

Lemma ssim_condelse c th el :
  cond_ok decls (o_strs o) (o_nre o) c = true -> bsim th -> bsim el -> ssim (SCondElse c th el).
Proof.
  intros Hc IHt IHe pc stk g ms tm rs vs Hat Hrel. rewrite gexec_condelse'. rewrite cstmt_condelse in *. cbn zeta in *.
  set (lc := length (cexpr pc c)) in *. set (ct := cblock (pc + lc + 2) th) in *.
  set (lelse := (pc + lc + 2 + length ct + 2)%nat) in *. set (ce := cblock lelse el) in *.
  assert (Hlen : length (cexpr pc c ++ [ins Jnm (OInt (zl lelse)); ins Setmatched (OBool false)] ++ ct ++
                         [ins Setmatched (OBool true); ins Jmp (OInt (zl (lelse + length ce)))] ++ ce)
                 = (lc + (length ct + 4 + length ce))%nat).
  { rewrite !app_length. cbn [length]. fold lc. lia. }
  rewrite Hlen.
  apply at_pc_app in Hat as [Hat1 Hat2]. fold lc in Hat2.
  pose proof (cond_sim c Hc pc stk g ms tm rs vs Hat1 Hrel) as Hcs. fold lc in Hcs.
  destruct (eval c rs) as [v rs1|[|x] rs1]; cbn [RefSem.bind]; [| contradiction | ].
  2:{ destruct Hcs as (n & t1 & e' & vs' & Hn & Hst & Hx). exists n, t1, e', vs'. split; [lia|]. auto. }
  destruct Hcs as (w & ms1 & vs1 & n & Htw & Hn & Hst & Hrel1).
  pose proof (at_pc_head _ _ _ _ Hat2) as HJ. apply at_pc_S in Hat2.
  (* the rest: setmatched false :: ct ++ [setmatched true; jmp] ++ ce *)
  change (ins Setmatched (OBool false) :: ct ++ [ins Setmatched (OBool true); ins Jmp (OInt (zl (lelse + length ce)))] ++ ce)
    with ((ins Setmatched (OBool false) :: ct) ++ [ins Setmatched (OBool true); ins Jmp (OInt (zl (lelse + length ce)))] ++ ce) in Hat2.
  apply at_pc_app in Hat2 as [HatA HatB]. cbn [length] in HatB.
  apply at_pc_app in HatB as [HatB HatC]. cbn [length] in HatC.
  destruct (truthy E v) eqn:Htr.
  - (* then-branch, then jump over the else block *)
    assert (Hst1 : nsteps (n + 1) (mkthread pc stk g ms tm) vs = Some (mkthread (pc + lc + 1) stk g ms1 tm, vs1)).
    { eapply nsteps_snoc; [exact Hst|]. rewrite Nat.add_1_r.
      eapply jump_not_taken with (jm := false); [exact Htw | reflexivity | exact HJ]. }
    eapply run_post_shift with (len1 := (length ct + 3 + length ce)%nat); [exact Hst1 | lia | lia | ].
    eapply run_post_jmp with (L := (length ct + 2)%nat).
    + replace (length ct) with (length (cblock (pc + lc + 1 + 1) th)) by (unfold ct; f_equal; f_equal; lia).
      apply then_block; [exact IHt | | exact Hrel1].
      replace (pc + lc + 1 + 1)%nat with (pc + lc + 2)%nat by lia. fold ct.
      intros k i Hk. destruct (Nat.lt_ge_cases k (S (length ct))) as [Hlt | Hge].
      * apply HatA. change (ins Setmatched (OBool false) :: ct ++ [ins Setmatched (OBool true)])
          with ((ins Setmatched (OBool false) :: ct) ++ [ins Setmatched (OBool true)]) in Hk.
        rewrite nth_error_app1 in Hk by (cbn; lia). exact Hk.
      * change (ins Setmatched (OBool false) :: ct ++ [ins Setmatched (OBool true)])
          with ((ins Setmatched (OBool false) :: ct) ++ [ins Setmatched (OBool true)]) in Hk.
        rewrite nth_error_app2 in Hk by (cbn; lia). cbn [length] in Hk.
        destruct (k - S (length ct))%nat eqn:Hd; [|destruct n0; discriminate]. cbn in Hk.
        replace (pc + lc + 1 + k)%nat with (pc + lc + 1 + S (length ct) + 0)%nat by lia.
        apply HatB. exact Hk.
    + replace (pc + lc + 1 + (length ct + 2))%nat with (pc + lc + 1 + S (length ct) + 1)%nat by lia.
      replace (pc + lc + 1 + (length ct + 3 + length ce))%nat with (lelse + length ce)%nat by (unfold lelse; lia).
      apply (HatB 1%nat). reflexivity.
    + lia.
  - (* else-branch: jump to lelse *)
    assert (Hst1 : nsteps (n + 1) (mkthread pc stk g ms tm) vs = Some (mkthread lelse stk g ms1 tm, vs1)).
    { eapply nsteps_snoc; [exact Hst|]. eapply jump_taken with (jm := false); [exact Htw | reflexivity | exact HJ]. }
    eapply run_post_shift with (len1 := length ce); [exact Hst1 | lia | unfold lelse; lia | ].
    apply IHe; [|exact Hrel1].
    replace (pc + lc + 1 + S (length ct) + 2)%nat with lelse in HatC by (unfold lelse; lia). exact HatC.
Qed.

(* ---- the skeleton theorem: else-free blocks ---- *)
Fixpoint noelse_stmt (s : stmt) : bool :=
  match s with
  | SCond _ th | SOtherwise th => noelse_block th
  | SCondElse _ _ _ => false
  | _ => true
  end
with noelse_block (b : block) : bool :=
  match b with BNil => true | BCons s r => noelse_stmt s && noelse_block r end.

Scheme stmt_mind := Induction for stmt Sort Prop
  with block_mind := Induction for block Sort Prop.
Combined Scheme stmt_block_ind from stmt_mind, block_mind.

Notation wts := (wt_stmt decls (o_strs o) (o_nre o)).
Notation wtb := (wt_block decls (o_strs o) (o_nre o)).

Theorem skeleton :
  (forall s, simple s = true -> wts s = true -> ssim s) ->
  (forall s, wts s = true -> noelse_stmt s = true -> ssim s) /\
  (forall b, wtb b = true -> noelse_block b = true -> bsim b).
Proof.
  intros Hsimple. apply stmt_block_ind;
    try (intros; apply Hsimple; [reflexivity | assumption]).
  - intros c th IH Hw Hn.
    change (wts (SCond c th)) with (cond_ok decls (o_strs o) (o_nre o) c && wtb th) in Hw.
    apply andb_prop in Hw as [Hc Hw]. apply ssim_cond; [exact Hc | apply IH; [exact Hw | exact Hn]].
  - intros c th _ el _ _ Hn. discriminate.
  - intros th IH Hw Hn. apply ssim_oth. apply IH; [exact Hw | exact Hn].
  - intros _ _. apply bsim_nil.
  - intros s IHs r IHr Hw Hn.
    change (wtb (BCons s r)) with (wts s && wtb r) in Hw.
    change (noelse_block (BCons s r)) with (noelse_stmt s && noelse_block r) in Hn.
    apply andb_prop in Hw as [Hw1 Hw2]. apply andb_prop in Hn as [Hn1 Hn2].
    apply bsim_cons; [apply IHs; assumption | apply IHr; assumption].
Qed.

End Stmt.
