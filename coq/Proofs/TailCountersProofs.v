(* C25, tailer side: per-stream delivered = counted, log_count = open streams,
   lines_total = lines sent by all streams. *)
From V Require Import Metrics.StoreAdd Run.Loader Run.TailCounters Tail.LineReader
  Proofs.StoreAddProofs Proofs.LoaderIsolation.
Local Open Scope N_scope.

Definition sent_from (f : bytes) (out : list (bytes * bytes)) : N :=
  N.of_nat (length (filter (fun o => bytes_eqb f (fst o)) out)).

Lemma sent_from_app f a b : sent_from f (a ++ b) = sent_from f a + sent_from f b.
Proof. unfold sent_from. rewrite filter_app, app_length. lia. Qed.

Lemma filter_src_map f g (ls : list bytes) :
  length (filter (fun o : bytes * bytes => bytes_eqb f (fst o)) (map (fun l => (g, l)) ls)) =
  if bytes_eqb f g then length ls else 0%nat.
Proof.
  induction ls as [|l ls IH]; cbn [map filter fst]; [destruct (bytes_eqb f g); reflexivity|].
  destruct (bytes_eqb f g) eqn:E; cbn [length]; rewrite IH; reflexivity.
Qed.

Lemma sent_from_map f g (ls : list bytes) :
  sent_from f (map (fun l => (g, l)) ls) = if bytes_eqb f g then N.of_nat (length ls) else 0.
Proof. unfold sent_from. rewrite filter_src_map. destruct (bytes_eqb f g); reflexivity. Qed.

Lemma counted_emit ts f ls o lc g :
  counted (emit ts f ls o lc) g = if bytes_eqb g f then counted ts f + N.of_nat (length ls) else counted ts g.
Proof.
  unfold counted at 1, emit. cbn [ts_counted]. destruct (bytes_eqb g f) eqn:E.
  - apply bytes_eqb_spec in E. subst. rewrite blookup_bupdate_same. reflexivity.
  - apply bytes_eqb_false in E. rewrite blookup_bupdate_other by exact E. reflexivity.
Qed.

Definition counted_ok (ts : tstate) : Prop := forall f, counted ts f = sent_from f (ts_out ts).

Lemma emit_ok ts f ls o lc : counted_ok ts -> counted_ok (emit ts f ls o lc).
Proof.
  intros H g. rewrite counted_emit. unfold emit. cbn [ts_out]. rewrite sent_from_app, sent_from_map.
  destruct (bytes_eqb g f) eqn:E.
  - apply bytes_eqb_spec in E. subst. rewrite H. reflexivity.
  - rewrite H. lia.
Qed.

Lemma tstep_counted ts e : counted_ok ts -> counted_ok (tstep ts e).
Proof.
  intros H. destruct e as [f|f c|f]; cbn [tstep]; destruct (blookup f (ts_open ts)); try exact H.
  - destruct (split b c). apply emit_ok, H.
  - apply emit_ok, H.
Qed.

(* per stream: the lines counted are the lines sent *)
Theorem stream_counted_exact evs f :
  counted (trun ts_empty evs) f = sent_from f (ts_out (trun ts_empty evs)).
Proof.
  assert (G : forall evs ts, counted_ok ts -> counted_ok (trun ts evs)).
  { unfold trun. induction evs0 as [|e r IH]; intros ts H; cbn [fold_left]; [exact H|]. apply IH, tstep_counted, H. }
  apply G. intros g. reflexivity.
Qed.

(* ---- log_count ---- *)
Lemma length_bupdate_some {A} k (x y : A) l : blookup k l = Some y -> length (bupdate k x l) = length l.
Proof.
  induction l as [|[k' z] r IH]; cbn [blookup bupdate]; [discriminate|].
  destruct (bytes_eqb k k'); cbn [length]; [reflexivity|]. intros H. rewrite (IH H). reflexivity.
Qed.

Lemma length_bupdate_none {A} k (x : A) l : blookup k l = None -> length (bupdate k x l) = S (length l).
Proof.
  induction l as [|[k' z] r IH]; cbn [blookup bupdate]; [reflexivity|].
  destruct (bytes_eqb k k'); cbn [length]; [discriminate|]. intros H. rewrite (IH H). reflexivity.
Qed.

Lemma bremove_notin {A} k (l : list (bytes * A)) : ~ In k (map fst l) -> bremove k l = l.
Proof.
  induction l as [|[k' z] r IH]; cbn [bremove map fst]; [reflexivity|]. intros NI.
  destruct (bytes_eqb k k') eqn:E; [apply bytes_eqb_spec in E; subst; exfalso; apply NI; left; reflexivity|].
  rewrite IH; [reflexivity|]. intros I. apply NI. right. exact I.
Qed.

Lemma length_bremove {A} k (y : A) l : NoDup (map fst l) -> blookup k l = Some y -> S (length (bremove k l)) = length l.
Proof.
  induction l as [|[k' z] r IH]; cbn [blookup bremove map fst]; [discriminate|]. intros ND.
  inversion ND as [|? ? NI ND']; subst. destruct (bytes_eqb k k') eqn:E.
  - intros _. apply bytes_eqb_spec in E. subst k'. rewrite bremove_notin by exact NI. reflexivity.
  - intros H. cbn [length]. rewrite (IH ND' H). reflexivity.
Qed.

Lemma bremove_keys_incl {A} k (l : list (bytes * A)) x : In x (map fst (bremove k l)) -> In x (map fst l).
Proof.
  induction l as [|[k' z] r IH]; cbn [bremove map fst]; [auto|].
  destruct (bytes_eqb k k'); cbn [map fst]; [intros I; right; exact (IH I)|].
  intros [I|I]; [left; exact I|right; exact (IH I)].
Qed.

Lemma bremove_nodup {A} k (l : list (bytes * A)) : NoDup (map fst l) -> NoDup (map fst (bremove k l)).
Proof.
  induction l as [|[k' z] r IH]; cbn [bremove map fst]; intros ND; [constructor|].
  inversion ND as [|? ? NI ND']; subst. destruct (bytes_eqb k k'); [exact (IH ND')|].
  cbn [map fst]. constructor; [|exact (IH ND')]. intros I. apply NI. exact (bremove_keys_incl _ _ _ I).
Qed.

Definition open_ok (ts : tstate) : Prop :=
  NoDup (map fst (ts_open ts)) /\ ts_log_count ts = Z.of_nat (length (ts_open ts)).

Lemma tstep_open ts e : open_ok ts -> open_ok (tstep ts e).
Proof.
  intros [ND LC]. destruct e as [f|f c|f]; cbn [tstep]; destruct (blookup f (ts_open ts)) eqn:B; try (split; assumption).
  - split; cbn [ts_open ts_log_count]; [apply bupdate_nodup, ND|]. rewrite (length_bupdate_none _ _ _ B). lia.
  - destruct (split b c). unfold emit. split; cbn [ts_open ts_log_count]; [apply bupdate_nodup, ND|].
    rewrite (length_bupdate_some _ _ _ _ B). exact LC.
  - unfold emit. split; cbn [ts_open ts_log_count]; [apply bremove_nodup, ND|].
    pose proof (length_bremove _ _ _ ND B). lia.
Qed.

(* log_count is the number of streams being tailed *)
Theorem log_count_exact evs :
  ts_log_count (trun ts_empty evs) = Z.of_nat (length (ts_open (trun ts_empty evs))).
Proof.
  assert (G : forall evs ts, open_ok ts -> open_ok (trun ts evs)).
  { unfold trun. induction evs0 as [|e r IH]; intros ts H; cbn [fold_left]; [exact H|]. apply IH, tstep_open, H. }
  apply G. split; [constructor|reflexivity].
Qed.

(* ---- lines_total ---- *)
Lemma tstep_out ts e : exists new, ts_out (tstep ts e) = ts_out ts ++ new.
Proof.
  destruct e as [f|f c|f]; cbn [tstep]; destruct (blookup f (ts_open ts)); try (exists []; rewrite app_nil_r; reflexivity).
  - destruct (split b c). eexists. reflexivity.
  - eexists. reflexivity.
Qed.

Section Pipe.
Variable vmstep : bytes -> N -> N -> list effect.
Variable lid : bytes -> bytes -> N.
Variable now : Z.

Lemma deliver_lines : forall ls st, st_lines (TailCounters.deliver vmstep lid now st ls) = st_lines st + N.of_nat (length ls).
Proof.
  unfold TailCounters.deliver. induction ls as [|l ls IH]; intros st; cbn [fold_left length]; [lia|].
  rewrite IH. cbn [line st_lines]. lia.
Qed.

(* the loader received exactly the lines the streams sent; with the first
   theorem, lines_total is the sum of log_lines_total over the streams *)
Theorem lines_total_exact evs :
  let x := prun vmstep lid now (ts_empty, st_empty) evs in
  st_lines (snd x) = N.of_nat (length (ts_out (fst x))).
Proof.
  assert (G : forall evs x, st_lines (snd x) = N.of_nat (length (ts_out (fst x))) ->
            st_lines (snd (prun vmstep lid now x evs)) = N.of_nat (length (ts_out (fst (prun vmstep lid now x evs))))).
  { unfold prun. induction evs0 as [|e r IH]; intros x H; cbn [fold_left]; [exact H|]. apply IH.
    unfold pstep. cbn [fst snd]. rewrite deliver_lines, H. unfold new_lines.
    destruct (tstep_out (fst x) e) as (new & ->). rewrite skipn_app, skipn_all, Nat.sub_diag. cbn [skipn app].
    rewrite app_length. lia. }
  cbn zeta. apply G. reflexivity.
Qed.

Lemma prun_fst evs : forall x, fst (prun vmstep lid now x evs) = trun (fst x) evs.
Proof. unfold prun, trun. induction evs as [|e r IH]; intros x; cbn [fold_left]; [reflexivity|]. rewrite IH. reflexivity. Qed.
End Pipe.
