From V Require Import Metrics.LabelKey Metrics.MetricMap Metrics.Gc
  Proofs.LabelKeyProofs Proofs.MetricMapProofs Proofs.MetricMapCorollaries Proofs.GcProofs Proofs.GcRefine.
Local Open Scope Z_scope.

Definition items (m : cmetric) : list entry := map lv_item (m_slice m).

Lemma run_wfar ops : forall m, WfAr m -> WfAr (fst (c_run encode m ops)).
Proof.
  induction ops as [|o r IH]; intros m W; cbn [c_run]; [exact W|].
  pose proof (wfar_step encode m o W) as [W1 _].
  destruct (c_step encode m o) as [m1 x]. cbn [fst] in W1. specialize (IH m1 W1).
  destruct (c_run encode m1 r) as [m2 xs]. exact IH.
Qed.

Lemma reachable_wfar n t m : reachable n t m -> WfAr m.
Proof.
  intros [ops [xs H]]. pose proof (run_wfar ops (c_init n t) (Forall_nil _)) as W.
  rewrite H in W. exact W.
Qed.

Lemma reachable_nodup n t m : reachable n t m -> NoDup (keys (items m)).
Proof. intros R. unfold items. rewrite keys_items. apply (reachable_inv _ _ _ R). Qed.

Lemma gc_refines_reachable n t m limit now :
  reachable n t m -> items (c_gc encode limit now m) = gc limit now (items m).
Proof.
  intros R. apply (gc_refines encode encode_injective limit now m (reachable_inv _ _ _ R) (reachable_wfar _ _ _ R)).
Qed.

Lemma limit_refines_reachable n t m limit :
  reachable n t m -> items (c_limit_phase encode limit m) = limit_phase limit (items m).
Proof.
  intros R. apply (limit_phase_refines encode encode_injective limit m (reachable_inv _ _ _ R) (reachable_wfar _ _ _ R)).
Qed.

Lemma c_limit_bound n t m limit :
  reachable n t m -> (0 < limit)%nat -> (limit < length (m_slice m))%nat ->
  length (m_slice (c_limit_phase encode limit m)) = limit.
Proof.
  intros R H0 H1. rewrite <- (map_length lv_item). fold (items (c_limit_phase encode limit m)).
  rewrite (limit_refines_reachable _ _ _ _ R). apply limit_bound; [apply (reachable_nodup _ _ _ R)|exact H0|].
  unfold items. rewrite map_length. exact H1.
Qed.

Lemma c_limit_unchanged n t m limit :
  reachable n t m -> (limit = 0 \/ length (m_slice m) <= limit)%nat ->
  items (c_limit_phase encode limit m) = items m.
Proof.
  intros R H. rewrite (limit_refines_reachable _ _ _ _ R). apply limit_unchanged.
  unfold items. rewrite map_length. exact H.
Qed.

Lemma c_limit_removes_oldest n t m limit r k :
  reachable n t m -> In r (items m) ->
  ~ In r (items (c_limit_phase encode limit m)) -> In k (items (c_limit_phase encode limit m)) ->
  e_time r <= e_time k.
Proof.
  intros R. rewrite (limit_refines_reachable _ _ _ _ R). apply limit_removes_oldest.
  apply (reachable_nodup _ _ _ R).
Qed.

Lemma c_expiry_exact n t m limit now d :
  reachable n t m ->
  - two63 < now - c_time (snd (snd d)) < two63 ->
  (In d (items (c_gc encode limit now m)) <->
   In d (items (c_limit_phase encode limit m)) /\
   ~ (0 < c_expiry (snd (snd d)) /\ c_expiry (snd (snd d)) < now - c_time (snd (snd d)))).
Proof.
  intros R G. rewrite (gc_refines_reachable _ _ _ _ _ R), (limit_refines_reachable _ _ _ _ R).
  rewrite gc_expiry_exact. rewrite <- (expired_exact now _ G).
  destruct (expired now (snd (snd d))); split; intros [H1 H2]; split; auto; try discriminate.
  exfalso. apply H2. reflexivity.
Qed.

(* outside the guard the code's answer is still the saturated comparison *)
Lemma c_expiry_saturated n t m limit now d :
  reachable n t m ->
  (In d (items (c_gc encode limit now m)) <->
   In d (items (c_limit_phase encode limit m)) /\ expired now (snd (snd d)) = false).
Proof.
  intros R. rewrite (gc_refines_reachable _ _ _ _ _ R), (limit_refines_reachable _ _ _ _ R).
  apply gc_expiry_exact.
Qed.

Lemma c_gc_frame n t m limit now :
  reachable n t m -> subseq (items (c_gc encode limit now m)) (items m).
Proof. intros R. rewrite (gc_refines_reachable _ _ _ _ _ R). apply gc_subseq. Qed.

(* the store: Gc visits each metric on its own *)
Definition store := list (bytes * nat * cmetric).   (* name, Limit, metric *)
Definition store_gc (now : Z) (s : store) : store :=
  map (fun '(name, limit, m) => (name, limit, c_gc encode limit now m)) s.

Lemma store_gc_pointwise now s i name limit m :
  nth_error s i = Some (name, limit, m) ->
  nth_error (store_gc now s) i = Some (name, limit, c_gc encode limit now m).
Proof. intros H. unfold store_gc. rewrite nth_error_map, H. reflexivity. Qed.

Lemma store_gc_length now s : length (store_gc now s) = length s.
Proof. apply map_length. Qed.
