(* C14: the well-formedness conditions that C14_keep_decl_keeps_data assumes
   (fresh object ids, pairwise distinct label tuples within a metric, at most
   one store entry per (program, type, source position) in a bucket, exported
   and running metric objects allocated) hold in every state reachable from the
   empty state by loads, unloads, lines and GC passes. *)
From V Require Import Metrics.StoreAdd Run.Loader Proofs.StoreAddProofs Proofs.LoaderIsolation
  Proofs.LoaderReload Proofs.LoaderReloadLoad.
Local Open Scope N_scope.

Definition allocated (h : pheap) (o : N) : Prop := nlookup o (ph_lvs h) <> None.
Definition labels_distinct (h : pheap) : Prop := forall o, NoDup (map sl_labels (obj_lvs h o)).
Definition wf_heap (h : pheap) : Prop := heap_fresh h /\ labels_distinct h.

(* ---- set_obj_lvs on an allocated object ---- *)
Lemma obj_lvs_set_same h o l : obj_lvs (set_obj_lvs h o l) o = l.
Proof. unfold obj_lvs, set_obj_lvs. cbn [ph_lvs]. rewrite nlookup_nupdate_same. reflexivity. Qed.

Lemma obj_lvs_set_other h o l o2 : o2 <> o -> obj_lvs (set_obj_lvs h o l) o2 = obj_lvs h o2.
Proof. intros N. unfold obj_lvs, set_obj_lvs. cbn [ph_lvs]. rewrite nlookup_nupdate_other by exact N. reflexivity. Qed.

Lemma allocated_set h o l o2 : allocated h o2 -> allocated (set_obj_lvs h o l) o2.
Proof.
  unfold allocated, set_obj_lvs. cbn [ph_lvs]. intros A. destruct (N.eq_dec o2 o) as [->|N].
  - rewrite nlookup_nupdate_same. discriminate.
  - rewrite nlookup_nupdate_other by exact N. exact A.
Qed.

Lemma wf_heap_set h o l : wf_heap h -> allocated h o -> NoDup (map sl_labels l) -> wf_heap (set_obj_lvs h o l).
Proof.
  intros [F L] A ND. split.
  - intros k x. unfold set_obj_lvs. cbn [ph_lvs ph_nexto]. destruct (N.eq_dec k o) as [->|N].
    + intros _. unfold allocated in A. destruct (nlookup o (ph_lvs h)) eqn:E; [|contradiction]. exact (F _ _ E).
    + rewrite nlookup_nupdate_other by exact N. apply F.
  - intros o2. destruct (N.eq_dec o2 o) as [->|N].
    + rewrite obj_lvs_set_same. exact ND.
    + rewrite obj_lvs_set_other by exact N. apply L.
Qed.

(* ---- the scan keeps the new metric's tuples distinct ---- *)
Lemma scan_mlvs_nodup ce h p d : labels_distinct h -> forall l i s,
  NoDup (map sl_labels (sc_mlvs s)) -> NoDup (map sl_labels (sc_mlvs (scan_from ce h p d i l s))).
Proof.
  intros L. induction l as [|v l IH]; intros i s ND; cbn [scan_from]; [exact ND|].
  apply IH. unfold scan_step. destruct (sc_broke s); [exact ND|].
  destruct (negb (bytes_eqb (e_prog v) p)); [exact ND|].
  destruct (negb (N.eqb (d_type (e_decl v)) (d_type d))); [exact ND|].
  destruct (negb (bytes_eqb (d_source (e_decl v)) (d_source d))); [exact ND|].
  destruct (negb (keys_eqb (d_keys (e_decl v)) (d_keys d))); cbn [sc_mlvs]; [exact ND|].
  exact (proj1 (hand_over_spec ce _ _ (L (e_id v)) ND)).
Qed.

(* ---- buckets: at most one entry per (program, type, source) ---- *)
Definition skey (a b : entry) : bool := matches (e_prog b) (e_decl b) a.

Fixpoint keys_distinct (l : list entry) : Prop :=
  match l with
  | [] => True
  | a :: r => (forall b, In b r -> skey a b = false) /\ keys_distinct r
  end.

Lemma matches_true p d v :
  matches p d v = true <-> e_prog v = p /\ d_type (e_decl v) = d_type d /\ d_source (e_decl v) = d_source d.
Proof.
  unfold matches. rewrite !andb_true_iff, N.eqb_eq. rewrite !bytes_eqb_spec. tauto.
Qed.

Lemma skey_sym a b : skey a b = skey b a.
Proof.
  destruct (skey a b) eqn:E1; destruct (skey b a) eqn:E2; try reflexivity.
  - apply matches_true in E1. assert (skey b a = true) by (apply matches_true; intuition congruence). congruence.
  - apply matches_true in E2. assert (skey a b = true) by (apply matches_true; intuition congruence). congruence.
Qed.

Lemma kd_app_inv pre v post :
  keys_distinct (pre ++ v :: post) ->
  keys_distinct (pre ++ post) /\ forall w, In w (pre ++ post) -> skey v w = false.
Proof.
  induction pre as [|a pre IH]; cbn [app keys_distinct].
  - intros [H K]. auto.
  - intros [H K]. destruct (IH K) as (K' & V). split.
    + split; [|exact K']. intros b I. apply H. apply in_app_or in I. apply in_or_app.
      destruct I; [left|right; right]; assumption.
    + intros w [->|I]; [|exact (V w I)]. rewrite skey_sym. apply H. apply in_or_app. right. left. reflexivity.
Qed.

Lemma kd_snoc l m : keys_distinct l -> (forall w, In w l -> skey w m = false) -> keys_distinct (l ++ [m]).
Proof.
  induction l as [|a l IH]; cbn [app keys_distinct]; intros K H.
  - split; [intros b []|exact I].
  - destruct K as [Ka K]. split.
    + intros b I. apply in_app_or in I. destruct I as [I|[<-|[]]]; [exact (Ka b I)|apply H; left; reflexivity].
    + apply IH; [exact K|]. intros w I. apply H. right. exact I.
Qed.

Lemma existsb_split {A} (f : A -> bool) l :
  existsb f l = true -> exists pre v post, l = pre ++ v :: post /\ f v = true /\ forall w, In w pre -> f w = false.
Proof.
  induction l as [|a l IH]; cbn [existsb]; [discriminate|].
  destruct (f a) eqn:E.
  - intros _. exists [], a, l. split; [reflexivity|]. split; [exact E|intros w []].
  - cbn [orb]. intros H. destruct (IH H) as (pre & v & post & -> & Fv & Fp).
    exists (a :: pre), v, post. split; [reflexivity|]. split; [exact Fv|].
    intros w [<-|I]; [exact E|exact (Fp w I)].
Qed.

Section ScanDupe.
Variable ce : bool.
Variable h : pheap.
Variable p : bytes.
Variable d : decl.

(* the recorded duplicate when exactly one entry matches *)
Lemma scan_dupe_unique pre v post init :
  matches p d v = true -> (forall w, In w (pre ++ post) -> matches p d w = false) ->
  sc_dupe (scan_from ce h p d 0 (pre ++ v :: post) (mkscan None init false)) = Some (length pre).
Proof.
  intros M U.
  assert (G : forall pre' i s, (forall w, In w pre' -> matches p d w = false) ->
            scan_from ce h p d i (pre' ++ v :: post) s = scan_from ce h p d (length pre' + i) (v :: post) s).
  { induction pre' as [|a pre' IHp]; intros i s Hp; cbn [app scan_from length]; [reflexivity|].
    rewrite scan_step_nomatch by (apply Hp; left; reflexivity).
    rewrite IHp by (intros w I; apply Hp; right; exact I).
    replace (length pre' + S i)%nat with (S (length pre' + i)) by lia. reflexivity. }
  rewrite G by (intros w I; apply U; apply in_or_app; left; exact I).
  cbn [scan_from]. rewrite Nat.add_0_r.
  rewrite scan_nomatch by (intros w I; apply U; apply in_or_app; right; exact I).
  apply matches_true in M. destruct M as (M1 & M2 & M3).
  unfold scan_step. cbn [sc_broke]. rewrite M1, M2, M3, !bytes_eqb_refl, N.eqb_refl. cbn [negb].
  destruct (negb (keys_eqb (d_keys (e_decl v)) (d_keys d))); reflexivity.
Qed.

(* the bucket after Add keeps its keys distinct *)
Lemma add_bucket_kd l o init :
  keys_distinct l ->
  keys_distinct (replace_dupe (l ++ [mkentry p o d]) (scan_from ce h p d 0 l (mkscan None init false))).
Proof.
  intros K. destruct (existsb (matches p d) l) eqn:X.
  - destruct (existsb_split _ _ X) as (pre & v & post & -> & Mv & Mp).
    destruct (kd_app_inv _ _ _ K) as (K' & V).
    assert (U : forall w, In w (pre ++ post) -> matches p d w = false).
    { intros w I. destruct (matches p d w) eqn:Mw; [|reflexivity].
      assert (S : skey v w = true).
      { unfold skey. apply matches_true. apply matches_true in Mv. apply matches_true in Mw. intuition congruence. }
      rewrite (V w I) in S. discriminate. }
    unfold replace_dupe. rewrite (scan_dupe_unique pre v post init Mv U).
    rewrite <- app_assoc. cbn [app]. rewrite remove_nth_app_length. rewrite app_assoc.
    apply kd_snoc; [exact K'|]. intros w I. unfold skey. cbn [e_prog e_decl]. exact (U w I).
  - assert (U : forall w, In w l -> matches p d w = false).
    { intros w I. destruct (matches p d w) eqn:Mw; [|reflexivity].
      assert (existsb (matches p d) l = true) by (apply existsb_exists; exists w; auto). congruence. }
    rewrite scan_nomatch by exact U. unfold replace_dupe. cbn [sc_dupe].
    apply kd_snoc; [exact K|]. intros w I. unfold skey. cbn [e_prog e_decl]. exact (U w I).
Qed.
End ScanDupe.

(* ---- wf_heap only looks at the object table and the id counter ---- *)
Lemma wf_heap_same_lvs h h' :
  ph_lvs h' = ph_lvs h -> ph_nexto h' = ph_nexto h ->
  (wf_heap h -> wf_heap h') /\ (forall o, allocated h o -> allocated h' o) /\ (forall o, obj_lvs h' o = obj_lvs h o).
Proof.
  intros E1 E2. unfold wf_heap, heap_fresh, labels_distinct, allocated, obj_lvs. rewrite E1, E2. auto.
Qed.

Lemma wf_heap_upd h h' o l :
  ph_lvs h' = nupdate o l (ph_lvs h) -> ph_nexto h' = ph_nexto h ->
  wf_heap h -> allocated h o -> NoDup (map sl_labels l) ->
  wf_heap h' /\ (forall o2, allocated h o2 -> allocated h' o2).
Proof.
  intros E1 E2 W A ND.
  destruct (wf_heap_same_lvs (set_obj_lvs h o l) h') as (W' & A' & _).
  - rewrite E1. reflexivity.
  - rewrite E2. reflexivity.
  - split; [apply W', wf_heap_set; assumption|]. intros o2 A2. apply A', allocated_set, A2.
Qed.

Lemma lv_find_none_notin ls l : lv_find ls l = None -> ~ In ls (map sl_labels l).
Proof.
  induction l as [|y l IH]; cbn [lv_find map]; [intros _ []|].
  destruct (tuple_eqb ls (sl_labels y)) eqn:E; [discriminate|]. intros F [H|H]; [|exact (IH F H)].
  rewrite H, tuple_eqb_refl in E. discriminate.
Qed.

Lemma lv_upd_labels ls f l : (forall x, sl_labels (f x) = sl_labels x) -> map sl_labels (lv_upd ls f l) = map sl_labels l.
Proof.
  intros H. induction l as [|y l IH]; cbn [lv_upd map]; [reflexivity|].
  destruct (tuple_eqb ls (sl_labels y)); cbn [map]; [rewrite H; reflexivity|rewrite IH; reflexivity].
Qed.

Lemma nodup_map_filter {A B} (f : A -> B) (g : A -> bool) l : NoDup (map f l) -> NoDup (map f (filter g l)).
Proof.
  induction l as [|a l IH]; cbn [map filter]; intros ND; [constructor|].
  inversion ND as [|? ? NI ND']; subst. destruct (g a); cbn [map]; [|exact (IH ND')].
  constructor; [|exact (IH ND')]. intros I. apply NI. apply in_map_iff in I. destruct I as (x & E & I).
  apply filter_In in I. rewrite <- E. apply in_map. apply I.
Qed.

(* ---- one VM effect ---- *)
Lemma exec_effect_wf h objs e now h' :
  wf_heap h -> (forall o d, In (o, d) objs -> allocated h o) ->
  exec_effect h objs e now = Some h' ->
  wf_heap h' /\ (forall o, allocated h o -> allocated h' o).
Proof.
  intros W AO.
  assert (GD : forall o d ls h1 k, allocated h o -> get_datum h o d ls now = Some (h1, k) ->
            wf_heap h1 /\ (forall o2, allocated h o2 -> allocated h1 o2)).
  { intros o d ls h1 k A G. unfold get_datum in G.
    destruct (negb (Nat.eqb (length ls) (length (d_keys d)))); [discriminate|].
    destruct (lv_find ls (obj_lvs h o)) eqn:F; injection G as <- <-; [auto|].
    eapply wf_heap_upd; cbn [ph_lvs ph_nexto]; try reflexivity; try assumption.
    rewrite map_app. cbn [map sl_labels]. apply nodup_snoc; [apply W|apply lv_find_none_notin, F]. }
  assert (SD : forall h1 k x, wf_heap h1 -> wf_heap (set_datum h1 k x) /\
            (forall o2, allocated h1 o2 -> allocated (set_datum h1 k x) o2)).
  { intros h1 k x W1. destruct (wf_heap_same_lvs h1 (set_datum h1 k x) eq_refl eq_refl) as (A & B & _). auto. }
  destruct e as [m ls dl|m ls v|m ls|m ls ex|m ls ox|]; cbn [exec_effect]; [| | | | |discriminate];
    destruct (nth_error objs m) as [[o d]|] eqn:NE; try discriminate;
    pose proof (AO o d (nth_error_In _ _ NE)) as A.
  - destruct (get_datum h o d ls now) as [[h1 k]|] eqn:G; [|discriminate]. intros X. injection X as <-.
    destruct (GD _ _ _ _ _ A G) as (W1 & A1). destruct (SD h1 k (mkdatum (inc_dval (dv (datum_of h1 k)) dl) now) W1) as (W2 & A2).
    split; [exact W2|]. intros o2 H. apply A2, A1, H.
  - destruct (get_datum h o d ls now) as [[h1 k]|] eqn:G; [|discriminate]. intros X. injection X as <-.
    destruct (GD _ _ _ _ _ A G) as (W1 & A1). destruct (SD h1 k (mkdatum v now) W1) as (W2 & A2).
    split; [exact W2|]. intros o2 H. apply A2, A1, H.
  - destruct (negb (Nat.eqb (length ls) (length (d_keys d)))); [discriminate|]. intros X. injection X as <-.
    split; [apply wf_heap_set; [exact W|exact A|apply lv_del_nodup, W]|intros o2; apply allocated_set].
  - destruct (negb (Nat.eqb (length ls) (length (d_keys d)))); [discriminate|].
    destruct (lv_find ls (obj_lvs h o)); [|discriminate]. intros X. injection X as <-.
    split; [apply wf_heap_set; [exact W|exact A|]|intros o2; apply allocated_set].
    rewrite lv_upd_labels by reflexivity. apply W.
  - destruct (get_datum h o d ls now) as [[h1 k]|] eqn:G; [|discriminate]. intros X. injection X as <-.
    destruct (GD _ _ _ _ _ A G) as (W1 & A1). destruct (SD h1 k (mkdatum (obs_dval (dv (datum_of h1 k)) ox) now) W1) as (W2 & A2).
    split; [exact W2|]. intros o2 H. apply A2, A1, H.
Qed.

Lemma exec_effects_wf objs now : forall es h,
  wf_heap h -> (forall o d, In (o, d) objs -> allocated h o) ->
  wf_heap (fst (exec_effects h objs es now)) /\
  (forall o, allocated h o -> allocated (fst (exec_effects h objs es now)) o).
Proof.
  induction es as [|e es IH]; intros h W AO; cbn [exec_effects]; [auto|].
  destruct (exec_effect h objs e now) as [h1|] eqn:E; [|auto].
  destruct (exec_effect_wf _ _ _ _ _ W AO E) as (W1 & A1).
  destruct (IH h1 W1 (fun o d I => A1 o (AO o d I))) as (W2 & A2).
  split; [exact W2|]. intros o H. apply A2, A1, H.
Qed.

(* ---- Store.Gc on one heap ---- *)
Lemma gc_heap_wf idx el p h :
  wf_heap h -> wf_heap (gc_heap idx el p h) /\ (forall o, allocated h o -> allocated (gc_heap idx el p h) o).
Proof.
  intros [F L].
  assert (LK : forall o, nlookup o (ph_lvs (gc_heap idx el p h)) =
            option_map (fun l => if exported idx p o then filter (fun lv => negb (gc_expired h el lv)) l else l)
                       (nlookup o (ph_lvs h))).
  { intros o. unfold gc_heap. cbn [ph_lvs]. induction (ph_lvs h) as [|[k l] r IH]; cbn [map nlookup fst snd]; [reflexivity|].
    destruct (N.eqb o k) eqn:E; [apply N.eqb_eq in E; subst; reflexivity|exact IH]. }
  split; [split|].
  - intros k l. rewrite LK. destruct (nlookup k (ph_lvs h)) eqn:E; [|discriminate]. intros _. exact (F _ _ E).
  - intros o. unfold obj_lvs. rewrite LK. pose proof (L o) as Lo. unfold obj_lvs in Lo.
    destruct (nlookup o (ph_lvs h)); cbn [option_map]; [|constructor].
    destruct (exported idx p o); [apply nodup_map_filter|]; exact Lo.
  - intros o. unfold allocated. rewrite LK. destruct (nlookup o (ph_lvs h)); [discriminate|auto].
Qed.

(* ---- vm.New ---- *)
Lemma alloc_objs_more : forall ds h h1 objs,
  alloc_objs h ds = (h1, objs) -> heap_fresh h ->
  (forall o d, In (o, d) objs -> allocated h1 o) /\
  (forall o, nlookup o (ph_lvs h) = None -> (length (obj_lvs h1 o) <= 1)%nat).
Proof.
  induction ds as [|d ds IH]; intros h h1 objs E F; cbn [alloc_objs] in E.
  - injection E as <- <-. split; [intros o d []|]. intros o N. unfold obj_lvs. rewrite N. cbn. lia.
  - destruct (alloc_obj h d) as [ha o] eqn:A. destruct (alloc_objs ha ds) as [hb l] eqn:B. injection E as <- <-.
    destruct (alloc_obj_spec _ _ _ _ A F) as (Eo & En & Fa & La & Da & Ln).
    destruct (alloc_objs_spec _ _ _ _ B Fa) as (_ & _ & Lb & _).
    destruct (IH _ _ _ B Fa) as (AL & LE).
    assert (NA : nlookup o (ph_lvs ha) <> None).
    { unfold alloc_obj in A.
      destruct (prealloc d); injection A as <- <-; cbn [ph_lvs];
        rewrite nlookup_app_none by (apply fresh_none; [exact F|lia]); cbn [nlookup]; rewrite N.eqb_refl; discriminate. }
    split.
    + intros o2 d2 [I|I]; [|exact (AL _ _ I)]. injection I as <- <-. unfold allocated.
      destruct (nlookup o (ph_lvs ha)) eqn:Q; [|contradiction]. rewrite (Lb _ _ Q). discriminate.
    + intros o2 N2. destruct (nlookup o2 (ph_lvs ha)) as [lv|] eqn:Q; [|exact (LE _ Q)].
      (* allocated by this very step: o2 = o *)
      assert (o2 = o).
      { unfold alloc_obj in A.
        destruct (prealloc d); injection A as <- <-; cbn [ph_lvs] in Q;
          rewrite nlookup_app_none in Q by exact N2; cbn [nlookup] in Q;
          (destruct (N.eqb o2 (ph_nexto h)) eqn:E2; [apply N.eqb_eq in E2; exact E2|discriminate]). }
      subst o2. unfold obj_lvs in *. rewrite Q in Ln. rewrite (Lb _ _ Q). exact Ln.
Qed.

Lemma alloc_objs_wf ds h h1 objs :
  alloc_objs h ds = (h1, objs) -> wf_heap h ->
  wf_heap h1 /\ (forall o, allocated h o -> allocated h1 o) /\ (forall o d, In (o, d) objs -> allocated h1 o).
Proof.
  intros E [F L]. destruct (alloc_objs_spec _ _ _ _ E F) as (_ & F1 & L1 & _).
  destruct (alloc_objs_more _ _ _ _ E F) as (AL & LE).
  split; [split; [exact F1|]|split; [|exact AL]].
  - intros o. destruct (nlookup o (ph_lvs h)) as [l|] eqn:Q.
    + pose proof (L o) as Lo. unfold obj_lvs in *. rewrite Q in Lo. rewrite (L1 _ _ Q). exact Lo.
    + pose proof (LE o Q) as Le. destruct (obj_lvs h1 o) as [|a [|b r]]; cbn [map];
        [constructor|constructor; [intros []|constructor]|cbn in Le; lia].
  - intros o A. unfold allocated in *. destruct (nlookup o (ph_lvs h)) eqn:Q; [|contradiction]. rewrite (L1 _ _ Q). discriminate.
Qed.

(* ================================================================== *)
(* the store index relative to the heap of the program that is loading *)
Section Register.
Variable ce : bool.
Variable p : bytes.

Lemma add_wf idx h o d idx' h' :
  wf_heap h -> allocated h o -> (forall name, keys_distinct (entries_of idx name)) ->
  add ce idx h p o d = Some (idx', h') ->
  wf_heap h' /\ (forall o2, allocated h o2 -> allocated h' o2) /\
  (forall name, keys_distinct (entries_of idx' name)) /\
  (forall name e, In e (entries_of idx' name) -> In e (entries_of idx name) \/ e = mkentry p o d).
Proof.
  intros W A K. unfold add. destruct (kind_conflict _ _); [discriminate|]. intros E. injection E as <- <-.
  split; [|split; [|split]].
  - apply wf_heap_set; [exact W|exact A|]. apply scan_mlvs_nodup; [apply W|]. cbn [sc_mlvs]. apply W.
  - intros o2. apply allocated_set.
  - intros name. destruct (bytes_eqb name (d_name d)) eqn:EN.
    + apply bytes_eqb_spec in EN. subst name. rewrite entries_of_bupdate_same. apply add_bucket_kd. apply K.
    + apply bytes_eqb_false in EN. rewrite entries_of_bupdate_other by exact EN. apply K.
  - intros name e. destruct (bytes_eqb name (d_name d)) eqn:EN.
    + apply bytes_eqb_spec in EN. subst name. rewrite entries_of_bupdate_same. unfold replace_dupe.
      intros I. assert (I' : In e (entries_of idx (d_name d) ++ [mkentry p o d])).
      { destruct (sc_dupe _); [exact (remove_nth_incl _ _ _ I)|exact I]. }
      apply in_app_or in I'. destruct I' as [I'|[<-|[]]]; auto.
    + apply bytes_eqb_false in EN. rewrite entries_of_bupdate_other by exact EN. auto.
Qed.

Lemma register_wf : forall ms idx h idx' h' b,
  wf_heap h -> (forall o d, In (o, d) ms -> allocated h o) ->
  (forall name, keys_distinct (entries_of idx name)) ->
  register ce idx h p ms = (idx', h', b) ->
  wf_heap h' /\ (forall o2, allocated h o2 -> allocated h' o2) /\
  (forall name, keys_distinct (entries_of idx' name)) /\
  (forall name e, In e (entries_of idx' name) ->
     In e (entries_of idx name) \/ exists o d, In (o, d) ms /\ e = mkentry p o d).
Proof.
  induction ms as [|[o d] r IH]; intros idx h idx' h' b W A K E; cbn [register] in E.
  - injection E as <- <- <-. auto.
  - assert (Ar : forall o2 d2, In (o2, d2) r -> allocated h o2) by (intros o2 d2 I; apply (A o2 d2); right; exact I).
    destruct (d_hidden d).
    { destruct (IH _ _ _ _ _ W Ar K E) as (W' & A' & K' & S). split; [exact W'|]. split; [exact A'|]. split; [exact K'|].
      intros name e I. destruct (S name e I) as [H|(o2 & d2 & I2 & ->)]; [auto|]. right. exists o2, d2. split; [right; exact I2|reflexivity]. }
    destruct (add ce idx h p o d) as [[i1 h1]|] eqn:AD.
    + destruct (add_wf _ _ _ _ _ _ W (A o d (or_introl eq_refl)) K AD) as (W1 & A1 & K1 & S1).
      destruct (IH _ _ _ _ _ W1 (fun o2 d2 I => A1 o2 (Ar o2 d2 I)) K1 E) as (W' & A' & K' & S).
      split; [exact W'|]. split; [intros o2 H; apply A', A1, H|]. split; [exact K'|].
      intros name e I. destruct (S name e I) as [H|(o2 & d2 & I2 & ->)].
      * destruct (S1 name e H) as [H1|EQ]; [auto|]. subst e. right. exists o, d. split; [left; reflexivity|reflexivity].
      * right. exists o2, d2. split; [right; exact I2|reflexivity].
    + injection E as <- <- <-. auto.
Qed.
End Register.

(* ================================================================== *)
Record wf (st : state) : Prop := mkwf {
  wf_heaps : forall p, wf_heap (ps_heap (getp p st));
  wf_handles : forall p hd o d, ps_handle (getp p st) = Some hd -> In (o, d) (h_objs hd) ->
                 allocated (ps_heap (getp p st)) o;
  wf_entries : forall name e, In e (entries_of (st_index st) name) ->
                 allocated (ps_heap (getp (e_prog e) st)) (e_id e);
  wf_buckets : forall name, keys_distinct (entries_of (st_index st) name) }.

Lemma wf_empty : wf st_empty.
Proof.
  constructor.
  - intros p. split; [intros k l H; discriminate H|intros o; constructor].
  - intros p hd o d H. discriminate H.
  - intros name e [].
  - intros name. exact I.
Qed.

Section Steps.
Variable c1 c2 omit : bool.
Variable compile : bytes -> N -> option (list decl).
Variable vmstep : bytes -> N -> N -> list effect.

Lemma getp_upd_cases q p x st idx n :
  getp q (mkst idx (bupdate p x (st_progs st)) n) = if bytes_eqb q p then x else getp q st.
Proof.
  destruct (bytes_eqb q p) eqn:E.
  - apply bytes_eqb_spec in E. subst. apply getp_bupdate_same.
  - apply bytes_eqb_false in E. apply getp_bupdate_other. exact E.
Qed.

(* replacing p's record by one whose heap only grew, everything else equal *)
Lemma wf_replace st p x idx :
  wf st ->
  wf_heap (ps_heap x) ->
  (forall o, allocated (ps_heap (getp p st)) o -> allocated (ps_heap x) o) ->
  (forall hd o d, ps_handle x = Some hd -> In (o, d) (h_objs hd) -> allocated (ps_heap x) o) ->
  (forall name, keys_distinct (entries_of idx name)) ->
  (forall name e, In e (entries_of idx name) ->
     In e (entries_of (st_index st) name) \/ (e_prog e = p /\ allocated (ps_heap x) (e_id e))) ->
  wf (mkst idx (bupdate p x (st_progs st)) (st_lines st)).
Proof.
  intros [WH WA WE WB] W A HA K S. constructor; cbn [st_index].
  - intros q. rewrite getp_upd_cases. destruct (bytes_eqb q p); [exact W|apply WH].
  - intros q hd o d. rewrite getp_upd_cases. destruct (bytes_eqb q p); [apply HA|apply WA].
  - intros name e I. rewrite getp_upd_cases. destruct (S name e I) as [H|[EP AL]].
    + destruct (bytes_eqb (e_prog e) p) eqn:E; [|exact (WE name e H)].
      apply bytes_eqb_spec in E. apply A. rewrite <- E. exact (WE name e H).
    + rewrite EP, bytes_eqb_refl. exact AL.
  - exact K.
Qed.

Lemma load_wf st p src : wf st -> wf (load c1 c2 omit compile st p src).
Proof.
  intros W. unfold Loader.load, Loader.load_r.
  destruct (match ps_handle (getp p st) with Some hd => N.eqb (h_src hd) src | None => false end); [exact W|].
  destruct (compile p src) as [ds|].
  2:{ cbn [fst]. unfold setp. apply wf_replace; try exact W; unfold with_errs; cbn [ps_heap ps_handle].
      - apply W.
      - auto.
      - intros hd o d. apply (wf_handles _ W).
      - apply W.
      - auto. }
  destruct (alloc_objs (ps_heap (getp p st)) ds) as [h1 objs0] eqn:AO.
  destruct (alloc_objs_wf _ _ _ _ AO (wf_heaps _ W p)) as (W1 & A1 & AL1).
  set (objs := map (fun od => (fst od, strip omit (snd od))) objs0).
  assert (ALo : forall o d, In (o, d) objs -> allocated h1 o).
  { intros o d I. unfold objs in I. apply in_map_iff in I. destruct I as ([o2 d2] & E & I). cbn [fst snd] in E.
    injection E as <- _. exact (AL1 _ _ I). }
  destruct (register c1 (st_index st) h1 p objs) as [[idx h2] b] eqn:R.
  destruct (register_wf c1 p _ _ _ _ _ _ W1 ALo (wf_buckets _ W) R) as (W2 & A2 & K2 & S2).
  assert (S : forall name e, In e (entries_of idx name) ->
            In e (entries_of (st_index st) name) \/ (e_prog e = p /\ allocated h2 (e_id e))).
  { intros name e I. destruct (S2 name e I) as [H|(o & d & Io & ->)]; [auto|]. right. cbn [e_prog e_id].
    split; [reflexivity|]. apply A2, (ALo o d Io). }
  destruct b; cbn [fst]; apply wf_replace; try exact W; cbn [ps_heap ps_handle]; try assumption.
  - intros o H. apply A2, A1, H.
  - intros hd o d E I. injection E as <-. cbn [h_objs] in I. apply A2, (ALo o d I).
  - intros o H. apply A2, A1, H.
  - intros hd o d E I. apply A2, A1. exact (wf_handles _ W p hd o d E I).
Qed.

Lemma unload_wf st p : wf st -> wf (unload st p).
Proof.
  intros W. unfold unload. destruct (ps_handle (getp p st)); [|exact W].
  unfold setp. apply wf_replace; try exact W; cbn [ps_heap ps_handle].
  - apply W.
  - auto.
  - intros hd o d E. discriminate E.
  - apply W.
  - auto.
Qed.

Lemma line_wf st l now : wf st -> wf (line vmstep st l now).
Proof.
  intros [WH WA WE WB].
  assert (LP : forall q, wf_heap (ps_heap (line_prog vmstep q (getp q st) l now)) /\
               (forall o, allocated (ps_heap (getp q st)) o -> allocated (ps_heap (line_prog vmstep q (getp q st) l now)) o) /\
               ps_handle (line_prog vmstep q (getp q st) l now) = ps_handle (getp q st)).
  { intros q. unfold line_prog. destruct (ps_handle (getp q st)) as [hd|] eqn:H; [|rewrite H; auto].
    pose proof (exec_effects_wf (h_objs hd) now (vmstep q (h_src hd) l) (ps_heap (getp q st)) (WH q)
                  (fun o d I => WA q hd o d H I)) as (W1 & A1).
    destruct (exec_effects _ _ _ _) as [h1 err]. cbn [fst ps_heap ps_handle] in *. auto. }
  constructor; cbn [line st_index].
  - intros q. rewrite getp_line. apply LP.
  - intros q hd o d. rewrite getp_line. destruct (LP q) as (_ & A & ->). intros E I. apply A. exact (WA q hd o d E I).
  - intros name e I. rewrite getp_line. apply LP. exact (WE name e I).
  - exact WB.
Qed.

Lemma gc_wf st el : wf st -> wf (gc st el).
Proof.
  intros [WH WA WE WB]. constructor; cbn [gc st_index].
  - intros q. rewrite (getp_gc q). cbn [gc_prog ps_heap]. apply gc_heap_wf, WH.
  - intros q hd o d. rewrite (getp_gc q). cbn [gc_prog ps_heap ps_handle]. intros E I.
    apply gc_heap_wf; [apply WH|]. exact (WA q hd o d E I).
  - intros name e I. rewrite (getp_gc (e_prog e)). cbn [gc_prog ps_heap]. apply gc_heap_wf; [apply WH|]. exact (WE name e I).
  - exact WB.
Qed.

Lemma mark_wf st p m ls e : wf st -> wf (mark st p m ls e).
Proof.
  intros W. unfold mark. destruct (ps_handle (getp p st)) as [hd|] eqn:H; [|exact W].
  destruct (exec_effect (ps_heap (getp p st)) (h_objs hd) (EExpire m ls e) 0%Z) as [h'|] eqn:E; [|exact W].
  destruct (exec_effect_wf _ _ _ _ _ (wf_heaps _ W p) (fun o d I => wf_handles _ W p hd o d H I) E) as (W1 & A1).
  unfold setp. apply wf_replace; try exact W; cbn [ps_heap ps_handle].
  - exact W1.
  - exact A1.
  - intros hd0 o d E0 I. apply A1. assert (X : hd0 = hd) by (cbv zeta in *; congruence). subst hd0. exact (wf_handles _ W p hd o d H I).
  - apply W.
  - auto.
Qed.

Theorem step_wf st o : wf st -> wf (step c1 c2 omit compile vmstep st o).
Proof.
  intros W. destruct o; cbn [step]; [apply load_wf|apply unload_wf|apply line_wf|apply gc_wf|apply mark_wf]; exact W.
Qed.

Theorem reachable_wf ops : forall st, wf st -> wf (run_from c1 c2 omit compile vmstep st ops).
Proof.
  unfold run_from. induction ops as [|o r IH]; intros st W; cbn [fold_left]; [exact W|].
  apply IH, step_wf, W.
Qed.
End Steps.

(* ================================================================== *)
(* C14_keep_decl_keeps_data with every well-formedness hypothesis discharged:
   it holds after every history. *)
Theorem keep_decl_reachable (c2 omit : bool) compile vmstep ops p src st' o d :
  let st := run_from true c2 omit compile vmstep st_empty ops in
  load_r true c2 omit compile st p src = (st', LLoaded) ->
  In (mkentry p o d) (entries_of (st_index st) (d_name d)) ->
  d_hidden d = false ->
  forall hd' ms1 o' ms2,
    ps_handle (getp p st') = Some hd' -> h_objs hd' = ms1 ++ (o', d) :: ms2 ->
    (forall o2 d2, In (o2, d2) (ms1 ++ ms2) -> d_hidden d2 = false -> d_name d2 <> d_name d) ->
    let h := ps_heap (getp p st) in
    let h' := ps_heap (getp p st') in
    h_src hd' = src /\
    (exists pre post,
       entries_of (st_index st) (d_name d) = pre ++ mkentry p o d :: post /\
       entries_of (st_index st') (d_name d) = pre ++ post ++ [mkentry p o' d]) /\
    forall ls x, lv_find ls (obj_lvs h o) = Some x ->
      lv_find ls (obj_lvs h' o') = Some (mkslv ls (sl_datum x) (sl_expiry x)) /\
      forall dd, nlookup (sl_datum x) (ph_data h) = Some dd -> nlookup (sl_datum x) (ph_data h') = Some dd.
Proof.
  intros st LR IN HD hd' ms1 o' ms2 HH HO NM h h'.
  assert (W : wf st) by (apply reachable_wf, wf_empty).
  destruct (in_split _ _ IN) as (pre & post & B).
  pose proof (wf_buckets _ W (d_name d)) as K. rewrite B in K.
  destruct (kd_app_inv _ _ _ K) as (_ & V).
  assert (U : forall v, In v (pre ++ post) -> matches p d v = false).
  { intros v I. pose proof (V v I) as S. rewrite skey_sym in S. exact S. }
  pose proof (wf_entries _ W _ _ IN) as AL. cbn [e_prog e_id] in AL. unfold allocated in AL.
  destruct (nlookup o (ph_lvs (ps_heap (getp p st)))) as [lvs0|] eqn:Q; [|contradiction].
  destruct (load_keeps_data true c2 omit compile st p src st' o d pre post lvs0 LR
              (proj1 (wf_heaps _ W p)) Q B U HD (proj2 (wf_heaps _ W p) o) hd' ms1 o' ms2 HH HO NM) as (E1 & E2 & E3).
  split; [exact E1|]. split; [exists pre, post; auto|exact E3].
Qed.
