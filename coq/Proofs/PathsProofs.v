(* Proofs for C18 over Tail/Paths.v: the registration invariant of the tailer
   and its consequences. *)
From V Require Import Base.Bytes Tail.Paths.
Local Open Scope N_scope.

(* ---- small list facts ---- *)

Lemma NoDup_app_intro {A} (l1 l2 : list A) :
  NoDup l1 -> NoDup l2 -> (forall x, In x l1 -> In x l2 -> False) -> NoDup (l1 ++ l2).
Proof.
  induction l1 as [|a l1 IH]; intros H1 H2 Hd; cbn; [exact H2|].
  inversion H1 as [|? ? Hna Hnd]; subst. constructor.
  - intro Hin. apply in_app_or in Hin as [Hin|Hin]; [contradiction|].
    apply (Hd a); [left; reflexivity|exact Hin].
  - apply IH; auto. intros x Hx1 Hx2. apply (Hd x); [right; exact Hx1|exact Hx2].
Qed.

Lemma NoDup_map_eq {A B} (f : A -> B) (l : list A) a b :
  NoDup (map f l) -> In a l -> In b l -> f a = f b -> a = b.
Proof.
  induction l as [|x l IH]; cbn; intros Hnd Ha Hb Hf; [contradiction|].
  inversion Hnd as [|? ? Hn Hnd']; subst.
  destruct Ha as [->|Ha], Hb as [->|Hb]; auto.
  - exfalso. apply Hn. rewrite Hf. apply in_map. exact Hb.
  - exfalso. apply Hn. rewrite <- Hf. apply in_map. exact Ha.
Qed.

Lemma upd_same {A} (f : N -> A) k v : upd f k v k = v.
Proof. unfold upd. rewrite N.eqb_refl. reflexivity. Qed.
Lemma upd_other {A} (f : N -> A) k v x : x <> k -> upd f k v x = f x.
Proof. unfold upd. intros H. apply N.eqb_neq in H. rewrite H. reflexivity. Qed.

(* pointwise characterisation, proved directly *)
Lemma unreg_spec r cl q :
  unreg r cl q = if existsb (N.eqb q) cl then None else r q.
Proof.
  unfold unreg. revert r. induction cl as [|p cl IH]; cbn; intros r; [reflexivity|].
  rewrite IH. destruct (existsb (N.eqb q) cl); [rewrite orb_true_r; reflexivity|].
  rewrite orb_false_r. unfold upd. destruct (N.eqb q p); reflexivity.
Qed.

Lemma existsb_eqb_In q l : existsb (N.eqb q) l = true <-> In q l.
Proof.
  rewrite existsb_exists. split.
  - intros [x [Hx He]]. apply N.eqb_eq in He. subst. exact Hx.
  - intros H. exists q. split; [exact H|apply N.eqb_refl].
Qed.

Lemma unreg_in r cl q : In q cl -> unreg r cl q = None.
Proof. intros H. rewrite unreg_spec. apply existsb_eqb_In in H. rewrite H. reflexivity. Qed.
Lemma unreg_notin r cl q : ~ In q cl -> unreg r cl q = r q.
Proof.
  intros H. rewrite unreg_spec. destruct (existsb (N.eqb q) cl) eqn:E; [|reflexivity].
  apply existsb_eqb_In in E. contradiction.
Qed.

Section Proofs.
Variable U : list path.
Variable pats : list N.
Variable glob_match : N -> path -> bool.
Variable ignore_match : path -> bool.

Notation step := (step U pats glob_match ignore_match).
Notation run := (run U pats glob_match ignore_match).
Notation start := (start U pats glob_match ignore_match).
Notation poll := (poll U pats glob_match ignore_match).
Notation glob_one := (glob_one U glob_match ignore_match).
Notation ignored := (ignored ignore_match).
Notation fs_step := (fs_step U).

Definition wf_tree (t : path -> option node) : Prop := forall p, t p <> None -> In p U.

Record Inv (s : state) : Prop := {
  inv_nodup : NoDup (map s_path (streams s));
  inv_reg_of_stream : forall st, In st (streams s) -> reg s (s_path st) = Some (s_id st);
  inv_stream_of_reg : forall p sid, reg s p = Some sid ->
      exists st, In st (streams s) /\ s_path st = p /\ s_id st = sid;
  inv_count : count s = Z.of_nat (length (streams s));
  inv_ok : forall st, In st (streams s) ->
      ignore_match (s_path st) = false /\
      (exists pat, In pat pats /\ glob_match pat (s_path st) = true) /\ In (s_path st) U;
  inv_tree : wf_tree (tree s)
}.

Inductive reachable : state -> Prop :=
| r_start t l : wf_tree t -> reachable (start t l)
| r_step s o : reachable s -> reachable (step s o).

(* ---- file-system steps do not touch the tailer ---- *)

Lemma fs_step_tailer s o :
  streams (fs_step s o) = streams s /\ reg (fs_step s o) = reg s /\ count (fs_step s o) = count s.
Proof.
  destruct o; cbn [Paths.fs_step]; repeat match goal with
  | |- context [if ?c then _ else _] => destruct c
  | |- context [match tree s ?p with _ => _ end] => destruct (tree s p) as [[? ?|? ?]|]
  end; cbn; auto.
Qed.

Lemma in_U_In p : in_U U p = true -> In p U.
Proof. unfold in_U. apply existsb_eqb_In. Qed.

Lemma fs_step_tree s o : wf_tree (tree s) -> wf_tree (tree (fs_step s o)).
Proof.
  intros W. destruct o; cbn [Paths.fs_step]; try exact W.
  - destruct (in_U U p && negb (is_some (tree s p))) eqn:E; [|exact W].
    apply andb_true_iff in E as [E _]. intros q. cbn. unfold upd.
    destruct (N.eqb q p) eqn:Q; [apply N.eqb_eq in Q; subst; intros _; apply in_U_In; exact E|apply W].
  - destruct (in_U U p && negb (is_some (tree s p))) eqn:E; [|exact W].
    apply andb_true_iff in E as [E _]. intros q. cbn. unfold upd.
    destruct (N.eqb q p) eqn:Q; [apply N.eqb_eq in Q; subst; intros _; apply in_U_In; exact E|apply W].
  - destruct (in_U U p && negb (is_some (tree s p))) eqn:E; [|exact W].
    apply andb_true_iff in E as [E _]. intros q. cbn. unfold upd.
    destruct (N.eqb q p) eqn:Q; [apply N.eqb_eq in Q; subst; intros _; apply in_U_In; exact E|apply W].
  - intros q. cbn. unfold upd. destruct (N.eqb q p); [congruence|apply W].
  - destruct (rename_ok U s p q) eqn:E; [|exact W].
    unfold rename_ok in E. apply andb_true_iff in E as [E _]. apply andb_true_iff in E as [_ E].
    intros x. cbn. unfold upd. destruct (N.eqb x p); [congruence|].
    destruct (N.eqb x q) eqn:Q; [apply N.eqb_eq in Q; subst; intros _; apply in_U_In; exact E|apply W].
  - destruct (tree s p) as [[? ?|? ?]|] eqn:T; try exact W.
    intros q. cbn. unfold upd. destruct (N.eqb q p) eqn:Q; [|apply W].
    apply N.eqb_eq in Q; subst. intros _. apply W. congruence.
  - destruct (tree s p) as [[? ?|? ?]|] eqn:T; exact W.
Qed.

Lemma fs_step_inv s o : Inv s -> Inv (fs_step s o).
Proof.
  intros [I1 I2 I3 I4 I5 I6]. destruct (fs_step_tailer s o) as [Hs [Hr Hc]].
  constructor; rewrite ?Hs, ?Hr, ?Hc; auto. apply fs_step_tree; exact I6.
Qed.

(* ---- TailPath ---- *)

Lemma tail_path_tree c s p : tree (tail_path c s p) = tree s /\ len (tail_path c s p) = len s.
Proof.
  unfold tail_path. destruct (c && is_some (reg s p)); [auto|].
  destruct (tree s p) as [[[] ?|? ?]|]; cbn; auto.
Qed.

Lemma tail_path_inv s p :
  Inv s -> In p U -> ignore_match p = false -> (exists pat, In pat pats /\ glob_match pat p = true) ->
  Inv (tail_path true s p).
Proof.
  intros [I1 I2 I3 I4 I5 I6] HU Hig Hpat. unfold tail_path. cbn [andb].
  destruct (reg s p) as [sid|] eqn:R; cbn [is_some]; [constructor; auto|].
  destruct (tree s p) as [[[] i|? ?]|] eqn:T; try (constructor; auto; fail).
  assert (Hfresh : ~ In p (map s_path (streams s))).
  { intros Hin. apply in_map_iff in Hin as [st [Hp Hin]]. apply I2 in Hin. rewrite Hp in Hin. congruence. }
  constructor; cbn.
  - rewrite map_app. cbn. apply NoDup_app_intro; auto.
    + constructor; [intros []|constructor].
    + intros x Hx [<-|[]]. contradiction.
  - intros st Hin. apply in_app_or in Hin as [Hin|[<-|[]]]; cbn.
    + rewrite upd_other; [apply I2; exact Hin|]. intros E. apply Hfresh. rewrite <- E. apply in_map. exact Hin.
    + apply upd_same.
  - intros q sid. unfold upd. destruct (N.eqb q p) eqn:Q.
    + apply N.eqb_eq in Q. subst. intros E. injection E as <-.
      eexists. split; [apply in_or_app; right; left; reflexivity|]. cbn. auto.
    + intros E. destruct (I3 _ _ E) as [st [Hin Hst]]. exists st. split; [apply in_or_app; left; exact Hin|exact Hst].
  - rewrite app_length. cbn. rewrite I4. lia.
  - intros st Hin. apply in_app_or in Hin as [Hin|[<-|[]]]; [apply I5; exact Hin|]. cbn. auto.
  - exact I6.
Qed.

Lemma tail_path_reg_mono s p q :
  is_some (reg s q) = true -> is_some (reg (tail_path true s p) q) = true.
Proof.
  intros H. unfold tail_path. cbn [andb]. destruct (is_some (reg s p)) eqn:R; [exact H|].
  destruct (tree s p) as [[[] ?|? ?]|]; try exact H. cbn. unfold upd. destruct (N.eqb q p); [reflexivity|exact H].
Qed.

Lemma tail_path_registers s p i :
  tree s p = Some (File true i) -> is_some (reg (tail_path true s p) p) = true.
Proof.
  intros T. unfold tail_path. cbn [andb]. destruct (is_some (reg s p)) eqn:R; [exact R|].
  rewrite T. cbn. rewrite upd_same. reflexivity.
Qed.

(* a stream present after TailPath was there before or was opened on the
   regular readable file now at its path *)
Lemma tail_path_new c s p st :
  In st (streams (tail_path c s p)) ->
  In st (streams s) \/ tree s (s_path st) = Some (File true (s_ino st)).
Proof.
  unfold tail_path. destruct (c && is_some (reg s p)); [auto|].
  destruct (tree s p) as [[[] i|? ?]|] eqn:T; auto. cbn. intros Hin.
  apply in_app_or in Hin as [Hin|[<-|[]]]; [auto|]. right. cbn. exact T.
Qed.

(* ---- doPatternGlob over a list of names, and the poll ---- *)

Definition gstep (pat : N) (s : state) (p : path) : state :=
  if is_some (tree s p) && glob_match pat p && negb (ignored s p) then tail_path true s p else s.

Lemma glob_one_fold s pat : glob_one true s pat = fold_left (gstep pat) U s.
Proof. reflexivity. Qed.

Lemma gstep_tree pat s p : tree (gstep pat s p) = tree s /\ len (gstep pat s p) = len s.
Proof. unfold gstep. destruct (_ && _ && _); [apply tail_path_tree|auto]. Qed.

Lemma gstep_inv pat s p : In pat pats -> In p U -> Inv s -> Inv (gstep pat s p).
Proof.
  intros Hpat HU I. unfold gstep.
  destruct (is_some (tree s p) && glob_match pat p && negb (ignored s p)) eqn:E; [|exact I].
  apply andb_true_iff in E as [E Hig]. apply andb_true_iff in E as [_ Hg].
  apply tail_path_inv; auto.
  - unfold Paths.ignored in Hig. destruct (tree s p) as [[? ?|[] ?]|]; cbn in Hig; try discriminate;
      (destruct (ignore_match p); [discriminate|reflexivity]).
  - exists pat. auto.
Qed.

Lemma gstep_mono pat s p q : is_some (reg s q) = true -> is_some (reg (gstep pat s p) q) = true.
Proof. intros H. unfold gstep. destruct (_ && _ && _); [apply tail_path_reg_mono; exact H|exact H]. Qed.

Lemma gstep_new pat s p st :
  In st (streams (gstep pat s p)) -> In st (streams s) \/ tree s (s_path st) = Some (File true (s_ino st)).
Proof. unfold gstep. destruct (_ && _ && _); [apply tail_path_new|auto]. Qed.

Lemma fold_gstep_tree pat l s :
  tree (fold_left (gstep pat) l s) = tree s /\ len (fold_left (gstep pat) l s) = len s.
Proof.
  revert s. induction l as [|p l IH]; intros s; cbn; [auto|].
  destruct (IH (gstep pat s p)) as [A B]. destruct (gstep_tree pat s p) as [C D]. split; congruence.
Qed.

Lemma fold_gstep_inv pat l s :
  In pat pats -> (forall p, In p l -> In p U) -> Inv s -> Inv (fold_left (gstep pat) l s).
Proof.
  intros Hpat. revert s. induction l as [|p l IH]; intros s Hl I; cbn; [exact I|].
  apply IH; [intros q Hq; apply Hl; right; exact Hq|]. apply gstep_inv; auto. apply Hl. left. reflexivity.
Qed.

Lemma fold_gstep_mono pat l s q :
  is_some (reg s q) = true -> is_some (reg (fold_left (gstep pat) l s) q) = true.
Proof. revert s. induction l as [|p l IH]; intros s H; cbn; [exact H|]. apply IH. apply gstep_mono. exact H. Qed.

Lemma fold_gstep_new pat l s st :
  In st (streams (fold_left (gstep pat) l s)) ->
  In st (streams s) \/ tree s (s_path st) = Some (File true (s_ino st)).
Proof.
  revert s. induction l as [|p l IH]; intros s H; cbn in *; [auto|].
  apply IH in H as [H|H].
  - apply gstep_new in H. exact H.
  - right. destruct (gstep_tree pat s p) as [T _]. rewrite <- T. exact H.
Qed.

Lemma fold_gstep_registers pat l s p i :
  In p l -> tree s p = Some (File true i) -> glob_match pat p = true -> ignore_match p = false ->
  is_some (reg (fold_left (gstep pat) l s) p) = true.
Proof.
  revert s. induction l as [|q l IH]; intros s Hin T Hg Hig; cbn; [contradiction|].
  destruct Hin as [->|Hin].
  - apply fold_gstep_mono. unfold gstep, Paths.ignored. rewrite T, Hg, Hig. cbn.
    eapply tail_path_registers. exact T.
  - apply IH; auto. destruct (gstep_tree pat s q) as [T' _]. rewrite T'. exact T.
Qed.

Lemma fold_glob_tree l s :
  tree (fold_left (glob_one true) l s) = tree s /\ len (fold_left (glob_one true) l s) = len s.
Proof.
  revert s. induction l as [|pat l IH]; intros s; cbn; [auto|].
  destruct (IH (glob_one true s pat)) as [A B]. rewrite glob_one_fold in *.
  destruct (fold_gstep_tree pat U s) as [C D]. split; congruence.
Qed.

Lemma fold_glob_inv l s : (forall pat, In pat l -> In pat pats) -> Inv s -> Inv (fold_left (glob_one true) l s).
Proof.
  revert s. induction l as [|pat l IH]; intros s Hl I; cbn; [exact I|].
  apply IH; [intros q Hq; apply Hl; right; exact Hq|]. rewrite glob_one_fold.
  apply fold_gstep_inv; auto. apply Hl. left. reflexivity.
Qed.

Lemma fold_glob_mono l s q :
  is_some (reg s q) = true -> is_some (reg (fold_left (glob_one true) l s) q) = true.
Proof.
  revert s. induction l as [|pat l IH]; intros s H; cbn; [exact H|]. apply IH. rewrite glob_one_fold.
  apply fold_gstep_mono. exact H.
Qed.

Lemma fold_glob_new l s st :
  In st (streams (fold_left (glob_one true) l s)) ->
  In st (streams s) \/ tree s (s_path st) = Some (File true (s_ino st)).
Proof.
  revert s. induction l as [|pat l IH]; intros s H; cbn in *; [auto|].
  apply IH in H as [H|H].
  - rewrite glob_one_fold in H. apply fold_gstep_new in H. exact H.
  - right. rewrite glob_one_fold in H. destruct (fold_gstep_tree pat U s) as [T _]. rewrite <- T. exact H.
Qed.

Lemma fold_glob_registers l s pat p i :
  In pat l -> In p U -> tree s p = Some (File true i) -> glob_match pat p = true -> ignore_match p = false ->
  is_some (reg (fold_left (glob_one true) l s) p) = true.
Proof.
  revert s. induction l as [|q l IH]; intros s Hin HU T Hg Hig; cbn; [contradiction|].
  destruct Hin as [->|Hin].
  - apply fold_glob_mono. rewrite glob_one_fold. eapply fold_gstep_registers; eauto.
  - apply IH; auto. rewrite glob_one_fold. destruct (fold_gstep_tree q U s) as [T' _]. rewrite T'. exact T.
Qed.

Lemma poll_inv s : Inv s -> Inv (poll true s).
Proof. apply fold_glob_inv. auto. Qed.

(* ---- one stream round, repaired code ---- *)

Lemma round_cases s st :
  (exists st', fst (round true s st) = Stay st' /\ s_path st' = s_path st /\ s_id st' = s_id st /\
               exists r, tree s (s_path st) = Some (File r (s_ino st'))) \/
  fst (round true s st) = Close.
Proof.
  unfold round. destruct (tree s (s_path st)) as [[r j|? ?]|] eqn:T; cbn; auto.
  destruct (N.eqb j (s_ino st)) eqn:E.
  - apply N.eqb_eq in E. subst. left. eexists. split; [reflexivity|]. cbn. eauto.
  - destruct r; cbn; auto. left. eexists. split; [reflexivity|]. cbn. eauto.
Qed.

Lemma kept_in s sts st' :
  In st' (kept true s sts) ->
  exists st, In st sts /\ fst (round true s st) = Stay st' /\ s_path st' = s_path st /\ s_id st' = s_id st.
Proof.
  unfold kept. intros H. apply in_flat_map in H as [st [Hin H]]. exists st. split; [exact Hin|].
  destruct (round_cases s st) as [[x [E [P [I _]]]]|E]; rewrite E in H; cbn in H; [|contradiction].
  destruct H as [<-|[]]. auto.
Qed.

Lemma closed_in s sts p :
  In p (closed_paths true s sts) <-> exists st, In st sts /\ s_path st = p /\ fst (round true s st) = Close.
Proof.
  unfold closed_paths. rewrite in_flat_map. split.
  - intros [st [Hin H]]. exists st. destruct (fst (round true s st)) eqn:E; cbn in H; try contradiction.
    destruct H as [<-|[]]. auto.
  - intros [st [Hin [<- E]]]. exists st. rewrite E. cbn. auto.
Qed.

Lemma kept_closed_length s sts :
  (length (kept true s sts) + length (closed_paths true s sts) = length sts)%nat.
Proof.
  induction sts as [|st sts IH]; cbn; [reflexivity|].
  unfold kept, closed_paths in *. cbn. rewrite !app_length.
  destruct (round_cases s st) as [[x [E _]]|E]; rewrite E; cbn; lia.
Qed.

Lemma kept_nodup s sts : NoDup (map s_path sts) -> NoDup (map s_path (kept true s sts)).
Proof.
  induction sts as [|st sts IH]; cbn; intros H; [constructor|].
  inversion H as [|? ? Hn Hnd]; subst. specialize (IH Hnd).
  unfold kept in *. cbn.
  destruct (round_cases s st) as [[x [E [P _]]]|E]; rewrite E; cbn; [|exact IH].
  constructor; [|exact IH]. intros Hin. apply Hn. apply in_map_iff in Hin as [y [Py Hy]].
  apply kept_in in Hy as [z [Hz [_ [Pz _]]]]. apply in_map_iff. exists z. split; [congruence|exact Hz].
Qed.

Lemma stream_poll_inv s : Inv s -> Inv (stream_poll true s).
Proof.
  intros [I1 I2 I3 I4 I5 I6]. constructor; cbn.
  - apply kept_nodup. exact I1.
  - intros st' H. apply kept_in in H as [st [Hin [E [P I]]]].
    rewrite unreg_notin.
    + rewrite P, I. apply I2. exact Hin.
    + intros Hc. apply closed_in in Hc as [z [Hz [Pz Ez]]].
      assert (z = st) by (eapply NoDup_map_eq; eauto; congruence). subst. congruence.
  - intros p sid H. destruct (in_dec N.eq_dec p (closed_paths true s (streams s))) as [Hc|Hc].
    + rewrite unreg_in in H by exact Hc. discriminate.
    + rewrite unreg_notin in H by exact Hc. destruct (I3 _ _ H) as [st [Hin [P I]]].
      destruct (round_cases s st) as [[x [E [Px [Ix _]]]]|E].
      * exists x. split; [|split; congruence]. unfold kept. apply in_flat_map. exists st. rewrite E. cbn. auto.
      * exfalso. apply Hc. apply closed_in. exists st. auto.
  - rewrite I4. pose proof (kept_closed_length s (streams s)). lia.
  - intros st' H. apply kept_in in H as [st [Hin [_ [P _]]]]. rewrite P. apply I5. exact Hin.
  - exact I6.
Qed.

Lemma bump_inv s : Inv s -> Inv (bump s).
Proof. intros [I1 I2 I3 I4 I5 I6]. constructor; auto. Qed.

Lemma step_inv s o : Inv s -> Inv (step s o).
Proof.
  intros I. unfold Paths.step, step_gen. apply bump_inv.
  destruct o; try (apply fs_step_inv; exact I); [apply poll_inv|apply stream_poll_inv]; exact I.
Qed.

Lemma start_inv t l : wf_tree t -> Inv (start t l).
Proof.
  intros W. unfold Paths.start, start_gen. apply poll_inv. constructor; cbn; auto.
  - constructor.
  - intros ? [].
  - intros ? ? E. discriminate.
  - intros ? [].
Qed.

Lemma reachable_inv s : reachable s -> Inv s.
Proof. induction 1; [apply start_inv; assumption|apply step_inv; assumption]. Qed.

Lemma run_reachable t l h : wf_tree t -> reachable (run (start t l) h).
Proof.
  intros W. unfold Paths.run, run_gen. generalize (r_start t l W). generalize (start t l).
  induction h as [|o h IH]; intros s R; cbn; [exact R|]. apply IH. apply r_step. exact R.
Qed.

(* ---- the theorems ---- *)

Theorem complete_after_poll s p i :
  reachable s ->
  tree (step s Poll) p = Some (File true i) ->
  (exists pat, In pat pats /\ glob_match pat p = true) ->
  ignore_match p = false ->
  exists st, In st (streams (step s Poll)) /\ s_path st = p /\
             reg (step s Poll) p = Some (s_id st) /\
             forall st', In st' (streams (step s Poll)) -> s_path st' = p -> st' = st.
Proof.
  intros R T [pat [Hpat Hg]] Hig.
  pose proof (reachable_inv _ (r_step s Poll R)) as I'.
  pose proof (reachable_inv _ R) as I.
  unfold Paths.step, step_gen in *. cbn [bump tree streams reg] in *.
  destruct (fold_glob_tree pats s) as [Tp _]. fold (poll true s) in Tp.
  assert (HU : In p U). { apply (inv_tree _ I). rewrite <- Tp. congruence. }
  assert (Hr : is_some (reg (poll true s) p) = true).
  { eapply fold_glob_registers; eauto. rewrite <- Tp. exact T. }
  destruct (reg (poll true s) p) as [sid|] eqn:E; [|discriminate].
  destruct (inv_stream_of_reg _ I' p sid) as [st [Hin [P Is]]]; [exact E|].
  exists st. cbn in Hin. repeat split; auto; [congruence|].
  intros st' Hin' P'. eapply NoDup_map_eq; [apply (inv_nodup _ I')| | |]; cbn; auto. congruence.
Qed.

Theorem never_ignored s st :
  reachable s -> In st (streams s) ->
  ignore_match (s_path st) = false /\ (exists pat, In pat pats /\ glob_match pat (s_path st) = true).
Proof. intros R H. destruct (inv_ok _ (reachable_inv _ R) st H) as [A [B _]]. auto. Qed.

(* the map's keys are exactly the paths of the live streams *)
Theorem registered_iff_live s p :
  reachable s -> (reg s p <> None <-> exists st, In st (streams s) /\ s_path st = p).
Proof.
  intros R. pose proof (reachable_inv _ R) as I. split.
  - destruct (reg s p) as [sid|] eqn:E; [|congruence]. intros _.
    destruct (inv_stream_of_reg _ I _ _ E) as [st [H [P _]]]. eauto.
  - intros [st [H <-]]. rewrite (inv_reg_of_stream _ I _ H). discriminate.
Qed.

(* after a stream poll every remaining stream reads the regular file that is
   now at its path: no stream is left on a directory or a vanished name *)
Theorem after_stream_poll_on_file s st :
  In st (streams (step s StreamPoll)) ->
  exists r, tree (step s StreamPoll) (s_path st) = Some (File r (s_ino st)).
Proof.
  unfold Paths.step, step_gen. cbn. intros H. apply kept_in in H as [x [_ [E [P _]]]].
  destruct (round_cases s x) as [[y [Ey [_ [_ [r T]]]]]|Ec]; [|congruence].
  rewrite Ey in E. injection E as ->. exists r. rewrite P. exact T.
Qed.

(* a pattern poll starts streams on readable regular files only *)
Theorem poll_starts_on_files s st :
  In st (streams (step s Poll)) ->
  In st (streams s) \/ tree (step s Poll) (s_path st) = Some (File true (s_ino st)).
Proof.
  unfold Paths.step, step_gen. cbn. intros H. apply fold_glob_new in H as [H|H]; [auto|right].
  destruct (fold_glob_tree pats s) as [T _]. unfold Paths.poll. rewrite T. exact H.
Qed.

(* file-system operations start no stream *)
Theorem fs_starts_nothing s o :
  o <> Poll -> o <> StreamPoll -> streams (step s o) = streams s /\ reg (step s o) = reg s.
Proof.
  intros A B. destruct (fs_step_tailer s o) as [X [Y _]].
  unfold Paths.step, step_gen. destruct o; try congruence; cbn [bump streams reg]; auto.
Qed.

Theorem single_stream s :
  reachable s ->
  NoDup (map s_path (streams s)) /\ count s = Z.of_nat (length (streams s)).
Proof. intros R. pose proof (reachable_inv _ R) as I. split; [apply (inv_nodup _ I)|apply (inv_count _ I)]. Qed.

(* ---- forwarded lines ---- *)

Definition key (f : fwd) : N * N * N := (f_path f, f_ino f, f_idx f).

Lemma recs_in p sid ino from n f :
  In f (recs p sid ino from n) ->
  f_path f = p /\ f_sid f = sid /\ f_ino f = ino /\ from <= f_idx f.
Proof.
  revert from. induction n as [|n IH]; intros from H; cbn in H; [contradiction|].
  destruct H as [<-|H]; [cbn; repeat split; lia|].
  apply IH in H as [A [B [C D]]]. repeat split; auto. lia.
Qed.

Lemma recs_nodup p sid ino from n : NoDup (map key (recs p sid ino from n)).
Proof.
  revert from. induction n as [|n IH]; intros from; cbn; constructor; [|apply IH].
  intros H. apply in_map_iff in H as [f [K H]]. apply recs_in in H as [_ [_ [_ D]]].
  unfold key in K. cbn in K. injection K as _ _ E. lia.
Qed.

Lemma round_fwd r s st f :
  In f (snd (round r s st)) -> f_path f = s_path st /\ f_sid f = s_id st.
Proof.
  unfold round. set (got := recs _ _ _ _ _).
  assert (G : In f got -> f_path f = s_path st /\ f_sid f = s_id st).
  { intros H. apply recs_in in H as [A [B _]]. auto. }
  destruct (tree s (s_path st)) as [[rd j|? ?]|]; cbn; auto.
  destruct (N.eqb j (s_ino st)); cbn; auto. destruct rd; cbn; [|destruct r; auto].
  intros H. apply in_app_or in H as [H|H]; [auto|]. apply recs_in in H as [A [B _]]. auto.
Qed.

Lemma round_nodup r s st : NoDup (map key (snd (round r s st))).
Proof.
  unfold round. set (got := recs _ _ _ _ _).
  assert (G : NoDup (map key got)) by apply recs_nodup.
  destruct (tree s (s_path st)) as [[rd j|? ?]|]; cbn; auto.
  destruct (N.eqb j (s_ino st)) eqn:E; cbn; auto. destruct rd; cbn; [|destruct r; auto].
  rewrite map_app. apply NoDup_app_intro; [exact G|apply recs_nodup|].
  intros k H1 H2. apply in_map_iff in H1 as [f1 [K1 H1]]. apply in_map_iff in H2 as [f2 [K2 H2]].
  apply recs_in in H1 as [_ [_ [A _]]]. apply recs_in in H2 as [_ [_ [B _]]].
  unfold key in *. subst k. injection K2 as _ C _. apply N.eqb_neq in E. congruence.
Qed.

Lemma batch_nodup_gen r s sts :
  NoDup (map s_path sts) -> NoDup (map key (flat_map (fun st => snd (round r s st)) sts)).
Proof.
  induction sts as [|st sts IH]; cbn; intros H; [constructor|].
  inversion H as [|? ? Hn Hnd]; subst. rewrite map_app. apply NoDup_app_intro; [apply round_nodup|apply IH; exact Hnd|].
  intros k H1 H2. apply in_map_iff in H1 as [f1 [K1 H1]]. apply in_map_iff in H2 as [f2 [K2 H2]].
  apply round_fwd in H1 as [P1 _]. apply in_flat_map in H2 as [st2 [Hin2 H2]]. apply round_fwd in H2 as [P2 _].
  apply Hn. apply in_map_iff. exists st2. split; [|exact Hin2].
  unfold key in *. subst k. injection K2 as C _ _. congruence.
Qed.

(* in one stream poll no line of a file is forwarded twice under a path, and
   each forwarded line comes from the one live stream of that path *)
Theorem batch_once s :
  reachable s ->
  NoDup (map key (batch true s)) /\
  forall f, In f (batch true s) ->
    exists st, In st (streams s) /\ s_path st = f_path f /\ s_id st = f_sid f /\
               forall st', In st' (streams s) -> s_path st' = f_path f -> st' = st.
Proof.
  intros R. pose proof (reachable_inv _ R) as I. split.
  - apply batch_nodup_gen. apply (inv_nodup _ I).
  - intros f H. unfold batch in H. apply in_flat_map in H as [st [Hin H]]. apply round_fwd in H as [P S].
    exists st. repeat split; auto. intros st' Hin' P'. eapply NoDup_map_eq; [apply (inv_nodup _ I)| | |]; auto. congruence.
Qed.

(* what the stream poll appends to the output is that batch *)
Lemma stream_poll_out s : out (step s StreamPoll) = out s ++ batch true s.
Proof. reflexivity. Qed.

End Proofs.
