(* Parsing a whole program as the (repaired) unparser prints it gives it back. *)
From V Require Import Base.Bytes Lang.Grammar Lang.Unparse Lang.UnparseDecl Lang.Program
  Proofs.UnparseProofs Proofs.UnparseDeclProofs.
From Coq Require Import Arith.

Ltac pev_intro n :=
  exists n; intros f Hf; destruct f as [|f]; [lia|]; cbn [pblock pstmt1].

(* ---- spans ---- *)

Definition not_pe (r : list ptk) : Prop := match r with PE _ :: _ => False | _ => True end.
Definition not_pd (r : list ptk) : Prop := match r with PD _ :: _ => False | _ => True end.

Lemma span_pe_app l r : not_pe r -> span_pe (pes l ++ r) = (l, r).
Proof.
  intros H. induction l as [|t l IH]; cbn [pes map app span_pe].
  - destruct r as [|[] r']; try reflexivity. contradiction.
  - fold (pes l). rewrite IH. reflexivity.
Qed.

Lemma span_pd_app l r : not_pd r -> span_pd (pds l ++ r) = (l, r).
Proof.
  intros H. induction l as [|t l IH]; cbn [pds map app span_pd].
  - destruct r as [|[] r']; try reflexivity. contradiction.
  - fold (pds l). rewrite IH. reflexivity.
Qed.

(* ---- rules for pblock ---- *)

Lemma B_nil : ev (fun f => pblock f []) (BNil, []).
Proof. pev_intro 1. reflexivity. Qed.

Lemma B_rc r : ev (fun f => pblock f (PRC :: r)) (BNil, PRC :: r).
Proof. pev_intro 1. reflexivity. Qed.

Lemma B_nl r R : ev (fun f => pblock f r) R -> ev (fun f => pblock f (PNL :: r)) R.
Proof. intros [n H]. pev_intro (S n). apply H. lia. Qed.

Definition stmt_start (ts : list ptk) : Prop :=
  match ts with [] => False | PRC :: _ => False | PNL :: _ => False | _ => True end.

Lemma B_stmt ts s r b r' :
  stmt_start ts -> ev (fun f => pstmt1 f ts) (s, r) -> ev (fun f => pblock f r) (b, r') ->
  ev (fun f => pblock f ts) (BCons s b, r').
Proof.
  intros Hs [n1 H1] [n2 H2]. pev_intro (S (max n1 n2)).
  destruct ts as [|[] ts']; try contradiction; rewrite H1 by lia; rewrite H2 by lia; reflexivity.
Qed.

(* ---- rules for pstmt1 ---- *)

Lemma S_next r : ev (fun f => pstmt1 f (PNext :: r)) (SNext, r).
Proof. pev_intro 1. reflexivity. Qed.
Lemma S_stop r : ev (fun f => pstmt1 f (PStop :: r)) (SStop, r).
Proof. pev_intro 1. reflexivity. Qed.

Lemma S_otherwise r b r' :
  ev (fun f => pblock f r) (b, PRC :: r') ->
  ev (fun f => pstmt1 f (POtherwise :: PLC :: r)) (SOtherwise b, r').
Proof. intros [n H]. pev_intro (S n). rewrite H by lia. reflexivity. Qed.

Lemma S_def x r b r' :
  ev (fun f => pblock f r) (b, PRC :: r') ->
  ev (fun f => pstmt1 f (PDef :: PE (TId x) :: PLC :: r)) (SDef x b, r').
Proof. intros [n H]. pev_intro (S n). rewrite H by lia. reflexivity. Qed.

Lemma S_deco x r b r' :
  ev (fun f => pblock f r) (b, PRC :: r') ->
  ev (fun f => pstmt1 f (PDeco x :: PLC :: r)) (SDeco x b, r').
Proof. intros [n H]. pev_intro (S n). rewrite H by lia. reflexivity. Qed.

Lemma ev_pcond e : ev (fun f => pcond f (raw e)) e.
Proof.
  destruct (ev_pexp_all e) as [n H]. exists n. intros f Hf. unfold pcond. rewrite (H f Hf). reflexivity.
Qed.

Lemma S_const x es r e :
  not_pe r -> ev (fun f => pcond f es) e ->
  ev (fun f => pstmt1 f (PConst :: PE (TId x) :: pes es ++ r)) (SConst x e, r).
Proof.
  intros Hr [n H]. pev_intro (S n). rewrite (span_pe_app es r Hr). rewrite H by lia. reflexivity.
Qed.

Lemma S_del es r e ns :
  not_pe r -> match r with PAfter _ :: _ => False | _ => True end ->
  ev (fun f => ppostfix f es) e ->
  ev (fun f => pstmt1 f (PDel :: pes es ++ (if Z.eqb ns 0 then [] else [PAfter ns]) ++ r)) (SDel e ns, r).
Proof.
  intros Hr Ha [n H]. pev_intro (S n).
  destruct (Z.eqb_spec ns 0) as [->|Hns].
  - cbn [app]. rewrite (span_pe_app es r Hr). rewrite H by lia.
    destruct r as [|[] r']; try reflexivity. contradiction.
  - cbn [app]. rewrite (span_pe_app es (PAfter ns :: r) I). rewrite H by lia. reflexivity.
Qed.

Lemma S_decl ds r d :
  ds <> [] -> not_pd r -> parse_decl ds = Some d ->
  ev (fun f => pstmt1 f (pds ds ++ r)) (SDecl d, r).
Proof.
  intros Hne Hr Hp. pev_intro 1. destruct ds as [|t l]; [contradiction|].
  change (pds (t :: l) ++ r) with (PD t :: (pds l ++ r)).
  change (span_pd (PD t :: pds l ++ r)) with (span_pd (pds (t :: l) ++ r)).
  rewrite (span_pd_app (t :: l) r Hr). rewrite Hp. reflexivity.
Qed.

Lemma S_expr es r a :
  es <> [] -> evs es a -> ev (fun f => pstmt1 f (pes es ++ PNL :: r)) (SExprS a, r).
Proof.
  intros Hne [n H]. pev_intro (S n). destruct es as [|t l]; [contradiction|].
  change (pes (t :: l) ++ PNL :: r) with (PE t :: (pes l ++ PNL :: r)).
  change (span_pe (PE t :: pes l ++ PNL :: r)) with (span_pe (pes (t :: l) ++ PNL :: r)).
  rewrite (span_pe_app (t :: l) (PNL :: r) I). rewrite H by lia. reflexivity.
Qed.

Lemma S_if es c r t r' :
  es <> [] -> ev (fun f => pcond f es) c ->
  ev (fun f => pblock f r) (t, PRC :: r') ->
  match r' with PElse :: PLC :: _ => False | _ => True end ->
  ev (fun f => pstmt1 f (pes es ++ PLC :: r)) (SIf c t, r').
Proof.
  intros Hne [n1 H1] [n2 H2] Hr. pev_intro (S (max n1 n2)). destruct es as [|t0 l]; [contradiction|].
  change (pes (t0 :: l) ++ PLC :: r) with (PE t0 :: (pes l ++ PLC :: r)).
  change (span_pe (PE t0 :: pes l ++ PLC :: r)) with (span_pe (pes (t0 :: l) ++ PLC :: r)).
  rewrite (span_pe_app (t0 :: l) (PLC :: r) I). rewrite H1 by lia. rewrite H2 by lia.
  destruct r' as [|[] r2]; try reflexivity.
  destruct r2 as [|[] r3]; try reflexivity. contradiction.
Qed.

Lemma S_ifelse es c r t r2 e r' :
  es <> [] -> ev (fun f => pcond f es) c ->
  ev (fun f => pblock f r) (t, PRC :: PElse :: PLC :: r2) ->
  ev (fun f => pblock f r2) (e, PRC :: r') ->
  ev (fun f => pstmt1 f (pes es ++ PLC :: r)) (SIfElse c t e, r').
Proof.
  intros Hne [n1 H1] [n2 H2] [n3 H3]. pev_intro (S (max n1 (max n2 n3))).
  destruct es as [|t0 l]; [contradiction|].
  change (pes (t0 :: l) ++ PLC :: r) with (PE t0 :: (pes l ++ PLC :: r)).
  change (span_pe (PE t0 :: pes l ++ PLC :: r)) with (span_pe (pes (t0 :: l) ++ PLC :: r)).
  rewrite (span_pe_app (t0 :: l) (PLC :: r) I). rewrite H1 by lia. rewrite H2 by lia.
  rewrite H3 by lia. reflexivity.
Qed.

(* ---- printed expressions and declarations are not empty ---- *)

Lemma raw_nonempty e : raw e <> [].
Proof.
  destruct e.
  - discriminate.
  - destruct idx; discriminate.
  - destruct args; discriminate.
  - rewrite raw_bin. intros H. symmetry in H. exact (app_cons_not_nil _ _ _ H).
  - rewrite raw_not. discriminate.
  - rewrite raw_post. intros H. symmetry in H. exact (app_cons_not_nil _ _ _ H).
Qed.

Lemma unparse_nonempty a : unparse a <> [].
Proof.
  destruct a; cbn [unparse]; [apply raw_nonempty|].
  intros H. symmetry in H. exact (app_cons_not_nil _ _ _ H).
Qed.

Lemma unparse_decl_nonempty d : unparse_decl d <> [].
Proof.
  unfold unparse_decl. destruct (d_hidden d); cbn [app]; discriminate.
Qed.

Lemma ev_ppostfix e : 9 <= level e -> ev (fun f => ppostfix f (raw e)) e.
Proof.
  intros H. destruct main_all as (MA & _). destruct (MA e) as (_ & _ & U & _).
  destruct (U ltac:(lia) [] I) as [n Hn]. rewrite app_nil_r in Hn.
  exists n. intros f Hf. unfold ppostfix. rewrite (Hn f Hf).
  apply Nat.leb_le in H. rewrite H. reflexivity.
Qed.

(* what is left after a statement inside a block: only an expression statement
   consumes its newline; del writes one more *)
Definition aft (s : stmt) (rest : list ptk) : list ptk :=
  match s with
  | SExprS _ => rest
  | SDel _ _ => PNL :: PNL :: rest
  | _ => PNL :: rest
  end.

Definition closes (rest : list ptk) : Prop :=
  match rest with [] => True | PRC :: _ => True | _ => False end.

Lemma pblock_after s X R : ev (fun f => pblock f X) R -> ev (fun f => pblock f (aft s X)) R.
Proof. intros H. destruct s; cbn [aft]; auto using B_nl. Qed.

Scheme stmt_mut := Induction for stmt Sort Prop
  with block_mut := Induction for block Sort Prop.
Combined Scheme stmt_block_ind from stmt_mut, block_mut.

Ltac reassoc := cbn [unparse_stmt app]; repeat (rewrite <- app_assoc; cbn [app]).

Lemma stmt_starts s rest : stmt_start (unparse_stmt s ++ rest).
Proof.
  destruct s; cbn [unparse_stmt app]; try exact I.
  - pose proof (unparse_nonempty s). destruct (unparse s); [contradiction|exact I].
  - pose proof (unparse_decl_nonempty d). destruct (unparse_decl d); [contradiction|exact I].
  - pose proof (raw_nonempty c). destruct (raw c); [contradiction|exact I].
  - pose proof (raw_nonempty c). destruct (raw c); [contradiction|exact I].
Qed.

Theorem prog_main :
  (forall s, wf_stmt s = true -> forall rest,
     ev (fun f => pstmt1 f (unparse_stmt s ++ PNL :: rest)) (s, aft s rest)) /\
  (forall b, wf_block b = true -> forall rest, closes rest ->
     ev (fun f => pblock f (unparse_block b ++ rest)) (b, rest)).
Proof.
  apply stmt_block_ind.
  - (* SExprS *) intros a _ rest. cbn [unparse_stmt aft].
    apply S_expr; [apply unparse_nonempty|apply roundtrip].
  - (* SDecl *) intros d _ rest. cbn [unparse_stmt aft].
    apply S_decl; [apply unparse_decl_nonempty|exact I|apply decl_roundtrip].
  - (* SConst *) intros x e _ rest. reassoc. cbn [aft].
    apply S_const; [exact I|apply ev_pcond].
  - (* SIf *) intros c t IHt W rest. cbn [wf_stmt] in W. reassoc. cbn [aft].
    eapply S_if; [apply raw_nonempty|apply ev_pcond| |exact I].
    apply B_nl. apply IHt; [exact W|exact I].
  - (* SIfElse *) intros c t IHt e IHe W rest. cbn [wf_stmt] in W.
    apply Bool.andb_true_iff in W. destruct W as (Wt & We). reassoc. cbn [aft].
    eapply S_ifelse; [apply raw_nonempty|apply ev_pcond| |].
    + apply B_nl. apply IHt; [exact Wt|exact I].
    + apply B_nl. apply IHe; [exact We|exact I].
  - (* SOtherwise *) intros t IHt W rest. cbn [wf_stmt] in W. reassoc. cbn [aft].
    eapply S_otherwise. apply B_nl. apply IHt; [exact W|exact I].
  - (* SDef *) intros x b IHb W rest. cbn [wf_stmt] in W. reassoc. cbn [aft].
    eapply S_def. apply B_nl. apply IHb; [exact W|exact I].
  - (* SDeco *) intros x b IHb W rest. cbn [wf_stmt] in W. reassoc. cbn [aft].
    eapply S_deco. apply B_nl. apply IHb; [exact W|exact I].
  - intros _ rest. apply S_next.
  - intros _ rest. apply S_stop.
  - (* SDel *) intros e ns W rest. cbn [wf_stmt] in W. apply Nat.leb_le in W.
    cbn [unparse_stmt aft app]. rewrite <- app_assoc. rewrite <- app_assoc. cbn [app].
    apply (S_del (raw e) (PNL :: PNL :: rest) e ns); [exact I|exact I|apply ev_ppostfix, W].
  - (* BNil *) intros _ rest C. cbn [unparse_block app].
    destruct rest as [|[] r]; try contradiction; [apply B_nil|apply B_rc].
  - (* BCons *) intros s IHs b IHb W rest C. cbn [wf_block] in W.
    apply Bool.andb_true_iff in W. destruct W as (Ws & Wb).
    cbn [unparse_block]. rewrite <- app_assoc. cbn [app].
    eapply B_stmt; [apply stmt_starts|apply IHs, Ws|].
    apply pblock_after. apply IHb; assumption.
Qed.

Definition evp (ts : list ptk) (p : program) : Prop :=
  exists n, forall f, n <= f -> pprog f ts = Some p.

Theorem program_roundtrip p : wf_block p = true -> evp (unparse_prog p) p.
Proof.
  intros W. destruct prog_main as (_ & PB).
  destruct (PB p W [] I) as [n H]. rewrite app_nil_r in H.
  exists n. intros f Hf. unfold pprog, unparse_prog. rewrite (H f Hf). reflexivity.
Qed.

Lemma evp_functional ts p q : evp ts p -> evp ts q -> p = q.
Proof.
  intros [n1 H1] [n2 H2]. specialize (H1 (max n1 n2) ltac:(lia)). specialize (H2 (max n1 n2) ltac:(lia)).
  congruence.
Qed.

Theorem program_idempotent p q :
  wf_block p = true -> evp (unparse_prog p) q -> unparse_prog q = unparse_prog p.
Proof. intros W H. rewrite (evp_functional _ _ _ H (program_roundtrip p W)). reflexivity. Qed.

(* ---- more fuel never changes an answer of the program parser ---- *)

Lemma pcond_mono f f' es e : f <= f' -> pcond f es = Some e -> pcond f' es = Some e.
Proof.
  intros Hf H. unfold pcond in *. destruct (pexp f 1 es) as [[e0 r]|] eqn:E; [|discriminate].
  rewrite (pexp_mono f f' 1 es _ Hf E). exact H.
Qed.

Lemma ppostfix_mono f f' es e : f <= f' -> ppostfix f es = Some e -> ppostfix f' es = Some e.
Proof.
  intros Hf H. unfold ppostfix in *. destruct (punary f es) as [[[e0 lv] r]|] eqn:E; [|discriminate].
  rewrite (punary_mono f f' es _ Hf E). exact H.
Qed.

Lemma pblock_S f ts :
  pblock (S f) ts =
  match ts with
  | [] => Some (BNil, [])
  | PRC :: _ => Some (BNil, ts)
  | PNL :: r => pblock f r
  | _ => match pstmt1 f ts with
         | Some (s, r) => match pblock f r with Some (b, r') => Some (BCons s b, r') | None => None end
         | None => None
         end
  end.
Proof. reflexivity. Qed.

Lemma pblock_mono_step f :
  (forall ts r, pstmt1 f ts = Some r -> pstmt1 (S f) ts = Some r) ->
  (forall ts r, pblock f ts = Some r -> pblock (S f) ts = Some r) ->
  forall ts r, pblock (S f) ts = Some r -> pblock (S (S f)) ts = Some r.
Proof.
  intros IHs IHb ts r H. rewrite pblock_S in H. rewrite pblock_S.
  destruct ts as [|t ts']; [exact H|].
  destruct t; try (apply IHb; exact H); try exact H;
    (destruct (pstmt1 f _) as [[s0 r0]|] eqn:E; [|discriminate]; rewrite (IHs _ _ E);
     destruct (pblock f r0) as [[b0 r1]|] eqn:E2; [|discriminate]; rewrite (IHb _ _ E2); exact H).
Qed.

Lemma pstmt1_S f ts :
  pstmt1 (S f) ts =
  match ts with
  | PNext :: r => Some (SNext, r)
  | PStop :: r => Some (SStop, r)
  | POtherwise :: PLC :: r =>
      match pblock f r with Some (b, PRC :: r') => Some (SOtherwise b, r') | _ => None end
  | PDef :: PE (TId x) :: PLC :: r =>
      match pblock f r with Some (b, PRC :: r') => Some (SDef x b, r') | _ => None end
  | PDeco x :: PLC :: r =>
      match pblock f r with Some (b, PRC :: r') => Some (SDeco x b, r') | _ => None end
  | PConst :: PE (TId x) :: r =>
      let (es, r') := span_pe r in
      match pcond f es with Some e => Some (SConst x e, r') | None => None end
  | PDel :: r =>
      let (es, r') := span_pe r in
      match ppostfix f es with
      | Some e => match r' with
                  | PAfter ns :: r'' => Some (SDel e ns, r'')
                  | _ => Some (SDel e 0%Z, r')
                  end
      | None => None
      end
  | PD _ :: _ =>
      let (ds, r') := span_pd ts in
      match parse_decl ds with Some d => Some (SDecl d, r') | None => None end
  | PE _ :: _ =>
      let (es, r') := span_pe ts in
      match r' with
      | PNL :: r'' => match pstmt f es with Some a => Some (SExprS a, r'') | None => None end
      | PLC :: r'' =>
          match pcond f es with
          | Some c =>
              match pblock f r'' with
              | Some (t, PRC :: PElse :: PLC :: r3) =>
                  match pblock f r3 with
                  | Some (e, PRC :: r4) => Some (SIfElse c t e, r4)
                  | _ => None
                  end
              | Some (t, PRC :: r3) => Some (SIf c t, r3)
              | _ => None
              end
          | None => None
          end
      | _ => None
      end
  | _ => None
  end.
Proof. reflexivity. Qed.

Lemma pstmt1_mono_step f :
  (forall ts r, pblock f ts = Some r -> pblock (S f) ts = Some r) ->
  forall ts r, pstmt1 (S f) ts = Some r -> pstmt1 (S (S f)) ts = Some r.
Proof.
  intros IHb ts r H. rewrite pstmt1_S in H. rewrite pstmt1_S.
  assert (Hle : f <= S f) by lia.
  repeat first
    [ discriminate
    | exact H
    | match type of H with
      | context [pblock f ?x] =>
          let E := fresh "E" in
          destruct (pblock f x) as [[? ?]|] eqn:E; [rewrite (IHb _ _ E)|discriminate]
      | context [pcond f ?x] =>
          let E := fresh "E" in
          destruct (pcond f x) eqn:E; [rewrite (pcond_mono f (S f) _ _ Hle E)|discriminate]
      | context [ppostfix f ?x] =>
          let E := fresh "E" in
          destruct (ppostfix f x) eqn:E; [rewrite (ppostfix_mono f (S f) _ _ Hle E)|discriminate]
      | context [pstmt f ?x] =>
          let E := fresh "E" in
          destruct (pstmt f x) eqn:E; [rewrite (pstmt_mono f (S f) _ _ Hle E)|discriminate]
      | context [span_pe ?x] => destruct (span_pe x)
      | context [span_pd ?x] => destruct (span_pd x)
      | context [parse_decl ?x] => destruct (parse_decl x)
      | context [match ?v with _ => _ end] => is_var v; destruct v
      end ].
Qed.

Lemma pmono f :
  (forall ts r, pblock f ts = Some r -> pblock (S f) ts = Some r) /\
  (forall ts r, pstmt1 f ts = Some r -> pstmt1 (S f) ts = Some r).
Proof.
  induction f as [|f (IHb & IHs)].
  - split; intros; discriminate.
  - split.
    + apply pblock_mono_step; assumption.
    + apply pstmt1_mono_step; assumption.
Qed.

Lemma pblock_mono f f' ts r : f <= f' -> pblock f ts = Some r -> pblock f' ts = Some r.
Proof. induction 1 as [|m Hle IH]; [auto|]. intros E. apply (pmono m), IH, E. Qed.

Lemma pprog_stable f ts p : pprog f ts = Some p -> evp ts p.
Proof.
  intros H. exists f. intros f' Hf. unfold pprog in *.
  destruct (pblock f ts) as [[b r]|] eqn:E; [|discriminate].
  rewrite (pblock_mono f f' ts _ Hf E). exact H.
Qed.

(* whenever the fixed-fuel program parser answers on the formatter's output it
   answers with the program that was formatted *)
Theorem parse_prog_unparse_sound p q :
  wf_block p = true -> parse_prog (unparse_prog p) = Some q -> q = p.
Proof.
  intros W H. apply pprog_stable in H. exact (evp_functional _ _ _ H (program_roundtrip p W)).
Qed.
