(* Proofs about Lang/TimeReg.v: the repaired memo is transparent (memo_sound),
   so a line's effect is a function of the line, its clock and the metrics
   alone (C05), and the time register follows strptime / settime and defaults
   to the wall clock (C07).  The unrepaired memo fails both. *)
From Coq Require Import List ZArith Bool Lia.
From V Require Import Base.Bytes Base.Int64 Lang.Memo Lang.TimeReg Proofs.MemoProofs.
Import ListNotations.
Local Open Scope Z_scope.

Arguments raise {M}. Arguments set_time {M}. Arguments push {M}. Arguments write {M}.

Lemma store_get_set_same m c st : store_get m (store_set m c st) = c.
Proof.
  induction st as [|[m' c'] r IH]; cbn.
  - now rewrite N.eqb_refl.
  - destruct (N.eqb m m') eqn:E; cbn; rewrite ?N.eqb_refl, ?E; auto.
Qed.

Lemma store_get_set_other m m' c st : m' <> m -> store_get m' (store_set m c st) = store_get m' st.
Proof.
  intros NE. induction st as [|[m2 c2] r IH]; cbn.
  - destruct (N.eqb m' m) eqn:E; [apply N.eqb_eq in E; contradiction|reflexivity].
  - destruct (N.eqb m m2) eqn:E; cbn.
    + apply N.eqb_eq in E. subst m2.
      destruct (N.eqb m' m) eqn:E2; [apply N.eqb_eq in E2; contradiction|reflexivity].
    + destruct (N.eqb m' m2); auto.
Qed.

Lemma store_get_del_other m m' st : m' <> m -> store_get m' (store_del m st) = store_get m' st.
Proof.
  intros NE. induction st as [|[m2 c2] r IH]; cbn; [reflexivity|].
  destruct (N.eqb m m2) eqn:E; cbn.
  - apply N.eqb_eq in E. subst m2.
    destruct (N.eqb m' m) eqn:E2; [apply N.eqb_eq in E2; contradiction|reflexivity].
  - destruct (N.eqb m' m2); auto.
Qed.

Lemma store_get_touch_other now m m' st : m' <> m -> store_get m' (store_touch now m st) = store_get m' st.
Proof.
  intros NE. unfold store_touch. destruct (store_mem m st); [reflexivity|].
  now apply store_get_set_other.
Qed.

(* GetDatum never changes the value a slot reads as: an absent slot reads as 0 *)
Lemma store_get_touch now m m' st : d_val (store_get m' (store_touch now m st)) = d_val (store_get m' st).
Proof.
  unfold store_touch. destruct (store_mem m st) eqn:E; [reflexivity|].
  destruct (N.eq_dec m' m) as [->|NE]; [|now rewrite store_get_set_other].
  rewrite store_get_set_same. cbn.
  induction st as [|[m2 c2] r IH]; cbn in *; [reflexivity|].
  destruct (N.eqb m m2); [discriminate|auto].
Qed.

Lemma store_mem_set m m' c st : store_mem m' (store_set m c st) = N.eqb m' m || store_mem m' st.
Proof.
  induction st as [|[m2 c2] r IH]; cbn.
  - destruct (N.eqb m' m); reflexivity.
  - destruct (N.eqb m m2) eqn:E; cbn.
    + apply N.eqb_eq in E. subst m2. destruct (N.eqb m' m); reflexivity.
    + rewrite IH. destruct (N.eqb m' m2) eqn:E2; [|reflexivity]. now rewrite orb_true_r.
Qed.

Lemma store_mem_touch now m st : store_mem m (store_touch now m st) = true.
Proof.
  unfold store_touch. destruct (store_mem m st) eqn:E; [exact E|].
  now rewrite store_mem_set, N.eqb_refl.
Qed.

(* no label set is listed twice *)
Fixpoint store_nodup (st : store) : bool :=
  match st with
  | [] => true
  | (m, _) :: r => negb (store_mem m r) && store_nodup r
  end.

Lemma store_mem_del_other m m' st : m' <> m -> store_mem m' (store_del m st) = store_mem m' st.
Proof.
  intros NE. induction st as [|[m2 c2] r IH]; cbn; [reflexivity|].
  destruct (N.eqb m m2) eqn:E; cbn.
  - apply N.eqb_eq in E. subst m2.
    destruct (N.eqb m' m) eqn:E2; [apply N.eqb_eq in E2; contradiction|reflexivity].
  - now rewrite IH.
Qed.

(* after RemoveDatum the label set is gone *)
Lemma store_mem_del_same m st : store_nodup st = true -> store_mem m (store_del m st) = false.
Proof.
  induction st as [|[m2 c2] r IH]; cbn; [reflexivity|]. intros H.
  apply andb_true_iff in H. destruct H as [H1 H2].
  destruct (N.eqb m m2) eqn:E; cbn.
  - apply N.eqb_eq in E. subst m2. now apply negb_true_iff in H1.
  - rewrite E. auto.
Qed.

Lemma zero_ns_val : zero_ns = -62135596800000000000.
Proof. reflexivity. Qed.

Lemma settime_not_zero n : n <> zero_s -> (n * ns_per_s =? zero_ns) = false.
Proof.
  intros NE. apply Z.eqb_neq. unfold zero_ns, ns_per_s, zero_s in *. lia.
Qed.

Lemma settime_unix n : n * ns_per_s / ns_per_s = n.
Proof. unfold ns_per_s. apply Z.div_mul. lia. Qed.

Section Proofs.
  Variable time_parse : N -> bytes -> bytes -> option ptime.
  Variable add_years : N -> bytes -> bytes -> Z -> Z.

  Notation adjust := (adjust add_years).
  Notation strptime_spec := (strptime_spec time_parse add_years).
  Notation strptime_new := (strptime_new time_parse add_years).
  Notation step_new := (step_new time_parse add_years).
  Notation exec_new := (exec_new time_parse add_years).
  Notation run_line_new := (run_line_new time_parse add_years).
  Notation run_lines_new := (run_lines_new time_parse add_years).
  Notation time_spec := (time_spec time_parse add_years).

  (* every memo entry maps (layout, value) to what the time library gives *)
  Definition memo_sound (cfg : config) (m : memo_new) : Prop :=
    lru_all (fun (k : key2) (p : ptime) => time_parse (c_loc cfg) (fst k) (snd k) = Some p) m.

  Lemma memo_sound_nil cfg : memo_sound cfg [].
  Proof. apply lru_all_nil. Qed.

  Lemma memo_sound_hit cfg k m p m' :
    memo_sound cfg m -> lru_get key2_eqb k m = (Some p, m') ->
    time_parse (c_loc cfg) (fst k) (snd k) = Some p /\ memo_sound cfg m'.
  Proof. intros S G. exact (lru_get_hit_sound key2_eqb key2_eqb_spec _ k m p m' S G). Qed.

  Lemma memo_sound_insert cfg layout value p m :
    memo_sound cfg m -> time_parse (c_loc cfg) layout value = Some p ->
    memo_sound cfg (lru_add key2_eqb memo_cap (layout, value) p m).
  Proof. intros S T. apply lru_add_sound; auto. Qed.

  (* the memo is transparent: whatever it holds, strptime yields the spec *)
  Lemma strptime_new_spec cfg year layout value m :
    memo_sound cfg m ->
    snd (strptime_new cfg year layout value m) = strptime_spec cfg year layout value /\
    memo_sound cfg (fst (strptime_new cfg year layout value m)).
  Proof.
    intros S. unfold TimeReg.strptime_new, TimeReg.strptime_spec.
    destruct (lru_get key2_eqb (layout, value) m) as [[p|] m'] eqn:G.
    - destruct (memo_sound_hit _ _ _ _ _ S G) as [T S']. cbn in T. rewrite T. cbn. auto.
    - destruct (time_parse (c_loc cfg) layout value) as [p|] eqn:T; cbn.
      + split; [reflexivity|]. now apply memo_sound_insert.
      + auto.
  Qed.

  (* ---- one event: the memo contents do not matter ---- *)
  Definition sim (cfg : config) (s1 s2 : mstate memo_new) : Prop :=
    s_th s1 = s_th s2 /\ s_w s1 = s_w s2 /\ v_term (s_vm s1) = v_term (s_vm s2) /\
    memo_sound cfg (v_memo (s_vm s1)) /\ memo_sound cfg (v_memo (s_vm s2)).

  Lemma do_strptime_sim cfg year layout value s1 s2 :
    sim cfg s1 s2 ->
    sim cfg (do_strptime memo_new strptime_new cfg year layout value s1)
            (do_strptime memo_new strptime_new cfg year layout value s2).
  Proof.
    intros (TH & W & TM & S1 & S2).
    destruct s1 as [th1 w1 [m1 t1]], s2 as [th2 w2 [m2 t2]]. cbn in *. subst th2 w2 t2.
    unfold do_strptime. cbn.
    destruct (strptime_new_spec cfg year layout value m1 S1) as [R1 S1'].
    destruct (strptime_new_spec cfg year layout value m2 S2) as [R2 S2'].
    destruct (strptime_new cfg year layout value m1) as [m1' r1].
    destruct (strptime_new cfg year layout value m2) as [m2' r2].
    cbn in *. subst r1 r2.
    destruct (strptime_spec cfg year layout value); cbn; repeat split; auto.
  Qed.

  Lemma step_sim cfg now year e s1 s2 :
    sim cfg s1 s2 -> sim cfg (step_new cfg now year e s1) (step_new cfg now year e s2).
  Proof.
    intros H. unfold TimeReg.step_new, step. destruct e;
      try (destruct H as (TH & W & TM & S1 & S2);
           destruct s1 as [th1 w1 [m1 t1]], s2 as [th2 w2 [m2 t2]]; cbn in *; subst th2 w2 t2;
           repeat split; auto; fail).
    - now apply do_strptime_sim.
    - (* set *)
      destruct H as (TH & W & TM & S1 & S2).
      destruct s1 as [th1 w1 [m1 t1]], s2 as [th2 w2 [m2 t2]]; cbn in *; subst th2 w2 t2.
      destruct (t_stack th1); cbn; repeat split; auto.
    - (* capref *)
      destruct H as (TH & W & TM & S1 & S2).
      destruct s1 as [th1 w1 [m1 t1]], s2 as [th2 w2 [m2 t2]]; cbn in *; subst th2 w2 t2.
      destruct (cap_read re k (t_caps th1)); cbn; repeat split; auto.
    - (* strptime from the stack *)
      destruct H as (TH & W & TM & S1 & S2).
      destruct s1 as [th1 w1 [m1 t1]], s2 as [th2 w2 [m2 t2]]; cbn in *; subst th2 w2 t2.
      destruct (t_strs th1) as [|v ss]; [cbn; repeat split; auto|].
      apply do_strptime_sim. repeat split; auto.
    - (* expire *)
      destruct H as (TH & W & TM & S1 & S2).
      destruct s1 as [th1 w1 [m1 t1]], s2 as [th2 w2 [m2 t2]]; cbn in *; subst th2 w2 t2.
      destruct (store_mem m (w_store w1)); cbn; repeat split; auto.
  Qed.

  Lemma exec_sim cfg now year evs : forall s1 s2,
    sim cfg s1 s2 -> sim cfg (exec_new cfg now year evs s1) (exec_new cfg now year evs s2).
  Proof.
    induction evs as [|e r IH]; intros s1 s2 H; cbn; [exact H|].
    pose proof (step_sim cfg now year e s1 s2 H) as H'.
    fold (step_new cfg now year e s1). fold (step_new cfg now year e s2).
    destruct H' as (TH & W & TM & S1 & S2).
    rewrite <- TM.
    destruct (v_term (s_vm (step_new cfg now year e s1))) eqn:E.
    - repeat split; auto. congruence.
    - apply IH. repeat split; auto. congruence.
  Qed.

  (* ---- a line ---- *)
  Lemma run_line_sim cfg l w (v1 v2 : vmstate memo_new) :
    v_term v1 = v_term v2 -> memo_sound cfg (v_memo v1) -> memo_sound cfg (v_memo v2) ->
    fst (run_line_new cfg l (w, v1)) = fst (run_line_new cfg l (w, v2)) /\
    memo_sound cfg (v_memo (snd (run_line_new cfg l (w, v1)))) /\
    memo_sound cfg (v_memo (snd (run_line_new cfg l (w, v2)))).
  Proof.
    intros TM S1 S2. unfold TimeReg.run_line_new, run_line. cbn.
    pose proof (exec_sim cfg (l_now l) (l_year l) (l_evs l)
      {| s_th := fresh_thread; s_w := w; s_vm := v1 |}
      {| s_th := fresh_thread; s_w := w; s_vm := v2 |}) as H.
    destruct H as (TH & W & TM' & S1' & S2'); [repeat split; auto|].
    repeat split; auto.
  Qed.

  Lemma run_line_term cfg l wv : v_term (snd (run_line_new cfg l wv)) = false.
  Proof. reflexivity. Qed.

  (* invariant of every reachable VM state between lines *)
  Definition vm_ok (cfg : config) (v : vmstate memo_new) : Prop :=
    v_term v = false /\ memo_sound cfg (v_memo v).

  Lemma vm_init_ok cfg : vm_ok cfg vm_init_new.
  Proof. split; [reflexivity|apply memo_sound_nil]. Qed.

  Lemma run_line_ok cfg l w v : vm_ok cfg v -> vm_ok cfg (snd (run_line_new cfg l (w, v))).
  Proof.
    intros [T S]. split; [reflexivity|].
    destruct (run_line_sim cfg l w v v eq_refl S S) as (_ & S' & _). exact S'.
  Qed.

  Lemma run_lines_ok cfg hist : forall w v,
    vm_ok cfg v -> vm_ok cfg (snd (run_lines_new cfg hist (w, v))).
  Proof.
    induction hist as [|l r IH]; intros w v OK; cbn; [exact OK|].
    unfold TimeReg.run_lines_new, run_lines in *. cbn.
    fold (run_line_new cfg l (w, v)).
    destruct (run_line_new cfg l (w, v)) as [w' v'] eqn:E.
    apply IH. pose proof (run_line_ok cfg l w v OK) as H. now rewrite E in H.
  Qed.

  (* C05: the line after any history = the line in a fresh VM, same metrics *)
  Theorem line_local cfg hist l w0 :
    let wv := run_lines_new cfg hist (w0, vm_init_new) in
    fst (run_line_new cfg l wv) = fst (run_line_new cfg l (fst wv, vm_init_new)).
  Proof.
    intros wv. pose proof (run_lines_ok cfg hist w0 vm_init_new (vm_init_ok cfg)) as [T S].
    fold wv in T, S. destruct wv as [w v]. cbn [fst snd] in *.
    destruct (run_line_sim cfg l w v vm_init_new) as (E & _); auto.
    apply memo_sound_nil.
  Qed.

  (* ... and so is a whole continuation *)
  Theorem lines_local cfg hist : forall more w0,
    let wv := run_lines_new cfg hist (w0, vm_init_new) in
    fst (run_lines_new cfg more wv) = fst (run_lines_new cfg more (fst wv, vm_init_new)).
  Proof.
    intros more w0 wv.
    pose proof (run_lines_ok cfg hist w0 vm_init_new (vm_init_ok cfg)) as OK. fold wv in OK.
    destruct wv as [w v]. cbn [fst snd] in *.
    assert (G : forall more w (v1 v2 : vmstate memo_new), vm_ok cfg v1 -> vm_ok cfg v2 ->
              fst (run_lines_new cfg more (w, v1)) = fst (run_lines_new cfg more (w, v2))).
    { clear. induction more as [|l r IH]; intros w v1 v2 [T1 S1] [T2 S2]; [reflexivity|].
      unfold TimeReg.run_lines_new, run_lines in *. cbn.
      fold (run_line_new cfg l (w, v1)). fold (run_line_new cfg l (w, v2)).
      destruct (run_line_sim cfg l w v1 v2) as (E & S1' & S2'); auto; [congruence|].
      destruct (run_line_new cfg l (w, v1)) as [w1 v1'] eqn:E1.
      destruct (run_line_new cfg l (w, v2)) as [w2 v2'] eqn:E2.
      cbn in E. subst w2. apply IH; split; auto.
      - pose proof (run_line_term cfg l (w, v1)) as H. now rewrite E1 in H.
      - pose proof (run_line_term cfg l (w, v2)) as H. now rewrite E2 in H. }
    apply G; [exact OK|apply vm_init_ok].
  Qed.

  (* ---- histories in which the world also changes from outside the VM (label
     sets removed by Store.Gc, or anything else): the VM is not told, and has
     nothing to be told about ---- *)
  Notation run_hist_new := (run_hist_new time_parse add_years).
  Notation run_hstep_new := (run_hstep memo_new strptime_new).

  Lemma run_hstep_ok cfg h w v : vm_ok cfg v -> vm_ok cfg (snd (run_hstep_new cfg h (w, v))).
  Proof.
    intros OK. destruct h as [l|f]; [|exact OK]. exact (run_line_ok cfg l w v OK).
  Qed.

  Lemma run_hist_ok cfg hist : forall w v,
    vm_ok cfg v -> vm_ok cfg (snd (run_hist_new cfg hist (w, v))).
  Proof.
    induction hist as [|h r IH]; intros w v OK; cbn; [exact OK|].
    unfold TimeReg.run_hist_new, run_hist in *. cbn.
    destruct (run_hstep_new cfg h (w, v)) as [w' v'] eqn:E.
    apply IH. pose proof (run_hstep_ok cfg h w v OK) as H. now rewrite E in H.
  Qed.

  (* one step of a history from two VM states that both satisfy the invariant *)
  Lemma run_hstep_sim cfg h w (v1 v2 : vmstate memo_new) :
    vm_ok cfg v1 -> vm_ok cfg v2 ->
    fst (run_hstep_new cfg h (w, v1)) = fst (run_hstep_new cfg h (w, v2)) /\
    vm_ok cfg (snd (run_hstep_new cfg h (w, v1))) /\ vm_ok cfg (snd (run_hstep_new cfg h (w, v2))).
  Proof.
    intros [T1 S1] [T2 S2]. destruct h as [l|f]; cbn.
    - destruct (run_line_sim cfg l w v1 v2) as (E & S1' & S2'); auto; [congruence|].
      repeat split; auto.
    - repeat split; auto.
  Qed.

  Theorem line_local_ext cfg (hist : list hstep) l w0 :
    let wv := run_hist_new cfg hist (w0, vm_init_new) in
    fst (run_line_new cfg l wv) = fst (run_line_new cfg l (fst wv, vm_init_new)).
  Proof.
    intros wv. pose proof (run_hist_ok cfg hist w0 vm_init_new (vm_init_ok cfg)) as [T S].
    fold wv in T, S. destruct wv as [w v]. cbn [fst snd] in *.
    destruct (run_line_sim cfg l w v vm_init_new) as (E & _); auto.
    apply memo_sound_nil.
  Qed.

  Theorem hist_local_ext cfg (hist more : list hstep) w0 :
    let wv := run_hist_new cfg hist (w0, vm_init_new) in
    fst (run_hist_new cfg more wv) = fst (run_hist_new cfg more (fst wv, vm_init_new)).
  Proof.
    intros wv.
    pose proof (run_hist_ok cfg hist w0 vm_init_new (vm_init_ok cfg)) as OK. fold wv in OK.
    destruct wv as [w v]. cbn [fst snd] in *.
    assert (G : forall more w (v1 v2 : vmstate memo_new), vm_ok cfg v1 -> vm_ok cfg v2 ->
              fst (run_hist_new cfg more (w, v1)) = fst (run_hist_new cfg more (w, v2))).
    { clear. induction more as [|h r IH]; intros w v1 v2 OK1 OK2; [reflexivity|].
      unfold TimeReg.run_hist_new, run_hist in *. cbn.
      destruct (run_hstep_sim cfg h w v1 v2 OK1 OK2) as (E & OK1' & OK2').
      destruct (run_hstep_new cfg h (w, v1)) as [w1 v1'] eqn:E1.
      destruct (run_hstep_new cfg h (w, v2)) as [w2 v2'] eqn:E2.
      cbn in E. subst w2. now apply IH. }
    apply G; [exact OK|apply vm_init_ok].
  Qed.

  (* a history without outside changes is a history of lines *)
  Lemma run_hist_lines cfg ls wv :
    run_hist_new cfg (map HLine ls) wv = run_lines_new cfg ls wv.
  Proof.
    revert wv. induction ls as [|l r IH]; intros wv; [reflexivity|].
    unfold TimeReg.run_hist_new, run_hist, TimeReg.run_lines_new, run_lines in *. cbn. apply IH.
  Qed.

  (* ---- within a line ---- *)
  Lemma exec_app cfg now year a : forall b s,
    v_term (s_vm s) = false ->
    exec_new cfg now year (a ++ b) s =
    (let s' := exec_new cfg now year a s in
     if v_term (s_vm s') then s' else exec_new cfg now year b s').
  Proof.
    induction a as [|e r IH]; intros b s T; cbn.
    - now rewrite T.
    - fold (step_new cfg now year e s).
      destruct (v_term (s_vm (step_new cfg now year e s))) eqn:E.
      + cbn. now rewrite E.
      + now apply IH.
  Qed.

  Definition st_ok (cfg : config) (s : mstate memo_new) : Prop :=
    v_term (s_vm s) = false /\ memo_sound cfg (v_memo (s_vm s)).

  Notation spec_step := (spec_step time_parse add_years).
  Notation spec_run := (spec_run time_parse add_years).

  (* the strptime core, from any state whose memo is sound *)
  Lemma do_strptime_spec cfg year layout value s :
    st_ok cfg s ->
    let s' := do_strptime memo_new strptime_new cfg year layout value s in
    match strptime_spec cfg year layout value with
    | Some t => s_th s' = {| t_time := t; t_stack := t_stack (s_th s);
                             t_caps := t_caps (s_th s); t_strs := t_strs (s_th s) |} /\
                s_w s' = s_w s /\ st_ok cfg s'
    | None => w_errs (s_w s') = N.succ (w_errs (s_w s)) /\ w_store (s_w s') = w_store (s_w s) /\
              v_term (s_vm s') = true
    end.
  Proof.
    intros [T S]. cbn zeta. unfold do_strptime.
    destruct (strptime_new_spec cfg year layout value _ S) as [R S'].
    destruct (strptime_new cfg year layout value (v_memo (s_vm s))) as [m' r]. cbn in *. subst r.
    destruct (strptime_spec cfg year layout value); cbn; repeat split; auto.
  Qed.

  (* one strptime, from any state whose memo is sound *)
  Lemma step_strptime cfg now year layout value s :
    st_ok cfg s ->
    let s' := step_new cfg now year (EStrptime layout value) s in
    match strptime_spec cfg year layout value with
    | Some t => t_time (s_th s') = t /\ t_stack (s_th s') = t_stack (s_th s) /\
                s_w s' = s_w s /\ st_ok cfg s'
    | None => w_errs (s_w s') = N.succ (w_errs (s_w s)) /\ w_store (s_w s') = w_store (s_w s) /\
              v_term (s_vm s') = true
    end.
  Proof.
    intros OK. cbn zeta. pose proof (do_strptime_spec cfg year layout value s OK) as H. cbn zeta in H.
    change (step_new cfg now year (EStrptime layout value) s)
      with (do_strptime memo_new strptime_new cfg year layout value s).
    destruct (strptime_spec cfg year layout value).
    - destruct H as (A & B & C). rewrite A. cbn. auto.
    - exact H.
  Qed.

  (* register, match table and string stack of a machine state *)
  Definition tables (s : mstate memo_new) : spec_state :=
    (t_time (s_th s), t_caps (s_th s), t_strs (s_th s)).

  Lemma step_ok_time cfg now year e s :
    st_ok cfg s ->
    let s' := step_new cfg now year e s in
    v_term (s_vm s') = false ->
    st_ok cfg s' /\ tables s' = spec_step cfg year e (tables s).
  Proof.
    intros OK s' T'. unfold tables. destruct e; subst s'.
    - pose proof (step_strptime cfg now year layout value s OK) as H. cbn zeta in H.
      pose proof (do_strptime_spec cfg year layout value s OK) as H2. cbn zeta in H2.
      change (step_new cfg now year (EStrptime layout value) s)
        with (do_strptime memo_new strptime_new cfg year layout value s) in *.
      cbn [TimeReg.spec_step]. destruct (strptime_spec cfg year layout value).
      + destruct H2 as (A & _ & B). rewrite A. cbn. auto.
      + destruct H as (_ & _ & B). congruence.
    - destruct OK as [T S]. split; [split; auto|reflexivity].
    - destruct OK as [T S]. split; [split; auto|reflexivity].
    - destruct OK as [T S]. split; [split; auto|reflexivity].
    - destruct OK as [T S]. unfold TimeReg.step_new, step in *.
      destruct (t_stack (s_th s)); cbn in *; [discriminate|]. split; [split; auto|reflexivity].
    - destruct OK as [T S]. split; [split; auto|reflexivity].
    - cbn in T'. discriminate.
    - cbn in T'. discriminate.
    - destruct OK as [T S]. split; [split; auto|reflexivity].
    - destruct OK as [T S]. unfold TimeReg.step_new, step in *. cbn [TimeReg.spec_step].
      destruct (cap_read re k (t_caps (s_th s))); cbn in *; [|congruence].
      split; [split; auto|reflexivity].
    - unfold TimeReg.step_new, step in *. cbn [TimeReg.spec_step].
      destruct (t_strs (s_th s)) as [|v ss] eqn:SS; [cbn in T'; destruct OK; discriminate|].
      assert (OK2 : st_ok cfg (set_tables memo_new (t_caps (s_th s)) ss s)) by (destruct OK; split; auto).
      pose proof (do_strptime_spec cfg year layout v _ OK2) as H2. cbn zeta in H2.
      destruct (strptime_spec cfg year layout v).
      + destruct H2 as (A & _ & B). rewrite A. cbn. auto.
      + destruct H2 as (_ & _ & B). congruence.
    - destruct OK as [T S]. split; [split; auto|reflexivity].
    - destruct OK as [T S]. split; [split; auto|reflexivity].
    - destruct OK as [T S]. unfold TimeReg.step_new, step in *. cbn [TimeReg.spec_step].
      destruct (store_mem m (w_store (s_w s))); cbn in *; [|congruence].
      split; [split; auto|reflexivity].
  Qed.

  Lemma spec_run_app cfg year a : forall b st,
    spec_run cfg year (a ++ b) st = spec_run cfg year b (spec_run cfg year a st).
  Proof. induction a as [|e r IH]; intros b st; [reflexivity|]. cbn. apply IH. Qed.

  Lemma spec_run_no_sets cfg year evs : forall st,
    forallb (fun e => negb (sets_time e)) evs = true ->
    fst (fst (spec_run cfg year evs st)) = fst (fst st).
  Proof.
    induction evs as [|e r IH]; intros st H; [reflexivity|].
    cbn in H. apply andb_true_iff in H. destruct H as [H1 H2].
    cbn [TimeReg.spec_run]. rewrite IH by exact H2.
    destruct st as [[reg cp] ss]. destruct e; cbn in *; try discriminate; auto.
    destruct (cap_read re k cp); reflexivity.
  Qed.

  Lemma time_spec_no_sets cfg year evs reg :
    forallb (fun e => negb (sets_time e)) evs = true -> time_spec cfg year evs reg = reg.
  Proof. intros H. unfold TimeReg.time_spec. now rewrite spec_run_no_sets. Qed.

  (* the tables after a prefix of a line that has not ended *)
  Lemma exec_tables cfg now year evs : forall s,
    st_ok cfg s ->
    let s' := exec_new cfg now year evs s in
    v_term (s_vm s') = false ->
    st_ok cfg s' /\ tables s' = spec_run cfg year evs (tables s).
  Proof.
    induction evs as [|e r IH]; intros s OK; cbn zeta; [intros _; split; auto|].
    unfold TimeReg.exec_new. cbn [exec].
    fold (step_new cfg now year e s).
    destruct (v_term (s_vm (step_new cfg now year e s))) eqn:E; [congruence|].
    intros T'. destruct (step_ok_time cfg now year e s OK E) as [OK1 TM1].
    destruct (IH _ OK1 T') as [OK2 TM2]. split; [exact OK2|].
    fold (exec_new cfg now year r (step_new cfg now year e s)) in *.
    rewrite TM2, TM1. reflexivity.
  Qed.

  Lemma exec_time cfg now year evs s :
    st_ok cfg s -> t_caps (s_th s) = [] -> t_strs (s_th s) = [] ->
    let s' := exec_new cfg now year evs s in
    v_term (s_vm s') = false ->
    st_ok cfg s' /\ t_time (s_th s') = time_spec cfg year evs (t_time (s_th s)).
  Proof.
    intros OK C0 S0 s' T. destruct (exec_tables cfg now year evs s OK T) as [OK' TB].
    split; [exact OK'|]. unfold TimeReg.time_spec, tables in *.
    rewrite C0, S0 in TB. cbn zeta in TB.
    change (t_time (s_th s')) with (fst (fst (t_time (s_th s'), t_caps (s_th s'), t_strs (s_th s')))).
    subst s'. now rewrite TB.
  Qed.

  (* the state in which a line starts, after any history *)
  Definition line_start (cfg : config) (hist : list line) (w0 : world) : mstate memo_new :=
    let wv := run_lines_new cfg hist (w0, vm_init_new) in
    {| s_th := fresh_thread; s_w := fst wv; s_vm := snd wv |}.

  Lemma line_start_ok cfg hist w0 : st_ok cfg (line_start cfg hist w0).
  Proof. exact (run_lines_ok cfg hist w0 vm_init_new (vm_init_ok cfg)). Qed.

  Lemma line_start_time cfg hist w0 : t_time (s_th (line_start cfg hist w0)) = zero_ns.
  Proof. reflexivity. Qed.

  (* C07 *)
  Theorem strptime_follows_parse cfg hist w0 now year pre layout value :
    let s := exec_new cfg now year pre (line_start cfg hist w0) in
    v_term (s_vm s) = false ->
    let s' := step_new cfg now year (EStrptime layout value) s in
    match time_parse (c_loc cfg) layout value with
    | Some p => t_time (s_th s') = adjust cfg year layout value p /\
                s_w s' = s_w s /\ v_term (s_vm s') = false
    | None => w_errs (s_w s') = N.succ (w_errs (s_w s)) /\ w_store (s_w s') = w_store (s_w s) /\
              v_term (s_vm s') = true
    end.
  Proof.
    intros s T s'.
    destruct (exec_time cfg now year pre _ (line_start_ok cfg hist w0) eq_refl eq_refl T) as [OK _].
    pose proof (step_strptime cfg now year layout value s OK) as H. cbn zeta in H.
    unfold TimeReg.strptime_spec in H.
    destruct (time_parse (c_loc cfg) layout value).
    - destruct H as (A & _ & B & C & _). auto.
    - exact H.
  Qed.

  (* what timestamp() pushes and what a write stamps, after any prefix *)
  Theorem register_observed cfg hist w0 now year pre :
    let s := exec_new cfg now year pre (line_start cfg hist w0) in
    v_term (s_vm s) = false ->
    let reg := time_spec cfg year pre zero_ns in
    t_stack (s_th (step_new cfg now year ETimestamp s)) = ts_value now reg :: t_stack (s_th s) /\
    (forall m, d_time (store_get m (w_store (s_w (step_new cfg now year (EInc m) s)))) = stamp_value now reg) /\
    (forall m v stk, t_stack (s_th s) = v :: stk ->
       store_get m (w_store (s_w (step_new cfg now year (ESet m) s))) =
       {| d_val := v; d_time := stamp_value now reg |}).
  Proof.
    intros s T reg.
    destruct (exec_time cfg now year pre _ (line_start_ok cfg hist w0) eq_refl eq_refl T) as [_ TM].
    fold s in TM. rewrite line_start_time in TM. fold reg in TM.
    repeat split.
    - cbn. now rewrite TM.
    - intros m. cbn. rewrite store_get_set_same. cbn. now rewrite TM.
    - intros m v stk ST. unfold TimeReg.step_new, step. rewrite ST. cbn.
      rewrite store_get_set_same. now rewrite TM.
  Qed.

  Lemma reg_after_settime cfg year pre n mid :
    forallb (fun e => negb (sets_time e)) mid = true ->
    time_spec cfg year (pre ++ ESettime n :: mid) zero_ns = n * ns_per_s.
  Proof.
    intros H. unfold TimeReg.time_spec. rewrite spec_run_app. cbn [TimeReg.spec_run].
    rewrite spec_run_no_sets by exact H.
    destruct (spec_run cfg year pre (zero_ns, [], [])) as [[reg cp] ss]. reflexivity.
  Qed.

  Theorem settime_then_timestamp cfg hist w0 now year pre n mid :
    n <> zero_s ->
    forallb (fun e => negb (sets_time e)) mid = true ->
    let s := exec_new cfg now year (pre ++ ESettime n :: mid) (line_start cfg hist w0) in
    v_term (s_vm s) = false ->
    t_stack (s_th (step_new cfg now year ETimestamp s)) = n :: t_stack (s_th s).
  Proof.
    intros NE H s T.
    destruct (register_observed cfg hist w0 now year _ T) as (A & _). fold s in A.
    rewrite A, reg_after_settime by exact H.
    unfold ts_value. now rewrite settime_not_zero, settime_unix.
  Qed.

  Theorem default_is_now cfg hist w0 now year pre :
    forallb (fun e => negb (sets_time e)) pre = true ->
    let s := exec_new cfg now year pre (line_start cfg hist w0) in
    v_term (s_vm s) = false ->
    t_stack (s_th (step_new cfg now year ETimestamp s)) = now / ns_per_s :: t_stack (s_th s) /\
    (forall m, d_time (store_get m (w_store (s_w (step_new cfg now year (EInc m) s)))) = now) /\
    (forall m v stk, t_stack (s_th s) = v :: stk ->
       store_get m (w_store (s_w (step_new cfg now year (ESet m) s))) = {| d_val := v; d_time := now |}).
  Proof.
    intros H s T.
    destruct (register_observed cfg hist w0 now year _ T) as (A & B & C). fold s in A, B, C.
    rewrite (time_spec_no_sets cfg year pre zero_ns H) in *.
    unfold ts_value, stamp_value in *. rewrite Z.eqb_refl in *. auto.
  Qed.

  Theorem stamp_follows_register cfg hist w0 now year pre :
    let s := exec_new cfg now year pre (line_start cfg hist w0) in
    v_term (s_vm s) = false ->
    let reg := time_spec cfg year pre zero_ns in
    reg <> zero_ns ->
    t_stack (s_th (step_new cfg now year ETimestamp s)) = reg / ns_per_s :: t_stack (s_th s) /\
    (forall m, d_time (store_get m (w_store (s_w (step_new cfg now year (EInc m) s)))) = wrap64 reg) /\
    (forall m v stk, t_stack (s_th s) = v :: stk ->
       store_get m (w_store (s_w (step_new cfg now year (ESet m) s))) =
       {| d_val := v; d_time := wrap64 reg |}).
  Proof.
    intros s T reg NZ.
    destruct (register_observed cfg hist w0 now year _ T) as (A & B & C). fold s reg in A, B, C.
    unfold ts_value, stamp_value in *.
    assert (E : (reg =? zero_ns) = false) by now apply Z.eqb_neq.
    rewrite E in *. auto.
  Qed.

  (* the register after `pre ++ [strptime]` when the parse succeeds *)
  Lemma reg_after_strptime cfg year pre layout value p mid reg0 :
    time_parse (c_loc cfg) layout value = Some p ->
    forallb (fun e => negb (sets_time e)) mid = true ->
    time_spec cfg year (pre ++ EStrptime layout value :: mid) reg0 = adjust cfg year layout value p.
  Proof.
    intros TP H. unfold TimeReg.time_spec. rewrite spec_run_app. cbn [TimeReg.spec_run].
    rewrite spec_run_no_sets by exact H.
    destruct (spec_run cfg year pre (reg0, [], [])) as [[reg cp] ss]. cbn.
    unfold TimeReg.strptime_spec. now rewrite TP.
  Qed.

  (* a write touches the written metric only *)
  Lemma do_strptime_store cfg year layout value (s : mstate memo_new) :
    w_store (s_w (do_strptime memo_new strptime_new cfg year layout value s)) = w_store (s_w s).
  Proof.
    unfold do_strptime.
    destruct (strptime_new cfg year layout value (v_memo (s_vm s))) as [m2 [t|]]; reflexivity.
  Qed.

  Lemma write_frame cfg now year s e m' :
    (match e with ESet m | EInc m | EDel m | EGet m => m' <> m | _ => True end) ->
    store_get m' (w_store (s_w (step_new cfg now year e s))) = store_get m' (w_store (s_w s)).
  Proof.
    intros H. unfold TimeReg.step_new, step. destruct e; cbn; auto.
    - now rewrite do_strptime_store.
    - destruct (t_stack (s_th s)); cbn; [reflexivity|]. now apply store_get_set_other.
    - now apply store_get_set_other.
    - destruct (cap_read re k (t_caps (s_th s))); reflexivity.
    - destruct (t_strs (s_th s)); [reflexivity|]. now rewrite do_strptime_store.
    - now apply store_get_del_other.
    - now apply store_get_touch_other.
    - destruct (store_mem m (w_store (s_w s))); reflexivity.
  Qed.

  (* captures never come from an earlier line: a slot that no Match of THIS
     line has written is empty, whatever the history *)
  Lemma caps_untouched cfg year re evs : forall st,
    forallb (fun e => negb (matches_re re e)) evs = true ->
    caps_get re (snd (fst (spec_run cfg year evs st))) = caps_get re (snd (fst st)).
  Proof.
    induction evs as [|e r IH]; intros st H; [reflexivity|].
    cbn in H. apply andb_true_iff in H. destruct H as [H1 H2].
    cbn [TimeReg.spec_run]. rewrite IH by exact H2.
    destruct st as [[reg cp] ss]. destruct e; cbn in *; auto.
    - destruct (strptime_spec cfg year layout value); reflexivity.
    - apply negb_true_iff in H1. rewrite N.eqb_sym in H1. now rewrite H1.
    - destruct (cap_read re0 k cp); reflexivity.
    - destruct ss as [|v ss']; [reflexivity|]. destruct (strptime_spec cfg year layout v); reflexivity.
  Qed.

  Theorem capture_needs_match_on_this_line cfg hist w0 now year pre re k :
    forallb (fun e => negb (matches_re re e)) pre = true ->
    let s := exec_new cfg now year pre (line_start cfg hist w0) in
    v_term (s_vm s) = false ->
    let s' := step_new cfg now year (ECapref re k) s in
    w_errs (s_w s') = N.succ (w_errs (s_w s)) /\ w_store (s_w s') = w_store (s_w s) /\
    v_term (s_vm s') = true.
  Proof.
    intros H s T s'.
    destruct (exec_tables cfg now year pre _ (line_start_ok cfg hist w0) T) as [_ TB]. fold s in TB.
    pose proof (caps_untouched cfg year re pre (tables (line_start cfg hist w0)) H) as C.
    rewrite <- TB in C. unfold tables in C. cbn in C.
    subst s'. unfold TimeReg.step_new, step, cap_read. rewrite C. cbn. auto.
  Qed.

  (* ... and a slot written on this line yields the group of the last Match *)
  Theorem capture_reads_last_match cfg hist w0 now year pre re res mid k :
    forallb (fun e => negb (matches_re re e)) mid = true ->
    let s := exec_new cfg now year (pre ++ EMatch re res :: mid) (line_start cfg hist w0) in
    v_term (s_vm s) = false ->
    let s' := step_new cfg now year (ECapref re k) s in
    match res with
    | Some gs =>
        match nth_error gs k with
        | Some g => t_strs (s_th s') = g :: t_strs (s_th s) /\ s_w s' = s_w s /\ v_term (s_vm s') = false
        | None => v_term (s_vm s') = true /\ w_errs (s_w s') = N.succ (w_errs (s_w s))
        end
    | None => v_term (s_vm s') = true /\ w_errs (s_w s') = N.succ (w_errs (s_w s))
    end.
  Proof.
    intros H s T s'.
    destruct (exec_tables cfg now year _ _ (line_start_ok cfg hist w0) T) as [[T0 _] TB]. fold s in TB.
    rewrite spec_run_app in TB. cbn [TimeReg.spec_run] in TB.
    pose proof (caps_untouched cfg year re mid
                  (spec_step cfg year (EMatch re res) (spec_run cfg year pre (tables (line_start cfg hist w0)))) H) as C.
    rewrite <- TB in C. unfold tables in C. cbn [fst snd] in C.
    destruct (spec_run cfg year pre (t_time (s_th (line_start cfg hist w0)), t_caps (s_th (line_start cfg hist w0)),
                t_strs (s_th (line_start cfg hist w0)))) as [[reg cp] ss].
    cbn in C. rewrite N.eqb_refl in C.
    subst s'. unfold TimeReg.step_new, step, cap_read. rewrite C.
    destruct res as [gs|]; [|cbn; auto].
    destruct (nth_error gs k); cbn; auto.
  Qed.

  (* strptime, then anything that leaves the register alone, then a read *)
  Theorem strptime_then_observed cfg hist w0 now year pre layout value p mid :
    time_parse (c_loc cfg) layout value = Some p ->
    adjust cfg year layout value p <> zero_ns ->
    forallb (fun e => negb (sets_time e)) mid = true ->
    let s := exec_new cfg now year (pre ++ EStrptime layout value :: mid) (line_start cfg hist w0) in
    v_term (s_vm s) = false ->
    let t := adjust cfg year layout value p in
    t_stack (s_th (step_new cfg now year ETimestamp s)) = t / ns_per_s :: t_stack (s_th s) /\
    (forall m, d_time (store_get m (w_store (s_w (step_new cfg now year (EInc m) s)))) = wrap64 t) /\
    (forall m v stk, t_stack (s_th s) = v :: stk ->
       store_get m (w_store (s_w (step_new cfg now year (ESet m) s))) = {| d_val := v; d_time := wrap64 t |}).
  Proof.
    intros TP NZ H s T t.
    pose proof (stamp_follows_register cfg hist w0 now year _ T) as R. cbn zeta in R. fold s in R.
    rewrite (reg_after_strptime cfg year pre layout value p mid zero_ns TP H) in R.
    exact (R NZ).
  Qed.

  (* memo_sound in the form the property file states it *)
  Lemma memo_sound_reachable cfg hist w0 :
    let v := snd (run_lines_new cfg hist (w0, vm_init_new)) in
    v_term v = false /\
    forall layout value p, In ((layout, value), p) (v_memo v) ->
                           time_parse (c_loc cfg) layout value = Some p.
  Proof.
    intros v. destruct (run_lines_ok cfg hist w0 vm_init_new (vm_init_ok cfg)) as [T S].
    split; [exact T|]. intros l va p I. exact (S (l, va) p I).
  Qed.

  Lemma memo_sound_preserved cfg (m : memo_new) :
    memo_sound cfg m ->
    (forall k, memo_sound cfg (snd (lru_get key2_eqb k m))) /\
    (forall layout value p, time_parse (c_loc cfg) layout value = Some p ->
        memo_sound cfg (lru_add key2_eqb memo_cap (layout, value) p m)).
  Proof.
    intros S. split.
    - intros k. exact (lru_get_sound key2_eqb key2_eqb_spec _ k m S).
    - intros l v p T. now apply memo_sound_insert.
  Qed.
End Proofs.

Lemma memo_bounded (m : memo_new) k p :
  lru_wf memo_cap m ->
  lru_wf memo_cap (snd (lru_get key2_eqb k m)) /\ lru_wf memo_cap (lru_add key2_eqb memo_cap k p m) /\
  lru_find key2_eqb k (lru_add key2_eqb memo_cap k p m) = Some p.
Proof.
  intros W. split; [|split].
  - now apply (lru_get_wf key2_eqb key2_eqb_spec).
  - now apply (lru_add_wf key2_eqb key2_eqb_spec).
  - apply (lru_find_add key2_eqb key2_eqb_spec); [discriminate|exact W].
Qed.

(* ---- the memo before the repair ---- *)
Definition b (s : list N) : bytes := s.

(* a value that does not parse: the second line raises no error and counts *)
Definition bogus_parse : N -> bytes -> bytes -> option ptime := fun _ _ _ => None.
Definition no_adj : N -> bytes -> bytes -> Z -> Z := fun _ _ _ _ => 0.
Definition cfg0 : config := {| c_loc := 0; c_useyear := false |}.
Definition w_empty : world := {| w_store := [(0%N, {| d_val := 0; d_time := 0 |})]; w_errs := 0 |}.
Definition bogus_line : line :=
  {| l_now := 1790000000000000000; l_year := 2026;
     l_evs := [EStrptime [50;48;48;54]%N [98;111;103;117;115]%N; EInc 0] |}.

Lemma old_memo_leaks :
  let wv := run_lines_old bogus_parse no_adj cfg0 [bogus_line] (w_empty, vm_init_old) in
  fst (run_line_old bogus_parse no_adj cfg0 bogus_line wv) <>
  fst (run_line_old bogus_parse no_adj cfg0 bogus_line (fst wv, vm_init_old)).
Proof. vm_compute. intros H. discriminate H. Qed.

Lemma old_memo_refutes_line_local :
  exists time_parse add_years cfg hist l w0,
    let wv := run_lines_old time_parse add_years cfg hist (w0, vm_init_old) in
    fst (run_line_old time_parse add_years cfg l wv) <>
    fst (run_line_old time_parse add_years cfg l (fst wv, vm_init_old)).
Proof.
  exists bogus_parse, no_adj, cfg0, [bogus_line], bogus_line, w_empty. exact old_memo_leaks.
Qed.

Lemma old_memo_leaks_detail :
  let wv := run_lines_old bogus_parse no_adj cfg0 [bogus_line] (w_empty, vm_init_old) in
  w_errs (fst wv) = 1%N /\
  (* after the history: no error, the counter moves *)
  w_errs (fst (run_line_old bogus_parse no_adj cfg0 bogus_line wv)) = 1%N /\
  d_val (store_get 0 (w_store (fst (run_line_old bogus_parse no_adj cfg0 bogus_line wv)))) = 1 /\
  (* fresh VM, same metrics: error, the counter does not move *)
  w_errs (fst (run_line_old bogus_parse no_adj cfg0 bogus_line (fst wv, vm_init_old))) = 2%N /\
  d_val (store_get 0 (w_store (fst (run_line_old bogus_parse no_adj cfg0 bogus_line (fst wv, vm_init_old))))) = 0.
Proof. vm_compute. repeat split. Qed.

(* the repaired memo on the same input: the error is raised again *)
Lemma new_memo_same_input :
  let wv := run_lines_new bogus_parse no_adj cfg0 [bogus_line] (w_empty, vm_init_new) in
  w_errs (fst (run_line_new bogus_parse no_adj cfg0 bogus_line wv)) = 2%N /\
  d_val (store_get 0 (w_store (fst (run_line_new bogus_parse no_adj cfg0 bogus_line wv)))) = 0.
Proof. vm_compute. split; reflexivity. Qed.

(* a label set created by one line, removed from outside the VM (Store.Gc) and
   named again by a later line; and the same with `del` on the line itself *)
Definition dim_line (now : Z) : line := {| l_now := now; l_year := 2026; l_evs := [EGet 7; EInc 7] |}.
Definition dim_del_line (now : Z) : line :=
  {| l_now := now; l_year := 2026; l_evs := [EGet 7; EInc 7; EDel 7; EExpire 7] |}.
Definition dim_hist : list hstep :=
  [HLine (dim_line 1000); HLine (dim_line 2000); HWorld (ext_del [7%N])].

Lemma dim_delete_recreate :
  let wv2 := run_hist_new bogus_parse no_adj cfg0 [HLine (dim_line 1000); HLine (dim_line 2000)] (w_empty, vm_init_new) in
  let wv := run_hist_new bogus_parse no_adj cfg0 dim_hist (w_empty, vm_init_new) in
  (* two lines counted; then the label set is taken away *)
  store_get 7 (w_store (fst wv2)) = {| d_val := 2; d_time := 2000 |} /\
  store_mem 7 (w_store (fst wv)) = false /\
  (* the next line makes a new datum: 1, not 3 *)
  w_store (fst (run_line_new bogus_parse no_adj cfg0 (dim_line 3000) wv)) =
    [(0%N, {| d_val := 0; d_time := 0 |}); (7%N, {| d_val := 1; d_time := 3000 |})] /\
  (* del on the line: the label set is gone, and `del ... after` then fails *)
  fst (run_line_new bogus_parse no_adj cfg0 (dim_del_line 3000) wv) =
    {| w_store := [(0%N, {| d_val := 0; d_time := 0 |})]; w_errs := 1 |}.
Proof. vm_compute. repeat split. Qed.

(* one value under two layouts: 03/04/2020 as 01/02/2006 and as 02/01/2006 *)
Definition l_mdy : bytes := [48;49;47;48;50;47;50;48;48;54]%N.
Definition l_dmy : bytes := [48;50;47;48;49;47;50;48;48;54]%N.
Definition v_0304 : bytes := [48;51;47;48;52;47;50;48;50;48]%N.
Definition two_layout_parse : N -> bytes -> bytes -> option ptime := fun _ l v =>
  if bytes_eqb v v_0304 then
    if bytes_eqb l l_mdy then Some {| pt_ns := 1583280000000000000; pt_year := 2020 |}
    else if bytes_eqb l l_dmy then Some {| pt_ns := 1585872000000000000; pt_year := 2020 |}
    else None
  else None.
Definition two_layout_line : line :=
  {| l_now := 1790000000000000000; l_year := 2026;
     l_evs := [EStrptime l_mdy v_0304; ETimestamp; ESet 0; EStrptime l_dmy v_0304; ETimestamp; ESet 1] |}.
Definition w_two : world :=
  {| w_store := [(0%N, {| d_val := 0; d_time := 0 |}); (1%N, {| d_val := 0; d_time := 0 |})]; w_errs := 0 |}.

Lemma old_memo_ignores_layout :
  let w := fst (run_line_old two_layout_parse no_adj cfg0 two_layout_line (w_two, vm_init_old)) in
  two_layout_parse 0%N l_dmy v_0304 = Some {| pt_ns := 1585872000000000000; pt_year := 2020 |} /\
  store_get 1 (w_store w) = {| d_val := 1583280000; d_time := 1583280000000000000 |}.
Proof. vm_compute. split; reflexivity. Qed.

Lemma new_memo_respects_layout :
  let w := fst (run_line_new two_layout_parse no_adj cfg0 two_layout_line (w_two, vm_init_new)) in
  store_get 0 (w_store w) = {| d_val := 1583280000; d_time := 1583280000000000000 |} /\
  store_get 1 (w_store w) = {| d_val := 1585872000; d_time := 1585872000000000000 |}.
Proof. vm_compute. split; reflexivity. Qed.

(* the statement of C07_strptime is false of the value-keyed memo *)
Lemma old_memo_refutes_strptime :
  exists time_parse add_years cfg now year pre layout value p,
    let s := exec memo_old (strptime_old time_parse add_years) cfg now year pre
               {| s_th := fresh_thread; s_w := w_two; s_vm := vm_init_old |} in
    v_term (s_vm s) = false /\
    time_parse (c_loc cfg) layout value = Some p /\
    t_time (s_th (step memo_old (strptime_old time_parse add_years) cfg now year (EStrptime layout value) s))
      <> adjust add_years cfg year layout value p.
Proof.
  exists two_layout_parse, no_adj, cfg0, 1790000000000000000, 2026, [EStrptime l_mdy v_0304], l_dmy, v_0304,
         {| pt_ns := 1585872000000000000; pt_year := 2020 |}.
  vm_compute. repeat split; try reflexivity. intros H. discriminate H.
Qed.
