(* Proofs about Tail/FileStream.v: with both repairs, what the tailer delivers
   over any history equals the per-generation specification. *)
From V Require Import Base.Bytes Tail.LineReader Tail.FileStream Proofs.LineReaderProofs.
From Coq Require Import Arith Lia.

(* ------------------------------------------------------------------ *)
(* one pass of the stream loop in the situations that can arise when every
   operation is observed before the next one *)

Lemma stream_eta s : mk_stream (s_ino s) (s_off s) (s_pend s) = s.
Proof. destruct s; reflexivity. Qed.

Lemma read_new_at_eof f i c p :
  f i = c -> read_new f (mk_stream i (length c) p) = ([], mk_stream i (length c) p).
Proof.
  intros H. unfold read_new; cbn [s_ino s_off s_pend]. rewrite H, skipn_all.
  cbn [split length]. rewrite Nat.add_0_r. reflexivity.
Qed.

(* nothing changed: the stream goes back to waiting *)
Lemma wake_stable n ft fr fs i c p :
  cur fs = Some i -> files fs i = c ->
  wake (S n) ft fr fs (mk_stream i (length c) p) = ([], Some (mk_stream i (length c) p)).
Proof.
  intros Hc Hf. cbn [wake]. rewrite (read_new_at_eof _ _ _ _ Hf), Hc.
  cbn [s_ino s_off s_pend]. rewrite Nat.eqb_refl. cbn [negb]. rewrite Hf, Nat.ltb_irrefl.
  reflexivity.
Qed.

(* bytes were appended *)
Lemma wake_append n ft fr fs i c d p :
  cur fs = Some i -> files fs i = c ++ d ->
  wake (S n) ft fr fs (mk_stream i (length c) p) =
  (fst (split p d), Some (mk_stream i (length (c ++ d)) (snd (split p d)))).
Proof.
  intros Hc Hf. cbn [wake]. unfold read_new; cbn [s_ino s_off s_pend].
  rewrite Hf, skipn_app, skipn_all, Nat.sub_diag. cbn [skipn app].
  destruct (split p d) as [ls p']. rewrite Hc. cbn [s_ino s_off s_pend fst snd].
  rewrite Nat.eqb_refl. cbn [negb]. rewrite Hf, app_length, Nat.ltb_irrefl. reflexivity.
Qed.

(* the file was truncated (to nothing) below the offset *)
Lemma wake_truncated n ft fr fs i off p :
  cur fs = Some i -> files fs i = [] -> 0 < off ->
  wake (S (S n)) ft fr fs (mk_stream i off p) =
  (flush p, Some (mk_stream i 0 (if ft then [] else p))).
Proof.
  intros Hc Hf Hpos.
  change (wake (S (S n)) ft fr fs (mk_stream i off p)) with
    (let (ls, s1) := read_new (files fs) (mk_stream i off p) in
     match cur fs with
     | None => (ls ++ flush (s_pend s1), None)
     | Some j =>
         if negb (Nat.eqb j (s_ino s1)) then
           let (ls2, r) := wake (S n) ft fr fs (mk_stream j 0 []) in
           (ls ++ (if fr then flush (s_pend s1) else []) ++ ls2, r)
         else if length (files fs j) <? s_off s1 then
           let (ls2, r) := wake (S n) ft fr fs (mk_stream (s_ino s1) 0 (if ft then [] else s_pend s1)) in
           (ls ++ flush (s_pend s1) ++ ls2, r)
         else (ls, Some s1)
     end).
  unfold read_new; cbn [s_ino s_off s_pend]. rewrite Hf, skipn_nil. cbn [split length].
  rewrite Nat.add_0_r, Hc. cbn [s_ino s_off s_pend]. rewrite Nat.eqb_refl. cbn [negb].
  rewrite Hf. cbn [length]. destruct (Nat.ltb_spec 0 off) as [_|]; [|lia].
  change 0 with (length (@nil byte)) at 1 2.
  rewrite (wake_stable n ft fr fs i [] _ Hc Hf). cbn [app]. rewrite app_nil_r. reflexivity.
Qed.

(* the path names another, new file with content d *)
Lemma wake_rotated n ft fr fs i j c d p :
  cur fs = Some j -> j <> i -> files fs i = c -> files fs j = d ->
  wake (S (S n)) ft fr fs (mk_stream i (length c) p) =
  ((if fr then flush p else []) ++ fst (split [] d),
   Some (mk_stream j (length d) (snd (split [] d)))).
Proof.
  intros Hc Hne Hfi Hfj.
  change (wake (S (S n)) ft fr fs (mk_stream i (length c) p)) with
    (let (ls, s1) := read_new (files fs) (mk_stream i (length c) p) in
     match cur fs with
     | None => (ls ++ flush (s_pend s1), None)
     | Some j =>
         if negb (Nat.eqb j (s_ino s1)) then
           let (ls2, r) := wake (S n) ft fr fs (mk_stream j 0 []) in
           (ls ++ (if fr then flush (s_pend s1) else []) ++ ls2, r)
         else if length (files fs j) <? s_off s1 then
           let (ls2, r) := wake (S n) ft fr fs (mk_stream (s_ino s1) 0 (if ft then [] else s_pend s1)) in
           (ls ++ flush (s_pend s1) ++ ls2, r)
         else (ls, Some s1)
     end).
  rewrite (read_new_at_eof _ _ _ _ Hfi), Hc. cbn [s_ino s_off s_pend].
  apply Nat.eqb_neq in Hne. rewrite Hne. cbn [negb].
  change 0 with (length (@nil byte)).
  assert (Hfj' : files fs j = [] ++ d) by exact Hfj.
  rewrite (wake_append n ft fr fs j [] d _ Hc Hfj'). cbn [app]. reflexivity.
Qed.

(* the path is gone *)
Lemma wake_deleted n ft fr fs i c p :
  cur fs = None -> files fs i = c ->
  wake (S n) ft fr fs (mk_stream i (length c) p) = (flush p, None).
Proof.
  intros Hc Hf. cbn [wake]. rewrite (read_new_at_eof _ _ _ _ Hf), Hc. reflexivity.
Qed.

(* ------------------------------------------------------------------ *)
(* the simulation relation between tailer states and specification states *)

Definition R (t : tstate) (sp : option bytes) : Prop :=
  match sp with
  | None => cur (t_fs t) = None /\ t_stream t = None
  | Some g =>
      exists i, cur (t_fs t) = Some i /\ i < next_ino (t_fs t) /\
        length g <= length (files (t_fs t) i) /\
        t_stream t = Some (mk_stream i (length (files (t_fs t) i)) (snd (split [] g)))
  end.

(* what the tailer has already delivered of the current generation *)
Definition pre (sp : option bytes) : list bytes :=
  match sp with Some g => fst (split [] g) | None => [] end.

Lemma upd_same f i c : upd f i c i = c.
Proof. unfold upd. rewrite Nat.eqb_refl. reflexivity. Qed.

Lemma upd_other f i c j : j <> i -> upd f i c j = f j.
Proof. intros H. unfold upd. apply Nat.eqb_neq in H. rewrite H. reflexivity. Qed.

(* observing a state in which the stream sits at the end of the current file *)
Lemma observe_stable ft fr fs i c p :
  cur fs = Some i -> files fs i = c ->
  observe ft fr (mk_t fs (Some (mk_stream i (length c) p))) =
  ([], mk_t fs (Some (mk_stream i (length c) p))).
Proof.
  intros Hc Hf. unfold observe, wake_stream, wake_fuel; cbn [t_stream t_fs].
  rewrite (wake_stable _ ft fr fs i c p Hc Hf). unfold poll; cbn [t_stream t_fs].
  rewrite (wake_stable _ ft fr fs i c p Hc Hf). reflexivity.
Qed.

Lemma observe_none ft fr fs : cur fs = None ->
  observe ft fr (mk_t fs None) = ([], mk_t fs None).
Proof.
  intros Hc. unfold observe, wake_stream, poll; cbn [t_stream t_fs]. rewrite Hc. reflexivity.
Qed.

(* an operation that appends d *)
Lemma step_append t g d fs' :
  R t (Some g) ->
  (forall i, cur (t_fs t) = Some i ->
     fs' = mk_fs (upd (files (t_fs t)) i (files (t_fs t) i ++ d)) (cur (t_fs t)) (next_ino (t_fs t))) ->
  exists l t', observe true true (mk_t fs' (t_stream t)) = (l, t') /\
    R t' (Some (g ++ d)) /\ pre (Some g) ++ l = pre (Some (g ++ d)).
Proof.
  intros (i & Hc & Hlt & Hlen & Hs) Hfs. specialize (Hfs i Hc). subst fs'.
  set (f := files (t_fs t)) in *. set (c := f i) in *.
  set (fs' := mk_fs (upd f i (c ++ d)) (cur (t_fs t)) (next_ino (t_fs t))).
  assert (Hc' : cur fs' = Some i) by exact Hc.
  assert (Hf' : files fs' i = c ++ d) by apply upd_same.
  rewrite Hs.
  eexists _, _. split; [|split].
  - unfold observe, wake_stream, wake_fuel; cbn [t_stream t_fs].
    rewrite (wake_append _ true true fs' i c d _ Hc' Hf').
    unfold poll; cbn [t_stream t_fs].
    rewrite (wake_stable _ true true fs' i (c ++ d) _ Hc' Hf'). rewrite app_nil_r. reflexivity.
  - exists i. cbn [t_fs t_stream]. rewrite Hf'. repeat split.
    + exact Hc'.
    + exact Hlt.
    + rewrite !app_length. lia.
    + rewrite (split_app g [] d). destruct (split [] g) as [l1 p1]. cbn [snd].
      destruct (split p1 d) as [l2 p2]. reflexivity.
  - unfold pre. rewrite (split_app g [] d). destruct (split [] g) as [l1 p1]. cbn [fst snd].
    destruct (split p1 d) as [l2 p2]. reflexivity.
Qed.

(* an operation that empties the current file in place *)
Lemma step_truncate t g fs' :
  R t (Some g) ->
  (forall i, cur (t_fs t) = Some i ->
     cur fs' = Some i /\ files fs' i = [] /\ next_ino (t_fs t) <= next_ino fs') ->
  exists l t', observe true true (mk_t fs' (t_stream t)) = (l, t') /\
    R t' (Some []) /\ pre (Some g) ++ l = frame g.
Proof.
  intros (i & Hc & Hlt & Hlen & Hs) Hfs. destruct (Hfs i Hc) as (Hc' & Hf' & Hn).
  rewrite Hs. set (c := files (t_fs t) i) in *.
  assert (HR : R (mk_t fs' (Some (mk_stream i 0 []))) (Some [])).
  { exists i. cbn [t_fs t_stream]. rewrite Hf'. repeat split; [exact Hc'|lia|reflexivity]. }
  destruct (Nat.eq_dec (length c) 0) as [Hz|Hnz].
  - (* nothing had ever been read from this file: the truncation is invisible *)
    assert (g = []) as -> by (destruct g; [reflexivity|cbn [length] in Hlen; lia]).
    rewrite Hz. cbn [split snd].
    eexists _, _. split; [|split].
    + change 0 with (length (@nil byte)). apply (observe_stable true true fs' i [] _ Hc' Hf').
    + exact HR.
    + reflexivity.
  - eexists _, _. split; [|split].
    + unfold observe, wake_stream, wake_fuel; cbn [t_stream t_fs].
      rewrite (wake_truncated _ true true fs' i (length c) _ Hc' Hf') by lia.
      unfold poll; cbn [t_stream t_fs].
      change 0 with (length (@nil byte)).
      rewrite (wake_stable _ true true fs' i [] _ Hc' Hf'). rewrite app_nil_r. reflexivity.
    + exact HR.
    + unfold pre, frame. destruct (split [] g); reflexivity.
Qed.

Definition app_data (o : op) : option bytes :=
  match o with
  | AppendLine l => Some (l ++ [NL])
  | AppendFrag d => Some d
  | AppendCRLF l => Some (l ++ [CR; NL])
  | AppendRep u k t => Some (rep_data u k t)
  | _ => None
  end.

(* every operation, observed, keeps the relation and delivers what the
   specification says *)
Lemma step_sim t sp o :
  R t sp ->
  exists l t', step true true t o = (l, t') /\
    R t' (snd (spec_step sp o)) /\
    pre sp ++ l = fst (spec_step sp o) ++ pre (snd (spec_step sp o)).
Proof.
  intros HR. unfold step. destruct sp as [g|].
  - pose proof HR as (i & Hc & Hlt & Hlen & Hs).
    destruct (app_data o) as [d|] eqn:Ed.
    + (* appends *)
      assert (Hfs : forall i, cur (t_fs t) = Some i ->
                fs_op o (t_fs t) =
                mk_fs (upd (files (t_fs t)) i (files (t_fs t) i ++ d)) (cur (t_fs t)) (next_ino (t_fs t))).
      { intros i' Hi'. unfold fs_op. rewrite Hi'.
        destruct o; cbn [app_data] in Ed; try discriminate; injection Ed as <-; reflexivity. }
      destruct (step_append t g d _ HR Hfs) as (l & t' & Ho & HR' & Hout).
      exists l, t'. split; [exact Ho|].
      assert (Hsp : spec_step (Some g) o = ([], Some (g ++ d))).
      { destruct o; cbn [app_data] in Ed; try discriminate; injection Ed as <-; reflexivity. }
      rewrite Hsp. cbn [fst snd app]. auto.
    + destruct o; cbn [app_data] in Ed; try discriminate; clear Ed.
      * (* Truncate *)
        destruct (step_truncate t g (fs_op Truncate (t_fs t)) HR) as (l & t' & Ho & HR' & Hout).
        { intros i' Hi'. unfold fs_op. rewrite Hi'. cbn [cur files next_ino].
          rewrite upd_same. auto. }
        exists l, t'. cbn [spec_step fst snd pre split]. rewrite app_nil_r. auto.
      * (* RenameCreate d *)
        set (fs' := fs_op (RenameCreate d) (t_fs t)).
        set (j := next_ino (t_fs t)).
        assert (Hfs : fs' = mk_fs (upd (files (t_fs t)) j d) (Some j) (S j))
          by (unfold fs', fs_op; rewrite Hc; reflexivity).
        assert (Hc' : cur fs' = Some j) by (rewrite Hfs; reflexivity).
        assert (Hne : j <> i) by (unfold j; lia).
        assert (Hfi : files fs' i = files (t_fs t) i)
          by (rewrite Hfs; cbn [files]; apply upd_other; lia).
        assert (Hfj : files fs' j = d) by (rewrite Hfs; cbn [files]; apply upd_same).
        rewrite Hs. eexists _, _. split; [|split].
        -- unfold observe, wake_stream, wake_fuel; cbn [t_stream t_fs].
           rewrite (wake_rotated _ true true fs' i j _ d _ Hc' Hne Hfi Hfj).
           unfold poll; cbn [t_stream t_fs].
           rewrite (wake_stable _ true true fs' j d _ Hc' Hfj). rewrite app_nil_r. reflexivity.
        -- cbn [spec_step snd]. exists j. cbn [t_fs t_stream]. rewrite Hfj.
           repeat split; [exact Hc'|rewrite Hfs; cbn [next_ino]; lia|lia].
        -- cbn [spec_step fst snd pre]. rewrite app_assoc. f_equal.
           unfold frame. destruct (split [] g); reflexivity.
      * (* CopyTruncate *)
        destruct (step_truncate t g (fs_op CopyTruncate (t_fs t)) HR) as (l & t' & Ho & HR' & Hout).
        { intros i' Hi'. unfold fs_op. rewrite Hi'. cbn [cur files next_ino].
          rewrite upd_same. auto. }
        exists l, t'. cbn [spec_step fst snd pre split]. rewrite app_nil_r. auto.
      * (* Delete *)
        set (fs' := fs_op Delete (t_fs t)).
        assert (Hfs : fs' = mk_fs (files (t_fs t)) None (next_ino (t_fs t)))
          by (unfold fs', fs_op; rewrite Hc; reflexivity).
        assert (Hc' : cur fs' = None) by (rewrite Hfs; reflexivity).
        assert (Hfi : files fs' i = files (t_fs t) i) by (rewrite Hfs; reflexivity).
        rewrite Hs. eexists _, _. split; [|split].
        -- unfold observe, wake_stream, wake_fuel; cbn [t_stream t_fs].
           rewrite (wake_deleted _ true true fs' i _ _ Hc' Hfi).
           unfold poll; cbn [t_stream t_fs]. rewrite Hc'. cbn [t_stream t_fs]. rewrite app_nil_r. reflexivity.
        -- cbn [spec_step snd R t_fs t_stream]. auto.
        -- cbn [spec_step fst snd pre]. rewrite app_nil_r.
           unfold frame. destruct (split [] g); reflexivity.
      * (* Recreate: the file exists, nothing happens *)
        assert (Hfs : fs_op Recreate (t_fs t) = t_fs t) by (unfold fs_op; rewrite Hc; reflexivity).
        rewrite Hfs, Hs. eexists _, _. split; [|split].
        -- apply (observe_stable true true (t_fs t) i _ _ Hc eq_refl).
        -- cbn [spec_step snd]. exists i. cbn [t_fs t_stream]. auto.
        -- cbn [spec_step fst snd app]. apply app_nil_r.
      * (* Idle *)
        assert (Hfs : fs_op Idle (t_fs t) = t_fs t) by (unfold fs_op; rewrite Hc; reflexivity).
        rewrite Hfs, Hs. eexists _, _. split; [|split].
        -- apply (observe_stable true true (t_fs t) i _ _ Hc eq_refl).
        -- cbn [spec_step snd]. exists i. cbn [t_fs t_stream]. auto.
        -- cbn [spec_step fst snd app]. apply app_nil_r.
  - destruct HR as (Hc & Hs). rewrite Hs.
    destruct o;
      try (match goal with |- context [fs_op ?o _] =>
             assert (Hfs : fs_op o (t_fs t) = t_fs t) by (unfold fs_op; rewrite Hc; reflexivity)
           end;
           rewrite Hfs; eexists _, _; split; [apply (observe_none true true _ Hc)|];
           cbn [spec_step fst snd pre app R t_fs t_stream]; auto; fail).
    (* Recreate: the pattern poll opens a stream at the end of the new, empty file *)
    set (j := next_ino (t_fs t)).
    set (fs' := fs_op Recreate (t_fs t)).
    assert (Hfs : fs' = mk_fs (upd (files (t_fs t)) j []) (Some j) (S j))
      by (unfold fs', fs_op; rewrite Hc; reflexivity).
    assert (Hc' : cur fs' = Some j) by (rewrite Hfs; reflexivity).
    assert (Hfj : files fs' j = []) by (rewrite Hfs; cbn [files]; apply upd_same).
    eexists _, _. split; [|split].
    + unfold observe, wake_stream, poll; cbn [t_stream t_fs]. rewrite Hc', Hfj.
      unfold wake_fuel. cbn [t_stream t_fs].
      rewrite (wake_stable _ true true fs' j [] _ Hc' Hfj). reflexivity.
    + cbn [spec_step snd]. exists j. cbn [t_fs t_stream]. rewrite Hfj.
      repeat split; [exact Hc'|rewrite Hfs; cbn [next_ino]; lia|reflexivity].
    + reflexivity.
Qed.

Lemma stop_sim t sp : R t sp ->
  pre sp ++ stop true true t = match sp with Some g => frame g | None => [] end.
Proof.
  intros HR. unfold stop, wake_stream. destruct sp as [g|].
  - destruct HR as (i & Hc & Hlt & Hlen & Hs). rewrite Hs. unfold wake_fuel.
    rewrite (wake_stable _ true true (t_fs t) i _ _ Hc eq_refl). cbn [t_stream app s_pend pre].
    unfold frame. destruct (split [] g); reflexivity.
  - destruct HR as (Hc & Hs). rewrite Hs. cbn [t_stream]. rewrite Hs. reflexivity.
Qed.

Lemma run_from_sim ops : forall t sp, R t sp ->
  pre sp ++ run_from true true t ops = spec_from sp ops.
Proof.
  induction ops as [|o r IH]; intros t sp HR; cbn [run_from spec_from].
  - apply stop_sim. exact HR.
  - destruct (step_sim t sp o HR) as (l & t' & Hstep & HR' & Hout).
    rewrite Hstep. destruct (spec_step sp o) as [out sp'] eqn:Esp. cbn [fst snd] in *.
    rewrite app_assoc, Hout, <- app_assoc. f_equal. apply IH. exact HR'.
Qed.

Lemma start_sim init : exists t0,
  observe true true (poll (start init)) = ([], t0) /\
  R t0 (match init with Some _ => Some [] | None => None end).
Proof.
  destruct init as [c|]; cbn [start].
  - set (fs := mk_fs (upd (fun _ => []) 0 c) (Some 0) 1).
    assert (Hc : cur fs = Some 0) by reflexivity.
    assert (Hf : files fs 0 = c) by apply upd_same.
    unfold poll; cbn [t_stream t_fs]. fold fs. rewrite Hc, Hf.
    eexists. split; [apply (observe_stable true true fs 0 c _ Hc Hf)|].
    exists 0. cbn [t_fs t_stream]. fold fs. rewrite Hf.
    repeat split; [cbn; lia|cbn [length]; lia].
  - eexists. split; [reflexivity|]. split; reflexivity.
Qed.

(* ------------------------------------------------------------------ *)
(* the property *)

Theorem exactly_once init ops : delivered init ops = spec init ops.
Proof.
  unfold delivered, run, spec. destruct (start_sim init) as (t0 & Ho & HR).
  rewrite Ho. cbn [app]. rewrite <- (run_from_sim ops t0 _ HR).
  destruct init; reflexivity.
Qed.

(* specification-side facts used for the fragment statement *)
Fixpoint spec_state (sp : option bytes) (ops : list op) : option bytes :=
  match ops with [] => sp | o :: r => spec_state (snd (spec_step sp o)) r end.

Definition spec_final (sp : option bytes) : list bytes :=
  match sp with Some g => frame g | None => [] end.

Lemma spec_from_app a : forall sp b,
  exists outs, spec_from sp a = outs ++ spec_final (spec_state sp a) /\
               spec_from sp (a ++ b) = outs ++ spec_from (spec_state sp a) b.
Proof.
  induction a as [|o r IH]; intros sp b; cbn [spec_from spec_state app].
  - exists []. destruct sp; auto.
  - destruct (spec_step sp o) as [out sp'] eqn:E. cbn [snd].
    destruct (IH sp' b) as (outs & H1 & H2).
    exists (out ++ outs). rewrite H1, H2, !app_assoc. auto.
Qed.

Definition ends_generation (o : op) : bool :=
  match o with Truncate | RenameCreate _ | CopyTruncate | Delete => true | _ => false end.

Definition init_state (init : option bytes) : option bytes :=
  match init with Some _ => Some [] | None => None end.

(* is there a file at the path after the history? *)
Definition present_after (init : option bytes) (ops : list op) : bool :=
  match spec_state (init_state init) ops with Some _ => true | None => false end.

(* what a tailer delivers over ops when it starts on a file that is new at
   that moment and already holds d (None: on no file) *)
Definition delivered_gen (start : option bytes) (ops : list op) : list bytes :=
  spec_from start ops.

Theorem fragment_once init ops1 e ops2 :
  ends_generation e = true -> present_after init ops1 = true ->
  delivered init (ops1 ++ e :: ops2) =
  delivered init ops1 ++
  delivered_gen (match e with Delete => None | RenameCreate d => Some d | _ => Some [] end) ops2.
Proof.
  intros He Hp. rewrite !exactly_once. unfold spec, present_after, delivered_gen in *.
  fold (init_state init) in *.
  destruct (spec_from_app ops1 (init_state init) (e :: ops2)) as (outs & H1 & H2).
  rewrite H1, H2. destruct (spec_state (init_state init) ops1) as [g|]; [|discriminate].
  rewrite <- app_assoc. f_equal. cbn [spec_final spec_from].
  destruct e; try discriminate; reflexivity.
Qed.

(* for the generation ends that leave an empty file (or none) the rest is
   literally a run of the tailer started there *)
Lemma delivered_gen_empty ops : delivered_gen (Some []) ops = delivered (Some []) ops.
Proof. rewrite exactly_once. reflexivity. Qed.

Lemma delivered_gen_none ops : delivered_gen None ops = delivered None ops.
Proof. rewrite exactly_once. reflexivity. Qed.
