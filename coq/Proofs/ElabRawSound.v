(* The checker model WITHOUT the validation step: if [elab_raw] succeeds and
   raises no warning, the core tree it produced is accepted ([accepts],
   Proofs/CodegenVerifies.v), hence its bytecode verifies and never faults.

   Induction over the pre-checker tree with a store-threading invariant: the
   elaboration state only grows (metric types once instantiated never change,
   the regexp and string tables only get longer), so a fact about an
   elaborated sub-expression stated for every final program that EXTENDS the
   state reached after it ([ext]) still holds at the end. *)
From V Require Import Lang.Elab Lang.Verify Proofs.CodegenVerifies.
From Coq Require Import Lia.
Local Open Scope nat_scope.

Lemma nth_error_list_upd_eq {A} (l : list A) n x :
  n < length l -> nth_error (list_upd l n x) n = Some x.
Proof. revert n; induction l as [|y l IH]; intros [|n] H; cbn in *; try lia; auto. apply IH. lia. Qed.

Lemma nth_error_list_upd_neq {A} (l : list A) n m x :
  n <> m -> nth_error (list_upd l n x) m = nth_error l m.
Proof. revert n m; induction l as [|y l IH]; intros [|n] [|m] H; cbn; auto; try congruence. Qed.

Lemma length_list_upd {A} (l : list A) n x : length (list_upd l n x) = length l.
Proof. revert n; induction l as [|y l IH]; intros [|n]; cbn; auto. Qed.

(* the type a metric is declared with in the final program *)
Definition fty (t : ty) : ty := match t with TBool => TInt | x => x end.

(* class of an elaborated expression of (checker) type t *)
Definition relx (t : ty) (e : expr) (c : cls) : Prop :=
  match t with
  | TInt => c = (if is_i64 e then CI64 else CInt None)
  | TFloat => c = CF64
  | TStr => c = CStr
  | TBool => c = CBool \/ c = CI64       (* `~x` is typed Bool and computes an int64 *)
  end.

Definition typed (p : prog) (e : expr) (t : tyr) : Prop :=
  match t with
  | Known ty => exists c, ce p e = Some c /\ relx ty e c
  | Open m => ce p e = Some (get_cls (mty (p_decls p) m)) /\ is_i64 e = true
  end.

Lemma relx_str_ok t e c : relx t e c -> t <> TBool -> str_ok c = true.
Proof. destruct t; cbn; intros H Hn; try congruence; subst; auto. destruct (is_i64 e); auto. Qed.
Lemma relx_int_ok t e c : relx t e c -> t = TInt \/ t = TStr -> int_ok c = true.
Proof. intros H [-> | ->]; cbn in H; subst; auto. destruct (is_i64 e); auto. Qed.
Lemma relx_float_ok t e c : relx t e c -> t = TFloat -> float_ok c = true.
Proof. intros H ->; cbn in H; subst; auto. Qed.
Lemma relx_cond_ok e c : relx TBool e c -> cond_ok c = true.
Proof. intros [-> | ->]; auto. Qed.

Lemma typed_open_known p e m t :
  typed p e (Open m) -> mty (p_decls p) m = fty t -> typed p e (Known t).
Proof.
  intros [H1 H2] Hm. cbn. eexists. split; [exact H1|]. rewrite Hm.
  destruct t; cbn; rewrite ?H2; auto.
Qed.

Section Raw.
Variable decls : list pdecl.
Variable caps : list (bytes * list (bytes * option ty)).

Definition ext (st : est) (p : prog) : Prop :=
  (forall m t, mt_get st m = Known t -> mty (p_decls p) m = fty t) /\
  length (e_res st) <= length (p_res p) /\
  length (e_strs st) <= length (p_strs p).

(* the final program declares every metric with the key count of its declaration *)
Definition arity_ok (p : prog) : Prop :=
  forall m n, nkeys_of decls m = Some n -> metric_ok p m (N.to_nat n) = true.

Definition wf (st : est) : Prop := length (e_mt st) = length decls.

Definition le (st st' : est) : Prop :=
  (wf st -> wf st') /\ (forall p, ext st' p -> ext st p).

Lemma le_refl st : le st st.
Proof. split; auto. Qed.
Lemma le_trans a b c : le a b -> le b c -> le a c.
Proof. intros [H1 H2] [H3 H4]. split; auto. Qed.

Lemma mt_get_known_inv st m t : mt_get st m = Known t -> nth_error (e_mt st) (N.to_nat m) = Some (Some t).
Proof. unfold mt_get. destruct (nth_error (e_mt st) (N.to_nat m)) as [[x|]|]; congruence. Qed.

Lemma mt_get_open st m m' : mt_get st m = Open m' -> m' = m.
Proof. unfold mt_get. destruct (nth_error (e_mt st) (N.to_nat m)) as [[x|]|]; congruence. Qed.

Lemma mt_get_pin_other st m t m' :
  N.to_nat m <> N.to_nat m' -> mt_get (pin st m t) m' = mt_get st m'.
Proof. intros H. unfold mt_get, pin. cbn. rewrite nth_error_list_upd_neq; auto. Qed.

Lemma mt_get_pin_same st m t :
  N.to_nat m < length (e_mt st) -> mt_get (pin st m t) m = Known t.
Proof. intros H. unfold mt_get, pin. cbn. rewrite nth_error_list_upd_eq; auto. Qed.

Lemma le_pin st m t :
  (mt_get st m = Open m \/ mt_get st m = Known t) -> le st (pin st m t).
Proof.
  intros Hm. split.
  - unfold wf, pin. cbn. rewrite length_list_upd. auto.
  - intros p (H1 & H2 & H3). split; [|split; auto].
    intros m' t' Hk. destruct (Nat.eq_dec (N.to_nat m) (N.to_nat m')) as [Heq|Hne].
    + assert (m = m') by lia. subst m'. destruct Hm as [Hm|Hm]; [congruence|].
      rewrite Hm in Hk. injection Hk as <-. apply H1.
      apply mt_get_known_inv in Hm. apply mt_get_pin_same. apply nth_error_Some. congruence.
    + apply H1. rewrite mt_get_pin_other; auto.
Qed.

Lemma ext_pin st m t p :
  wf st -> N.to_nat m < length decls -> ext (pin st m t) p -> mty (p_decls p) m = fty t.
Proof. intros Hw Hm (H1 & _). apply H1. apply mt_get_pin_same. unfold wf in Hw. lia. Qed.

Lemma le_add_warn w st : le st (add_warn st w).
Proof. split; [intro H; exact H | intros p H; exact H]. Qed.
Lemma le_warn_if b st : le st (warn_if b st).
Proof. destruct b; [apply le_add_warn | apply le_refl]. Qed.
Lemma le_use st m : le st (use st m).
Proof. split; [intro H; exact H | intros p H; exact H]. Qed.
Lemma le_push st : le st (push_scope st).
Proof. split; [intro H; exact H | intros p H; exact H]. Qed.
Lemma le_pop st : le st (pop_scope st).
Proof. split; [intro H; exact H | intros p H; exact H]. Qed.

Lemma le_add_strs st l : le st (add_strs st l).
Proof.
  split; auto. intros p (H1 & H2 & H3). split; [exact H1|]. split; auto.
  cbn in H3. rewrite app_length in H3. lia.
Qed.

Lemma warn_if_nil b st : e_warn (warn_if b st) = [] -> b = false /\ e_warn st = [].
Proof. destruct b; cbn; [discriminate|auto]. Qed.

Lemma reg_pat_ok pat syms st pid st' :
  reg_pat caps pat syms st = EOk (pid, st') ->
  le st st' /\ e_warn st' = e_warn st /\ e_mt st' = e_mt st /\
  (forall p, ext st' p -> idx_ok pid (length (p_res p)) = true).
Proof.
  unfold reg_pat. destruct (caps_of pat caps) as [gs|]; try discriminate.
  assert (Hidx : forall (p : prog), length (e_res st ++ [pat]) <= length (p_res p) ->
            idx_ok (N.of_nat (length (e_res st))) (length (p_res p)) = true).
  { intros p H. rewrite app_length in H. cbn in H. unfold idx_ok. apply Z.ltb_lt. lia. }
  assert (Hle : forall sc, le st (mkest (e_mt st) (e_used st) (e_res st ++ [pat]) (e_strs st) sc (e_warn st))).
  { intros sc. split; [intro H; exact H|]. intros q (H1 & H2 & H3). split; [exact H1|]. split; auto.
    cbn in H2. rewrite app_length in H2. lia. }
  assert (Hix : forall sc q, ext (mkest (e_mt st) (e_used st) (e_res st ++ [pat]) (e_strs st) sc (e_warn st)) q ->
             idx_ok (N.of_nat (length (e_res st))) (length (p_res q)) = true).
  { intros sc q (H1 & H2 & H3). apply Hidx. exact H2. }
  destruct syms.
  - destruct (e_scopes st) as [|frame rest]; try discriminate.
    destruct (group_syms _ _ _ _) as [frame'|]; try discriminate.
    intros [= <- <-]. split; [apply Hle|]. split; [reflexivity|]. split; [reflexivity|]. apply Hix.
  - intros [= <- <-]. split; [apply Hle|]. split; [reflexivity|]. split; [reflexivity|]. apply Hix.
Qed.

(* ---- conversions inserted by the promotion ---- *)
Lemma conv_to_typed p x t a a' :
  conv_to x t a = EOk a' -> typed p a (Known x) -> typed p a' (Known t).
Proof.
  unfold conv_to. destruct (ty_eqb x t) eqn:Heq.
  - intros [= <-] H. destruct x, t; cbn in Heq; try discriminate; exact H.
  - destruct (conv_exists x t) eqn:Hc; try discriminate. intros [= <-] (c & Hce & Hr).
    cbn [typed ce]. rewrite Hce.
    destruct x, t; cbn in Heq, Hc; try discriminate; cbn in Hr; subst c; cbn.
    + destruct (is_i64 a); cbn; eauto.
    + destruct (is_i64 a); cbn; eauto.
    + eauto.
    + eauto.
    + eauto.
Qed.

Lemma idx_of_nat n len : n < len -> idx_ok (N.of_nat n) len = true.
Proof. intros H. unfold idx_ok. apply Z.ltb_lt. lia. Qed.

(* ---- the invariant ---- *)
Definition Pex (e : pexpr) : Prop := forall st e' t st',
  ex decls caps e st = EOk (e', t, st') -> wf st ->
  le st st' /\
  (forall m, t = Open m -> mt_get st' m = Open m /\ N.to_nat m < length decls) /\
  (e_warn st' = [] -> e_warn st = [] /\ forall p, arity_ok p -> ext st' p -> typed p e' t).

Definition Pexs (ks : pexprs) : Prop := forall st ks' st',
  exs decls caps ks st = EOk (ks', st') -> wf st ->
  le st st' /\
  (e_warn st' = [] -> e_warn st = [] /\ forall p, arity_ok p -> ext st' p ->
      keys_ok p ks' = true /\ exprs_len ks' = pexprs_len ks).

Lemma typed_refresh p a ta st2 x :
  typed p a ta -> ext st2 p -> refresh st2 ta = Known x -> typed p a (Known x).
Proof.
  destruct ta as [y|m]; cbn [refresh].
  - intros H _ [= <-]. exact H.
  - intros H (H1 & _) Hr. eapply typed_open_known; eauto.
Qed.

Lemma refresh_open st ta m : refresh st ta = Open m -> ta = Open m /\ mt_get st m = Open m.
Proof.
  destruct ta as [y|m0]; cbn [refresh]; [discriminate|]. intros H.
  pose proof (mt_get_open _ _ _ H) as ->. auto.
Qed.

(* two sub-expressions elaborated one after the other *)
Lemma chain2 a b st a1 ta st1 b1 tb st2 :
  Pex a -> Pex b ->
  ex decls caps a st = EOk (a1, ta, st1) -> ex decls caps b st1 = EOk (b1, tb, st2) -> wf st ->
  le st st2 /\ wf st2 /\
  (forall m, ta = Open m -> N.to_nat m < length decls) /\
  (forall m, tb = Open m -> mt_get st2 m = Open m /\ N.to_nat m < length decls) /\
  (e_warn st2 = [] -> e_warn st = [] /\ forall p, arity_ok p -> ext st2 p -> typed p a1 ta /\ typed p b1 tb).
Proof.
  intros Ia Ib Ea Eb Hw.
  destruct (Ia _ _ _ _ Ea Hw) as (La & Oa & Wa).
  assert (Hw1 : wf st1) by (apply La; auto).
  destruct (Ib _ _ _ _ Eb Hw1) as (Lb & Ob & Wb).
  split; [eapply le_trans; eauto|]. split; [apply Lb; auto|].
  split; [intros m Hm; apply (Oa m Hm)|]. split; [exact Ob|].
  intros H2. destruct (Wb H2) as (H1 & Tb). destruct (Wa H1) as (H0 & Ta).
  split; auto. intros p Hp Hx. split; [apply Ta; auto; apply Lb; auto|apply Tb; auto].
Qed.

Lemma arith_fin_ok op t a1 b1 x y st e' t' st' :
  arith_fin op t a1 b1 x y st = EOk (e', t', st') ->
  st' = st /\ t' = Known t /\
  forall p, typed p a1 (Known x) -> typed p b1 (Known y) -> typed p e' (Known t).
Proof.
  unfold arith_fin. destruct t.
  - destruct (conv_to x TInt a1) as [a2| |] eqn:Ca; cbn [ebind]; try discriminate.
    destruct (conv_to y TInt b1) as [b2| |] eqn:Cb; cbn [ebind]; try discriminate.
    intros H.
    assert (Hr : EOk (EArith op TInt a2 b2, Known TInt, st) = EOk (e', t', st')).
    { destruct op; try exact H; destruct b2; try exact H; destruct z; try exact H; discriminate. }
    injection Hr as <- <- <-. repeat split; auto. intros p Ta Tb.
    destruct (conv_to_typed _ _ _ _ _ Ca Ta) as (ca & Hca & Ra).
    destruct (conv_to_typed _ _ _ _ _ Cb Tb) as (cb & Hcb & Rb).
    cbn [typed ce]. rewrite Hca, Hcb. cbn in Ra, Rb. subst ca cb.
    exists CI64. split; [|reflexivity].
    destruct op; cbn; destruct (is_i64 a2), (is_i64 b2); reflexivity.
  - destruct (conv_to x TFloat a1) as [a2| |] eqn:Ca; cbn [ebind]; try discriminate.
    destruct (conv_to y TFloat b1) as [b2| |] eqn:Cb; cbn [ebind]; try discriminate.
    intros H.
    assert (Hr : EOk (EArith op TFloat a2 b2, Known TFloat, st) = EOk (e', t', st')).
    { destruct op; try exact H; destruct b2; try exact H; destruct z; try exact H; discriminate. }
    injection Hr as <- <- <-. repeat split; auto. intros p Ta Tb.
    destruct (conv_to_typed _ _ _ _ _ Ca Ta) as (ca & Hca & Ra).
    destruct (conv_to_typed _ _ _ _ _ Cb Tb) as (cb & Hcb & Rb).
    cbn [typed ce]. rewrite Hca, Hcb. cbn in Ra, Rb. subst ca cb.
    exists CF64. split; [|reflexivity]. destruct op; reflexivity.
  - destruct op; try discriminate.
    destruct (conv_to x TStr a1) as [a2| |] eqn:Ca; cbn [ebind]; try discriminate.
    destruct (conv_to y TStr b1) as [b2| |] eqn:Cb; cbn [ebind]; try discriminate.
    intros [= <- <- <-]. repeat split; auto. intros p Ta Tb.
    destruct (conv_to_typed _ _ _ _ _ Ca Ta) as (ca & Hca & Ra).
    destruct (conv_to_typed _ _ _ _ _ Cb Tb) as (cb & Hcb & Rb).
    cbn [typed ce]. rewrite Hca, Hcb. cbn in Ra, Rb. subst ca cb.
    exists CStr. split; reflexivity.
  - discriminate.
Qed.

Lemma nkeys_lt m n : nkeys_of decls m = Some n -> N.to_nat m < length decls.
Proof.
  unfold nkeys_of. destruct (nth_error decls (N.to_nat m)) eqn:H; try discriminate.
  intros _. apply nth_error_Some. congruence.
Qed.

(* an operand that must be an int: typed Int, or an open metric just pinned to Int *)
Lemma int_operand p a ta st :
  typed p a ta -> ext st p ->
  match ta with
  | Known x => x = TInt
  | Open m => mt_get st m = Known TInt
  end ->
  exists c, ce p a = Some c /\ int_ok c = true.
Proof.
  destruct ta as [x|m]; intros T X H.
  - subst x. destruct T as (c & Hc & R). exists c. split; auto. eapply relx_int_ok; eauto.
  - destruct X as (X1 & _). pose proof (typed_open_known _ _ _ TInt T (X1 _ _ H)) as (c & Hc & R).
    exists c. split; auto. eapply relx_int_ok; eauto.
Qed.

(* finishing a case whose result type is known: [st'] extends the state reached
   after the operands, an empty warning list at [st'] gives [Q] *)
Lemma fin1 a st a1 ta st1 e' r st' (Q : Prop) :
  Pex a -> ex decls caps a st = EOk (a1, ta, st1) -> wf st ->
  le st1 st' -> (e_warn st' = [] -> e_warn st1 = [] /\ Q) ->
  (Q -> forall p, arity_ok p -> ext st' p -> typed p a1 ta -> typed p e' (Known r)) ->
  le st st' /\
  (forall m, Known r = Open m -> mt_get st' m = Open m /\ N.to_nat m < length decls) /\
  (e_warn st' = [] -> e_warn st = [] /\ forall p, arity_ok p -> ext st' p -> typed p e' (Known r)).
Proof.
  intros Ia Ea Hw L Wq T. destruct (Ia _ _ _ _ Ea Hw) as (La & Oa & Wa).
  split; [eapply le_trans; eauto|]. split; [intros m Hm; discriminate|].
  intros Hn. destruct (Wq Hn) as (H1 & HQ). destruct (Wa H1) as (H0 & Ta). split; auto.
  intros p Hp Hx. apply T; auto. apply Ta; auto. apply L; auto.
Qed.

Lemma fin2 a b st a1 ta st1 b1 tb st2 e' r st' (Q : Prop) :
  Pex a -> Pex b ->
  ex decls caps a st = EOk (a1, ta, st1) -> ex decls caps b st1 = EOk (b1, tb, st2) -> wf st ->
  le st2 st' -> (e_warn st' = [] -> e_warn st2 = [] /\ Q) ->
  (Q -> forall p, arity_ok p -> ext st' p -> typed p a1 ta -> typed p b1 tb -> typed p e' (Known r)) ->
  le st st' /\
  (forall m, Known r = Open m -> mt_get st' m = Open m /\ N.to_nat m < length decls) /\
  (e_warn st' = [] -> e_warn st = [] /\ forall p, arity_ok p -> ext st' p -> typed p e' (Known r)).
Proof.
  intros Ia Ib Ea Eb Hw L Wq T.
  destruct (chain2 _ _ _ _ _ _ _ _ _ Ia Ib Ea Eb Hw) as (L2 & Hw2 & Oa & Ob & W).
  split; [eapply le_trans; eauto|]. split; [intros m Hm; discriminate|].
  intros Hn. destruct (Wq Hn) as (H1 & HQ). destruct (W H1) as (H0 & Tab). split; auto.
  intros p Hp Hx. destruct (Tab p Hp (proj2 L _ Hx)) as (Ta & Tb). apply T; auto.
Qed.

Lemma cond_fine_ok p e t : cond_fine e t = true -> typed p e t -> exists c, ce p e = Some c /\ cond_ok c = true.
Proof.
  destruct t as [[| | |]|m]; cbn [cond_fine]; try discriminate; intros H (c & Hc & R); exists c; split; auto.
  - cbn in R. rewrite H in R. subst c. reflexivity.
  - eapply relx_cond_ok; eauto.
Qed.

Lemma cmp_typed p op t a2 b2 :
  t <> TBool -> typed p a2 (Known t) -> typed p b2 (Known t) -> typed p (ECmp op t true a2 b2) (Known TBool).
Proof.
  intros Ht (ca & Hca & Ra) (cb & Hcb & Rb). exists CBool. split; [|left; reflexivity].
  cbn [ce]. rewrite Hca, Hcb. unfold bin_cls.
  destruct t; try congruence; cbn in Ra, Rb; subst; cbn;
  try destruct (is_i64 a2); try destruct (is_i64 b2); reflexivity.
Qed.

Scheme pexpr_mind := Induction for pexpr Sort Prop
  with pexprs_mind := Induction for pexprs Sort Prop.
Combined Scheme pexpr_pexprs_ind from pexpr_mind, pexprs_mind.

Ltac noopen := let m := fresh "m" in let H := fresh "H" in intros m H; discriminate H.

Ltac bind1 H a st a1 ta st1 Ea :=
  destruct (ex decls caps a st) as [[[a1 ta] st1]| |] eqn:Ea; cbn [ebind] in H; try discriminate.

Lemma ce_EGet p m ks :
  ce p (EGet m ks) =
  if keys_ok p ks && metric_ok p m (exprs_len ks) then Some (get_cls (mty (p_decls p) m)) else None.
Proof. reflexivity. Qed.
Lemma ce_EIncr p dec m ks :
  ce p (EIncr dec m ks) =
  if keys_ok p ks && metric_ok p m (exprs_len ks) && mtype_eqb (mtype_of (mty (p_decls p) m)) TyInt
  then Some CI64 else None.
Proof. reflexivity. Qed.
Lemma keys_ok_cons p e r :
  keys_ok p (XCons e r) = match ce p e with Some c => str_ok c && keys_ok p r | None => false end.
Proof. reflexivity. Qed.

(* unfolding equations across the mutual fixpoint *)
Lemma ex_PGet m ks st :
  ex decls caps (PGet m ks) st =
  match nkeys_of decls m with
  | None => EReject
  | Some n =>
      edo '(ks1, st1) <- exs decls caps ks st;
      if negb (Nat.eqb (pexprs_len ks) (N.to_nat n)) then EReject else
      let st2 := use st1 m in EOk (EGet m ks1, mt_get st2 m, st2)
  end.
Proof. reflexivity. Qed.

Lemma ex_PIncr dec m ks st :
  ex decls caps (PIncr dec m ks) st =
  match nkeys_of decls m with
  | None => EReject
  | Some n =>
      edo '(ks1, st1) <- exs decls caps ks st;
      if negb (Nat.eqb (pexprs_len ks) (N.to_nat n)) then EReject else
      let st2 := use st1 m in
      match mt_get st2 m with
      | Open _ => EOk (EIncr dec m ks1, Known TInt, pin st2 m TInt)
      | Known TInt => EOk (EIncr dec m ks1, Known TInt, st2)
      | Known _ => EReject
      end
  end.
Proof. reflexivity. Qed.

Lemma exs_PXCons e r st :
  exs decls caps (PXCons e r) st =
  edo '(e1, t, st1) <- ex decls caps e st;
  edo e2 <- key_conv t e1;
  edo '(r1, st2) <- exs decls caps r (warn_if (is_boolt t) st1);
  EOk (XCons e2 r1, st2).
Proof. reflexivity. Qed.

Lemma ex_sound : (forall e, Pex e) /\ (forall ks, Pexs ks).
Proof.
  apply pexpr_pexprs_ind; unfold Pex, Pexs.
  - (* PInt *)
    intros z st e' t st' H Hw. cbn in H. injection H as <- <- <-.
    split; [apply le_refl|]. split; [noopen|]. intros Hn. split; auto.
    intros p _ _. exists CI64. split; reflexivity.
  - (* PFloat *)
    intros b st e' t st' H Hw. cbn in H. injection H as <- <- <-.
    split; [apply le_refl|]. split; [noopen|]. intros Hn. split; auto.
    intros p _ _. exists CF64. split; reflexivity.
  - (* PStr *)
    intros s st e' t st' H Hw. cbn in H. injection H as <- <- <-.
    split; [apply (le_add_strs st [s])|]. split; [noopen|]. intros Hn. split; [exact Hn|].
    intros p _ (H1 & H2 & H3). exists CStr. split; [|reflexivity].
    cbn in H3. rewrite app_length in H3. cbn in H3. cbn. unfold nstrs. rewrite idx_of_nat by lia. reflexivity.
  - (* PCap *)
    intros name st e' t st' H Hw. cbn in H.
    destruct (sym_lookup name (e_scopes st)) as [[[[k pid] grp] [ty|]]|]; try discriminate.
    destruct ty; try discriminate; injection H as <- <- <-;
    (split; [apply le_refl|]; split; [noopen|]; intros Hn; split; auto; intros p _ _;
     eexists; split; reflexivity).
  - (* PArith *)
    intros op a Ia b Ib st e' t st' H Hw. cbn [ex exs] in H.
    bind1 H a st a1 ta st1 Ea. bind1 H b st1 b1 tb st2 Eb.
    destruct (chain2 _ _ _ _ _ _ _ _ _ Ia Ib Ea Eb Hw) as (L & Hw2 & Oa & Ob & W).
    cbv zeta in H.
    destruct (refresh st2 ta) as [x|m] eqn:Hr; destruct tb as [y|m'].
    + destruct (arith_fin_ok _ _ _ _ _ _ _ _ _ _ H) as (-> & -> & T).
      split; [exact L|]. split; [noopen|]. intros Hn. destruct (W Hn) as (H0 & Tab). split; auto.
      intros p Hp Hx. destruct (Tab p Hp Hx) as (Ta & Tb). apply T; auto. eapply typed_refresh; eauto.
    + destruct (arith_fin_ok _ _ _ _ _ _ _ _ _ _ H) as (-> & -> & T).
      destruct (Ob m' eq_refl) as (Om & Lm).
      pose proof (le_pin st2 m' x (or_introl Om)) as Lp.
      split; [eapply le_trans; eauto|]. split; [noopen|]. intros Hn. destruct (W Hn) as (H0 & Tab). split; auto.
      intros p Hp Hx. destruct (Tab p Hp (proj2 Lp _ Hx)) as (Ta & Tb). apply T.
      * exact (typed_refresh p a1 ta st2 x Ta (proj2 Lp _ Hx) Hr).
      * eapply typed_open_known; eauto. eapply ext_pin; eauto.
    + destruct (arith_fin_ok _ _ _ _ _ _ _ _ _ _ H) as (-> & -> & T).
      destruct (refresh_open _ _ _ Hr) as (-> & Om).
      pose proof (le_pin st2 m y (or_introl Om)) as Lp.
      split; [eapply le_trans; eauto|]. split; [noopen|]. intros Hn. destruct (W Hn) as (H0 & Tab). split; auto.
      intros p Hp Hx. destruct (Tab p Hp (proj2 Lp _ Hx)) as (Ta & Tb). apply T; auto.
      eapply typed_open_known; eauto. eapply ext_pin; eauto.
    + discriminate.
  - (* PBit *)
    intros op a Ia b Ib st e' t st' H Hw. cbn [ex exs] in H.
    bind1 H a st a1 ta st1 Ea. bind1 H b st1 b1 tb st2 Eb.
    destruct (chain2 _ _ _ _ _ _ _ _ _ Ia Ib Ea Eb Hw) as (L & Hw2 & Oa & Ob & W).
    cbv zeta in H. injection H as <- <- <-.
    set (ta' := refresh st2 ta) in *.
    set (st3 := match ta' with Open m => pin st2 m TInt | _ => st2 end) in *.
    set (st4 := match tb with Open m => pin st3 m TInt | _ => st3 end) in *.
    assert (L3 : le st2 st3 /\ wf st3 /\ (forall m, ta' = Open m -> mt_get st3 m = Known TInt)).
    { unfold st3. destruct ta' as [x|m] eqn:Hr.
      - split; [apply le_refl|]. split; auto. intros m Hm; discriminate.
      - destruct (refresh_open _ _ _ Hr) as (Ht & Om).
        pose proof (le_pin st2 m TInt (or_introl Om)) as Lp. split; [exact Lp|]. split; [apply Lp; auto|].
        intros m0 [= <-]. apply mt_get_pin_same. unfold wf in Hw2. rewrite Hw2. apply (Oa m). exact Ht. }
    destruct L3 as (L3 & Hw3 & P3).
    assert (L4 : le st3 st4 /\ (forall m, tb = Open m -> mt_get st4 m = Known TInt)).
    { unfold st4. destruct tb as [y|m'].
      - split; [apply le_refl|]. intros m Hm; discriminate.
      - destruct (Ob m' eq_refl) as (Om & Lm).
        assert (Hc : mt_get st3 m' = Open m' \/ mt_get st3 m' = Known TInt).
        { unfold st3. destruct ta' as [x|m]; auto.
          destruct (Nat.eq_dec (N.to_nat m) (N.to_nat m')) as [E|NE].
          - assert (m = m') by lia. subst m. right. apply P3. reflexivity.
          - left. rewrite mt_get_pin_other; auto. }
        split; [apply le_pin; exact Hc|]. intros m0 [= <-].
        apply mt_get_pin_same. unfold wf in Hw3. rewrite Hw3. exact Lm. }
    destruct L4 as (L4 & P4).
    assert (Hwarn : e_warn st4 = e_warn st2) by (unfold st4, st3; destruct tb, ta'; reflexivity).
    split.
    { eapply le_trans; [exact L|]. eapply le_trans; [exact L3|]. eapply le_trans; [exact L4|].
      match goal with |- le _ (if ?c then _ else _) => destruct c end; [apply le_add_warn|apply le_refl]. }
    split; [noopen|]. intros Hn.
    match type of Hn with e_warn (if ?c then _ else _) = _ => destruct c eqn:Hb end; [discriminate|].
    apply Bool.orb_false_iff in Hb as [Hba Hbb].
    rewrite Hwarn in Hn. destruct (W Hn) as (H0 & Tab). split; auto.
    intros p Hp Hx4. pose proof (proj2 L4 _ Hx4) as Hx3. pose proof (proj2 L3 _ Hx3) as Hx2.
    destruct (Tab p Hp Hx2) as (Ta & Tb).
    assert (Ha : exists c, ce p a1 = Some c /\ int_ok c = true).
    { destruct ta as [x|m0].
      - apply (int_operand p a1 (Known x) st2 Ta Hx2). unfold ta' in Hba. cbn in Hba.
        destruct x; try discriminate; reflexivity.
      - unfold ta' in *. cbn [refresh] in *. destruct (mt_get st2 m0) as [x|m1] eqn:Hm.
        + apply (int_operand p a1 (Open m0) st2 Ta Hx2).
          destruct x; try discriminate; exact Hm.
        + pose proof (mt_get_open _ _ _ Hm) as ->.
          apply (int_operand p a1 (Open m0) st3 Ta Hx3). apply P3. reflexivity. }
    assert (Hbb' : exists c, ce p b1 = Some c /\ int_ok c = true).
    { destruct tb as [y|m'].
      - apply (int_operand p b1 (Known y) st2 Tb Hx2). destruct y; try discriminate; reflexivity.
      - apply (int_operand p b1 (Open m') st4 Tb Hx4). apply P4. reflexivity. }
    destruct Ha as (ca & Hca & Ia'). destruct Hbb' as (cb & Hcb & Ib').
    exists CI64. split; [|reflexivity]. cbn [ce]. rewrite Hca, Hcb. unfold bin_cls.
    destruct op; cbn; rewrite Ia', Ib'; reflexivity.
  - (* PNeg *)
    intros a Ia st e' t st' H Hw. cbn [ex exs] in H. bind1 H a st a1 ta st1 Ea.
    destruct (Ia _ _ _ _ Ea Hw) as (La & Oa & Wa). assert (Hw1 : wf st1) by (apply La; auto).
    destruct ta as [x|m].
    + assert (Hx : exists st'', EOk (ENeg a1, Known TBool, st'') = EOk (e', t, st') /\
                     le st1 st'' /\ (e_warn st'' = [] -> e_warn st1 = [] /\ x = TInt)).
      { destruct x; eexists; (split; [exact H|]); (split; [first [apply le_refl|apply le_add_warn]|]);
        cbn; intros Hn; try discriminate; auto. }
      destruct Hx as (st'' & Hq & Ls & Ws). injection Hq as <- <- <-.
      split; [eapply le_trans; eauto|]. split; [noopen|]. intros Hn. destruct (Ws Hn) as (H1 & ->).
      destruct (Wa H1) as (H0 & Ta). split; auto. intros p Hp Hx. destruct (Ta p Hp (proj2 Ls _ Hx)) as (c & Hc & R).
      exists CI64. split; [|right; reflexivity]. cbn [ce]. rewrite Hc. unfold un_cls. cbn.
      rewrite (relx_int_ok _ _ _ R (or_introl eq_refl)). reflexivity.
    + injection H as <- <- <-. destruct (Oa m eq_refl) as (Om & Lm).
      pose proof (le_pin st1 m TInt (or_introl Om)) as Lp.
      split; [eapply le_trans; eauto|]. split; [noopen|]. intros Hn. destruct (Wa Hn) as (H0 & Ta). split; auto.
      intros p Hp Hx. pose proof (Ta p Hp (proj2 Lp _ Hx)) as T1.
      destruct (typed_open_known _ _ _ TInt T1 (ext_pin _ _ _ _ Hw1 Lm Hx)) as (c & Hc & R).
      exists CI64. split; [|right; reflexivity]. cbn [ce]. rewrite Hc. unfold un_cls. cbn.
      rewrite (relx_int_ok _ _ _ R (or_introl eq_refl)). reflexivity.
  - (* PCmp *)
    intros op a Ia b Ib st e' t st' H Hw. cbn [ex exs] in H.
    bind1 H a st a1 ta st1 Ea. bind1 H b st1 b1 tb st2 Eb.
    destruct (Ia _ _ _ _ Ea Hw) as (La & Oa & _). pose proof (proj1 La Hw) as Hw1.
    destruct (Ib _ _ _ _ Eb Hw1) as (Lb & Ob & _). pose proof (proj1 Lb Hw1) as Hw2.
    cbv zeta in H.
    destruct (refresh st2 ta) as [x|m] eqn:Hr; destruct tb as [y|m'].
    + destruct (conv_to x (lub x y) a1) as [a2| |] eqn:Ca; cbn [ebind] in H; try discriminate.
      destruct (conv_to y (lub x y) b1) as [b2| |] eqn:Cb; cbn [ebind] in H; try discriminate.
      injection H as <- <- <-.
      apply (fin2 a b st a1 ta st1 b1 (Known y) st2 _ TBool _ (ty_eqb (lub x y) TBool = false) Ia Ib Ea Eb Hw).
      * apply le_warn_if.
      * intros Hn. apply warn_if_nil in Hn as [Hc Hn]. auto.
      * intros HQ p Hp Hx Ta Tb. pose proof (proj2 (le_warn_if _ _) _ Hx) as Hx2. apply cmp_typed.
        -- destruct (lub x y); cbn in HQ; congruence.
        -- eapply conv_to_typed; eauto. exact (typed_refresh p a1 ta st2 x Ta Hx2 Hr).
        -- eapply conv_to_typed; eauto.
    + injection H as <- <- <-. destruct (Ob m' eq_refl) as (Om & Lm).
      pose proof (le_pin st2 m' x (or_introl Om)) as Lp.
      apply (fin2 a b st a1 ta st1 b1 (Open m') st2 _ TBool _ (ty_eqb x TBool = false) Ia Ib Ea Eb Hw).
      * eapply le_trans; [exact Lp|apply le_warn_if].
      * intros Hn. apply warn_if_nil in Hn as [Hc Hn]. auto.
      * intros HQ p Hp Hx Ta Tb. pose proof (proj2 (le_warn_if _ _) _ Hx) as Hxp. apply cmp_typed.
        -- destruct x; cbn in HQ; congruence.
        -- exact (typed_refresh p a1 ta st2 x Ta (proj2 Lp _ Hxp) Hr).
        -- eapply typed_open_known; eauto. eapply ext_pin; eauto.
    + injection H as <- <- <-. destruct (refresh_open _ _ _ Hr) as (-> & Om).
      pose proof (le_pin st2 m y (or_introl Om)) as Lp.
      apply (fin2 a b st a1 (Open m) st1 b1 (Known y) st2 _ TBool _ (ty_eqb y TBool = false) Ia Ib Ea Eb Hw).
      * eapply le_trans; [exact Lp|apply le_warn_if].
      * intros Hn. apply warn_if_nil in Hn as [Hc Hn]. auto.
      * intros HQ p Hp Hx Ta Tb. pose proof (proj2 (le_warn_if _ _) _ Hx) as Hxp. apply cmp_typed; auto.
        -- destruct y; cbn in HQ; congruence.
        -- eapply typed_open_known; eauto. eapply ext_pin; eauto. apply (Oa m eq_refl).
    + discriminate.
  - (* PAnd *)
    intros a Ia b Ib st e' t st' H Hw. cbn [ex exs] in H.
    bind1 H a st a1 ta st1 Ea. bind1 H b st1 b1 tb st2 Eb.
    destruct ta as [x|m]; [|destruct tb; discriminate]. destruct tb as [y|m']; [|discriminate].
    injection H as <- <- <-.
    apply (fin2 a b st a1 (Known x) st1 b1 (Known y) st2 _ TBool _
             (cond_fine a1 (Known x) && cond_fine b1 (Known y) = true) Ia Ib Ea Eb Hw).
    + match goal with |- le _ (if ?c then _ else _) => destruct c end;
        [exact (le_refl st2)|exact (le_add_warn WCond st2)].
    + match goal with |- e_warn (if ?c then _ else _) = _ -> _ => destruct c eqn:Hc end; cbn;
        [intros Hn; split; [exact Hn|exact Hc]|discriminate].
    + intros HQ p Hp Hx Ta Tb. apply andb_true_iff in HQ as [Ha Hb].
      destruct (cond_fine_ok p _ _ Ha Ta) as (ca & Hca & Oka). destruct (cond_fine_ok p _ _ Hb Tb) as (cb & Hcb & Okb).
      exists CBool. split; [|left; reflexivity]. cbn [ce]. rewrite Hca, Hcb, Oka, Okb. reflexivity.
  - (* POr *)
    intros a Ia b Ib st e' t st' H Hw. cbn [ex exs] in H.
    bind1 H a st a1 ta st1 Ea. bind1 H b st1 b1 tb st2 Eb.
    destruct ta as [x|m]; [|destruct tb; discriminate]. destruct tb as [y|m']; [|discriminate].
    injection H as <- <- <-.
    apply (fin2 a b st a1 (Known x) st1 b1 (Known y) st2 _ TBool _
             (cond_fine a1 (Known x) && cond_fine b1 (Known y) = true) Ia Ib Ea Eb Hw).
    + match goal with |- le _ (if ?c then _ else _) => destruct c end;
        [exact (le_refl st2)|exact (le_add_warn WCond st2)].
    + match goal with |- e_warn (if ?c then _ else _) = _ -> _ => destruct c eqn:Hc end; cbn;
        [intros Hn; split; [exact Hn|exact Hc]|discriminate].
    + intros HQ p Hp Hx Ta Tb. apply andb_true_iff in HQ as [Ha Hb].
      destruct (cond_fine_ok p _ _ Ha Ta) as (ca & Hca & Oka). destruct (cond_fine_ok p _ _ Hb Tb) as (cb & Hcb & Okb).
      exists CBool. split; [|left; reflexivity]. cbn [ce]. rewrite Hca, Hcb, Oka, Okb. reflexivity.
  - (* PMatch *)
    intros pat st e' t st' H Hw. cbn [ex exs] in H.
    destruct (reg_pat caps pat true st) as [[pid st1]| |] eqn:Er; cbn [ebind] in H; try discriminate.
    injection H as <- <- <-. destruct (reg_pat_ok _ _ _ _ _ Er) as (L & Hwn & _ & Hi).
    split; [exact L|]. split; [noopen|]. intros Hn. rewrite Hwn in Hn. split; auto.
    intros p _ Hx. exists CBool. split; [|left; reflexivity]. cbn [ce]. unfold nre. rewrite (Hi p Hx). reflexivity.
  - (* PSMatch *)
    intros neg a Ia pat st e' t st' H Hw. cbn [ex exs] in H. bind1 H a st a1 ta st1 Ea.
    destruct ta as [x|m]; [|discriminate].
    destruct (reg_pat caps pat true st1) as [[pid st2]| |] eqn:Er; cbn [ebind] in H; try discriminate.
    injection H as <- <- <-. destruct (reg_pat_ok _ _ _ _ _ Er) as (L & Hwn & _ & Hi).
    apply (fin1 a st a1 (Known x) st1 _ TBool _ (is_boolt (Known x) = false) Ia Ea Hw).
    + eapply le_trans; [exact L|apply le_warn_if].
    + intros Hn. apply warn_if_nil in Hn as [Hc Hn]. rewrite Hwn in Hn. auto.
    + intros HQ p Hp Hx (c & Hc & R). pose proof (proj2 (le_warn_if _ _) _ Hx) as Hx2.
      exists CBool. split; [|left; reflexivity]. cbn [ce]. rewrite Hc. unfold nre. rewrite (Hi p Hx2).
      rewrite (relx_str_ok _ _ _ R). reflexivity. destruct x; cbn in HQ; congruence.
  - (* PGet *)
    intros m ks Iks st e' t st' H Hw. rewrite ex_PGet in H.
    destruct (nkeys_of decls m) as [n|] eqn:Hn; try discriminate.
    destruct (exs decls caps ks st) as [[ks1 st1]| |] eqn:Ek; cbn [ebind] in H; try discriminate.
    destruct (Nat.eqb (pexprs_len ks) (N.to_nat n)) eqn:Hl; cbn [negb] in H; cbv iota in H; try discriminate.
    apply Nat.eqb_eq in Hl. cbv zeta in H. injection H as <- <- <-.
    destruct (Iks _ _ _ Ek Hw) as (Lk & Wk).
    split; [eapply le_trans; [exact Lk|apply le_use]|].
    split.
    { intros m0 Hm. pose proof (mt_get_open _ _ _ Hm) as ->. split; [exact Hm|eapply nkeys_lt; eauto]. }
    intros Hnw. destruct (Wk Hnw) as (H0 & Tk). split; auto.
    intros p Hp Hx. destruct (Tk p Hp Hx) as (Kok & Klen).
    assert (Hce : ce p (EGet m ks1) = Some (get_cls (mty (p_decls p) m))).
    { rewrite ce_EGet, Kok, Klen, Hl, (Hp _ _ Hn). reflexivity. }
    change (mt_get (use st1 m) m) with (mt_get st1 m).
    destruct (mt_get st1 m) as [x|m0] eqn:Hm.
    + exists (get_cls (mty (p_decls p) m)). split; [exact Hce|].
      destruct Hx as (X1 & _). rewrite (X1 _ _ Hm). destruct x; cbn; auto.
    + pose proof (mt_get_open _ _ _ Hm) as ->. split; [exact Hce|reflexivity].
  - (* PIncr *)
    intros dec m ks Iks st e' t st' H Hw. rewrite ex_PIncr in H.
    destruct (nkeys_of decls m) as [n|] eqn:Hn; try discriminate.
    destruct (exs decls caps ks st) as [[ks1 st1]| |] eqn:Ek; cbn [ebind] in H; try discriminate.
    destruct (Nat.eqb (pexprs_len ks) (N.to_nat n)) eqn:Hl; cbn [negb] in H; cbv iota in H; try discriminate.
    apply Nat.eqb_eq in Hl. cbv zeta in H.
    destruct (Iks _ _ _ Ek Hw) as (Lk & Wk). pose proof (proj1 Lk Hw) as Hw1.
    change (mt_get (use st1 m) m) with (mt_get st1 m) in H.
    assert (Hfin : forall st'', le st1 st'' -> e_warn st'' = e_warn st1 ->
               (forall p, ext st'' p -> mty (p_decls p) m = TInt) ->
               le st st'' /\ (forall m0 : N, Known TInt = Open m0 -> mt_get st'' m0 = Open m0 /\ N.to_nat m0 < length decls) /\
               (e_warn st'' = [] -> e_warn st = [] /\
                  forall p, arity_ok p -> ext st'' p -> typed p (EIncr dec m ks1) (Known TInt))).
    { intros st'' Ls Hws Hty. split; [eapply le_trans; eauto|]. split; [noopen|].
      intros Hnw. rewrite Hws in Hnw. destruct (Wk Hnw) as (H0 & Tk). split; auto.
      intros p Hp Hx. destruct (Tk p Hp (proj2 Ls _ Hx)) as (Kok & Klen).
      exists CI64. split; [|reflexivity]. rewrite ce_EIncr, Kok, Klen, Hl, (Hp _ _ Hn), (Hty p Hx). reflexivity. }
    destruct (mt_get st1 m) as [x|m0] eqn:Hm.
    + destruct x; try discriminate. injection H as <- <- <-.
      apply Hfin; [apply le_use|reflexivity|]. intros p (X1 & _). apply (X1 _ _ Hm).
    + injection H as <- <- <-. pose proof (mt_get_open _ _ _ Hm) as ->.
      apply Hfin; [eapply le_trans; [apply le_use|apply (le_pin (use st1 m) m TInt); left; exact Hm]|reflexivity|].
      intros p Hx. apply (ext_pin (use st1 m) m TInt p Hw1 (nkeys_lt _ _ Hn) Hx).
  - (* PConvFn *)
    intros to a Ia st e' t st' H Hw. cbn [ex exs] in H. bind1 H a st a1 ta st1 Ea.
    destruct ta as [f|m]; [|discriminate]. destruct (conv_exists f to) eqn:Hc; [|discriminate].
    injection H as <- <- <-.
    apply (fin1 a st a1 (Known f) st1 _ to _ True Ia Ea Hw); [apply le_refl|auto|].
    intros _ p Hp Hx (c & Hce & R). cbn [typed ce]. rewrite Hce.
    destruct f, to; cbn in Hc; try discriminate; cbn in R; subst; cbn;
    try (destruct (is_i64 a1); cbn); eauto.
  - (* PLen *)
    intros a Ia st e' t st' H Hw. cbn [ex exs] in H. bind1 H a st a1 ta st1 Ea.
    destruct ta as [x|m]; [|discriminate]. injection H as <- <- <-.
    apply (fin1 a st a1 (Known x) st1 _ TInt _ (is_boolt (Known x) = false) Ia Ea Hw).
    + apply le_warn_if.
    + intros Hn. apply warn_if_nil in Hn as [Hc Hn]. auto.
    + intros HQ p Hp Hx (c & Hc & R). exists (CInt None). split; [|reflexivity].
      cbn [ce]. rewrite Hc. unfold un_cls. cbn. rewrite (relx_str_ok _ _ _ R). reflexivity.
      destruct x; cbn in HQ; congruence.
  - (* PTolower *)
    intros a Ia st e' t st' H Hw. cbn [ex exs] in H. bind1 H a st a1 ta st1 Ea.
    destruct ta as [x|m]; [|discriminate]. destruct x; try discriminate. injection H as <- <- <-.
    apply (fin1 a st a1 (Known TStr) st1 _ TStr _ True Ia Ea Hw); [apply le_refl|auto|].
    intros _ p Hp Hx (c & Hc & R). cbn in R. subst c. exists CStr. split; [|reflexivity].
    cbn [ce]. rewrite Hc. reflexivity.
  - (* PStrtol *)
    intros a Ia b Ib st e' t st' H Hw. cbn [ex exs] in H.
    bind1 H a st a1 ta st1 Ea. bind1 H b st1 b1 tb st2 Eb.
    destruct ta as [x|m]; [|destruct tb; discriminate]. destruct tb as [y|m']; [|discriminate].
    injection H as <- <- <-.
    apply (fin2 a b st a1 (Known x) st1 b1 (Known y) st2 _ TInt _
             (is_boolt (Known x) || not_intish (Known y) = false) Ia Ib Ea Eb Hw).
    + apply le_warn_if.
    + intros Hn. apply warn_if_nil in Hn as [Hc Hn]. auto.
    + intros HQ p Hp Hx (ca & Hca & Ra) (cb & Hcb & Rb). apply Bool.orb_false_iff in HQ as [Q1 Q2].
      exists CI64. split; [|reflexivity]. cbn [ce]. rewrite Hca, Hcb.
      rewrite (relx_str_ok _ _ _ Ra) by (destruct x; cbn in Q1; congruence).
      rewrite (relx_int_ok _ _ _ Rb) by (destruct y; cbn in Q2; try discriminate; auto). reflexivity.
  - (* PSubst *)
    intros a Ia b Ib c Ic st e' t st' H Hw. cbn [ex exs] in H.
    bind1 H a st a1 ta st1 Ea. bind1 H b st1 b1 tb st2 Eb. bind1 H c st2 c1 tc st3 Ec.
    destruct ta as [x|]; [|discriminate]. destruct tb as [y|]; [|discriminate]. destruct tc as [z|]; [|discriminate].
    injection H as <- <- <-.
    destruct (chain2 _ _ _ _ _ _ _ _ _ Ia Ib Ea Eb Hw) as (L2 & Hw2 & _ & _ & W2).
    destruct (Ic _ _ _ _ Ec Hw2) as (Lc & _ & Wc).
    split; [eapply le_trans; [exact L2|]; eapply le_trans; [exact Lc|apply le_warn_if]|]. split; [noopen|].
    intros Hn. apply warn_if_nil in Hn as [Hq Hn]. destruct (Wc Hn) as (H2 & Tc). destruct (W2 H2) as (H0 & Tab).
    split; auto. intros p Hp Hx. pose proof (proj2 (le_warn_if _ _) _ Hx) as Hx3.
    destruct (Tc p Hp Hx3) as (cc & Hcc & Rc). destruct (Tab p Hp (proj2 Lc _ Hx3)) as ((ca & Hca & Ra) & (cb & Hcb & Rb)).
    apply Bool.orb_false_iff in Hq as [Hq Q3]. apply Bool.orb_false_iff in Hq as [Q1 Q2].
    exists CStr. split; [|reflexivity]. cbn [ce]. rewrite Hca, Hcb, Hcc.
    rewrite (relx_str_ok _ _ _ Ra) by (destruct x; cbn in Q1; congruence).
    rewrite (relx_str_ok _ _ _ Rb) by (destruct y; cbn in Q2; congruence).
    rewrite (relx_str_ok _ _ _ Rc) by (destruct z; cbn in Q3; congruence). reflexivity.
  - (* PRsubst *)
    intros pat b Ib c Ic st e' t st' H Hw. cbn [ex exs] in H.
    destruct (reg_pat caps pat false st) as [[pid st0]| |] eqn:Er; cbn [ebind] in H; try discriminate.
    bind1 H b st0 b1 tb st1 Eb. bind1 H c st1 c1 tc st2 Ec.
    destruct tb as [y|]; [|destruct tc; discriminate]. destruct tc as [z|]; [|discriminate].
    injection H as <- <- <-. destruct (reg_pat_ok _ _ _ _ _ Er) as (L0 & Hwn & _ & Hi).
    pose proof (proj1 L0 Hw) as Hw0.
    destruct (fin2 b c st0 b1 (Known y) st1 c1 (Known z) st2 (ERsubst pid b1 c1) TStr
                (warn_if (is_boolt (Known y) || is_boolt (Known z)) st2)
                (is_boolt (Known y) || is_boolt (Known z) = false) Ib Ic Eb Ec Hw0) as (L & _ & W).
    + apply le_warn_if.
    + intros Hn. apply warn_if_nil in Hn as [Hc Hn]. auto.
    + intros HQ p Hp Hx (cb & Hcb & Rb) (cc & Hcc & Rc). apply Bool.orb_false_iff in HQ as [Q1 Q2].
      pose proof (proj2 (le_warn_if _ _) _ Hx) as Hx2.
      assert (Hx0 : ext st0 p).
      { destruct (chain2 _ _ _ _ _ _ _ _ _ Ib Ic Eb Ec Hw0) as (L02 & _). apply L02; auto. }
      exists CStr. split; [|reflexivity]. cbn [ce]. rewrite Hcb, Hcc. unfold nre. rewrite (Hi p Hx0).
      rewrite (relx_str_ok _ _ _ Rb) by (destruct y; cbn in Q1; congruence).
      rewrite (relx_str_ok _ _ _ Rc) by (destruct z; cbn in Q2; congruence). reflexivity.
    + split; [eapply le_trans; eauto|]. split; [noopen|]. intros Hn. destruct (W Hn) as (H0 & T).
      rewrite Hwn in H0. split; auto.
  - (* PTimestamp *)
    intros st e' t st' H Hw. cbn in H. injection H as <- <- <-.
    split; [apply le_refl|]. split; [noopen|]. intros Hn. split; auto.
    intros p _ _. exists CI64. split; reflexivity.
  - (* PGetfilename *)
    intros st e' t st' H Hw. cbn in H. injection H as <- <- <-.
    split; [apply le_refl|]. split; [noopen|]. intros Hn. split; auto.
    intros p _ _. exists CStr. split; reflexivity.
  - (* PXNil *)
    intros st ks' st' H Hw. cbn in H. injection H as <- <-.
    split; [apply le_refl|]. intros Hn. split; auto.
  - (* PXCons *)
    intros e Ie r Ir st ks' st' H Hw. rewrite exs_PXCons in H. bind1 H e st e1 t st1 Ee.
    destruct (key_conv t e1) as [e2| |] eqn:Hk; cbn [ebind] in H; try discriminate.
    destruct (exs decls caps r (warn_if (is_boolt t) st1)) as [[r1 st2]| |] eqn:Er; cbn [ebind] in H; try discriminate.
    injection H as <- <-.
    destruct (Ie _ _ _ _ Ee Hw) as (Le & _ & We). pose proof (proj1 Le Hw) as Hw1.
    assert (Hww : wf (warn_if (is_boolt t) st1)) by (apply (le_warn_if (is_boolt t) st1); auto).
    destruct (Ir _ _ _ Er Hww) as (Lr & Wr).
    split; [eapply le_trans; [exact Le|]; eapply le_trans; [apply le_warn_if|exact Lr]|].
    intros Hn. destruct (Wr Hn) as (H1 & Tr). apply warn_if_nil in H1 as [Hb H1].
    destruct (We H1) as (H0 & Te). split; auto.
    intros p Hp Hx. destruct (Tr p Hp Hx) as (Kok & Klen).
    pose proof (Te p Hp (proj2 (le_warn_if _ _) _ (proj2 Lr _ Hx))) as T1.
    split; [|cbn; congruence].
    rewrite keys_ok_cons. destruct t as [x|m]; [|discriminate].
    destruct T1 as (c & Hc & R).
    destruct x; cbn in Hk, Hb; try discriminate; injection Hk as <-; cbn [ce]; rewrite Hc.
    + cbn in R. subst c. destruct (is_i64 e1); cbn; exact Kok.
    + cbn in R. subst c. cbn. exact Kok.
    + cbn in R. subst c. cbn. exact Kok.
Qed.

End Raw.

(* ---- the statement for expressions, without the validation step ---- *)
Theorem elab_raw_sound_expr decls caps e st e' t st' :
  ex decls caps e st = EOk (e', t, st') -> wf decls st -> e_warn st' = [] ->
  e_warn st = [] /\
  forall p, arity_ok decls p -> ext st' p ->
    typed p e' t /\ exists c, ce p e' = Some c.
Proof.
  intros H Hw Hn. destruct (proj1 (ex_sound decls caps) e st e' t st' H Hw) as (_ & _ & W).
  destruct (W Hn) as (H0 & T). split; auto. intros p Hp Hx. pose proof (T p Hp Hx) as Ty.
  split; auto. destruct t as [x|m]; cbn in Ty.
  - destruct Ty as (c & Hc & _). eauto.
  - destruct Ty as (Hc & _). eauto.
Qed.

Theorem elab_raw_sound_keys decls caps ks st ks' st' :
  exs decls caps ks st = EOk (ks', st') -> wf decls st -> e_warn st' = [] ->
  e_warn st = [] /\
  forall p, arity_ok decls p -> ext st' p -> keys_ok p ks' = true /\ exprs_len ks' = pexprs_len ks.
Proof.
  intros H Hw Hn. destruct (proj2 (ex_sound decls caps) ks st ks' st' H Hw) as (_ & W). auto.
Qed.

(* the elaboration state only grows: what holds of a final program extending the
   later state holds of the earlier one (metric types once instantiated never
   change: the first-use rule) *)
Theorem elab_raw_state_grows decls caps e st e' t st' :
  ex decls caps e st = EOk (e', t, st') -> wf decls st ->
  wf decls st' /\ forall p, ext st' p -> ext st p.
Proof.
  intros H Hw. destruct (proj1 (ex_sound decls caps) e st e' t st' H Hw) as ((L1 & L2) & _). auto.
Qed.
