(* Stage (e) of C01: every statement and block of the fragment, one line, all lines. *)
From V Require Import Lang.RefSem Lang.Codegen Lang.Vm Lang.Observe Lang.Wt Proofs.C01Sim Proofs.C01Expr Proofs.C01Flags.
From V Require Import Proofs.C01Store Proofs.C01Gen Proofs.C01Cases Proofs.C01Stmt Proofs.C01Simple.
From Coq Require Import Lia.
Local Open Scope Z_scope.

Section Line.
Variable E : env.
Variable decls : list mdecl.
Variable file line : bytes.
Variable o : object.
Hypothesis Hmets : o_metrics o = map mdesc_of decls.

Notation wts := (wt_stmt decls (o_strs o) (o_nre o)).
Notation wtb := (wt_block decls (o_strs o) (o_nre o)).
Notation ssim := (C01Stmt.ssim E decls file line o).
Notation bsim := (C01Stmt.bsim E decls file line o).

Ltac conj H := repeat match type of H with (_ && _) = true => let H' := fresh "Hw" in apply andb_prop in H as [H H'] end.

Theorem stmt_block_sim :
  (forall s, wts s = true -> frag_stmt s = true -> ssim s) /\
  (forall b, wtb b = true -> frag_block b = true -> bsim b).
Proof.
  apply stmt_block_ind.
  - intros m ks Hw _. change (wts (SInc m ks)) with (metric_ok decls m (exprs_len ks) && keys_ok decls (o_strs o) (o_nre o) ks && ty_eqb (wmty decls m) TInt) in Hw.
    conj Hw. exact (ssim_incdec E decls file line o Hmets false m ks Hw Hw1 Hw0).
  - intros m ks Hw _. change (wts (SDec m ks)) with (metric_ok decls m (exprs_len ks) && keys_ok decls (o_strs o) (o_nre o) ks && ty_eqb (wmty decls m) TInt) in Hw.
    conj Hw. exact (ssim_incdec E decls file line o Hmets true m ks Hw Hw1 Hw0).
  - intros t m ks e Hw _. change (wts (SSet t m ks e)) with (metric_ok decls m (exprs_len ks) && keys_ok decls (o_strs o) (o_nre o) ks && ty_eqb (wmty decls m) t && Wt.opt_ty_is (etype decls (o_strs o) (o_nre o) e) t) in Hw.
    conj Hw. apply ssim_set; assumption.
  - intros t m ks e Hw Hf.
    change (wts (SAddTo t m ks e)) with
      (metric_ok decls m (exprs_len ks) && keys_ok decls (o_strs o) (o_nre o) ks && ty_eqb (wmty decls m) t &&
       Wt.opt_ty_is (etype decls (o_strs o) (o_nre o) e) t &&
       (ty_eqb t TInt || keys_ok decls (o_strs o) (o_nre o) (shift_exprs (nstr_exprs ks) ks))) in Hw.
    change (frag_stmt (SAddTo t m ks e)) with (ty_eqb t TInt || pure_keys ks) in Hf.
    conj Hw.
    assert (Hnb : t <> TBool).
    { intros ->. unfold metric_ok in Hw. unfold wmty in Hw2. destruct (nth_error decls (N.to_nat m)) as [d|]; [|discriminate].
      apply andb_prop in Hw as [_ Hb]. destruct (md_ty d); cbn in *; congruence. }
    destruct t; try congruence.
    + apply ssim_addto; assumption.
    + cbn [ty_eqb orb] in Hw0, Hf. apply ssim_addto_dup; auto.
    + cbn [ty_eqb orb] in Hw0, Hf. apply ssim_addto_dup; auto.
  - intros e Hw _. change (wts (SSettime e)) with (Wt.opt_ty_is (etype decls (o_strs o) (o_nre o) e) TInt && i64 e) in Hw.
    conj Hw. apply ssim_settime; assumption.
  - intros e sid lay Hw _. change (wts (SStrptime e sid lay)) with (Wt.opt_ty_is (etype decls (o_strs o) (o_nre o) e) TStr && str_ok (o_strs o) sid lay) in Hw.
    conj Hw. apply ssim_strptime; assumption.
  - intros c th IH Hw Hf. change (wts (SCond c th)) with (cond_ok decls (o_strs o) (o_nre o) c && wtb th) in Hw.
    conj Hw. apply ssim_cond; [exact Hmets | exact Hw | apply IH; assumption].
  - intros c th IHt el IHe Hw Hf. change (wts (SCondElse c th el)) with (cond_ok decls (o_strs o) (o_nre o) c && wtb th && wtb el) in Hw.
    change (frag_stmt (SCondElse c th el)) with (frag_block th && frag_block el) in Hf.
    conj Hw. conj Hf. apply ssim_condelse; [exact Hmets | exact Hw | apply IHt; assumption | apply IHe; assumption].
  - intros th IH Hw Hf. apply ssim_oth. apply IH; assumption.
  - intros m ks Hw _. change (wts (SDel m ks)) with (metric_ok decls m (exprs_len ks) && keys_ok decls (o_strs o) (o_nre o) ks) in Hw.
    conj Hw. apply ssim_del; assumption.
  - intros m ks d Hw _. change (wts (SExpire m ks d)) with (metric_ok decls m (exprs_len ks) && keys_ok decls (o_strs o) (o_nre o) ks) in Hw.
    conj Hw. apply ssim_expire; assumption.
  - intros _ _. apply ssim_stop.
  - intros _ _. apply bsim_nil.
  - intros s IHs r IHr Hw Hf.
    change (wtb (BCons s r)) with (wts s && wtb r) in Hw.
    change (frag_block (BCons s r)) with (frag_stmt s && frag_block r) in Hf.
    conj Hw. conj Hf. apply bsim_cons; [apply IHs; assumption | apply IHr; assumption].
Qed.

End Line.

(* ---- one line ---- *)
Section OneLine.
Variable E : env.
Variable p : prog.
Variable file : bytes.
Hypothesis Hwt : wt p = true.
Hypothesis Hfr : in_fragment p = true.
Hypothesis Hso : scoped_otherwise p = true.

Let o := codegen p.
Let decls := p_decls p.

Lemma o_mets : o_metrics o = map mdesc_of decls. Proof. reflexivity. Qed.

Lemma run_end fuel n ll t vs t1 vs1 oc :
  C01Sim.nsteps E o ll n t vs = Some (t1, vs1) -> Vm.step E o ll t1 vs1 = SEnd oc vs1 -> (n < fuel)%nat ->
  Vm.run E o fuel ll t vs = (oc, vs1).
Proof.
  intros Hn Hs Hl. replace fuel with (n + S (fuel - n - 1))%nat by lia.
  rewrite (run_nsteps _ _ _ _ _ _ _ _ _ Hn). cbn [Vm.run]. rewrite Hs. reflexivity.
Qed.

Theorem line_sim line rst vs :
  srel decls rst (vs_store vs) -> memo_ok E (vs_memo vs) ->
  class_vm (fst (run_line E o (mklogline file line) vs)) = class_ref (snd (ref_line E p file line rst)) /\
  srel decls (fst (ref_line E p file line rst)) (vs_store (snd (run_line E o (mklogline file line) vs))) /\
  memo_ok E (vs_memo (snd (run_line E o (mklogline file line) vs))).
Proof.
  intros Hs Hm.
  unfold wt in Hwt. apply andb_prop in Hwt as [Hdok Hwb]. unfold in_fragment in Hfr. unfold scoped_otherwise in Hso.
  pose proof (proj2 (stmt_block_sim E decls file line o o_mets) (p_body p) Hwb Hfr) as Hb.
  assert (Hat : at_pc o 0 (cblock decls 0 (p_body p))) by (intros k i H; exact H).
  assert (Hrel : C01Gen.rel E decls (mkrs rst None []) [] zero_time vs).
  { constructor; cbn; auto. intros pid. reflexivity. }
  specialize (Hb 0%nat [] false [] zero_time (mkrs rst None []) vs Hat Hrel).
  pose proof (flags_coincide E decls file line (p_body p) (mkrs rst None []) Hso) as Hfl.
  unfold ref_line, run_line, init_thread, line_fuel. fold decls.
  change (o_prog o) with (cblock decls 0 (p_body p)) in *.
  set (L := length (cblock decls 0 (p_body p))) in *.
  destruct (gexec_block E decls file line (p_body p) false (mkrs rst None [])) as [g' rs'|[|x] rs'];
    cbn [forget] in Hfl; rewrite <- Hfl; cbn [C01Stmt.run_post] in Hb.
  - destruct Hb as (stk' & ms' & tm' & vs' & n & Hn & Hst & [_ _ Hs' Hm']).
    assert (Hend : Vm.step E o (mklogline file line) (mkthread (0 + L) stk' g' ms' tm') vs' = SEnd Next vs').
    { unfold Vm.step. cbn [t_pc Nat.add]. change (o_prog o) with (cblock decls 0 (p_body p)).
      replace (nth_error (cblock decls 0 (p_body p)) L) with (@None instr) by (symmetry; apply nth_error_None; unfold L; lia).
      fold L. rewrite Nat.eqb_refl. reflexivity. }
    rewrite (run_end (S L) n _ _ _ _ _ _ Hst Hend) by lia. cbn. auto.
  - destruct Hb as (n & t1 & vs' & Hn & Hst & Hend & Hs' & Hm').
    rewrite (run_end (S L) n _ _ _ _ _ _ Hst Hend) by lia. cbn. auto.
  - destruct Hb as (n & t1 & e' & vs' & Hn & Hst & Hend & Hs' & Hm').
    rewrite (run_end (S L) n _ _ _ _ _ _ Hst Hend) by lia. cbn. auto.
Qed.

(* ---- all lines ---- *)
Theorem lines_sim lines : forall rst vs,
  srel decls rst (vs_store vs) -> memo_ok E (vs_memo vs) ->
  map class_vm (fst (run_lines E o (map (mklogline file) lines) vs)) = map class_ref (snd (ref_lines E p file lines rst)) /\
  srel decls (fst (ref_lines E p file lines rst)) (vs_store (snd (run_lines E o (map (mklogline file) lines) vs))).
Proof.
  induction lines as [|l ls IH]; intros rst vs Hs Hm; [cbn; auto|].
  cbn [map run_lines ref_lines].
  destruct (line_sim l rst vs Hs Hm) as (Hc & Hs1 & Hm1).
  destruct (run_line E o (mklogline file l) vs) as [oc vs1].
  destruct (ref_line E p file l rst) as [rst1 ro]. cbn [fst snd] in *.
  destruct (IH rst1 vs1 Hs1 Hm1) as (Hcs & Hss).
  destruct (run_lines E o (map (mklogline file) ls) vs1) as [ocs vs2].
  destruct (ref_lines E p file ls rst1) as [rst2 ros]. cbn [fst snd map] in *.
  split; [congruence | exact Hss].
Qed.

Theorem compile_correct lines :
  obs_vm (vs_store (snd (run_lines E o (map (mklogline file) lines) (init_vm o)))) =
    obs_ref (fst (ref_lines E p file lines (init_rstore p))) /\
  map class_vm (fst (run_lines E o (map (mklogline file) lines) (init_vm o))) =
    map class_ref (snd (ref_lines E p file lines (init_rstore p))).
Proof.
  assert (Hdok : forallb decl_ok decls = true) by (unfold wt in Hwt; apply andb_prop in Hwt as [H _]; exact H).
  pose proof (init_srel decls o o_mets Hdok) as Hinit.
  destruct (lines_sim lines (init_rstore p) (init_vm o) Hinit ltac:(intros l v tm [])) as (Hc & Hs).
  split; [apply (srel_obs decls); exact Hs | exact Hc].
Qed.

End OneLine.
