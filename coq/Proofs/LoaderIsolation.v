(* C06: the part of the state that belongs to a program P (its heap, handle,
   counters and its entries in every bucket of the store) after a history
   equals the same part after the history with every other program's loads and
   unloads removed -- provided P never declares a name another program holds
   with a different kind (the one permitted interaction). *)
From V Require Import Metrics.StoreAdd Run.Loader Proofs.StoreAddProofs.
Local Open Scope N_scope.

Definition pview (P : bytes) (idx : index) (name : bytes) : list entry :=
  filter (isP P) (entries_of idx name).
Definition oview (P : bytes) (idx : index) (name : bytes) : list entry :=
  filter (notP P) (entries_of idx name).

Definition kind_homog (idx : index) : Prop :=
  forall name e1 e2, In e1 (entries_of idx name) -> In e2 (entries_of idx name) ->
    d_kind (e_decl e1) = d_kind (e_decl e2).

Lemma filter_filter_impl {A} (f g : A -> bool) l :
  (forall x, f x = true -> g x = true) -> filter f (filter g l) = filter f l.
Proof.
  intros H. induction l as [|x l IH]; cbn [filter]; [reflexivity|].
  destruct (g x) eqn:G; cbn [filter].
  - rewrite IH. reflexivity.
  - destruct (f x) eqn:F; [|exact IH]. rewrite (H _ F) in G. discriminate.
Qed.

Lemma isP_notP P Q e : P <> Q -> isP P e = true -> notP Q e = true.
Proof.
  unfold notP, isP. intros N H. apply bytes_eqb_spec in H.
  destruct (bytes_eqb (e_prog e) Q) eqn:E; cbn [negb]; [|reflexivity].
  apply bytes_eqb_spec in E. congruence.
Qed.

Section AddLemmas.
Variable c : bool.

(* ---- C06_add_frame: Add of a metric of p leaves every other program's
   entries, in every bucket, exactly as they were ---- *)
Lemma add_oview idx h p o d idx' h' :
  add c idx h p o d = Some (idx', h') -> forall name, oview p idx' name = oview p idx name.
Proof.
  unfold add. destruct (kind_conflict _ _); [discriminate|]. intros E. injection E as <- <-.
  intros name. unfold oview.
  destruct (bytes_eqb name (d_name d)) eqn:EN.
  - apply bytes_eqb_spec in EN. subst name. rewrite entries_of_bupdate_same.
    pose proof (scan_notP c h p d (entries_of idx (d_name d)) [] (mkscan None (obj_lvs h o) false)) as S.
    cbn [length app] in S.
    rewrite S.
    + rewrite filter_app. cbn [filter]. unfold notP at 2, isP. cbn [e_prog].
      rewrite bytes_eqb_refl. cbn [negb]. apply app_nil_r.
    + intros suf. reflexivity.
  - apply bytes_eqb_false in EN. rewrite entries_of_bupdate_other by exact EN. reflexivity.
Qed.

Lemma add_frame idx h p o d idx' h' q :
  add c idx h p o d = Some (idx', h') -> q <> p ->
  forall name, pview q idx' name = pview q idx name.
Proof.
  intros E N name. unfold pview.
  rewrite <- (filter_filter_impl (isP q) (notP p) (entries_of idx' name)) by (intros x; apply isP_notP; exact N).
  rewrite <- (filter_filter_impl (isP q) (notP p) (entries_of idx name)) by (intros x; apply isP_notP; exact N).
  pose proof (add_oview _ _ _ _ _ _ _ E name) as O. unfold oview in O. rewrite O. reflexivity.
Qed.

(* ---- the refusal is the kind check and nothing else ---- *)
Lemma add_refusal_only_kind idx h p o d :
  add c idx h p o d = None <->
  exists v0 r, entries_of idx (d_name d) = v0 :: r /\ d_kind (e_decl v0) <> d_kind d.
Proof.
  unfold add, kind_conflict. destruct (entries_of idx (d_name d)) as [|v0 r].
  - split; [discriminate|]. intros (v & r & E & _). discriminate.
  - destruct (N.eqb (d_kind d) (d_kind (e_decl v0))) eqn:K; cbn [negb].
    + split; [discriminate|]. intros (v & r' & E & NK). injection E as <- <-.
      apply N.eqb_eq in K. congruence.
    + split; [|reflexivity]. intros _. exists v0, r. split; [reflexivity|].
      apply N.eqb_neq in K. congruence.
Qed.

Lemma add_homog idx h p o d idx' h' :
  kind_homog idx -> add c idx h p o d = Some (idx', h') -> kind_homog idx'.
Proof.
  intros H. unfold add. destruct (kind_conflict _ _) eqn:K; [discriminate|].
  intros E. injection E as <- <-. intros name e1 e2.
  destruct (bytes_eqb name (d_name d)) eqn:EN.
  - apply bytes_eqb_spec in EN. subst name. rewrite entries_of_bupdate_same.
    assert (A : forall e, In e (replace_dupe (entries_of idx (d_name d) ++ [mkentry p o d])
                 (scan_from c h p d 0 (entries_of idx (d_name d)) (mkscan None (obj_lvs h o) false))) ->
               In e (entries_of idx (d_name d)) \/ e = mkentry p o d).
    { intros e. unfold replace_dupe. destruct (sc_dupe _).
      - intros I. apply remove_nth_incl in I. apply in_app_or in I. destruct I as [I|[I|[]]]; auto.
      - intros I. apply in_app_or in I. destruct I as [I|[I|[]]]; auto. }
    assert (B : forall e, In e (entries_of idx (d_name d)) -> d_kind (e_decl e) = d_kind d).
    { intros e I. unfold kind_conflict in K. destruct (entries_of idx (d_name d)) as [|v0 r] eqn:L; [destruct I|].
      apply negb_false_iff in K. apply N.eqb_eq in K. rewrite K.
      apply (H (d_name d)); rewrite L; [exact I|left; reflexivity]. }
    intros I1 I2. apply A in I1. apply A in I2.
    assert (K1 : d_kind (e_decl e1) = d_kind d) by (destruct I1 as [I|I]; [apply B; exact I|rewrite I; reflexivity]).
    assert (K2 : d_kind (e_decl e2) = d_kind d) by (destruct I2 as [I|I]; [apply B; exact I|rewrite I; reflexivity]).
    congruence.
  - apply bytes_eqb_false in EN. rewrite entries_of_bupdate_other by exact EN. apply H.
Qed.

(* ---- Add sees only the adding program's part of the bucket ---- *)
Lemma add_sim idx1 idx2 h p o d :
  (forall name, pview p idx1 name = pview p idx2 name) ->
  kind_conflict (entries_of idx1 (d_name d)) d = kind_conflict (entries_of idx2 (d_name d)) d ->
  match add c idx1 h p o d, add c idx2 h p o d with
  | Some (i1, h1), Some (i2, h2) => h1 = h2 /\ forall name, pview p i1 name = pview p i2 name
  | None, None => True
  | _, _ => False
  end.
Proof.
  intros V K. unfold add. rewrite <- K. destruct (kind_conflict _ _); [exact I|].
  set (s0 := mkscan None (obj_lvs h o) false).
  set (l1 := entries_of idx1 (d_name d)). set (l2 := entries_of idx2 (d_name d)).
  assert (F : filter (isP p) l1 = filter (isP p) l2) by apply V.
  pose proof (scan_filter c h p d l1 [] s0 s0 eq_refl eq_refl (fun suf => eq_refl)) as S1.
  pose proof (scan_filter c h p d l2 [] s0 s0 eq_refl eq_refl (fun suf => eq_refl)) as S2.
  cbn zeta in S1, S2. cbn [length filter app] in S1, S2.
  destruct S1 as (M1 & _ & D1). destruct S2 as (M2 & _ & D2).
  rewrite F in M1, D1.
  split.
  - rewrite M1, M2. reflexivity.
  - intros name. unfold pview.
    destruct (bytes_eqb name (d_name d)) eqn:EN.
    + apply bytes_eqb_spec in EN. subst name. rewrite !entries_of_bupdate_same.
      fold l1 l2. rewrite (D1 [mkentry p o d]), (D2 [mkentry p o d]).
      rewrite !filter_app. fold l1 l2. rewrite F. reflexivity.
    + apply bytes_eqb_false in EN. rewrite !entries_of_bupdate_other by exact EN. apply V.
Qed.

(* under kind homogeneity the check against the first entry is a check against
   every entry, so only P's own entries can make the difference once the other
   programs' entries are known to agree with d *)
Lemma kind_conflict_iff idx name d :
  kind_homog idx ->
  (kind_conflict (entries_of idx name) d = true <->
   exists e, In e (entries_of idx name) /\ d_kind (e_decl e) <> d_kind d).
Proof.
  intros H. unfold kind_conflict. destruct (entries_of idx name) as [|v0 r] eqn:L.
  - split; [discriminate|]. intros (e & [] & _).
  - split.
    + intros K. apply negb_true_iff in K. apply N.eqb_neq in K. exists v0. split; [left; reflexivity|congruence].
    + intros (e & I & NK). apply negb_true_iff. apply N.eqb_neq.
      assert (d_kind (e_decl e) = d_kind (e_decl v0)).
      { apply (H name); rewrite L; [exact I|left; reflexivity]. }
      congruence.
Qed.

Definition others_agree (P : bytes) (idx : index) (d : decl) : Prop :=
  forall e, In e (oview P idx (d_name d)) -> d_kind (e_decl e) = d_kind d.

Lemma in_split_view P l e : In e l -> In e (filter (isP P) l) \/ In e (filter (notP P) l).
Proof.
  intros I. destruct (isP P e) eqn:E.
  - left. apply filter_In. auto.
  - right. apply filter_In. unfold notP. rewrite E. auto.
Qed.

Lemma kind_conflict_agree P idx1 idx2 d :
  kind_homog idx1 -> kind_homog idx2 ->
  pview P idx1 (d_name d) = pview P idx2 (d_name d) ->
  others_agree P idx1 d -> others_agree P idx2 d ->
  kind_conflict (entries_of idx1 (d_name d)) d = kind_conflict (entries_of idx2 (d_name d)) d.
Proof.
  intros H1 H2 V O1 O2.
  assert (X : forall idxa idxb, kind_homog idxa -> kind_homog idxb ->
              pview P idxa (d_name d) = pview P idxb (d_name d) -> others_agree P idxa d ->
              kind_conflict (entries_of idxa (d_name d)) d = true ->
              kind_conflict (entries_of idxb (d_name d)) d = true).
  { intros idxa idxb Ha Hb Vab Oa K.
    apply (kind_conflict_iff _ _ _ Ha) in K. destruct K as (e & I & NK).
    apply (kind_conflict_iff _ _ _ Hb). exists e. split; [|exact NK].
    destruct (in_split_view P _ _ I) as [IP|IO].
    - unfold pview in Vab. rewrite Vab in IP. apply filter_In in IP. apply IP.
    - apply Oa in IO. contradiction. }
  destruct (kind_conflict (entries_of idx1 (d_name d)) d) eqn:K1.
  - symmetry. apply (X idx1 idx2); auto.
  - destruct (kind_conflict (entries_of idx2 (d_name d)) d) eqn:K2; [|reflexivity].
    rewrite (X idx2 idx1) in K1; auto.
Qed.
End AddLemmas.

(* ================================================================== *)
Section Iso.
Variable c1 c2 omit : bool.
Variable compile : bytes -> N -> option (list decl).
Variable vmstep : bytes -> N -> N -> list effect.
Variable P : bytes.

Notation register := (register c1).
Notation load_r := (load_r c1 c2 omit compile).
Notation load := (load c1 c2 omit compile).
Notation step := (step c1 c2 omit compile vmstep).
Notation run_from := (run_from c1 c2 omit compile vmstep).

(* ---- getp / setp ---- *)
Lemma getp_bupdate_same p x st idx n :
  getp p (mkst idx (bupdate p x (st_progs st)) n) = x.
Proof. unfold getp. cbn [st_progs]. rewrite blookup_bupdate_same. reflexivity. Qed.

Lemma getp_bupdate_other p q x st idx n :
  p <> q -> getp p (mkst idx (bupdate q x (st_progs st)) n) = getp p st.
Proof. intros N. unfold getp. cbn [st_progs]. rewrite blookup_bupdate_other by exact N. reflexivity. Qed.

(* ---- registration of a program q: frame and invariants ---- *)
Lemma register_facts q : forall ms idx h idx' h' b,
  register idx h q ms = (idx', h', b) ->
  (forall name, oview q idx' name = oview q idx name) /\ (kind_homog idx -> kind_homog idx').
Proof.
  induction ms as [|[o d] r IH]; intros idx h idx' h' b E; cbn [Loader.register] in E.
  - injection E as <- <- <-. auto.
  - destruct (d_hidden d); [exact (IH _ _ _ _ _ E)|].
    destruct (add c1 idx h q o d) as [[idx1 h1]|] eqn:A.
    + destruct (IH _ _ _ _ _ E) as (F & H). split.
      * intros name. rewrite F. exact (add_oview _ _ _ _ _ _ _ _ A name).
      * intros K. apply H. exact (add_homog _ _ _ _ _ _ _ _ K A).
    + injection E as <- <- <-. auto.
Qed.

(* what the hypothesis of the theorem says at one load of P *)
Definition decls_agree (idx : index) (ms : list (N * decl)) : Prop :=
  forall o d, In (o, d) ms -> d_hidden d = false -> others_agree P idx d.

Lemma register_sim : forall ms idx1 idx2 h,
  (forall name, pview P idx1 name = pview P idx2 name) ->
  kind_homog idx1 -> kind_homog idx2 ->
  (forall name, oview P idx2 name = []) ->
  decls_agree idx1 ms ->
  match register idx1 h P ms, register idx2 h P ms with
  | (i1, h1, b1), (i2, h2, b2) =>
      h1 = h2 /\ b1 = b2 /\ (forall name, pview P i1 name = pview P i2 name)
  end.
Proof.
  induction ms as [|[o d] r IH]; intros idx1 idx2 h V H1 H2 O2 DA; cbn [Loader.register].
  - auto.
  - assert (DAr : forall idx, (forall name, oview P idx name = oview P idx1 name) -> decls_agree idx r).
    { intros idx Fr o' d' I Hd e Ie. rewrite Fr in Ie. apply (DA o' d'); [right; exact I|exact Hd|exact Ie]. }
    destruct (d_hidden d) eqn:HD.
    + apply IH; auto; try (apply DAr; reflexivity).
    + assert (K : kind_conflict (entries_of idx1 (d_name d)) d = kind_conflict (entries_of idx2 (d_name d)) d).
      { apply (kind_conflict_agree P); auto.
        - apply (DA o d); [left; reflexivity|exact HD].
        - intros e Ie. rewrite O2 in Ie. destruct Ie. }
      pose proof (add_sim c1 idx1 idx2 h P o d V K) as S.
      destruct (add c1 idx1 h P o d) as [[i1 h1]|] eqn:A1;
        destruct (add c1 idx2 h P o d) as [[i2 h2]|] eqn:A2; try contradiction.
      * destruct S as (-> & V'). apply IH.
        -- exact V'.
        -- exact (add_homog _ _ _ _ _ _ _ _ H1 A1).
        -- exact (add_homog _ _ _ _ _ _ _ _ H2 A2).
        -- intros name. rewrite (add_oview _ _ _ _ _ _ _ _ A2 name). apply O2.
        -- apply DAr. intros name. exact (add_oview _ _ _ _ _ _ _ _ A1 name).
      * auto.
Qed.

(* ---- the invariant between the full run (st1) and P's own run (st2) ---- *)
Record inv (st1 st2 : state) : Prop := mkinv {
  inv_p : getp P st1 = getp P st2;
  inv_v : forall name, pview P (st_index st1) name = pview P (st_index st2) name;
  inv_h1 : kind_homog (st_index st1);
  inv_h2 : kind_homog (st_index st2);
  inv_o : forall name, oview P (st_index st2) name = [];
  inv_l : st_lines st1 = st_lines st2 }.

(* the objects a load of P would register in state st *)
Definition load_objs (st : state) (src : N) : list (N * decl) :=
  match compile P src with
  | None => []
  | Some ds => map (fun od => (fst od, strip omit (snd od))) (snd (alloc_objs (ps_heap (getp P st)) ds))
  end.

Lemma load_other st q src : q <> P ->
  getp P (load st q src) = getp P st /\
  (forall name, pview P (st_index (load st q src)) name = pview P (st_index st) name) /\
  (kind_homog (st_index st) -> kind_homog (st_index (load st q src))) /\
  st_lines (load st q src) = st_lines st.
Proof.
  intros N. assert (N' : P <> q) by congruence.
  unfold Loader.load, Loader.load_r.
  destruct (match ps_handle (getp q st) with Some hd => N.eqb (h_src hd) src | None => false end).
  { cbn [fst]. auto. }
  destruct (compile q src) as [ds|].
  2:{ cbn [fst]. unfold setp. rewrite getp_bupdate_other by exact N'. cbn [st_index st_lines]. auto. }
  destruct (alloc_objs (ps_heap (getp q st)) ds) as [h1 objs0].
  destruct (Loader.register c1 (st_index st) h1 q _) as [[idx h2] b] eqn:R.
  destruct (register_facts q _ _ _ _ _ _ R) as (F & H).
  assert (V : forall name, pview P idx name = pview P (st_index st) name).
  { intros name. unfold pview.
    rewrite <- (filter_filter_impl (isP P) (notP q) (entries_of idx name)) by (intros x; apply isP_notP; exact N').
    rewrite <- (filter_filter_impl (isP P) (notP q) (entries_of (st_index st) name)) by (intros x; apply isP_notP; exact N').
    pose proof (F name) as Fn. unfold oview in Fn. rewrite Fn. reflexivity. }
  destruct b; cbn [fst]; rewrite getp_bupdate_other by exact N'; cbn [st_index st_lines]; auto.
Qed.

Lemma load_same st1 st2 src :
  inv st1 st2 -> decls_agree (st_index st1) (load_objs st1 src) ->
  inv (load st1 P src) (load st2 P src).
Proof.
  intros [Ip Iv Ih1 Ih2 Io Il] DA.
  unfold Loader.load, Loader.load_r. rewrite <- Ip.
  destruct (match ps_handle (getp P st1) with Some hd => N.eqb (h_src hd) src | None => false end).
  { cbn [fst]. constructor; auto. }
  unfold load_objs in DA.
  destruct (compile P src) as [ds|].
  2:{ cbn [fst]. unfold setp. constructor; cbn [st_index st_lines]; auto.
      rewrite !getp_bupdate_same. reflexivity. }
  destruct (alloc_objs (ps_heap (getp P st1)) ds) as [h1 objs0] eqn:AL. cbn [snd] in DA.
  set (objs := map (fun od => (fst od, strip omit (snd od))) objs0) in *.
  pose proof (register_sim objs (st_index st1) (st_index st2) h1 Iv Ih1 Ih2 Io DA) as S.
  destruct (Loader.register c1 (st_index st1) h1 P objs) as [[i1 g1] b1] eqn:R1.
  destruct (Loader.register c1 (st_index st2) h1 P objs) as [[i2 g2] b2] eqn:R2.
  destruct S as (-> & -> & V).
  destruct (register_facts P _ _ _ _ _ _ R1) as (F1 & H1).
  destruct (register_facts P _ _ _ _ _ _ R2) as (F2 & H2).
  destruct b2; cbn [fst]; constructor; cbn [st_index st_lines]; auto;
    try (rewrite !getp_bupdate_same; reflexivity);
    try (intros name; rewrite F2; apply Io).
Qed.

Lemma unload_other st q : q <> P ->
  getp P (unload st q) = getp P st /\ st_index (unload st q) = st_index st /\ st_lines (unload st q) = st_lines st.
Proof.
  intros N. unfold unload. destruct (ps_handle (getp q st)); [|auto].
  unfold setp. rewrite getp_bupdate_other by congruence. auto.
Qed.

Lemma unload_same st1 st2 : inv st1 st2 -> inv (unload st1 P) (unload st2 P).
Proof.
  intros [Ip Iv Ih1 Ih2 Io Il]. unfold unload. rewrite <- Ip.
  destruct (ps_handle (getp P st1)); [|constructor; auto].
  unfold setp. constructor; cbn [st_index st_lines]; auto. rewrite !getp_bupdate_same. reflexivity.
Qed.

Lemma mark_other st q m ls e : q <> P ->
  getp P (mark st q m ls e) = getp P st /\ st_index (mark st q m ls e) = st_index st /\
  st_lines (mark st q m ls e) = st_lines st /\ map fst (st_progs (mark st q m ls e)) = map fst (st_progs (mark st q m ls e)).
Proof.
  intros N. unfold mark. destruct (ps_handle (getp q st)); [|auto].
  destruct (exec_effect _ _ _ _); [|auto].
  unfold setp. rewrite getp_bupdate_other by congruence. auto.
Qed.

Lemma mark_same st1 st2 m ls e : inv st1 st2 -> inv (mark st1 P m ls e) (mark st2 P m ls e).
Proof.
  intros [Ip Iv Ih1 Ih2 Io Il]. unfold mark. rewrite <- Ip.
  destruct (ps_handle (getp P st1)); [|constructor; auto].
  destruct (exec_effect _ _ _ _); [|constructor; auto].
  unfold setp. constructor; cbn [st_index st_lines]; auto. rewrite !getp_bupdate_same. reflexivity.
Qed.

Lemma getp_line st l now :
  getp P (line vmstep st l now) = line_prog vmstep P (getp P st) l now.
Proof.
  unfold getp, line. cbn [st_progs].
  rewrite (blookup_map_keyed (fun p x => line_prog vmstep p x l now)).
  destruct (blookup P (st_progs st)); reflexivity.
Qed.

Lemma line_same st1 st2 l now : inv st1 st2 -> inv (line vmstep st1 l now) (line vmstep st2 l now).
Proof.
  intros [Ip Iv Ih1 Ih2 Io Il]. constructor; cbn [line st_index st_lines]; auto.
  - rewrite !getp_line, Ip. reflexivity.
  - rewrite Il. reflexivity.
Qed.
End Iso.

(* ---- Store.Gc: which objects are exported depends, for P, on P's views only ---- *)
Definition keys_nodup (idx : index) : Prop := NoDup (map fst idx).

Lemma blookup_In {A} k (x : A) l : blookup k l = Some x -> In (k, x) l.
Proof.
  induction l as [|[k' y] r IH]; cbn [blookup]; [discriminate|].
  destruct (bytes_eqb k k') eqn:E.
  - intros H. injection H as <-. apply bytes_eqb_spec in E. subst. left. reflexivity.
  - intros H. right. exact (IH H).
Qed.

Lemma In_blookup {A} k (x : A) l : NoDup (map fst l) -> In (k, x) l -> blookup k l = Some x.
Proof.
  induction l as [|[k' y] r IH]; cbn [map fst blookup]; intros ND I; [destruct I|].
  inversion ND as [|? ? NI ND']; subst.
  destruct I as [I|I].
  - injection I as -> ->. rewrite bytes_eqb_refl. reflexivity.
  - destruct (bytes_eqb k k') eqn:E.
    + apply bytes_eqb_spec in E. subst k'. exfalso. apply NI.
      change k with (fst (k, x)). apply in_map. exact I.
    + exact (IH ND' I).
Qed.

Lemma bupdate_keys {A} k (x : A) l :
  map fst (bupdate k x l) = map fst l \/
  (map fst (bupdate k x l) = map fst l ++ [k] /\ ~ In k (map fst l)).
Proof.
  induction l as [|[k' y] r IH]; cbn [bupdate map fst].
  - right. split; [reflexivity|intros []].
  - destruct (bytes_eqb k k') eqn:E; cbn [map fst].
    + apply bytes_eqb_spec in E. subst. left. reflexivity.
    + destruct IH as [IH|[IH NI]].
      * left. rewrite IH. reflexivity.
      * right. split; [rewrite IH; reflexivity|]. intros [H|H]; [|exact (NI H)].
        subst. rewrite bytes_eqb_refl in E. discriminate.
Qed.

Lemma nodup_snoc {A} (l : list A) k : NoDup l -> ~ In k l -> NoDup (l ++ [k]).
Proof.
  induction l as [|y l IH]; cbn [app]; intros ND NI.
  - constructor; [intros []|constructor].
  - inversion ND as [|? ? NY ND']; subst. constructor.
    + intros I. apply in_app_or in I. destruct I as [I|[I|[]]]; [exact (NY I)|].
      subst. apply NI. left. reflexivity.
    + apply IH; [exact ND'|]. intros I. apply NI. right. exact I.
Qed.

Lemma bupdate_nodup {A} k (x : A) l : NoDup (map fst l) -> NoDup (map fst (bupdate k x l)).
Proof.
  intros ND. destruct (bupdate_keys k x l) as [E|[E NI]]; rewrite E; [exact ND|].
  apply nodup_snoc; assumption.
Qed.

Lemma exported_iff idx p o : keys_nodup idx ->
  (exported idx p o = true <-> exists name e, In e (pview p idx name) /\ e_id e = o).
Proof.
  intros ND. unfold exported. rewrite existsb_exists. split.
  - intros ([n l] & I & X). cbn [snd] in X. unfold exported_in in X. apply existsb_exists in X.
    destruct X as (e & Ie & B). apply andb_true_iff in B. destruct B as [B1 B2].
    exists n, e. split; [|apply N.eqb_eq; exact B2].
    unfold pview, entries_of. rewrite (In_blookup _ _ _ ND I). apply filter_In. split; [exact Ie|exact B1].
  - intros (name & e & Ie & Eo). unfold pview in Ie. apply filter_In in Ie. destruct Ie as [Ie Bp].
    unfold entries_of in Ie. destruct (blookup name idx) as [l|] eqn:L; [|destruct Ie].
    exists (name, l). split; [exact (blookup_In _ _ _ L)|]. cbn [snd]. unfold exported_in.
    apply existsb_exists. exists e. split; [exact Ie|]. apply andb_true_iff. split; [exact Bp|apply N.eqb_eq; exact Eo].
Qed.

Lemma exported_agree idx1 idx2 p : keys_nodup idx1 -> keys_nodup idx2 ->
  (forall name, pview p idx1 name = pview p idx2 name) ->
  forall o, exported idx1 p o = exported idx2 p o.
Proof.
  intros N1 N2 V o.
  destruct (exported idx1 p o) eqn:E1.
  - symmetry. apply (exported_iff _ _ _ N2). apply (exported_iff _ _ _ N1) in E1.
    destruct E1 as (n & e & I & Eo). exists n, e. rewrite <- V. auto.
  - destruct (exported idx2 p o) eqn:E2; [|reflexivity].
    apply (exported_iff _ _ _ N2) in E2. destruct E2 as (n & e & I & Eo).
    rewrite <- E1. apply (exported_iff _ _ _ N1). exists n, e. rewrite V. auto.
Qed.

Section AddNodup.
Variable c : bool.
Lemma add_nodup idx h p o d idx' h' : keys_nodup idx -> add c idx h p o d = Some (idx', h') -> keys_nodup idx'.
Proof.
  unfold add. destruct (kind_conflict _ _); [discriminate|]. intros ND E. injection E as <- <-.
  apply bupdate_nodup. exact ND.
Qed.

Lemma register_nodup q : forall ms idx h idx' h' b,
  register c idx h q ms = (idx', h', b) -> keys_nodup idx -> keys_nodup idx'.
Proof.
  induction ms as [|[o d] r IH]; intros idx h idx' h' b E; cbn [register] in E.
  - injection E as <- <- <-. auto.
  - destruct (d_hidden d); [exact (IH _ _ _ _ _ E)|].
    destruct (add c idx h q o d) as [[idx1 h1]|] eqn:A.
    + intros ND. apply (IH _ _ _ _ _ E). exact (add_nodup _ _ _ _ _ _ _ ND A).
    + injection E as <- <- <-. auto.
Qed.
End AddNodup.

Lemma gc_heap_agree idx1 idx2 el p h :
  (forall o, exported idx1 p o = exported idx2 p o) -> gc_heap idx1 el p h = gc_heap idx2 el p h.
Proof.
  intros X. unfold gc_heap. f_equal. apply map_ext. intros [o l]. cbn [fst snd]. rewrite X. reflexivity.
Qed.

(* ================================================================== *)
Section Run.
Variable c1 c2 omit : bool.
Variable compile : bytes -> N -> option (list decl).
Variable vmstep : bytes -> N -> N -> list effect.
Variable P : bytes.

Notation load := (load c1 c2 omit compile).
Notation step := (step c1 c2 omit compile vmstep).
Notation run_from := (run_from c1 c2 omit compile vmstep).
Notation inv := (inv P).

Lemma load_nodup st q src : keys_nodup (st_index st) -> keys_nodup (st_index (load st q src)).
Proof.
  intros ND. unfold Loader.load, Loader.load_r.
  destruct (match ps_handle (getp q st) with Some hd => N.eqb (h_src hd) src | None => false end); [exact ND|].
  destruct (compile q src) as [ds|]; [|exact ND].
  destruct (alloc_objs (ps_heap (getp q st)) ds) as [h1 objs0].
  destruct (register c1 (st_index st) h1 q _) as [[idx h2] b] eqn:R.
  pose proof (register_nodup _ _ _ _ _ _ _ _ R ND). destruct b; exact H.
Qed.

Lemma getp_gc st el : getp P (gc st el) = gc_prog (st_index st) el P (getp P st).
Proof.
  unfold getp, gc. cbn [st_progs].
  rewrite (blookup_map_keyed (fun p x => gc_prog (st_index st) el p x)).
  destruct (blookup P (st_progs st)); reflexivity.
Qed.

Record inv2 (st1 st2 : state) : Prop := mkinv2 {
  i2_inv : inv st1 st2;
  i2_n1 : keys_nodup (st_index st1);
  i2_n2 : keys_nodup (st_index st2) }.

(* the loads and unloads of the other programs are dropped *)
Definition keep (o : op) : bool :=
  match o with
  | OLoad q _ | OUnload q | OMark q _ _ _ => bytes_eqb q P
  | _ => true
  end.
Definition restrict (ops : list op) : list op := filter keep ops.

(* the permitted interaction never happens: whenever P is loaded, every name it
   declares is, among the other programs' metrics in the store at that moment,
   only held with the same kind *)
Fixpoint never_clashes (st : state) (ops : list op) : Prop :=
  match ops with
  | [] => True
  | o :: r =>
      match o with
      | OLoad q src => q = P -> decls_agree P (st_index st) (load_objs omit compile P st src)
      | _ => True
      end /\ never_clashes (step st o) r
  end.

Lemma step_kept st1 st2 o :
  inv2 st1 st2 -> keep o = true ->
  match o with
  | OLoad q src => decls_agree P (st_index st1) (load_objs omit compile P st1 src)
  | _ => True
  end ->
  inv2 (step st1 o) (step st2 o).
Proof.
  intros [I N1 N2] K DA. destruct o as [q src|q|l now|el|q m ls e]; cbn [Loader.step].
  5:{ cbn [keep] in K. apply bytes_eqb_spec in K. subst q. constructor.
      - apply mark_same. exact I.
      - unfold mark. destruct (ps_handle _); [destruct (exec_effect _ _ _ _)|]; exact N1.
      - unfold mark. destruct (ps_handle _); [destruct (exec_effect _ _ _ _)|]; exact N2. }
  - cbn [keep] in K. apply bytes_eqb_spec in K. subst q. constructor.
    + apply load_same; assumption.
    + apply load_nodup. exact N1.
    + apply load_nodup. exact N2.
  - cbn [keep] in K. apply bytes_eqb_spec in K. subst q. constructor.
    + apply unload_same. exact I.
    + unfold unload. destruct (ps_handle _); exact N1.
    + unfold unload. destruct (ps_handle _); exact N2.
  - constructor; [apply line_same; exact I|exact N1|exact N2].
  - destruct I as [Ip Iv Ih1 Ih2 Io Il]. constructor; [|exact N1|exact N2].
    constructor; cbn [gc st_index st_lines]; auto.
    rewrite !getp_gc, Ip. unfold gc_prog. f_equal.
    apply gc_heap_agree. apply exported_agree; assumption.
Qed.

Lemma step_dropped st1 st2 o : inv2 st1 st2 -> keep o = false -> inv2 (step st1 o) st2.
Proof.
  intros [[Ip Iv Ih1 Ih2 Io Il] N1 N2] K. destruct o as [q src|q|l now|el|q m ls e]; cbn [keep] in K; try discriminate.
  3:{ apply bytes_eqb_false in K. destruct (mark_other P st1 q m ls e K) as (A & B & C & _).
      cbn [Loader.step]. constructor; [|rewrite B; exact N1|exact N2].
      constructor; try rewrite B; auto; congruence. }
  - apply bytes_eqb_false in K. destruct (load_other c1 c2 omit compile P st1 q src K) as (A & B & C & D).
    cbn [Loader.step]. constructor; [|apply load_nodup; exact N1|exact N2].
    constructor; auto; try congruence; try (intros name; rewrite B; apply Iv).
  - apply bytes_eqb_false in K. destruct (unload_other P st1 q K) as (A & B & C).
    cbn [Loader.step]. constructor; [|rewrite B; exact N1|exact N2].
    constructor; try rewrite B; auto; congruence.
Qed.

Theorem isolation_from : forall ops st1 st2,
  inv2 st1 st2 -> never_clashes st1 ops ->
  inv2 (run_from st1 ops) (run_from st2 (restrict ops)).
Proof.
  unfold Loader.run_from.
  induction ops as [|o r IH]; intros st1 st2 I NC; cbn [fold_left restrict filter]; [exact I|].
  destruct NC as [DA NC]. destruct (keep o) eqn:K.
  - cbn [fold_left]. apply IH; [|exact NC]. apply step_kept; [exact I|exact K|].
    destruct o as [q src| | | |]; auto. apply DA. cbn [keep] in K. apply bytes_eqb_spec in K. exact K.
  - apply IH; [|exact NC]. apply step_dropped; assumption.
Qed.

Lemma inv2_empty : inv2 st_empty st_empty.
Proof.
  constructor; [constructor|constructor|constructor]; try reflexivity;
    intros name e1 e2 [].
Qed.

(* P's projection of a state: its own record (heap, handle, counters) and its
   entries in every bucket of the store *)
Definition proj (st : state) : pstate * (bytes -> list entry) :=
  (getp P st, pview P (st_index st)).

Theorem isolation ops :
  never_clashes st_empty ops ->
  fst (proj (run_from st_empty ops)) = fst (proj (run_from st_empty (restrict ops))) /\
  forall name, snd (proj (run_from st_empty ops)) name = snd (proj (run_from st_empty (restrict ops))) name.
Proof.
  intros NC. destruct (isolation_from ops _ _ inv2_empty NC) as [[Ip Iv _ _ _ _] _ _].
  split; [exact Ip|exact Iv].
Qed.
End Run.
