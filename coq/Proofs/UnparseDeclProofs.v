(* Parsing a declaration as the (repaired) unparser prints it gives it back. *)
From V Require Import Base.Bytes Lang.UnparseDecl.
Local Open Scope Z_scope.

Lemma drun_app st a b : drun st (a ++ b) = drun (drun st a) b.
Proof. unfold drun. apply fold_left_app. Qed.

Lemma names_loop h k n l bs a : forall ks acc, ks <> [] ->
  drun (mk_decl h k n acc l bs a, MKeys) (sep_names ks) = (mk_decl h k n (acc ++ ks) l bs a, MKeysSep).
Proof.
  induction ks as [|x r IH]; intros acc Hne; [contradiction|].
  destruct r as [|y r'].
  - reflexivity.
  - change (sep_names (x :: y :: r')) with (DName x :: DComma :: sep_names (y :: r')).
    change (drun ?s (?t1 :: ?t2 :: ?ts)) with (drun (dstep (dstep s t1) t2) ts).
    cbn [dstep]. rewrite IH by discriminate. rewrite <- app_assoc. reflexivity.
Qed.

Lemma nums_loop h k n ks l a : forall bs acc, bs <> [] ->
  drun (mk_decl h k n ks l acc a, MBuckets) (sep_nums bs) = (mk_decl h k n ks l (acc ++ bs) a, MBucketsSep).
Proof.
  induction bs as [|x r IH]; intros acc Hne; [contradiction|].
  destruct r as [|y r'].
  - reflexivity.
  - change (sep_nums (x :: y :: r')) with (DNum x :: DComma :: sep_nums (y :: r')).
    change (drun ?s (?t1 :: ?t2 :: ?ts)) with (drun (dstep (dstep s t1) t2) ts).
    cbn [dstep]. rewrite IH by discriminate. rewrite <- app_assoc. reflexivity.
Qed.

Lemma run_keys h k n l bs a ks m : attr_mode m = true ->
  exists m', attr_mode m' = true /\
    drun (mk_decl h k n [] l bs a, m) (seg_keys ks) = (mk_decl h k n ks l bs a, m').
Proof.
  intros Hm. destruct ks as [|x r].
  - exists m. split; [exact Hm|reflexivity].
  - exists MKeysSep. split; [reflexivity|].
    change (seg_keys (x :: r)) with (DBy :: sep_names (x :: r)).
    change (drun ?s (?t1 :: ?ts)) with (drun (dstep s t1) ts).
    assert (E : dstep (mk_decl h k n [] l bs a, m) DBy = (mk_decl h k n [] l bs a, MKeys)).
    { destruct m; try discriminate; reflexivity. }
    rewrite E. rewrite names_loop by discriminate. reflexivity.
Qed.

Lemma run_as h k n ks l bs s m : attr_mode m = true ->
  exists m', attr_mode m' = true /\
    drun (mk_decl h k n ks l bs [], m) (seg_as s) = (mk_decl h k n ks l bs s, m').
Proof.
  intros Hm. destruct s as [|c r].
  - exists m. split; [exact Hm|reflexivity].
  - exists MAttrs. split; [reflexivity|].
    destruct m; try discriminate; reflexivity.
Qed.

Lemma run_limit h k n ks bs a z m : attr_mode m = true ->
  exists m', attr_mode m' = true /\
    drun (mk_decl h k n ks 0 bs a, m) (seg_limit z) = (mk_decl h k n ks z bs a, m').
Proof.
  intros Hm. unfold seg_limit. destruct (Z.eqb_spec z 0) as [->|Hz].
  - exists m. split; [exact Hm|reflexivity].
  - exists MAttrs. split; [reflexivity|].
    destruct m; try discriminate; reflexivity.
Qed.

Lemma run_buckets h k n ks l a bs m : attr_mode m = true ->
  exists m', attr_mode m' = true /\
    drun (mk_decl h k n ks l [] a, m) (seg_buckets bs) = (mk_decl h k n ks l bs a, m').
Proof.
  intros Hm. destruct bs as [|x r].
  - exists m. split; [exact Hm|reflexivity].
  - exists MBucketsSep. split; [reflexivity|].
    change (seg_buckets (x :: r)) with (DBuckets :: sep_nums (x :: r)).
    change (drun ?s (?t1 :: ?ts)) with (drun (dstep s t1) ts).
    assert (E : dstep (mk_decl h k n ks l [] a, m) DBuckets = (mk_decl h k n ks l [] a, MBuckets)).
    { destruct m; try discriminate; reflexivity. }
    rewrite E. rewrite nums_loop by discriminate. reflexivity.
Qed.

Theorem decl_roundtrip d : parse_decl (unparse_decl d) = Some d.
Proof.
  destruct d as [h k n ks l bs a]. unfold parse_decl, unparse_decl.
  cbn [d_hidden d_kind d_name d_keys d_limit d_buckets d_as].
  assert (E0 : forall rest,
    drun (decl0, MStart) ((if h then [DHidden] else []) ++ [DKind k; DName n] ++ rest)
    = drun (mk_decl h k n [] 0 [] [], MAttrs) rest).
  { intros rest. destruct h; reflexivity. }
  rewrite E0.
  destruct (run_keys h k n 0 [] [] ks MAttrs eq_refl) as (m1 & A1 & R1).
  rewrite drun_app, R1.
  destruct (run_as h k n ks 0 [] a m1 A1) as (m2 & A2 & R2).
  rewrite drun_app, R2.
  destruct (run_limit h k n ks [] a l m2 A2) as (m3 & A3 & R3).
  rewrite drun_app, R3.
  destruct (run_buckets h k n ks l a bs m3 A3) as (m4 & A4 & R4).
  rewrite R4, A4. reflexivity.
Qed.

(* the printer before the repair loses `hidden` and `as`: hidden counter c as "d" *)
Lemma decl_old_loses_attributes :
  let d := mk_decl true 0 [99%N] [] 0 [] [100%N] in
  let d' := mk_decl false 0 [99%N] [] 0 [] [] in
  parse_decl (unparse_decl_old (fun b => b) d) = Some d' /\ d' <> d /\
  unparse_decl_old (fun b => b) d' = unparse_decl_old (fun b => b) d.
Proof. cbv zeta. split; [reflexivity|]. split; [discriminate|reflexivity]. Qed.

(* ... a negative limit, and (whenever %f changes a boundary) the buckets *)
Lemma decl_old_loses_limit :
  let d := mk_decl false 0 [99%N] [[97%N]] (-1) [] [] in
  exists d', parse_decl (unparse_decl_old (fun b => b) d) = Some d' /\ d' <> d.
Proof. cbv zeta. eexists. split; [reflexivity|discriminate]. Qed.

Lemma decl_old_loses_buckets (f6 : N -> N) b :
  f6 b <> b ->
  let d := mk_decl false 4 [104%N] [] 0 [b] [] in
  exists d', parse_decl (unparse_decl_old f6 d) = Some d' /\ d' <> d.
Proof.
  intros H. cbv zeta. eexists. split; [reflexivity|]. intros E. injection E as E. contradiction.
Qed.
