(* Several GC passes in the life of one metric: a pass is itself a sequence of
   RemoveDatum calls, so the state after a pass is again a reachable metric
   state; hence every C10 statement holds at every pass of every history of
   operations and passes, and the whole history refines the same history on the
   insertion-ordered map where a pass is [gc limit now]. *)
From V Require Import Metrics.LabelKey Metrics.MetricMap Metrics.Gc
  Proofs.LabelKeyProofs Proofs.MetricMapProofs Proofs.MetricMapCorollaries
  Proofs.GcProofs Proofs.GcRefine Proofs.GcCorollaries.
Local Open Scope Z_scope.

Definition only_removes (ops : list op) : Prop :=
  Forall (fun o => exists ls, o = ORemove ls) ops.

Section Runs.
Variable enc : tuple -> bytes.

Lemma c_run_app a : forall m b,
  c_run enc m (a ++ b) =
  let (m1, x1) := c_run enc m a in let (m2, x2) := c_run enc m1 b in (m2, x1 ++ x2).
Proof.
  induction a as [|o r IH]; intros m b; cbn [app c_run].
  - destruct (c_run enc m b). reflexivity.
  - destruct (c_step enc m o) as [m1 x]. rewrite IH.
    destruct (c_run enc m1 r) as [m2 xs]. destruct (c_run enc m2 b) as [m3 ys]. reflexivity.
Qed.

Lemma c_run_app_fst a b m :
  fst (c_run enc m (a ++ b)) = fst (c_run enc (fst (c_run enc m a)) b).
Proof.
  rewrite c_run_app. destruct (c_run enc m a) as [m1 x1]. cbn [fst].
  destruct (c_run enc m1 b). reflexivity.
Qed.

Lemma c_run_one m o : fst (c_run enc m [o]) = fst (c_step enc m o).
Proof. cbn [c_run]. destruct (c_step enc m o). reflexivity. Qed.

(* RemoveOldestDatum, the limit loop and the sweep loop are sequences of
   RemoveDatum calls on the same metric *)
Lemma remove_oldest_is_run m :
  exists ops, only_removes ops /\ c_remove_oldest enc m = fst (c_run enc m ops).
Proof.
  unfold c_remove_oldest. destruct (m_slice m) as [|lv r].
  - exists []. split; [constructor|reflexivity].
  - exists [ORemove (lv_labels (c_oldest_from lv r))]. split.
    + constructor; [eexists; reflexivity|constructor].
    + symmetry. apply c_run_one.
Qed.

Lemma iter_remove_is_run n : forall m,
  exists ops, only_removes ops /\ iter n (c_remove_oldest enc) m = fst (c_run enc m ops).
Proof.
  induction n as [|n IH]; intros m; cbn [iter].
  - exists []. split; [constructor|reflexivity].
  - destruct (remove_oldest_is_run m) as [o1 [R1 E1]].
    destruct (IH (c_remove_oldest enc m)) as [o2 [R2 E2]].
    exists (o1 ++ o2). split; [apply Forall_app; auto|].
    rewrite c_run_app_fst, <- E1. exact E2.
Qed.

Lemma limit_phase_is_run limit m :
  exists ops, only_removes ops /\ c_limit_phase enc limit m = fst (c_run enc m ops).
Proof.
  unfold c_limit_phase. destruct (_ && _)%bool.
  - apply iter_remove_is_run.
  - exists []. split; [constructor|reflexivity].
Qed.

Lemma sweep_loop_is_run now fuel : forall i m,
  exists ops, only_removes ops /\ c_sweep_loop enc fuel now i m = fst (c_run enc m ops).
Proof.
  induction fuel as [|f IH]; intros i m; cbn [c_sweep_loop].
  - exists []. split; [constructor|reflexivity].
  - destruct (nth_error (m_slice m) i) as [lv|].
    + destruct (expired now (lv_cell lv)).
      * destruct (IH i (fst (c_step enc m (ORemove (lv_labels lv))))) as [o2 [R2 E2]].
        exists (ORemove (lv_labels lv) :: o2). split.
        -- constructor; [eexists; reflexivity|exact R2].
        -- change (ORemove (lv_labels lv) :: o2) with ([ORemove (lv_labels lv)] ++ o2).
           rewrite c_run_app_fst, c_run_one. exact E2.
      * apply IH.
    + exists []. split; [constructor|reflexivity].
Qed.

Theorem gc_is_run limit now m :
  exists ops, only_removes ops /\ c_gc enc limit now m = fst (c_run enc m ops).
Proof.
  unfold c_gc, c_sweep. destruct (limit_phase_is_run limit m) as [o1 [R1 E1]].
  set (m1 := c_limit_phase enc limit m) in *.
  destruct (sweep_loop_is_run now (2 * length (m_slice m1) + 1) 0 m1) as [o2 [R2 E2]].
  exists (o1 ++ o2). split; [apply Forall_app; auto|].
  rewrite c_run_app_fst, <- E1. exact E2.
Qed.
End Runs.

(* removals leave arity, type and the allocation counter of the map alone *)
Lemma a_run_removes ops : only_removes ops -> forall a,
  let a' := fst (a_run a ops) in
  a_arity a' = a_arity a /\ a_type a' = a_type a /\ a_next a' = a_next a.
Proof.
  induction 1 as [|o r [ls ->] _ IH]; intros a; cbn [a_run fst]; [auto|].
  cbn [a_step]. destruct (negb (Nat.eqb (length ls) (a_arity a))).
  - specialize (IH a). destruct (a_run a r) as [a2 xs]. exact IH.
  - specialize (IH (with_items a (a_del ls (a_items a)))).
    destruct (a_run (with_items a (a_del ls (a_items a))) r) as [a2 xs]. exact IH.
Qed.

(* ---- reachability is closed under further operations and under passes ---- *)
Lemma reachable_run n t m ops :
  reachable n t m -> reachable n t (fst (c_run encode m ops)).
Proof.
  intros [o0 [xs H]]. exists (o0 ++ ops).
  pose proof (c_run_app encode o0 (c_init n t) ops) as A. rewrite H in A.
  destruct (c_run encode m ops) as [m2 ys] eqn:R. cbn [fst]. eexists. exact A.
Qed.

Lemma reachable_init n t : reachable n t (c_init n t).
Proof. exists [], []. reflexivity. Qed.

Theorem reachable_gc n t m limit now :
  reachable n t m -> reachable n t (c_gc encode limit now m).
Proof.
  intros R. destruct (gc_is_run encode limit now m) as [ops [_ E]]. rewrite E.
  apply reachable_run. exact R.
Qed.

Lemma reachable_h_step n t limit m ev :
  reachable n t m -> reachable n t (fst (h_step encode limit m ev)).
Proof.
  intros R. destruct ev as [ops|now]; cbn [h_step].
  - pose proof (reachable_run n t m ops R) as H. destruct (c_run encode m ops). exact H.
  - cbn [fst]. apply reachable_gc. exact R.
Qed.

Theorem reachable_history n t limit evs : forall m,
  reachable n t m -> reachable n t (h_state encode limit m evs).
Proof.
  unfold h_state. induction evs as [|ev r IH]; intros m R; cbn [h_run fst]; [exact R|].
  pose proof (reachable_h_step n t limit m ev R) as R1.
  destruct (h_step encode limit m ev) as [m1 x]. cbn [fst] in R1.
  specialize (IH m1 R1). destruct (h_run encode limit m1 r) as [m2 xs]. exact IH.
Qed.

Lemma reachable_history_init n t limit evs :
  reachable n t (h_state encode limit (c_init n t) evs).
Proof. apply reachable_history, reachable_init. Qed.

(* ---- the state after a prefix that ends in a pass ---- *)
Lemma h_run_app limit a : forall m b,
  h_run encode limit m (a ++ b) =
  let (m1, x1) := h_run encode limit m a in
  let (m2, x2) := h_run encode limit m1 b in (m2, x1 ++ x2).
Proof.
  induction a as [|ev r IH]; intros m b; cbn [app h_run].
  - destruct (h_run encode limit m b). reflexivity.
  - destruct (h_step encode limit m ev) as [m1 x]. rewrite IH.
    destruct (h_run encode limit m1 r) as [m2 xs]. destruct (h_run encode limit m2 b). reflexivity.
Qed.

Lemma h_state_snoc_gc limit m pre now :
  h_state encode limit m (pre ++ [EGc now]) = c_gc encode limit now (h_state encode limit m pre).
Proof.
  unfold h_state. rewrite h_run_app. destruct (h_run encode limit m pre) as [m1 x1]. reflexivity.
Qed.

Lemma h_state_snoc_ops limit m pre ops :
  h_state encode limit m (pre ++ [EOps ops]) = fst (c_run encode (h_state encode limit m pre) ops).
Proof.
  unfold h_state. rewrite h_run_app. destruct (h_run encode limit m pre) as [m1 x1]. cbn [h_run h_step fst].
  destruct (c_run encode m1 ops). reflexivity.
Qed.

Section EveryPass.
Variables (n : nat) (t : vtype) (limit : nat) (pre : list event) (now : Z).
Let b := h_state encode limit (c_init n t) pre.
Let a := h_state encode limit (c_init n t) (pre ++ [EGc now]).
Let mid := c_limit_phase encode limit b.

Lemma b_reachable : reachable n t b.
Proof. apply reachable_history, reachable_init. Qed.

Lemma every_pass_exact : items a = gc limit now (items b).
Proof. unfold a. rewrite h_state_snoc_gc. apply (gc_refines_reachable n t). apply b_reachable. Qed.

Lemma every_pass_bound :
  (0 < limit)%nat -> (limit < length (m_slice b))%nat -> length (m_slice mid) = limit.
Proof. apply (c_limit_bound n t). apply b_reachable. Qed.

Lemma every_pass_within_limit :
  (limit = 0 \/ length (m_slice b) <= limit)%nat -> items mid = items b.
Proof. apply (c_limit_unchanged n t). apply b_reachable. Qed.

Lemma every_pass_oldest r k :
  In r (items b) -> ~ In r (items mid) -> In k (items mid) -> e_time r <= e_time k.
Proof. apply (c_limit_removes_oldest n t). apply b_reachable. Qed.

Lemma every_pass_expiry d :
  - two63 < now - c_time (snd (snd d)) < two63 ->
  (In d (items a) <->
   In d (items mid) /\
   ~ (0 < c_expiry (snd (snd d)) /\ c_expiry (snd (snd d)) < now - c_time (snd (snd d)))).
Proof. unfold a. rewrite h_state_snoc_gc. apply (c_expiry_exact n t). apply b_reachable. Qed.

Lemma every_pass_expiry_saturated d :
  (In d (items a) <-> In d (items mid) /\ expired now (snd (snd d)) = false).
Proof. unfold a. rewrite h_state_snoc_gc. apply (c_expiry_saturated n t). apply b_reachable. Qed.

Lemma every_pass_frame : subseq (items a) (items b).
Proof. unfold a. rewrite h_state_snoc_gc. apply (c_gc_frame n t). apply b_reachable. Qed.
End EveryPass.

Lemma every_pass_limit n t limit pre :
  let b := h_state encode limit (c_init n t) pre in
  let mid := c_limit_phase encode limit b in
  ((0 < limit)%nat -> (limit < length (m_slice b))%nat -> length (m_slice mid) = limit) /\
  ((limit = 0 \/ length (m_slice b) <= limit)%nat -> items mid = items b) /\
  (forall r k, In r (items b) -> ~ In r (items mid) -> In k (items mid) -> e_time r <= e_time k).
Proof.
  split; [apply every_pass_bound|]. split; [apply every_pass_within_limit|apply every_pass_oldest].
Qed.

(* ---- the whole history refines the history on the insertion-ordered map ---- *)
Lemma listing_abs m : listing m = a_listing (abs m).
Proof.
  unfold listing, a_listing. cbn [abs a_items]. rewrite map_map. apply map_ext. intros lv. reflexivity.
Qed.

Lemma abs_gc limit now m :
  Inv encode m -> WfAr m ->
  abs (c_gc encode limit now m) = with_items (abs m) (gc limit now (a_items (abs m))) /\
  Inv encode (c_gc encode limit now m) /\ WfAr (c_gc encode limit now m).
Proof.
  intros I W. destruct (gc_refines encode encode_injective limit now m I W) as [H [I1 [W1 _]]].
  cbn zeta in *. split; [|auto].
  destruct (gc_is_run encode limit now m) as [ops [Ro E]].
  destruct (c_run encode m ops) as [m2 xs] eqn:R. cbn [fst] in E. subst m2.
  destruct (run_refines encode encode_injective ops _ _ _ I R) as [A _].
  pose proof (a_run_removes ops Ro (abs m)) as P. cbn zeta in P. rewrite A in P. cbn [fst] in P.
  destruct P as [P1 [P2 P3]].
  unfold with_items. destruct (abs (c_gc encode limit now m)) as [ar ty its nx] eqn:Q.
  cbn [a_arity a_type a_next] in *. subst ar ty nx. f_equal.
  change its with (a_items (mkam (a_arity (abs m)) (a_type (abs m)) its (a_next (abs m)))).
  rewrite <- Q. exact H.
Qed.

Lemma h_step_refines limit m ev m' x :
  Inv encode m -> WfAr m -> h_step encode limit m ev = (m', x) ->
  ah_step limit (abs m) ev = (abs m', x) /\ Inv encode m' /\ WfAr m'.
Proof.
  intros I W. destruct ev as [ops|now]; cbn [h_step ah_step].
  - destruct (c_run encode m ops) as [m1 xs] eqn:R. intros H; injection H as <- <-.
    destruct (run_refines encode encode_injective ops _ _ _ I R) as [A I1]. rewrite A.
    split; [reflexivity|]. split; [exact I1|].
    pose proof (run_wfar ops m W) as W1. rewrite R in W1. exact W1.
  - intros H; injection H as <- <-. destruct (abs_gc limit now m I W) as [A [I1 W1]].
    rewrite <- A. rewrite listing_abs. auto.
Qed.

Theorem history_refines limit evs : forall m m' tr,
  Inv encode m -> WfAr m -> h_run encode limit m evs = (m', tr) ->
  ah_run limit (abs m) evs = (abs m', tr).
Proof.
  induction evs as [|ev r IH]; cbn [h_run ah_run]; intros m m' tr I W.
  - intros H; injection H as <- <-. reflexivity.
  - destruct (h_step encode limit m ev) as [m1 x] eqn:S.
    destruct (h_run encode limit m1 r) as [m2 xs] eqn:R. intros H; injection H as <- <-.
    destruct (h_step_refines _ _ _ _ _ I W S) as [A [I1 W1]]. rewrite A.
    rewrite (IH _ _ _ I1 W1 R). reflexivity.
Qed.

Lemma history_refines_init n t limit evs m tr :
  h_run encode limit (c_init n t) evs = (m, tr) ->
  ah_run limit (a_init n t) evs = (abs m, tr).
Proof.
  apply (history_refines limit evs (c_init n t)); [apply Inv_init|constructor].
Qed.
