(* C11 - (A) lock discipline implies data-race freedom on the RWMutex machine,
   for all schedules; (B) the must-hold lockset checker is sound for the trace
   semantics of the IR; (C) atomic read-modify-write lemmas; witnesses. *)
From Coq Require Import List NArith Bool Arith Lia ZArith Permutation.
Import ListNotations.
From V Require Import Export.LockIR.
Local Open Scope N_scope.

(* ---------- basic facts ---------- *)
Lemma mode_eqb_eq a b : mode_eqb a b = true <-> a = b.
Proof. destruct a, b; simpl; split; congruence. Qed.

Lemma hold_eqb_eq a b : hold_eqb a b = true <-> a = b.
Proof.
  destruct a as [[x l] m], b as [[y k] n]. simpl. split.
  - intros H. apply andb_prop in H. destruct H as [H H3]. apply andb_prop in H. destruct H as [H1 H2].
    apply N.eqb_eq in H1. apply N.eqb_eq in H2. apply mode_eqb_eq in H3. congruence.
  - intros H. inversion H; subst. rewrite !N.eqb_refl. simpl. apply mode_eqb_eq. reflexivity.
Qed.

Lemma In_remove_one h k H : In h (remove_one k H) -> In h H.
Proof.
  induction H as [|a r IH]; simpl; auto.
  destruct (hold_eqb a k); simpl; intuition.
Qed.

Lemma In_remove_one_neq h k H : h <> k -> In h H -> In h (remove_one k H).
Proof.
  intros Hn. induction H as [|a r IH]; simpl; auto.
  intros [->|Hi].
  - destruct (hold_eqb h k) eqn:E; [apply hold_eqb_eq in E; contradiction|]. left; reflexivity.
  - destruct (hold_eqb a k); [exact Hi|]. right. auto.
Qed.

Lemma memh_In h L : memh h L = true <-> In h L.
Proof.
  unfold memh. rewrite existsb_exists. split.
  - intros (x & Hx & E). apply hold_eqb_eq in E. subst. exact Hx.
  - intros Hi. exists h. split; [exact Hi|]. apply hold_eqb_eq. reflexivity.
Qed.

Lemma apply_app H t1 t2 : apply H (t1 ++ t2) = apply (apply H t1) t2.
Proof. unfold apply. apply fold_left_app. Qed.

Lemma guarded_app spec H t1 t2 :
  guarded spec H (t1 ++ t2) <-> guarded spec H t1 /\ guarded spec (apply H t1) t2.
Proof.
  revert H. induction t1 as [|ev r IH]; intros H; simpl.
  - tauto.
  - rewrite IH. unfold apply at 2. simpl. fold (apply (apply1 H ev) r). tauto.
Qed.

Lemma apply_reset H tr : apply H (EvReset :: tr) = apply H tr.
Proof. reflexivity. Qed.

Lemma guarded_reset spec H tr : guarded spec H (EvReset :: tr) <-> guarded spec H tr.
Proof. simpl. tauto. Qed.

(* ---------- (A) the machine ---------- *)
Section Machine.
Variable spec : N -> guard.

Definition Excl (g : gstate) : Prop :=
  forall i j, i <> j -> forall x l m, In (x, l, MW) (th_H (g i)) -> ~ In (x, l, m) (th_H (g j)).

Definition Guarded (g : gstate) : Prop :=
  forall i, guarded spec (th_H (g i)) (th_rest (g i)).

Lemma gupd_same g i t : gupd g i t i = t.
Proof. unfold gupd. rewrite Nat.eqb_refl. reflexivity. Qed.
Lemma gupd_other g i t j : j <> i -> gupd g i t j = g j.
Proof. unfold gupd. intros H. apply Nat.eqb_neq in H. rewrite H. reflexivity. Qed.

Lemma step_Excl g g' : Excl g -> gstep g g' -> Excl g'.
Proof.
  intros HE St. inversion St as [g0 i0 ev rest Hr Hf]; subst. clear St.
  intros i j Hij x l m Hi Hj.
  destruct (Nat.eq_dec i i0) as [->|Hi0]; destruct (Nat.eq_dec j i0) as [->|Hj0];
    try congruence.
  - (* i is the stepping thread *)
    rewrite gupd_same in Hi. rewrite gupd_other in Hj by assumption. simpl in Hi.
    destruct ev as [y k n|y k n|y f n|]; simpl in Hi.
    + destruct Hi as [E|Hi]; [|exact (HE i0 j Hij _ _ _ Hi Hj)].
      inversion E; subst. simpl in Hf. exact (Hf j m Hj).
    + apply In_remove_one in Hi. exact (HE i0 j Hij _ _ _ Hi Hj).
    + exact (HE i0 j Hij _ _ _ Hi Hj).
    + exact (HE i0 j Hij _ _ _ Hi Hj).
  - (* j is the stepping thread *)
    rewrite gupd_other in Hi by assumption. rewrite gupd_same in Hj. simpl in Hj.
    destruct ev as [y k n|y k n|y f n|]; simpl in Hj.
    + destruct Hj as [E|Hj]; [|exact (HE i i0 Hij _ _ _ Hi Hj)].
      inversion E; subst. simpl in Hf. destruct m.
      * exact (Hf i Hi).
      * exact (Hf i MW Hi).
    + apply In_remove_one in Hj. exact (HE i i0 Hij _ _ _ Hi Hj).
    + exact (HE i i0 Hij _ _ _ Hi Hj).
    + exact (HE i i0 Hij _ _ _ Hi Hj).
  - rewrite gupd_other in Hi by assumption. rewrite gupd_other in Hj by assumption.
    exact (HE i j Hij _ _ _ Hi Hj).
Qed.

Lemma step_Guarded g g' : Guarded g -> gstep g g' -> Guarded g'.
Proof.
  intros HG St. inversion St as [g0 i0 ev rest Hr Hf]; subst. clear St.
  intros i. destruct (Nat.eq_dec i i0) as [->|Hi0].
  - rewrite gupd_same. simpl. specialize (HG i0). rewrite Hr in HG. simpl in HG. tauto.
  - rewrite gupd_other by assumption. apply HG.
Qed.

Lemma no_race g : Excl g -> Guarded g -> ~ race g.
Proof.
  intros HE HG (i & j & x & f & k1 & k2 & r1 & r2 & Hij & Hi & Hj & Hc).
  pose proof (HG i) as Gi. pose proof (HG j) as Gj.
  rewrite Hi in Gi. rewrite Hj in Gj. simpl in Gi, Gj.
  destruct Gi as [Oi _]. destruct Gj as [Oj _].
  assert (Hji : j <> i) by congruence.
  destruct (spec f) as [l| | |]; destruct k1, k2; simpl in *; try discriminate; try contradiction.
  - destruct Oi as [Oi|Oi]; [exact (HE i j Hij _ _ _ Oi Oj)|exact (HE j i Hji _ _ _ Oj Oi)].
  - destruct Oj as [Oj|Oj]; exact (HE i j Hij _ _ _ Oi Oj).
  - exact (HE i j Hij _ _ _ Oi Oj).
Qed.

Theorem guarded_threads_race_free (g0 : gstate) :
  (forall i, th_H (g0 i) = [] /\ guarded spec [] (th_rest (g0 i))) ->
  forall g, reachable g0 g -> ~ race g.
Proof.
  intros H0 g R.
  assert (Excl g /\ Guarded g) as [HE HG].
  { induction R as [|g g' R IH St].
    - split.
      + intros i j _ x l m Hi. rewrite (proj1 (H0 i)) in Hi. destruct Hi.
      + intros i. rewrite (proj1 (H0 i)). apply H0.
    - destruct IH as [HE HG]. split; [eapply step_Excl|eapply step_Guarded]; eauto. }
  apply no_race; assumption.
Qed.

(* isolation: while a thread holds a lock in write mode, no other thread is
   about to perform an access that this lock guards - a critical section under
   the write lock is one indivisible step as far as the guarded fields go *)
Theorem write_lock_isolates (g0 : gstate) :
  (forall i, th_H (g0 i) = [] /\ guarded spec [] (th_rest (g0 i))) ->
  forall g, reachable g0 g ->
  forall i j x l f k r, i <> j -> In (x, l, MW) (th_H (g i)) ->
    th_rest (g j) = EvAcc x f k :: r -> spec f = GLock l -> False.
Proof.
  intros H0 g R.
  assert (Excl g /\ Guarded g) as [HE HG].
  { induction R as [|g g' R IH St].
    - split.
      + intros i j _ x l m Hi. rewrite (proj1 (H0 i)) in Hi. destruct Hi.
      + intros i. rewrite (proj1 (H0 i)). apply H0.
    - destruct IH as [HE HG]. split; [eapply step_Excl|eapply step_Guarded]; eauto. }
  intros i j x l f k r Hij Hi Hj Hs.
  pose proof (HG j) as Gj. rewrite Hj in Gj. simpl in Gj. destruct Gj as [Oj _].
  rewrite Hs in Oj. destruct k; simpl in Oj.
  - destruct Oj as [Oj|Oj]; exact (HE i j Hij _ _ _ Hi Oj).
  - exact (HE i j Hij _ _ _ Hi Oj).
  - exact Oj.
Qed.

End Machine.

(* ---------- (B) the checker ---------- *)
Scheme run_stmt_mind := Minimality for run_stmt Sort Prop
  with run_block_mind := Minimality for run_block Sort Prop.
Combined Scheme run_mutind from run_stmt_mind, run_block_mind.

Definition rel (L : lockset) (r : env) (H : list hold) : Prop :=
  forall o l m, In (o, l, m) L -> In (r o, l, m) H.

Lemma subseth_rel A B r H : subseth A B = true -> rel B r H -> rel A r H.
Proof.
  unfold subseth, rel. rewrite forallb_forall. intros S R o l m Hi.
  apply R. apply memh_In. apply S. exact Hi.
Qed.

Lemma inter_rel_l A B r H : rel A r H -> rel (inter A B) r H.
Proof. unfold rel, inter. intros R o l m Hi. apply filter_In in Hi. apply R. tauto. Qed.

Lemma inter_rel_r A B r H : rel B r H -> rel (inter A B) r H.
Proof.
  unfold rel, inter. intros R o l m Hi. apply filter_In in Hi. destruct Hi as [_ Hm].
  apply memh_In in Hm. apply R. exact Hm.
Qed.

Lemma meetopt_l a y r H : rel a r H -> exists c, meetopt (Some a) y = Some c /\ rel c r H.
Proof. intros R. destruct y as [b|]; simpl; eexists; split; eauto using inter_rel_l. Qed.

Lemma meetopt_r x b r H : rel b r H -> exists c, meetopt x (Some b) = Some c /\ rel c r H.
Proof. intros R. destruct x as [a|]; simpl; eexists; split; eauto using inter_rel_r. Qed.

Lemma sok_ok g k o L r H : sok g k o L = true -> rel L r H -> ok_access g k (r o) H.
Proof.
  unfold sok, ok_access, rel. intros S R. destruct g as [l| | |], k; try discriminate; auto.
  - apply orb_prop in S. destruct S as [S|S]; apply memh_In in S; auto.
  - apply memh_In in S. auto.
Qed.

Section LSound.
Variable spec : N -> guard.

Definition lpost (inv : option (lockset * N)) (x : lres) (f : lflow) (r' : env) (H' : list hold) : Prop :=
  match f with
  | LFall => exists L', lfall x = Some L' /\ rel L' r' H'
  | LBrk => exists L', lbrk x = Some L' /\ rel L' r' H'
  | LCont => exists Lh site, inv = Some (Lh, site) /\ rel Lh r' H'
  | LRet => True
  end.

Lemma lcheck_if_eq inv t e L :
  lcheck_stmt spec inv (LIf t e) L =
  let x := lcheck_block spec inv t L in
  let y := lcheck_block spec inv e L in
  mklres (lviol x ++ lviol y) (meetopt (lfall x) (lfall y)) (meetopt (lbrk x) (lbrk y)).
Proof. reflexivity. Qed.

Lemma lcheck_loop_eq inv body site L :
  lcheck_stmt spec inv (LLoop body site) L =
  let x := lcheck_block spec (Some (L, site)) body L in
  let back := match lfall x with Some L' => subseth L L' | None => true end in
  mklres (lviol x ++ (if back then [] else [site])) (meetopt (Some L) (lbrk x)) None.
Proof. reflexivity. Qed.

Lemma lcheck_cons_eq inv s r L :
  lcheck_block spec inv (LCons s r) L =
  let x := lcheck_stmt spec inv s L in
  match lfall x with
  | None => x
  | Some L1 =>
      let y := lcheck_block spec inv r L1 in
      mklres (lviol x ++ lviol y) (lfall y) (meetopt (lbrk x) (lbrk y))
  end.
Proof. reflexivity. Qed.

Lemma lsound_mut :
  (forall s r tr r' f, run_stmt s r tr r' f ->
     forall inv L H, lviol (lcheck_stmt spec inv s L) = [] -> rel L r H ->
       guarded spec H tr /\ lpost inv (lcheck_stmt spec inv s L) f r' (apply H tr)) /\
  (forall b r tr r' f, run_block b r tr r' f ->
     forall inv L H, lviol (lcheck_block spec inv b L) = [] -> rel L r H ->
       guarded spec H tr /\ lpost inv (lcheck_block spec inv b L) f r' (apply H tr)).
Proof.
  apply run_mutind.
  - (* acq *) intros o l m r inv L H _ R. split; [simpl; auto|]. simpl.
    eexists. split; [reflexivity|]. intros o' l' m' [E|Hi].
    + inversion E; subst. left; reflexivity.
    + right. apply R. exact Hi.
  - (* rel *) intros o l m r inv L H _ R. split; [simpl; auto|]. simpl.
    eexists. split; [reflexivity|]. intros o' l' m' Hi. apply filter_In in Hi.
    destruct Hi as [Hi Hn]. simpl in Hn. apply negb_true_iff in Hn. apply N.eqb_neq in Hn.
    apply In_remove_one_neq; [congruence|]. apply R. exact Hi.
  - (* bind *) intros x v r inv L H _ R. split; [simpl; auto|]. rewrite apply_reset. simpl.
    eexists. split; [reflexivity|]. intros o' l' m' Hi. apply filter_In in Hi.
    destruct Hi as [Hi Hn]. simpl in Hn. apply negb_true_iff in Hn.
    unfold upd. rewrite Hn. apply R. exact Hi.
  - (* acc *) intros o f k site r inv L H V R. simpl in V.
    destruct (sok (spec f) k o L) eqn:S; [|discriminate]. split.
    + simpl. split; [|exact I]. eapply sok_ok; eauto.
    + simpl. eauto.
  - (* if then *) intros t e r tr r' fl _ IH inv L H V R. rewrite lcheck_if_eq in *. cbv zeta in *.
    simpl in V. apply app_eq_nil in V. destruct V as [Vx Vy].
    destruct (IH inv L H Vx R) as [G P]. split; [exact G|].
    destruct fl; simpl in *; auto.
    + destruct P as (L' & E & RL). rewrite E. apply meetopt_l. exact RL.
    + destruct P as (L' & E & RL). rewrite E. apply meetopt_l. exact RL.
  - (* if else *) intros t e r tr r' fl _ IH inv L H V R. rewrite lcheck_if_eq in *. cbv zeta in *.
    simpl in V. apply app_eq_nil in V. destruct V as [Vx Vy].
    destruct (IH inv L H Vy R) as [G P]. split; [exact G|].
    destruct fl; simpl in *; auto.
    + destruct P as (L' & E & RL). rewrite E. apply meetopt_r. exact RL.
    + destruct P as (L' & E & RL). rewrite E. apply meetopt_r. exact RL.
  - (* loop done *) intros body site r inv L H V R. rewrite lcheck_loop_eq in *. cbv zeta in *.
    split; [simpl; auto|]. rewrite apply_reset. simpl. apply meetopt_l. exact R.
  - (* loop iter *) intros body site r tr1 r1 f1 tr2 r2 fl _ IHb Hf1 _ IHl inv L H V R.
    pose proof V as V0. rewrite lcheck_loop_eq in V. cbv zeta in V. simpl in V.
    apply app_eq_nil in V. destruct V as [Vx Vb].
    destruct (IHb (Some (L, site)) L H Vx R) as [G1 P1].
    assert (R1 : rel L r1 (apply H tr1)).
    { destruct Hf1 as [-> | ->]; simpl in P1.
      - destruct P1 as (L' & E & RL). rewrite E in Vb.
        destruct (subseth L L') eqn:S; [|discriminate]. eapply subseth_rel; eauto.
      - destruct P1 as (Lh & s' & E & RL). inversion E; subst. exact RL. }
    destruct (IHl inv L (apply H tr1) V0 R1) as [G2 P2].
    split; [apply guarded_reset; apply guarded_app; auto|]. rewrite apply_reset, apply_app. exact P2.
  - (* loop break *) intros body site r tr1 r1 _ IHb inv L H V R.
    rewrite lcheck_loop_eq in *. cbv zeta in *. simpl in V.
    apply app_eq_nil in V. destruct V as [Vx Vb].
    destruct (IHb (Some (L, site)) L H Vx R) as [G1 P1].
    split; [apply guarded_reset; apply guarded_app; split; [exact G1|simpl; auto]|].
    rewrite apply_reset, apply_app. change (apply (apply H tr1) [EvReset]) with (apply H tr1).
    simpl in *. destruct P1 as (L' & E & RL). rewrite E. simpl. eexists. split; [reflexivity|].
    apply inter_rel_r. exact RL.
  - (* loop ret *) intros body site r tr1 r1 _ IHb inv L H V R.
    rewrite lcheck_loop_eq in *. cbv zeta in *. simpl in V.
    apply app_eq_nil in V. destruct V as [Vx Vb].
    destruct (IHb (Some (L, site)) L H Vx R) as [G1 P1]. split; [apply guarded_reset; exact G1|exact I].
  - (* continue *) intros r inv L H V R. split; [simpl; auto|]. simpl in *.
    destruct inv as [[Lh site]|]; [|discriminate]. simpl in V.
    destruct (subseth Lh L) eqn:S; [|discriminate].
    exists Lh, site. split; [reflexivity|]. eapply subseth_rel; eauto.
  - (* break *) intros r inv L H V R. split; [simpl; auto|]. simpl in *.
    destruct inv as [[Lh site]|]; [|discriminate]. simpl. eauto.
  - (* return *) intros r inv L H V R. split; simpl; auto.
  - (* unknown *) intros site r tr r' fl inv L H V R. simpl in V. discriminate.
  - (* nil *) intros r inv L H V R. split; [simpl; auto|]. simpl. eauto.
  - (* cons fall *) intros s b r tr1 r1 tr2 r2 fl _ IHs _ IHb inv L H V R.
    rewrite lcheck_cons_eq in *. cbv zeta in *.
    destruct (lfall (lcheck_stmt spec inv s L)) as [L1|] eqn:Ef.
    + simpl in V. apply app_eq_nil in V. destruct V as [Vx Vy].
      destruct (IHs inv L H Vx R) as [G1 P1]. simpl in P1. destruct P1 as (L1' & E1 & R1).
      rewrite Ef in E1. inversion E1; subst L1'.
      destruct (IHb inv L1 (apply H tr1) Vy R1) as [G2 P2].
      split; [apply guarded_app; auto|]. rewrite apply_app.
      destruct fl; simpl in *; auto.
      destruct P2 as (L' & E & RL). rewrite E. apply meetopt_r. exact RL.
    + destruct (IHs inv L H V R) as [G1 P1]. simpl in P1. destruct P1 as (L1' & E1 & _).
      rewrite Ef in E1. discriminate.
  - (* cons stop *) intros s b r tr1 r1 fl _ IHs Hfl inv L H V R.
    rewrite lcheck_cons_eq in *. cbv zeta in *.
    destruct (lfall (lcheck_stmt spec inv s L)) as [L1|] eqn:Ef.
    + simpl in V. apply app_eq_nil in V. destruct V as [Vx Vy].
      destruct (IHs inv L H Vx R) as [G1 P1]. split; [exact G1|].
      destruct fl; simpl in *; auto; try congruence.
      destruct P1 as (L' & E & RL). rewrite E. apply meetopt_l. exact RL.
    + exact (IHs inv L H V R).
Qed.

Lemma rel_nil r H : rel [] r H.
Proof. intros o l m []. Qed.

(* a function the checker accepts only produces guarded traces *)
Theorem lockset_sound b :
  violations spec b = [] ->
  forall r tr r' f, run_block b r tr r' f -> guarded spec [] tr.
Proof.
  intros V r tr r' f Hr.
  exact (proj1 (proj2 lsound_mut _ _ _ _ _ Hr None [] [] V (rel_nil r []))).
Qed.

Lemma disciplined_In T b : disciplined spec T = true -> In b T -> violations spec b = [].
Proof.
  unfold disciplined. rewrite forallb_forall. intros D Hi. specialize (D b Hi).
  destruct (violations spec b); [reflexivity|discriminate].
Qed.

(* the system theorem: threads running accepted functions never race *)
Theorem discipline_sound T :
  disciplined spec T = true ->
  forall g0 : gstate,
    (forall i, th_H (g0 i) = [] /\
       (th_rest (g0 i) = [] \/
        exists b r r' f, In b T /\ run_block b r (th_rest (g0 i)) r' f)) ->
    forall g, reachable g0 g -> ~ race g.
Proof.
  intros D g0 H0. apply (guarded_threads_race_free spec).
  intros i. destruct (H0 i) as [Hh Ht]. split; [exact Hh|].
  destruct Ht as [E|(b & r & r' & f & Hb & Hr)].
  - rewrite E. exact I.
  - eapply lockset_sound; eauto. eapply disciplined_In; eauto.
Qed.

End LSound.

(* ---------- (C) atomic words ---------- *)
(* n indivisible `atomic.AddInt64(&w, d_i)` operations, in any order: nothing is lost *)
Lemma fold_add_sum (l : list Z) (v : Z) : fold_left Z.add l v = (v + fold_right Z.add 0%Z l)%Z.
Proof. revert v. induction l as [|a r IH]; intros v; simpl; [lia|]. rewrite IH. lia. Qed.

Theorem no_lost_increment (ds sched : list Z) (v0 : Z) :
  Permutation ds sched -> fold_left Z.add sched v0 = (v0 + fold_right Z.add 0%Z ds)%Z.
Proof.
  intros P. rewrite fold_add_sum. f_equal.
  induction P; simpl; try lia.
Qed.

(* a value returned by an atomic load was the word's value in a state the word
   really went through *)
Inductive aop := AAdd (d : Z) | AStore (v : Z) | ALoad.
Fixpoint aword (v : Z) (ops : list aop) : Z * list Z * list Z :=   (* final, history, loads *)
  match ops with
  | [] => (v, [v], [])
  | AAdd d :: r => let '(f, h, ls) := aword (v + d)%Z r in (f, v :: h, ls)
  | AStore w :: r => let '(f, h, ls) := aword w r in (f, v :: h, ls)
  | ALoad :: r => let '(f, h, ls) := aword v r in (f, h, v :: ls)
  end.

Theorem load_sees_real_value ops v : forall x, In x (snd (aword v ops)) -> In x (snd (fst (aword v ops))).
Proof.
  revert v. induction ops as [|o r IH]; intros v x; simpl; [tauto|].
  destruct o as [d|w|].
  - specialize (IH (v + d)%Z x). destruct (aword (v + d)%Z r) as [[f h] ls]. simpl in *. auto.
  - specialize (IH w x). destruct (aword w r) as [[f h] ls]. simpl in *. auto.
  - pose proof (IH v x) as IHx.
    assert (Hv : In v (snd (fst (aword v r)))).
    { clear. destruct r as [|[d|w|] r]; simpl.
      - left; reflexivity.
      - destruct (aword (v + d)%Z r) as [[f h] ls]. left; reflexivity.
      - destruct (aword w r) as [[f h] ls]. left; reflexivity.
      - revert v. induction r as [|[d|w|] r IHr]; intros v; simpl.
        + left; reflexivity.
        + destruct (aword (v + d)%Z r) as [[f h] ls]. left; reflexivity.
        + destruct (aword w r) as [[f h] ls]. left; reflexivity.
        + specialize (IHr v). destruct (aword v r) as [[f h] ls]. simpl in *. exact IHr. }
    destruct (aword v r) as [[f h] ls]. simpl in *. intros [<-|Hx]; auto.
Qed.

(* ---------- witnesses ---------- *)
(* Store.Gc's read of m.LabelValues against GetDatum's append: a reachable state
   of two threads on the same metric (object 7) in which both are about to
   access LabelValues, one writing *)
Definition gc_trace : list event := [EvAcc 7 f_MetricImm KRead; EvAcc 7 f_LabelValues KRead].
Definition gd_trace : list event :=
  [EvAcq 7 l_mu MW; EvAcc 7 f_labelValuesMap KRead; EvAcc 7 f_LabelValues KWrite;
   EvAcc 7 f_labelValuesMap KWrite; EvRel 7 l_mu MW].
Definition race_g0 : gstate :=
  fun i => match i with
           | 0%nat => mkthread [] gc_trace
           | 1%nat => mkthread [] gd_trace
           | _ => mkthread [] []
           end.

Lemma gc_trace_runs : run_block gc_shape (fun _ => 7) gc_trace (fun _ => 7) LFall.
Proof.
  unfold gc_shape, gc_trace. cbn [lblock_of].
  change [EvAcc 7 f_MetricImm KRead; EvAcc 7 f_LabelValues KRead]
    with ([EvAcc 7 f_MetricImm KRead] ++ [EvAcc 7 f_LabelValues KRead] ++ []).
  eapply R_cons_fall; [apply (R_acc 1 f_MetricImm KRead 1 (fun _ => 7))|].
  eapply R_cons_fall; [apply (R_acc 1 f_LabelValues KRead 2 (fun _ => 7))|]. apply R_nil.
Qed.

Lemma gd_trace_runs : run_block getdatum_shape (fun _ => 7) gd_trace (fun _ => 7) LFall.
Proof.
  unfold getdatum_shape, gd_trace. cbn [lblock_of].
  change [EvAcq 7 l_mu MW; EvAcc 7 f_labelValuesMap KRead; EvAcc 7 f_LabelValues KWrite;
          EvAcc 7 f_labelValuesMap KWrite; EvRel 7 l_mu MW]
    with ([EvAcq 7 l_mu MW] ++ [EvAcc 7 f_labelValuesMap KRead] ++ [EvAcc 7 f_LabelValues KWrite] ++
          [EvAcc 7 f_labelValuesMap KWrite] ++ [EvRel 7 l_mu MW] ++ []).
  eapply R_cons_fall; [apply (R_acq 0 l_mu MW (fun _ => 7))|].
  eapply R_cons_fall; [apply (R_acc 0 f_labelValuesMap KRead 3 (fun _ => 7))|].
  eapply R_cons_fall; [apply (R_acc 0 f_LabelValues KWrite 4 (fun _ => 7))|].
  eapply R_cons_fall; [apply (R_acc 0 f_labelValuesMap KWrite 5 (fun _ => 7))|].
  eapply R_cons_fall; [apply (R_rel 0 l_mu MW (fun _ => 7))|]. apply R_nil.
Qed.

Lemma gc_race_reachable : exists g, reachable race_g0 g /\ race g.
Proof.
  (* thread 0 performs its first read; thread 1 locks and does its map lookup *)
  set (g1 := gupd race_g0 0 (mkthread [] [EvAcc 7 f_LabelValues KRead])).
  set (g2 := gupd g1 1 (mkthread [(7, l_mu, MW)] (tl gd_trace))).
  set (g3 := gupd g2 1 (mkthread [(7, l_mu, MW)] (tl (tl gd_trace)))).
  exists g3. split.
  - eapply Reach_step. eapply Reach_step. eapply Reach_step. apply Reach_refl.
    + apply (G_step race_g0 0 (EvAcc 7 f_MetricImm KRead) [EvAcc 7 f_LabelValues KRead]);
        [reflexivity|exact I].
    + apply (G_step g1 1 (EvAcq 7 l_mu MW) (tl gd_trace)); [reflexivity|].
      simpl. intros j m. destruct j as [|[|j]]; simpl; tauto.
    + apply (G_step g2 1 (EvAcc 7 f_labelValuesMap KRead) (tl (tl gd_trace)));
        [reflexivity|exact I].
  - exists 0%nat, 1%nat, 7, f_LabelValues, KRead, KWrite. do 2 eexists.
    split; [discriminate|]. split; [reflexivity|]. split; [reflexivity|reflexivity].
Qed.
