(* Proofs about Tail/Conn.v: per-connection delivery from the C15 theorem plus
   an interleaving lemma; nothing merged; whole-line datagrams; the end
   automaton. *)
From V Require Import Base.Bytes Tail.LineReader Tail.Conn Proofs.LineReaderProofs.
From Coq Require Import Arith Lia Permutation.

(* ------------------------------------------------------------------ *)
(* interleavings *)

Lemma nth_app_other {A} (pre post : list A) a b d k :
  k <> length pre -> nth k (pre ++ a :: post) d = nth k (pre ++ b :: post) d.
Proof.
  intros H. destruct (Nat.lt_ge_cases k (length pre)) as [Hlt|Hge].
  - rewrite !app_nth1 by exact Hlt. reflexivity.
  - rewrite !app_nth2 by exact Hge.
    destruct (k - length pre) as [|m] eqn:E; [lia|reflexivity].
Qed.

Lemma all_nil_nth {A} (ls : list (list A)) k :
  Forall (fun l => l = []) ls -> nth k ls [] = [].
Proof.
  intros H. revert k. induction H as [|l ls Hl _ IH]; intros [|k]; cbn [nth]; auto.
Qed.

(* if the k-th list only holds elements tagged k, the elements tagged k of an
   interleaving are exactly the k-th list, in its order *)
Lemma interleave_project ls out :
  Interleave ls out ->
  (forall k t, In t (nth k ls []) -> fst t = k) ->
  forall k, project k out = map snd (nth k ls []).
Proof.
  induction 1 as [ls Hnil|pre x l post out Hil IH]; intros Htag k.
  - rewrite (all_nil_nth ls k Hnil). reflexivity.
  - assert (Hx : fst x = length pre).
    { apply (Htag (length pre)). rewrite nth_middle. left; reflexivity. }
    assert (Htag' : forall k t, In t (nth k (pre ++ l :: post) []) -> fst t = k).
    { intros k' t Hin. apply Htag.
      destruct (Nat.eq_dec k' (length pre)) as [->|Hne].
      - rewrite nth_middle in *. right; exact Hin.
      - rewrite (nth_app_other pre post (x :: l) l [] k' Hne). exact Hin. }
    specialize (IH Htag' k). unfold project in *. cbn [filter].
    destruct (Nat.eq_dec k (length pre)) as [->|Hne].
    + rewrite Hx, Nat.eqb_refl. cbn [map]. rewrite IH, !nth_middle. reflexivity.
    + assert (Hf : Nat.eqb (fst x) k = false) by (apply Nat.eqb_neq; lia).
      rewrite Hf, IH. rewrite (nth_app_other pre post (x :: l) l [] k Hne). reflexivity.
Qed.

Lemma concat_all_nil {A} (ls : list (list A)) : Forall (fun l => l = []) ls -> concat ls = [].
Proof. induction 1 as [|l ls Hl _ IH]; cbn [concat]; [reflexivity|]. rewrite Hl, IH. reflexivity. Qed.

(* an interleaving is a permutation of the union: nothing is added, lost,
   duplicated or merged *)
Lemma interleave_permutation {A} (ls : list (list A)) out :
  Interleave ls out -> Permutation out (concat ls).
Proof.
  induction 1 as [ls Hnil|pre x l post out Hil IH].
  - rewrite (concat_all_nil ls Hnil). constructor.
  - rewrite concat_app in *. cbn [concat] in *. cbn [app].
    apply Permutation_cons_app. exact IH.
Qed.

(* ------------------------------------------------------------------ *)
(* socket streams *)

Lemma nth_tag_all sz cs : forall i k,
  nth k (tag_all sz i cs) [] =
  if k <? length cs then tag (i + k) (conn_lines sz (nth k cs [])) else [].
Proof.
  induction cs as [|c r IH]; intros i k; cbn [tag_all length].
  - destruct k; reflexivity.
  - destruct k as [|k]; cbn [nth].
    + rewrite Nat.add_0_r. reflexivity.
    + rewrite IH. replace (S i + k) with (i + S k) by lia.
      change (S k <? S (length r)) with (k <? length r). reflexivity.
Qed.

Lemma tag_all_tags sz cs k t : In t (nth k (tag_all sz 0 cs) []) -> fst t = k.
Proof.
  rewrite nth_tag_all. destruct (k <? length cs); [|intros []].
  unfold tag. intros H. apply in_map_iff in H as (l & <- & _). reflexivity.
Qed.

Lemma map_snd_tag i ls : map snd (tag i ls) = ls.
Proof. unfold tag. rewrite map_map. cbn. apply map_id. Qed.

Theorem per_connection sz cs out :
  1 <= sz -> socket_out sz cs out ->
  forall k, project k out = frame (concat (nth k cs [])).
Proof.
  intros Hsz Hout k.
  rewrite (interleave_project _ _ Hout (tag_all_tags sz cs) k), nth_tag_all.
  destruct (Nat.ltb_spec k (length cs)) as [Hlt|Hge].
  - rewrite map_snd_tag. unfold conn_lines. apply deliver_frame. exact Hsz.
  - rewrite (nth_overflow cs [] Hge). reflexivity.
Qed.

Lemma in_concat_tag_all sz cs : forall i t,
  In t (concat (tag_all sz i cs)) ->
  i <= fst t < i + length cs /\ In (snd t) (conn_lines sz (nth (fst t - i) cs [])).
Proof.
  induction cs as [|c r IH]; intros i t; cbn [tag_all concat length].
  - intros [].
  - intros H. apply in_app_or in H as [H|H].
    + unfold tag in H. apply in_map_iff in H as (l & <- & Hl). cbn [fst snd].
      rewrite Nat.sub_diag. cbn [nth]. split; [lia|exact Hl].
    + destruct (IH (S i) t H) as (Hr & Hin). split; [lia|].
      replace (fst t - i) with (S (fst t - S i)) by lia. exact Hin.
Qed.

Theorem never_merged sz cs out :
  1 <= sz -> socket_out sz cs out ->
  Permutation out (concat (tag_all sz 0 cs)) /\
  forall t, In t out ->
    fst t < length cs /\ In (snd t) (frame (concat (nth (fst t) cs []))).
Proof.
  intros Hsz Hout. pose proof (interleave_permutation _ _ Hout) as HP.
  split; [exact HP|]. intros t Hin.
  apply (Permutation_in _ HP) in Hin.
  destruct (in_concat_tag_all sz cs 0 t Hin) as (Hr & Hl).
  rewrite Nat.sub_0_r in Hl. split; [lia|].
  unfold conn_lines in Hl. rewrite deliver_frame in Hl by exact Hsz. exact Hl.
Qed.

(* ------------------------------------------------------------------ *)
(* the executable check agrees with the relation it stands for *)

Lemma conns_ok_closed sz cs : forall i out,
  conns_ok sz i (map (pair true) cs) out = true ->
  forall k, k < length cs -> project (i + k) out = conn_lines sz (nth k cs []).
Proof.
  induction cs as [|c r IH]; intros i out H k Hk; cbn [length] in Hk; [lia|].
  cbn [map conns_ok] in H. apply andb_true_iff in H as [H1 H2].
  destruct k as [|k].
  - rewrite Nat.add_0_r. cbn [nth]. symmetry. apply (list_eqb_spec _ bytes_eqb_spec). exact H1.
  - replace (i + S k) with (S i + k) by lia. cbn [nth]. apply IH; [exact H2|lia].
Qed.

(* ------------------------------------------------------------------ *)
(* datagram streams: one reader for all senders *)

Lemma split_terminated d : terminated d -> snd (split [] d) = [].
Proof.
  intros [->|Hl]; [reflexivity|].
  destruct d as [|a d]; [reflexivity|].
  assert (Hne : a :: d <> []) by discriminate.
  pose proof (@app_removelast_last byte (a :: d) 0%N Hne) as E.
  unfold terminated, byte in *. rewrite Hl in E.
  set (r := removelast (a :: d)) in E. rewrite E.
  rewrite split_app. destruct (split _ r) as [l1 p1].
  cbn [split]. rewrite N.eqb_refl. reflexivity.
Qed.

Lemma frame_terminated d : terminated d -> frame d = fst (split [] d).
Proof.
  intros H. unfold frame. pose proof (split_terminated d H) as Hs.
  destruct (split [] d) as [ls r]. cbn [snd fst] in *. subst r. apply app_nil_r.
Qed.

Lemma split_concat_terminated ds :
  Forall terminated ds ->
  split [] (concat ds) = (concat (map frame ds), []).
Proof.
  induction 1 as [|d ds Hd _ IH]; cbn [concat map]; [reflexivity|].
  rewrite split_app. rewrite (frame_terminated d Hd).
  pose proof (split_terminated d Hd) as Hs.
  destruct (split [] d) as [l1 p1]. cbn [snd fst] in *. subst p1. rewrite IH. reflexivity.
Qed.

Lemma project_app i a b : project i (a ++ b) = project i a ++ project i b.
Proof. unfold project. rewrite filter_app, map_app. reflexivity. Qed.

Lemma project_tag i j ls : project i (tag j ls) = if Nat.eqb j i then ls else [].
Proof.
  unfold project, tag. induction ls as [|l ls IH]; cbn [map filter fst].
  - destruct (Nat.eqb j i); reflexivity.
  - destruct (Nat.eqb j i) eqn:E; cbn [map snd]; rewrite IH; reflexivity.
Qed.

(* the channel content of a datagram stream, each line tagged with the sender
   of the datagram it came from *)
Definition dgram_tagged (arrivals : list tagged) : list tagged :=
  concat (map (fun t => tag (fst t) (frame (snd t))) arrivals).

Theorem dgram_lines_is_spec sz arrivals : 1 <= sz ->
  dgram_lines sz arrivals = dgram_lines_spec sz arrivals.
Proof.
  intros Hsz. unfold dgram_lines, dgram_lines_spec. rewrite deliver_dg_cut by exact Hsz.
  rewrite map_map. reflexivity.
Qed.

Definition fits (sz : nat) (arrivals : list tagged) : Prop :=
  Forall (fun t => length (snd t) <= sz) arrivals.

Lemma dgram_lines_fits sz arrivals : 1 <= sz -> fits sz arrivals ->
  dgram_lines sz arrivals = frame (concat (map snd arrivals)).
Proof.
  intros Hsz Hf. unfold dgram_lines. apply deliver_dg_fits; [exact Hsz|].
  apply Forall_forall. intros d Hin. apply in_map_iff in Hin as (t & <- & Ht).
  exact (proj1 (Forall_forall _ _) Hf t Ht).
Qed.

Theorem dgram_whole_lines sz arrivals :
  1 <= sz -> fits sz arrivals -> Forall (fun t => terminated (snd t)) arrivals ->
  dgram_lines sz arrivals = map snd (dgram_tagged arrivals) /\
  forall i, project i (dgram_tagged arrivals) = concat (map frame (project i arrivals)).
Proof.
  intros Hsz Hfit Hall. split.
  - rewrite dgram_lines_fits by assumption. unfold frame.
    assert (Hd : Forall terminated (map snd arrivals)).
    { apply Forall_forall. intros d Hin. apply in_map_iff in Hin as (t & <- & Ht).
      exact (proj1 (Forall_forall _ _) Hall t Ht). }
    rewrite (split_concat_terminated _ Hd). cbn [flush]. rewrite app_nil_r.
    unfold dgram_tagged. clear. induction arrivals as [|t r IH]; cbn [map concat]; [reflexivity|].
    rewrite map_app, map_snd_tag, IH. reflexivity.
  - intros i. unfold dgram_tagged. clear. induction arrivals as [|t r IH]; cbn [map concat]; [reflexivity|].
    rewrite project_app, project_tag, IH. unfold project at 2. cbn [filter].
    destruct (Nat.eqb (fst t) i); cbn [map concat app]; reflexivity.
Qed.

(* ------------------------------------------------------------------ *)
(* how a stream ends *)

Lemma run_phase_closed p es :
  run_phase p es = Some Closed ->
  (p = Closed /\ es = []) \/
  (p = Flushed /\ es = [EClose]) \/
  (exists pre q, es = pre ++ [EFinish; EClose] /\ run_phase p pre = Some q /\
                 (q = WriterClosed \/ q = Cancelled)).
Proof.
  revert p. induction es as [|e r IH]; intros p H; cbn [run_phase] in H.
  - injection H as ->. auto.
  - destruct (next p e) as [p'|] eqn:En; [|discriminate].
    destruct (IH p' H) as [[-> ->]|[[-> ->]|(pre & q & -> & Hr & Hq)]].
    + destruct p, e; cbn in En; try discriminate. auto.
    + right; right. exists [], p. cbn [app run_phase].
      destruct p, e; cbn in En; try discriminate; auto.
    + right; right. exists (e :: pre), q. cbn [app run_phase]. rewrite En. auto.
Qed.

Theorem ends_after_flush es :
  run_phase Open es = Some Closed ->
  exists pre q, es = pre ++ [EFinish; EClose] /\ run_phase Open pre = Some q /\
                (q = WriterClosed \/ q = Cancelled).
Proof.
  intros H. destruct (run_phase_closed Open es H) as [[E _]|[[E _]|H']];
    [discriminate|discriminate|exact H'].
Qed.

Lemma nothing_after_close es e : run_phase Open es = Some Closed -> run_phase Open (es ++ [e]) = None.
Proof.
  assert (G : forall p, run_phase p es = Some Closed -> run_phase p (es ++ [e]) = None).
  { induction es as [|a r IH]; intros p H; cbn [run_phase app] in *.
    - injection H as ->. reflexivity.
    - destruct (next p a); [apply IH; exact H|discriminate]. }
  apply G.
Qed.

(* a zero-length datagram delivers nothing and changes nothing *)
Theorem empty_datagram_harmless sz a i b :
  1 <= sz -> dgram_lines sz (a ++ (i, []) :: b) = dgram_lines sz (a ++ b).
Proof.
  intros Hsz. rewrite !dgram_lines_is_spec by exact Hsz. unfold dgram_lines_spec.
  rewrite !map_app, !concat_app. cbn [map snd concat app firstn].
  destruct sz; reflexivity.
Qed.
